//! C16 bug hunt: Haversine / Geodesic / Rhumb measures are mutually consistent.
//!
//! Every test asserts one clause of the C16 statement on a concrete, in-range input
//! (longitude in [-180, 180], latitude in [-90, 90]).  All of them FAIL on the unmodified library.
//!
//! Only the public API is used.

use geo::{
    Bearing, Destination, Distance, GeodesicMeasure, Haversine, InterpolatePoint, Point, Rhumb,
};

/// Radius used by `Rhumb` and `Haversine` (GRS80 mean radius, `HaversineMeasure::GRS80_MEAN_RADIUS`).
const R: f64 = 6_371_008.8;

/// Rigorous enclosure of the spherical rhumb-line distance, derived from first principles.
///
/// On the sphere a loxodrome from (lam1, phi1) to (lam2, phi2) has length
///     D = R * sqrt(dphi^2 + q^2 * dlam^2),   q = dphi / dpsi,
/// where psi(phi) = ln tan(pi/4 + phi/2) is the Mercator ordinate.  psi'(phi) = 1/cos(phi), so by
/// the mean value theorem dpsi = dphi / cos(xi) for some xi between phi1 and phi2, i.e.
/// q = cos(xi) lies between cos(phi1) and cos(phi2).  Hence D lies between the two values
/// returned here (for dphi -> 0 this is the familiar "length of an arc of a parallel").
fn rhumb_distance_bounds(a: Point<f64>, b: Point<f64>) -> (f64, f64) {
    let dphi = (b.y() - a.y()).to_radians();
    let mut dlam = (b.x() - a.x()).to_radians().abs();
    if dlam > std::f64::consts::PI {
        dlam = 2.0 * std::f64::consts::PI - dlam;
    }
    let c1 = a.y().to_radians().cos();
    let c2 = b.y().to_radians().cos();
    let d1 = R * (dphi * dphi + c1 * c1 * dlam * dlam).sqrt();
    let d2 = R * (dphi * dphi + c2 * c2 * dlam * dlam).sqrt();
    (d1.min(d2), d1.max(d2))
}

// ---------------------------------------------------------------------------------------------
// Finding 1: Rhumb on a nearly (but not exactly) east-west course, f64.
// q = delta_phi / delta_psi is evaluated from delta_psi = ln(tan(..)/tan(..)), which for a small
// latitude difference is the logarithm of a number within a few ulps of 1: it carries an absolute
// error of ~1e-16 and therefore a RELATIVE error of ~1e-16 / delta_psi.  The fallback
// q = cos(phi1) is only used for |delta_psi| <= 1e-11.
// ---------------------------------------------------------------------------------------------

/// Clause: "distance is symmetric up to rounding" (and, implicitly, is the rhumb distance).
///
/// a = (0, 50), b = (170, 50.00000001): two points on (almost) the same parallel, 1.1 mm apart in
/// latitude and 170 degrees apart in longitude.
/// Expected: between R*170deg*cos(50.00000001deg) and R*170deg*cos(50deg), i.e.
/// 12150719.369 m .. 12150719.372 m (the two bounds differ by 2.5 mm), and the same value in
/// both directions.
/// Got: distance(a,b) = 12150701.036 m (18.3 m short), distance(b,a) = 12150696.065 m (23.3 m
/// short); the two directions differ by 4.97 m.
#[test]
fn rhumb_distance_nearly_east_west_is_metres_off_and_asymmetric() {
    let a = Point::new(0.0, 50.0);
    let b = Point::new(170.0, 50.00000001);
    let (lo, hi) = rhumb_distance_bounds(a, b);
    assert!(hi - lo < 0.01, "enclosure is tight: {lo} .. {hi}");

    let ab = Rhumb.distance(a, b);
    let ba = Rhumb.distance(b, a);
    println!("bounds {lo} .. {hi}; distance(a,b) = {ab}; distance(b,a) = {ba}");

    // symmetric up to rounding: 1 mm is ~1e6 ulps of slack here
    assert!(
        (ab - ba).abs() < 1e-3,
        "Rhumb.distance is not symmetric: {ab} vs {ba} (differs by {} m)",
        (ab - ba).abs()
    );
    assert!(
        ab > lo - 1e-3 && ab < hi + 1e-3,
        "Rhumb.distance(a,b) = {ab} is outside the enclosure {lo} .. {hi}"
    );
}

/// Clause: "starting at a and travelling along bearing(a,b) for distance(a,b) arrives at b to
/// within a millimetre-scale tolerance (away from poles and antipodes)".
///
/// Same a, b as above (latitude 50, nowhere near a pole or an antipode).
/// Expected: destination(a, bearing(a,b), distance(a,b)) within 1 mm of b = (170, 50.00000001).
/// Got: (169.99961326, 50.00000001), 27.6 m west of b.
#[test]
fn rhumb_bearing_distance_destination_roundtrip_nearly_east_west() {
    let a = Point::new(0.0, 50.0);
    let b = Point::new(170.0, 50.00000001);
    let bearing = Rhumb.bearing(a, b);
    let distance = Rhumb.distance(a, b);
    let c = Rhumb.destination(a, bearing, distance);
    // judged with an independent (great-circle) ruler; for two points tens of metres apart the
    // great-circle and rhumb separations agree to far better than a millimetre
    let miss = Haversine.distance(c, b);
    println!("bearing {bearing} distance {distance} -> {c:?}, misses b by {miss} m");
    assert!(
        miss < 1e-3,
        "Rhumb roundtrip misses b by {miss} m: arrived at {c:?} instead of {b:?}"
    );
}

/// Clause: "point_at_ratio_between(a,b,r) divides the distance in the ratio r to 1-r".
///
/// a = (0, 30), b = (170, 30.0000000005), r = 0.5.
/// Expected: the rhumb line has constant bearing, so latitude and (because q varies by < 1e-11
/// over this line) longitude are both linear in the distance travelled: the midpoint is
/// (85, 30.00000000025) to well below a millimetre, and it is equally far from a and b.
/// Got: (84.9989946, 30.00000000025), i.e. 96.8 m short of the middle; as measured by
/// Haversine (exactly symmetric, well-conditioned here) it is 193.6 m closer to a than to b.
#[test]
fn rhumb_point_at_ratio_nearly_east_west_is_not_the_midpoint() {
    let a = Point::<f64>::new(0.0, 30.0);
    let b = Point::<f64>::new(170.0, 30.0000000005);
    let m: Point<f64> = Rhumb.point_at_ratio_between(a, b, 0.5);
    println!("midpoint {m:?}");
    // 1e-8 degrees of longitude at latitude 30 is 0.96 mm
    assert!(
        (m.x() - 85.0).abs() < 1e-8,
        "midpoint longitude {} is {} m away from 85",
        m.x(),
        (m.x() - 85.0).abs().to_radians() * R * 30f64.to_radians().cos()
    );
}

/// Clause: roundtrip / Destination on its own, "all distances and bearings".
///
/// destination((0, 50), bearing 89.99999999, 10_000 km).
/// Expected from first principles: dphi = delta*cos(theta) with delta = 1e7/R rad, so the end
/// latitude is 50 + 1.57e-8 degrees; dlam = delta*sin(theta)/q with q = cos(xi),
/// xi in [phi1, phi2] (see `rhumb_distance_bounds`), so
///   lon2 in [delta*sin(theta)/cos(phi1), delta*sin(theta)/cos(phi2)]
///        = [139.90941178, 139.90941183] degrees.
/// Got: longitude 139.90950244, i.e. 9.1e-5 degrees = 6.5 m too far east.
#[test]
fn rhumb_destination_bearing_just_off_due_east() {
    let a = Point::new(0.0, 50.0);
    let bearing: f64 = 89.99999999;
    let metres = 10_000_000.0;
    let c = Rhumb.destination(a, bearing, metres);

    let delta = metres / R;
    let theta = bearing.to_radians();
    let phi1 = 50f64.to_radians();
    let phi2 = phi1 + delta * theta.cos();
    let lon_lo = (delta * theta.sin() / phi1.cos()).to_degrees();
    let lon_hi = (delta * theta.sin() / phi2.cos()).to_degrees();
    println!("destination {c:?}; longitude must lie in {lon_lo} .. {lon_hi}");
    assert!(lon_hi - lon_lo < 1e-7);
    assert!((c.y() - phi2.to_degrees()).abs() < 1e-9);
    // 1e-7 degrees of longitude at latitude 50 is 7 mm
    assert!(
        c.x() > lon_lo - 1e-7 && c.x() < lon_hi + 1e-7,
        "destination longitude {} is {} m outside {lon_lo} .. {lon_hi}",
        c.x(),
        (c.x() - lon_lo).abs().to_radians() * R * phi1.cos()
    );
}

// ---------------------------------------------------------------------------------------------
// Finding 2: Rhumb instantiated with f32.  Same cause, but the cut-off `1e-11` is a literal that
// does not scale with the float type: in f32, delta_psi below ~1e-4 is mostly rounding noise.
// ---------------------------------------------------------------------------------------------

/// Clause: "distance is symmetric up to rounding"; roundtrip.
///
/// a = (0, 45), b = (10, 45.00001) as f32 (exactly representable inputs up to f32 rounding;
/// latitude differs by 3 f32 ulps = 1.1e-5 degrees).
/// Expected: 10 degrees of the 45th parallel: R * 10deg * cos(45deg) = 786268 m in both
/// directions (f32 can represent that to 0.06 m; Haversine<f32> gives 785768.25 vs 785768.23 in
/// f64 for the same pair).
/// Got: distance(a,b) = 833963 m (+6 %), distance(b,a) = 667170 m (-15 %); travelling
/// bearing(a,b) for distance(a,b) arrives at longitude 13.27 instead of 10 (257 km too far).
#[test]
fn rhumb_f32_nearly_east_west_is_wrong_by_many_percent() {
    let a = Point::<f32>::new(0.0, 45.0);
    let b = Point::<f32>::new(10.0, 45.00001);
    let (lo, hi) = rhumb_distance_bounds(
        Point::new(a.x() as f64, a.y() as f64),
        Point::new(b.x() as f64, b.y() as f64),
    );
    let ab = Rhumb.distance(a, b);
    let ba = Rhumb.distance(b, a);
    let c = Rhumb.destination(a, Rhumb.bearing(a, b), ab);
    println!("f32: expected {lo} .. {hi}; distance(a,b) = {ab}, distance(b,a) = {ba}, roundtrip {c:?}");

    // 0.1 % is ~10_000 f32 ulps
    assert!(
        (ab - ba).abs() < 1e-3 * ab,
        "Rhumb.distance::<f32> is not symmetric: {ab} vs {ba}"
    );
    assert!(
        (ab as f64 - lo).abs() < 1e-3 * lo,
        "Rhumb.distance::<f32>(a,b) = {ab}, expected {lo}"
    );
    assert!(
        (c.x() - b.x()).abs() < 1e-3,
        "Rhumb::<f32> roundtrip arrives at {c:?} instead of {b:?}"
    );
}

// ---------------------------------------------------------------------------------------------
// Finding 3: Haversine.point_at_ratio_between close to the antipode.
// ---------------------------------------------------------------------------------------------

/// Clause: "point_at_ratio_between(a,b,r) divides the distance in the ratio r to 1-r"
/// (quantified over "nearly antipodal" pairs).
///
/// a = (10, 20); its antipode is (-170, -20).
///   b1 = (-170, -19.99)    is 1.1 km from the antipode,
///   b2 = (-170, -19.9999)  is 11 m from the antipode.
/// a, b1, b2 all lie on the meridian great circle 10E / 170W, so the great circle through them
/// is unique and the answer can be written down: travelling north from a over the pole, the
/// point at ratio 1/4 is at central angle (180 - 0.01)/4 resp. (180 - 0.0001)/4 from a, i.e. at
/// (10, 64.9975) resp. (10, 64.999975).
/// Expected: m within a few millimetres of that point and distance(a, m) = 0.25 * distance(a, b)
/// to a few millimetres (the sibling construction destination(a, bearing(a,b), 0.25*d) lands
/// within 2 mm of it on the same inputs; tolerance used below: 5 mm).
/// Got: off by 2.0 cm for b1 and by 145 m for b2 (latitude 64.99866.. instead of 64.999975);
/// at 1.1 m from the antipode the "quarter point" is returned 13.8 km off, and at 0.11 m it is
/// the half-way point.
#[test]
fn haversine_point_at_ratio_near_antipode_does_not_divide_the_distance() {
    let a = Point::<f64>::new(10.0, 20.0);
    let r: f64 = 0.25;
    let mut failures = Vec::new();
    for off in [0.01, 0.0001] {
        let b = Point::<f64>::new(-170.0, -20.0 + off);
        // first principles: a and b are on the same meridian circle, (180 - off) degrees apart
        let central_angle_deg: f64 = 180.0 - off;
        let d_exact = R * central_angle_deg.to_radians();
        let expected = Point::new(10.0, 20.0 + r * central_angle_deg);

        // Haversine.distance itself is good to about a millimetre here ...
        let d: f64 = Haversine.distance(a, b);
        assert!((d - d_exact).abs() < 2e-3, "distance {d} vs exact {d_exact}");
        // ... and so is the sibling construction (bearing + destination), so the quantity under
        // test is well defined and attainable (1e-8 degrees of latitude = 1.1 mm):
        let via_destination: Point<f64> = Haversine.destination(a, Haversine.bearing(a, b), r * d);
        assert!((via_destination.y() - expected.y()).abs() < 2e-8);
        assert!((via_destination.x() - expected.x()).abs() < 2e-8);

        let m = Haversine.point_at_ratio_between(a, b, r);
        let err_a: f64 = Haversine.distance(a, m) - r * d;
        let err_b: f64 = Haversine.distance(m, b) - (1.0 - r) * d;
        let off_target: f64 = Haversine.distance(m, expected);
        println!("b = {b:?}: m = {m:?} (expected {expected:?}, {off_target} m away), distance(a,m) - r*d = {err_a}, distance(m,b) - (1-r)*d = {err_b}");
        if !(err_a.abs() < 5e-3 && err_b.abs() < 5e-3 && off_target < 5e-3) {
            failures.push(format!(
                "b = {b:?}: point_at_ratio_between(a, b, 0.25) = {m:?} is {off_target} m from {expected:?}: {err_a} m too far from a and {err_b} m too far from b"
            ));
        }
    }
    assert!(failures.is_empty(), "{}", failures.join("\n"));
}

// ---------------------------------------------------------------------------------------------
// Finding 4: Rhumb with one end at a pole (latitude exactly +-90, inside the stated range).
// ---------------------------------------------------------------------------------------------

/// Clause: distance (zero for identical points / symmetric / consistent): the north pole is ONE
/// point whatever longitude it is written with, and every rhumb line that reaches a pole in
/// finite length is a meridian, so the rhumb distance from the north pole to a point on the
/// equator is a quarter meridian, R*pi/2 = 10_007_557.221 m.
///
/// Expected: distance((0,90),(90,0)) = distance((90,90),(90,0)) = distance((0,-90),(90,0))
///           = 10_007_557.221 m, bearing from the north pole = 180.
/// Got: distance((0,90),(90,0)) = 10_016_412.180 m (8.85 km too long; 35.4 km too long to
/// (180,0)), bearing 177.59; the other two are right.  distance((0,90),(90,90)) is 6e-10 m, so
/// the triangle inequality of the "metric space" is violated by 8.85 km.
#[test]
fn rhumb_distance_from_north_pole_depends_on_the_longitude_written_for_the_pole() {
    let quarter_meridian = R * std::f64::consts::FRAC_PI_2;
    let equator = Point::new(90.0, 0.0);
    let np_0 = Point::new(0.0, 90.0);
    let np_90 = Point::new(90.0, 90.0);
    let sp_0 = Point::new(0.0, -90.0);

    // sanity: these already behave
    assert!((Rhumb.distance(np_90, equator) - quarter_meridian).abs() < 1e-3);
    assert!((Rhumb.distance(sp_0, equator) - quarter_meridian).abs() < 1e-3);
    assert!(Rhumb.distance(np_0, np_90) < 1e-6);

    let d = Rhumb.distance(np_0, equator);
    let bearing = Rhumb.bearing(np_0, equator);
    println!("distance {d} (expected {quarter_meridian}), bearing {bearing} (expected 180)");
    assert!(
        (d - quarter_meridian).abs() < 1e-3,
        "Rhumb.distance((0,90),(90,0)) = {d}, expected {quarter_meridian} ({} m off)",
        d - quarter_meridian
    );
}

/// Clause: "point_at_ratio_between(a,b,r) divides the distance in the ratio r to 1-r".
///
/// a = (0, -90) (south pole), b = (90, 0), r = 0.5.
/// Expected: the rhumb line from the pole to b is the meridian 90E, so the midpoint is
/// (90, -45) and is 0.5 * R*pi/2 = 5_003_778.61 m from b (the reverse call
/// point_at_ratio_between(b, a, 0.5) does return (90, -45)).
/// Got: (0, -45) - on the meridian the pole happened to be written with - which is
/// 10_225_704 m of rhumb line away from b instead of 5_003_779 m.
#[test]
fn rhumb_midpoint_from_south_pole_is_on_the_wrong_meridian() {
    let a = Point::new(0.0, -90.0);
    let b = Point::new(90.0, 0.0);
    let d = Rhumb.distance(a, b);
    assert!((d - R * std::f64::consts::FRAC_PI_2).abs() < 1e-3);

    let back = Rhumb.point_at_ratio_between(b, a, 0.5);
    assert!((back.x() - 90.0).abs() < 1e-9 && (back.y() + 45.0).abs() < 1e-9);

    let m = Rhumb.point_at_ratio_between(a, b, 0.5);
    let mb = Rhumb.distance(m, b);
    println!("midpoint {m:?}, distance(m, b) = {mb}, expected {}", 0.5 * d);
    assert!(
        (mb - 0.5 * d).abs() < 1e-3,
        "point_at_ratio_between((0,-90),(90,0),0.5) = {m:?} is {mb} m from b instead of {}",
        0.5 * d
    );
}

// ---------------------------------------------------------------------------------------------
// Finding 5 (arguably outside the statement): GeodesicMeasure::new(equatorial_radius,
// inverse_flattening) - the parameter name and the struct documentation ("custom values for the
// equatorial radius (A) and the inverse flattening factor (F)") ask for 1/f, but the value is
// handed to geographiclib as the flattening f.
// ---------------------------------------------------------------------------------------------

/// Clause: "distance is ... non-negative" with "custom sphere / ellipsoid parameters".
///
/// WGS84 given as documented: a = 6378137 m, 1/f = 298.257223563.
/// Expected: the same 11_407_722.9 m as the built-in WGS84 `Geodesic` for (10,20) -> (125,25).
/// Got: -14_120_8xx m (negative), destination NaN.
#[test]
fn geodesic_measure_new_takes_flattening_although_it_asks_for_inverse_flattening() {
    let wgs84 = GeodesicMeasure::new(6378137.0, 298.257223563);
    let a = Point::new(10.0, 20.0);
    let b = Point::new(125.0, 25.0);
    let d = wgs84.distance(a, b);
    let reference = geo::Geodesic.distance(a, b);
    println!("custom WGS84 distance {d}, built-in {reference}");
    assert!(d >= 0.0, "distance is negative: {d}");
    assert!((d - reference).abs() < 1e-3);
}
