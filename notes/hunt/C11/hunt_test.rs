//! Bug hunt for property C11: "line_intersection classifies and locates segment crossings exactly".
//!
//! Every test asserts the statement of the property on one concrete input; the expected values are
//! derived by hand or, where the input is ill-conditioned, by exact integer arithmetic (i128) on the
//! binary values of the coordinates inside the test itself.
use geo::line_intersection::{line_intersection, LineIntersection};
use geo::{coord, BoundingRect, Coord, Intersects, Line};

// ---------------------------------------------------------------------------------------------
// exact helpers
// ---------------------------------------------------------------------------------------------

/// `v * 2^shift` as an exact integer (panics if `v` is not a multiple of 2^-shift).
fn int(v: f64, shift: i32) -> i128 {
    let s = v * 2f64.powi(shift); // scaling by a power of two is exact
    assert!(s.fract() == 0.0 && s.abs() < 2f64.powi(100), "{v} is not a multiple of 2^-{shift}");
    s as i128
}

/// Exact crossing of the supporting lines of p and q: returns (t_num, u_num, den) with den > 0 such
/// that the crossing is p.start + (t_num/den) (p.end - p.start) = q.start + (u_num/den) (q.end - q.start).
/// All arithmetic is checked: an overflow panics instead of giving a wrong answer.
fn exact_params(p: Line<f64>, q: Line<f64>, shift: i32) -> (i128, i128, i128) {
    let m = |a: i128, b: i128| a.checked_mul(b).expect("i128 overflow");
    let (x1, y1, x2, y2) = (int(p.start.x, shift), int(p.start.y, shift), int(p.end.x, shift), int(p.end.y, shift));
    let (x3, y3, x4, y4) = (int(q.start.x, shift), int(q.start.y, shift), int(q.end.x, shift), int(q.end.y, shift));
    let (dxp, dyp, dxq, dyq) = (x2 - x1, y2 - y1, x4 - x3, y4 - y3);
    let den = m(dxp, dyq) - m(dyp, dxq);
    let t = m(x3 - x1, dyq) - m(y3 - y1, dxq);
    let u = m(x3 - x1, dyp) - m(y3 - y1, dxp);
    assert!(den != 0, "parallel");
    if den < 0 { (-t, -u, -den) } else { (t, u, den) }
}

/// true iff the segments cross in a single point interior to both (exact).
fn exactly_proper(p: Line<f64>, q: Line<f64>, shift: i32) -> bool {
    let (t, u, den) = exact_params(p, q, shift);
    0 < t && t < den && 0 < u && u < den
}

/// Exact test |r - crossing|_inf <= tol (tol a power of two >= 2^-shift), for near-parallel p, q.
fn within_of_true_crossing(r: Coord<f64>, p: Line<f64>, q: Line<f64>, shift: i32, tol: f64) -> bool {
    let m = |a: i128, b: i128| a.checked_mul(b).expect("i128 overflow");
    let (t, _, den) = exact_params(p, q, shift);
    let tol = int(tol, shift);
    let (x1, y1) = (int(p.start.x, shift), int(p.start.y, shift));
    let (dxp, dyp) = (int(p.end.x, shift) - x1, int(p.end.y, shift) - y1);
    // crossing.x = x1 + t/den * dxp  =>  (r.x - crossing.x) * den = (r.x - x1) * den - t * dxp
    let ex = m(int(r.x, shift) - x1, den) - m(t, dxp);
    let ey = m(int(r.y, shift) - y1, den) - m(t, dyp);
    ex.abs() <= m(tol, den) && ey.abs() <= m(tol, den)
}

fn in_bbox(c: Coord<f64>, l: Line<f64>) -> bool {
    l.start.x.min(l.end.x) <= c.x && c.x <= l.start.x.max(l.end.x) && l.start.y.min(l.end.y) <= c.y && c.y <= l.start.y.max(l.end.y)
}

fn single(r: Option<LineIntersection<f64>>) -> (Coord<f64>, bool) {
    match r {
        Some(LineIntersection::SinglePoint { intersection, is_proper }) => (intersection, is_proper),
        other => panic!("expected a single point, got {other:?}"),
    }
}

// ---------------------------------------------------------------------------------------------
// Finding 1: "a proper point lies ... within a few ulps of the true crossing"
//            fails for nearly parallel segments with ordinary one-decimal coordinates
// ---------------------------------------------------------------------------------------------

/// In decimal, all four endpoints lie on y = x - 0.3; as binary doubles they do not: the segments
/// cross properly (proved below with exact integer arithmetic, and the library agrees: is_proper =
/// true). The exact crossing of the two binary segments is (0.3, 0.0) up to 1e-16 (exact rational
/// arithmetic; parameter t = 5/7 along p). The library returns p.start = (-0.2, -0.5), i.e. a point
/// 0.71 away from the crossing (the two segments are only 1.0 and 2.0 long).
#[test]
fn nearly_parallel_tenths_proper_point_is_an_endpoint_far_from_the_crossing() {
    let p = Line::new(coord! {x: -0.2, y: -0.5}, coord! {x: 0.5, y: 0.2});
    let q = Line::new(coord! {x: 1.0, y: 0.7}, coord! {x: -0.4, y: -0.7});
    // in the domain: a proper crossing of two non-degenerate segments
    assert!(exactly_proper(p, q, 56));
    // sanity of the hand-derived expectation: (0.3, 0.0) is within 2^-40 of the exact crossing
    assert!(within_of_true_crossing(coord! {x: 0.3, y: 0.0}, p, q, 56, 2f64.powi(-40)));

    let (pt, is_proper) = single(line_intersection(p, q));
    assert!(is_proper);
    // the statement: within a few ulps of the true crossing. We allow 2^-30 (~1e-9, millions of ulps).
    assert!(
        within_of_true_crossing(pt, p, q, 56, 2f64.powi(-30)),
        "proper point {pt:?} is not near the true crossing (0.3, 0.0)"
    );
}

/// Same situation, but here the point does not even come from the nearest-endpoint fallback: the
/// homogeneous-coordinates formula itself returns a point that is in both bounding boxes, is not an
/// endpoint, and is 0.68 away from the true crossing.
/// In decimal all endpoints lie on y = 0.3 - x. Exact crossing of the binary segments:
/// (-0.0718309859..., 0.3718309859...) (exact rational arithmetic, checked below).
/// The library returns (0.40625, -0.10625000000000002).
#[test]
fn nearly_parallel_tenths_proper_point_from_the_formula_is_far_from_the_crossing() {
    let p = Line::new(coord! {x: -0.2, y: 0.5}, coord! {x: 1.1, y: -0.8});
    let q = Line::new(coord! {x: -0.5, y: 0.8}, coord! {x: 1.4, y: -1.1});
    assert!(exactly_proper(p, q, 56));
    let expected = coord! {x: -0.07183098591549297, y: 0.37183098591549296};
    assert!(within_of_true_crossing(expected, p, q, 56, 2f64.powi(-40)));

    let (pt, is_proper) = single(line_intersection(p, q));
    assert!(is_proper);
    assert!(
        within_of_true_crossing(pt, p, q, 56, 2f64.powi(-30)),
        "proper point {pt:?} is not near the true crossing {expected:?}"
    );
}

// ---------------------------------------------------------------------------------------------
// Finding 2: "a proper point lies in both segments' bounding boxes"
// ---------------------------------------------------------------------------------------------

/// Two segments of ordinary size and slope that cross properly very close to their end points
/// p.end and q.end (which are a few ulps apart). The exact crossing lies in both bounding boxes
/// (it lies on both segments), and a representable point in both boxes exists: q.end =
/// (-0.8000000000000003, 0.9000000000000001) has x in [-5.8, -0.8] and y in [0.8999999999999999, 6.2].
/// The library returns p.end = (-0.8, 0.8999999999999999), whose y is BELOW q's bounding box
/// (q's y-range is [0.9000000000000001, 4.0]).
#[test]
fn proper_point_outside_the_other_segments_bounding_box() {
    let p = Line::new(coord! {x: -5.8, y: 6.2}, coord! {x: -0.8, y: 0.8999999999999999});
    let q = Line::new(coord! {x: 0.2, y: 4.0}, coord! {x: -0.8000000000000003, y: 0.9000000000000001});
    assert!(exactly_proper(p, q, 55));
    // a legal answer exists
    assert!(in_bbox(q.end, p) && in_bbox(q.end, q));

    for (a, b) in [(p, q), (q, p)] {
        let (pt, is_proper) = single(line_intersection(a, b));
        assert!(is_proper);
        assert!(in_bbox(pt, p), "{pt:?} not in bbox of p");
        assert!(in_bbox(pt, q), "{pt:?} not in bbox of q = {:?}", q.bounding_rect());
    }
}

// ---------------------------------------------------------------------------------------------
// Finding 3: large-magnitude (finite) coordinates
// ---------------------------------------------------------------------------------------------

/// A perfectly conditioned X crossing, scaled by m = 1e110 (finite, far from f64::MAX = 1.8e308).
/// p: (-2m,-m) -> (2m,m)  is the line y = x/2.
/// q: (-m,3m) -> (2m,-3m) is x = -m + 3m s, y = 3m - 6m s.  3 - 6s = (-1 + 3s)/2  =>  s = 7/15,
/// crossing = (0.4 m, 0.2 m), interior to both. With m = 1 the library returns (0.4, 0.2) (checked
/// first). With m = 1e110 it returns p.end = (2e110, 1e110): off by 1.6e110, i.e. 40% of |p|.
#[test]
fn large_magnitude_x_crossing_is_located_at_an_endpoint() {
    let make = |m: f64| {
        (
            Line::new(coord! {x: -2.0 * m, y: -1.0 * m}, coord! {x: 2.0 * m, y: 1.0 * m}),
            Line::new(coord! {x: -1.0 * m, y: 3.0 * m}, coord! {x: 2.0 * m, y: -3.0 * m}),
        )
    };
    let (p, q) = make(1.0);
    let (pt, is_proper) = single(line_intersection(p, q));
    assert!(is_proper && (pt.x - 0.4).abs() < 1e-15 && (pt.y - 0.2).abs() < 1e-15);

    let m = 1e110;
    let (p, q) = make(m);
    let (pt, is_proper) = single(line_intersection(p, q));
    assert!(is_proper);
    assert!(
        (pt.x - 0.4 * m).abs() <= 1e-12 * m && (pt.y - 0.2 * m).abs() <= 1e-12 * m,
        "crossing of the 1e110-scaled X located at {pt:?}, expected (4e109, 2e109)"
    );
}

/// The same X at m = 1e160: the classification itself breaks down.
/// Expected (as above): a proper single point at (0.4m, 0.2m), the same for both argument orders.
/// Got: (p,q) -> improper at q.start = (-1e160, 3e160); (q,p) -> improper at p.start = (-2e160,-1e160).
/// Neither point lies on the other segment, and the answer depends on the argument order.
#[test]
fn large_magnitude_x_crossing_is_misclassified_and_order_dependent() {
    let m = 1e160;
    let p = Line::new(coord! {x: -2.0 * m, y: -1.0 * m}, coord! {x: 2.0 * m, y: 1.0 * m});
    let q = Line::new(coord! {x: -1.0 * m, y: 3.0 * m}, coord! {x: 2.0 * m, y: -3.0 * m});
    let (pt_pq, proper_pq) = single(line_intersection(p, q));
    let (pt_qp, proper_qp) = single(line_intersection(q, p));
    assert_eq!(proper_pq, proper_qp);
    assert!(proper_pq, "an X crossing flagged improper; points {pt_pq:?} / {pt_qp:?}");
}

/// Two disjoint segments at m = 1e160: p = (0,0)->(m,m) (on y = x, x <= m) and q = (m,2m)->(2m,m)
/// (on x + y = 3m). The lines meet at (1.5m, 1.5m), which is outside p, so the segments share no
/// point: expected None, and intersects == false.
/// Got: Some(improper point (0,0)) - a point that is not on q at all.
#[test]
fn large_magnitude_disjoint_segments_reported_as_touching() {
    let m = 1e160;
    let p = Line::new(coord! {x: 0.0, y: 0.0}, coord! {x: m, y: m});
    let q = Line::new(coord! {x: m, y: 2.0 * m}, coord! {x: 2.0 * m, y: m});
    assert_eq!(line_intersection(p, q), None);
    assert!(!p.intersects(&q));
}

/// T-junction at m = 1e160: p = (0,0)->(2m,0), q = (m,m)->(m,0): q.end = (m,0) lies in the interior
/// of p. Expected: improper point bit-identical to q.end = (1e160, 0), and intersects == true both
/// ways. Got: improper point (1e160, 1e160) = q.start, which is not on p; q.intersects(p) is false
/// although p.intersects(q) is true.
#[test]
fn large_magnitude_t_junction_returns_the_wrong_endpoint() {
    let m = 1e160;
    let p = Line::new(coord! {x: 0.0, y: 0.0}, coord! {x: 2.0 * m, y: 0.0});
    let q = Line::new(coord! {x: m, y: m}, coord! {x: m, y: 0.0});
    let expected = Some(LineIntersection::SinglePoint { intersection: q.end, is_proper: false });
    assert_eq!(line_intersection(p, q), expected);
    assert_eq!(line_intersection(q, p), expected);
    assert!(p.intersects(&q));
    assert!(q.intersects(&p), "intersects is not symmetric");
}

/// Parallel vertical segments one apart (in units of m = 1e160): p = (0,0)->(0,m), q = (m,0)->(m,2m).
/// They share no point; line_intersection says None (bounding boxes), but `intersects` says true:
/// the two outcomes disagree.
#[test]
fn large_magnitude_outcome_disagrees_with_intersects() {
    let m = 1e160;
    let p = Line::new(coord! {x: 0.0, y: 0.0}, coord! {x: 0.0, y: m});
    let q = Line::new(coord! {x: m, y: 0.0}, coord! {x: m, y: 2.0 * m});
    let li = line_intersection(p, q);
    assert_eq!(li, None);
    assert_eq!(p.intersects(&q), li.is_some(), "intersects disagrees with line_intersection");
}

// ---------------------------------------------------------------------------------------------
// Finding 4: small-magnitude (finite, normal - not subnormal) coordinates
// ---------------------------------------------------------------------------------------------

/// The X of finding 3 with m = 1e-110 (a normal f64, 200 orders of magnitude above the subnormals).
/// Expected (0.4m, 0.2m) = (4e-111, 2e-111). Got (5e-111, 0.0): this is the centre of the overlap of
/// the bounding boxes, a point that is on neither segment (on p, x = 5e-111 has y = 2.5e-111).
#[test]
fn small_magnitude_x_crossing_is_located_off_both_segments() {
    let m = 1e-110;
    let p = Line::new(coord! {x: -2.0 * m, y: -1.0 * m}, coord! {x: 2.0 * m, y: 1.0 * m});
    let q = Line::new(coord! {x: -1.0 * m, y: 3.0 * m}, coord! {x: 2.0 * m, y: -3.0 * m});
    let (pt, is_proper) = single(line_intersection(p, q));
    assert!(is_proper);
    assert!(
        (pt.x - 0.4 * m).abs() <= 1e-9 * m && (pt.y - 0.2 * m).abs() <= 1e-9 * m,
        "crossing located at {pt:?}, expected (4e-111, 2e-111)"
    );
}

/// m = 1e-165 (still a normal f64; the smallest normal is 2.2e-308).
/// The zero-length segment (0,0) and q = (0,m)->(m,0) (the line x + y = m, which does not pass
/// through the origin) share no point: expected None and intersects == false.
/// Got an improper point (0,0), and intersects == true.
#[test]
fn small_magnitude_point_off_a_segment_reported_as_touching() {
    let m = 1e-165;
    let o = coord! {x: 0.0, y: 0.0};
    let pt = Line::new(o, o);
    let q = Line::new(coord! {x: 0.0, y: m}, coord! {x: m, y: 0.0});
    assert_eq!(line_intersection(pt, q), None);
    assert_eq!(line_intersection(q, pt), None);
    assert!(!pt.intersects(&q));
}

/// m = 1e-165. p = (0,0)->(0,m) and q = (0,0)->(m,m) share exactly the corner (0,0) (q is the
/// diagonal y = x, p is on x = 0): expected improper (0,0).
/// Got Collinear { (0,0)->(0,m) } (the whole of p, although q only touches p in one point).
#[test]
fn small_magnitude_corner_reported_as_collinear_overlap() {
    let m = 1e-165;
    let o = coord! {x: 0.0, y: 0.0};
    let p = Line::new(o, coord! {x: 0.0, y: m});
    let q = Line::new(o, coord! {x: m, y: m});
    let expected = Some(LineIntersection::SinglePoint { intersection: o, is_proper: false });
    assert_eq!(line_intersection(p, q), expected);
    assert_eq!(line_intersection(q, p), expected);
}

/// m = 1e-165. The diagonals of the square [0,m]^2: p = (0,0)->(m,m), q = (0,m)->(m,0) cross at
/// (m/2, m/2), interior to both: expected a proper point.
/// Got Collinear { q } for (p,q) and Collinear { p } for (q,p): a wrong class and two different
/// "overlaps" for the two argument orders.
#[test]
fn small_magnitude_x_crossing_reported_as_collinear_overlap() {
    let m: f64 = 1e-165;
    let p = Line::new(coord! {x: 0.0, y: 0.0}, coord! {x: m, y: m});
    let q = Line::new(coord! {x: 0.0, y: m}, coord! {x: m, y: 0.0});
    for r in [line_intersection(p, q), line_intersection(q, p)] {
        match r {
            Some(LineIntersection::SinglePoint { intersection, is_proper: true }) => {
                assert!((intersection.x - 0.5 * m).abs() <= 1e-9 * m && (intersection.y - 0.5 * m).abs() <= 1e-9 * m);
            }
            other => panic!("expected a proper point at (m/2, m/2), got {other:?}"),
        }
    }
}

// ---------------------------------------------------------------------------------------------
// Arguably outside the statement (f32 instantiation; signed zeros)
// ---------------------------------------------------------------------------------------------

/// f32 instantiation: the same well-conditioned X with m = 1e13 (f32::MAX is 3.4e38).
/// Expected (4e12, 2e12) up to a few f32 ulps; got p.end = (2e13, 1e13).
#[test]
fn f32_x_crossing_at_1e13_is_located_at_an_endpoint() {
    let m = 1e13f32;
    let p = Line::new(coord! {x: -2.0 * m, y: -1.0 * m}, coord! {x: 2.0 * m, y: 1.0 * m});
    let q = Line::new(coord! {x: -1.0 * m, y: 3.0 * m}, coord! {x: 2.0 * m, y: -3.0 * m});
    match line_intersection(p, q) {
        Some(LineIntersection::SinglePoint { intersection: pt, is_proper: true }) => {
            assert!(
                (pt.x - 0.4 * m).abs() <= 1e-5 * m && (pt.y - 0.2 * m).abs() <= 1e-5 * m,
                "crossing located at {pt:?}, expected (4e12, 2e12)"
            );
        }
        other => panic!("{other:?}"),
    }
}

/// Signed zeros: p.start = (0.0, 0.0) and q.start = (-0.0, 0.0) are the same point. The improper
/// point returned is p.start for (p,q) and q.start for (q,p): equal under ==, but the bits of x
/// differ, so "the endpoint returned does not depend on the order" fails at the bit level.
#[test]
fn signed_zero_endpoint_depends_on_argument_order_bitwise() {
    let p = Line::new(coord! {x: 0.0, y: 0.0}, coord! {x: 1.0, y: 1.0});
    let q = Line::new(coord! {x: -0.0, y: 0.0}, coord! {x: 1.0, y: -1.0});
    let (a, _) = single(line_intersection(p, q));
    let (b, _) = single(line_intersection(q, p));
    assert_eq!(a, b);
    assert_eq!(a.x.to_bits(), b.x.to_bits(), "x of the shared endpoint: {:?} vs {:?}", a.x, b.x);
}
