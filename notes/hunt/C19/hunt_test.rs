//! Bug hunt for property C19: coordinate traversal, mapping and bounding boxes are
//! mutually consistent.  Every test asserts the statement of the property on one
//! concrete input; the expected value is derived by hand in the comment.

use geo::{
    coord, polygon, BoundingRect, Coord, CoordsIter, Geometry, GeometryCollection, LineString,
    MapCoords, MapCoordsInPlace, Polygon, Triangle,
};
use std::cell::Cell;

// ---------------------------------------------------------------------------------------------
// Finding 1: Triangle::map_coords reverses the traversal when f reverses orientation
// ---------------------------------------------------------------------------------------------
//
// Statement: "map_coords with a function f returns the geometry of the same shape whose traversal
// is f applied to the original traversal (Rect, which re-normalises its corners, excepted)".
//
// Input: the valid, counter-clockwise triangle (0 0, 4 0, 0 3); f = mirror in the y axis,
// (x, y) -> (-x, y), an ordinary affine map.
// Traversal of the input:     (0,0) (4,0) (0,3)
// f applied to the traversal: (0,0) (-4,0) (0,3)      <- expected traversal of the result
#[test]
fn triangle_map_coords_reflection_keeps_traversal_order() {
    let t = Triangle::new(
        coord! { x: 0.0, y: 0.0 },
        coord! { x: 4.0, y: 0.0 },
        coord! { x: 0.0, y: 3.0 },
    );
    let f = |c: Coord<f64>| coord! { x: -c.x, y: c.y };

    let expected: Vec<Coord<f64>> = t.coords_iter().map(f).collect();
    assert_eq!(
        expected,
        vec![
            coord! { x: 0.0, y: 0.0 },
            coord! { x: -4.0, y: 0.0 },
            coord! { x: 0.0, y: 3.0 }
        ]
    );

    let got: Vec<Coord<f64>> = t.map_coords(f).coords_iter().collect();
    assert_eq!(got, expected, "Triangle::map_coords");
}

// The same through the Geometry enum and inside a GeometryCollection, in place, and compared with
// the Polygon of the same shape (the statement speaks of "the geometry of the same shape").
#[test]
fn triangle_map_coords_in_place_reflection_agrees_with_polygon_of_same_shape() {
    let t = Triangle::new(
        coord! { x: 0.0, y: 0.0 },
        coord! { x: 4.0, y: 0.0 },
        coord! { x: 0.0, y: 3.0 },
    );
    let f = |c: Coord<f64>| coord! { x: -c.x, y: c.y };

    // The ring of the equivalent polygon is (0,0) (4,0) (0,3) (0,0); mapped: (0,0) (-4,0) (0,3) (0,0)
    let mapped_polygon = t.to_polygon().map_coords(f);
    assert_eq!(
        mapped_polygon.exterior().0,
        vec![
            coord! { x: 0.0, y: 0.0 },
            coord! { x: -4.0, y: 0.0 },
            coord! { x: 0.0, y: 3.0 },
            coord! { x: 0.0, y: 0.0 }
        ]
    );

    let mut gc = GeometryCollection::new_from(vec![Geometry::Triangle(t)]);
    gc.map_coords_in_place(f);
    let got: Vec<Coord<f64>> = gc.coords_iter().collect();
    assert_eq!(
        got,
        mapped_polygon.exterior().0[..3].to_vec(),
        "GeometryCollection(Triangle)::map_coords_in_place"
    );
}

// A fallible f that fails at a given POSITION of the traversal: because the corners are mapped in
// the order 0, 1, 2 and only swapped afterwards this one happens to be all right; kept as a
// control so that finding 1 is not mistaken for a call-order problem.
#[test]
fn triangle_try_map_coords_fails_at_the_position_asked_for() {
    let t = Triangle::new(
        coord! { x: 0.0, y: 0.0 },
        coord! { x: 4.0, y: 0.0 },
        coord! { x: 0.0, y: 3.0 },
    );
    for k in 0..3usize {
        let calls = Cell::new(0usize);
        let seen = Cell::new(None);
        let r = t.try_map_coords(|c: Coord<f64>| {
            let i = calls.get();
            calls.set(i + 1);
            if i == k {
                seen.set(Some(c));
                Err(i)
            } else {
                Ok(c)
            }
        });
        assert_eq!(r, Err(k));
        assert_eq!(seen.get(), t.coords_iter().nth(k));
    }
}

// ---------------------------------------------------------------------------------------------
// Finding 2: the identity map changes (release) or panics on (debug) an integer Triangle
// ---------------------------------------------------------------------------------------------
//
// Input: Triangle<i32> (0 0, 50000 0, 0 50000): valid, counter-clockwise, coordinates far inside
// the range of i32.  f = identity.  Expected traversal of map_coords(f): the same three
// coordinates in the same order.
//
// Triangle::new (called by map_coords) evaluates the cross product 50000 * 50000 = 2.5e9 in i32:
// debug builds panic with "attempt to multiply with overflow", release builds wrap to a negative
// number, take the triangle for clockwise and reverse it.
#[test]
fn triangle_i32_identity_map_coords_is_identity() {
    let t: Triangle<i32> = Triangle(
        coord! { x: 0, y: 0 },
        coord! { x: 50_000, y: 0 },
        coord! { x: 0, y: 50_000 },
    );
    let expected: Vec<Coord<i32>> = t.coords_iter().collect();
    let got: Vec<Coord<i32>> = t.map_coords(|c| c).coords_iter().collect();
    assert_eq!(got, expected);
}

// The use case of the documentation of map_coords itself ("OpenStreetMap's coordinate encoding
// scheme ... lat/lon * 1000000 as i32"), for a triangle of 0.05 x 0.05 degrees.
// Expected traversal: (10000000 20000000) (10050000 20000000) (10000000 20050000).
#[test]
fn triangle_f64_to_i32_fixed_point_map_coords() {
    let t = Triangle::new(
        coord! { x: 10.0, y: 20.0 },
        coord! { x: 10.05, y: 20.0 },
        coord! { x: 10.0, y: 20.05 },
    );
    let f = |c: Coord<f64>| coord! { x: (c.x * 1e6).round() as i32, y: (c.y * 1e6).round() as i32 };
    let expected: Vec<Coord<i32>> = t.coords_iter().map(f).collect();
    assert_eq!(
        expected,
        vec![
            coord! { x: 10_000_000, y: 20_000_000 },
            coord! { x: 10_050_000, y: 20_000_000 },
            coord! { x: 10_000_000, y: 20_050_000 }
        ]
    );
    let got: Vec<Coord<i32>> = t.map_coords(f).coords_iter().collect();
    assert_eq!(got, expected);
}

// Unsigned coordinates: the counter-clockwise triangle (2 0, 1 1, 0 0); identity map.
// Triangle::new computes 1 - 2 in u32.
#[test]
fn triangle_u32_identity_map_coords_is_identity() {
    let t: Triangle<u32> = Triangle(
        coord! { x: 2, y: 0 },
        coord! { x: 1, y: 1 },
        coord! { x: 0, y: 0 },
    );
    let expected: Vec<Coord<u32>> = t.coords_iter().collect();
    let mut u = t;
    u.map_coords_in_place(|c| c);
    let got: Vec<Coord<u32>> = u.coords_iter().collect();
    assert_eq!(got, expected);
}

// ---------------------------------------------------------------------------------------------
// Finding 3: a nearly degenerate but valid f64 triangle is reversed by the identity map
// ---------------------------------------------------------------------------------------------
// see `triangle_f64_identity_map_coords_is_identity` below (input found by search)

fn ccw_exact(a: Coord<f64>, b: Coord<f64>, c: Coord<f64>) -> bool {
    use geo::kernels::{Kernel, Orientation, RobustKernel};
    RobustKernel::orient2d(a, b, c) == Orientation::CounterClockwise
}

// Input: TRIANGLE(0.5+41u 0.5+48u, 12 12, 24 24) with u = 2^-53 (the classic example of Kettner
// et al. for the naive orientation test).  The three corners are distinct and NOT collinear: the
// first lies 7u above the line y = x on which the other two lie, so walking a -> b -> c has the
// first corner on the left... exactly: orient2d(a, b, c) > 0 (checked below with the robust
// predicate), i.e. the triangle is valid and already counter-clockwise.  f = identity.
// Expected traversal of map_coords(f): a, b, c.   Got: c, b, a.
#[test]
fn triangle_f64_identity_map_coords_is_identity() {
    let u = f64::EPSILON / 2.0; // spacing of doubles in [0.5, 1)
    let a = coord! { x: 0.5 + 41.0 * u, y: 0.5 + 48.0 * u };
    let b = coord! { x: 12.0, y: 12.0 };
    let c = coord! { x: 24.0, y: 24.0 };
    assert!(ccw_exact(a, b, c), "input is exactly counter-clockwise");
    let t = Triangle(a, b, c);
    assert_eq!(t.coords_iter().collect::<Vec<_>>(), vec![a, b, c]);

    let got: Vec<_> = t.map_coords(|c| c).coords_iter().collect();
    assert_eq!(got, vec![a, b, c], "map_coords(identity)");
}

// ... and the same triangle is not even a fixed point: mapping with the identity twice gives two
// different answers only if the naive test is inconsistent between the two vertex orders; checked
// here so that the report can say whether map_coords(id) is at least idempotent.
#[test]
fn triangle_f64_identity_map_coords_idempotent() {
    let u = f64::EPSILON / 2.0;
    let a = coord! { x: 0.5 + 41.0 * u, y: 0.5 + 48.0 * u };
    let t = Triangle(a, coord! { x: 12.0, y: 12.0 }, coord! { x: 24.0, y: 24.0 });
    let once = t.map_coords(|c| c);
    let twice = once.map_coords(|c| c);
    assert_eq!(once, twice);
}

// ---------------------------------------------------------------------------------------------
// Finding 4: Polygon::try_map_coords_in_place that fails part-way ADDS a coordinate to the ring
// ---------------------------------------------------------------------------------------------
//
// Statement: map_coords / map_coords_in_place / try_map_coords agree, also for fallible functions
// failing at any position; documentation of try_map_coords_in_place: "immediately returns and the
// geometry is potentially left in a partially mapped state".  A partially mapped geometry has the
// same number of coordinates, each of them either the original one or its image.
//
// Input: POLYGON((0 0, 4 0, 4 4, 0 4, 0 0)), f = translate by (10, 10) but fail on the third
// call (position 2 of the traversal).
// Expected after the Err: 5 coordinates, (10 10) (14 10) (4 4) (0 4) (0 0) - or the untouched
// polygon; in any case coords_count() == 5.
#[test]
fn polygon_try_map_coords_in_place_failure_keeps_coordinate_count() {
    let original: Polygon<f64> =
        polygon![(x: 0., y: 0.), (x: 4., y: 0.), (x: 4., y: 4.), (x: 0., y: 4.), (x: 0., y: 0.)];
    let shift = |c: Coord<f64>| coord! { x: c.x + 10., y: c.y + 10. };

    for k in 0..original.coords_count() {
        let mut p = original.clone();
        let calls = Cell::new(0usize);
        let r = p.try_map_coords_in_place(|c| {
            let i = calls.get();
            calls.set(i + 1);
            if i == k {
                Err("fail")
            } else {
                Ok(shift(c))
            }
        });
        assert_eq!(r, Err("fail"));
        // the non-in-place sibling reports the same failure and gives no geometry at all
        assert_eq!(original.coords_count(), 5);
        assert_eq!(
            p.coords_count(),
            5,
            "failure at position {k}: ring is now {:?}",
            p.exterior().0
        );
        for (i, (o, n)) in original.coords_iter().zip(p.coords_iter()).enumerate() {
            assert!(
                n == o || n == shift(o),
                "failure at position {k}: coordinate {i} is {n:?}, neither {o:?} nor its image"
            );
        }
    }
}

// The same with a PURE fallible function (fails on the coordinate (4 4), wherever it is) and with
// the failure inside a hole; the polygon is wrapped in a Geometry inside a GeometryCollection.
// Hole: (1 1, 1 2, 4 4 is not used) -> use hole (1 1, 1 3, 3 3, 3 1, 1 1), f fails on (3 3).
// Expected: 10 coordinates before and after.
#[test]
fn polygon_try_map_coords_in_place_failure_in_hole_keeps_coordinate_count() {
    let p: Polygon<f64> = polygon!(
        exterior: [(x: 0., y: 0.), (x: 4., y: 0.), (x: 4., y: 4.), (x: 0., y: 4.), (x: 0., y: 0.)],
        interiors: [[(x: 1., y: 1.), (x: 1., y: 3.), (x: 3., y: 3.), (x: 3., y: 1.), (x: 1., y: 1.)]],
    );
    let mut gc = GeometryCollection::new_from(vec![Geometry::Polygon(p)]);
    assert_eq!(gc.coords_count(), 10);
    let r = gc.try_map_coords_in_place(|c: Coord<f64>| {
        if c == (coord! { x: 3., y: 3. }) {
            Err("no image for (3 3)")
        } else {
            Ok(coord! { x: c.x + 10., y: c.y + 10. })
        }
    });
    assert!(r.is_err());
    assert_eq!(gc.coords_count(), 10, "{gc:?}");
    assert_eq!(gc.coords_iter().count(), 10);
}

// ---------------------------------------------------------------------------------------------
// Outside the statement (invalid input) but surprising - see findings.json, in_domain = false
// ---------------------------------------------------------------------------------------------

// A polygon whose (invalid) hole sticks out of the shell: bounding_rect ignores the hole, so it is
// not the min/max of coords_iter().
#[test]
fn outside_polygon_hole_outside_shell_bounding_rect() {
    let p: Polygon<f64> = polygon!(
        exterior: [(x: 0., y: 0.), (x: 4., y: 0.), (x: 4., y: 4.), (x: 0., y: 4.), (x: 0., y: 0.)],
        interiors: [[(x: 1., y: 1.), (x: 1., y: 3.), (x: 9., y: 3.), (x: 9., y: 1.), (x: 1., y: 1.)]],
    );
    let max_x = p.coords_iter().map(|c| c.x).fold(f64::MIN, f64::max);
    assert_eq!(max_x, 9.0);
    assert_eq!(p.bounding_rect().unwrap().max().x, max_x);
}

// A polygon with an empty shell but a hole: coords_count() == 4 and yet bounding_rect() is None
// ("None exactly when there are none").
#[test]
fn outside_polygon_empty_shell_with_hole_bounding_rect_none() {
    let p: Polygon<f64> = Polygon::new(
        LineString::new(vec![]),
        vec![LineString::from(vec![(1., 1.), (1., 3.), (3., 3.), (1., 1.)])],
    );
    assert_eq!(p.coords_count(), 4);
    assert!(p.bounding_rect().is_some());
}

// A function that is not a function of the coordinate alone (numbers the coordinates): first and
// last coordinate of a ring get different images and the ring is "closed" with an extra one.
// Expected traversal: (0 0) (5 0) (6 4) (3 4) (4 0), 5 coordinates.
#[test]
fn outside_polygon_map_coords_with_position_dependent_f() {
    let p: Polygon<f64> =
        polygon![(x: 0., y: 0.), (x: 4., y: 0.), (x: 4., y: 4.), (x: 0., y: 4.), (x: 0., y: 0.)];
    let n = Cell::new(0.0);
    let f = |c: Coord<f64>| {
        let i = n.get();
        n.set(i + 1.0);
        coord! { x: c.x + i, y: c.y }
    };
    let q = p.map_coords(&f);
    assert_eq!(q.coords_count(), p.coords_count(), "{:?}", q.exterior().0);
}

// Rect is excepted by the statement ("re-normalises its corners"), but what map_coords does is
// more than re-normalising: only min() and max() are mapped, so for any map that is not
// axis-parallel the result does not even contain the images of the other two corners.
// Rect (0 0, 4 4), f = shear (x, y) -> (x - y, y):
//   images of the four traversed corners: (4 0) (0 4) (-4 4) (0 0)  -> bounding box x in [-4, 4]
//   map_coords gives Rect::new(f(0 0), f(4 4)) = Rect (0 0, 0 4), a rectangle of width 0.
#[test]
fn outside_rect_map_coords_shear_loses_two_corners() {
    use geo::Rect;
    let r = Rect::new(coord! { x: 0., y: 0. }, coord! { x: 4., y: 4. });
    let f = |c: Coord<f64>| coord! { x: c.x - c.y, y: c.y };
    let images: Vec<Coord<f64>> = r.coords_iter().map(f).collect();
    let m = r.map_coords(f);
    for c in images {
        assert!(
            m.min().x <= c.x && c.x <= m.max().x && m.min().y <= c.y && c.y <= m.max().y,
            "image {c:?} of a corner is outside the mapped {m:?}"
        );
    }
}
