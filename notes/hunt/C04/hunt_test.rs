//! C04 bug hunt: Boolean operations compute the set-theoretic result.
//!
//! Every test asserts the property's statement on a concrete input; the expected values are derived
//! by hand in the comments. All tests FAIL on the unmodified library (that is the point).
//!
//! Findings 1-3 share one root cause: `ring_to_shape_path` only strips a closing coordinate that is
//! *exactly* equal to the first one. A ring whose last vertex before the closing coordinate is a
//! distinct coordinate that merely lies within the fixed-point grid spacing of the first one
//! (typical for rings produced with sin/cos over 0..=2*pi, or by any computation that recomputes the
//! start point) still reaches i_overlay as a path "that ends where it starts" once it is snapped to
//! the integer grid, and i_overlay drops the start corner - an error of the size of the polygon, not
//! of the size of the snapping tolerance.

use geo::algorithm::unary_union;
use geo::{
    coord, Area, BooleanOps, Contains, Coord, Euclidean, Length, LineString, MultiLineString,
    MultiPolygon, Point, Polygon, Validation,
};

/// sin(2*pi) as computed in f64: the last point of a ring generated with angles k*pi/2, k = 0..=4.
const SIN_2PI: f64 = -2.4492935982947064e-16;

/// The diamond |x|+|y| <= 1 generated as (cos t, sin t) for t = 0, pi/2, pi, 3pi/2, 2pi, as a user
/// would do it: the t = 2pi point is (1, -2.45e-16), not (1, 0), so `Polygon::new` appends the
/// closing coordinate (1, 0) itself. Six coordinates, five distinct vertices, area 2 (the extra
/// vertex changes the area by 1.2e-16).
fn diamond_from_angles() -> Polygon<f64> {
    Polygon::new(
        LineString(vec![
            coord! {x: 1.0, y: 0.0},
            coord! {x: 0.0, y: 1.0},
            coord! {x: -1.0, y: 0.0},
            coord! {x: 0.0, y: -1.0},
            coord! {x: 1.0, y: SIN_2PI},
        ]),
        vec![],
    )
}

fn inside(mp: &MultiPolygon<f64>, x: f64, y: f64) -> bool {
    mp.contains(&Point::new(x, y))
}

/// Finding 1: the four Boolean operations on a valid polygon whose last vertex nearly coincides with
/// its first vertex.
///
/// A = the diamond above (area 2), B = the square [-2,2]^2 (area 16), A is strictly inside B.
/// First principles:
///   A ∪ ∅ = A, area 2;  A ∩ B = A, area 2;  A ∪ B = B, area 16;  B − A has area 14;  A xor B = 14;
///   area(A∩B)+area(A∪B) = 18 = area(A)+area(B).
///   The point (0.5, 0) is 0.35 away from A's boundary (|x|+|y| = 0.5 < 1), i.e. ~1e8 grid cells,
///   and is inside A and inside B.
/// The library returns the triangle (0,1),(-1,0),(0,-1) (area 1) for A: the corner at (1,0) is lost.
#[test]
fn c04_f1_near_coincident_closing_vertex_loses_corner() {
    let a = diamond_from_angles();
    assert!(a.is_valid(), "the input is a valid polygon");
    assert!((a.unsigned_area() - 2.0).abs() < 1e-12);
    let b: Polygon<f64> = Polygon::new(
        LineString::from(vec![(-2., -2.), (2., -2.), (2., 2.), (-2., 2.), (-2., -2.)]),
        vec![],
    );
    let empty: Polygon<f64> = Polygon::new(LineString(vec![]), vec![]);

    let mut problems: Vec<String> = vec![];

    let u0 = a.union(&empty);
    if (u0.unsigned_area() - 2.0).abs() > 1e-6 {
        problems.push(format!("area(A ∪ ∅) = {} expected 2; {:?}", u0.unsigned_area(), u0));
    }
    if !inside(&u0, 0.5, 0.0) {
        problems.push("(0.5,0) is inside A but not inside A ∪ ∅".into());
    }
    let i = a.intersection(&b);
    let u = a.union(&b);
    let d = b.difference(&a);
    let x = a.xor(&b);
    if (i.unsigned_area() - 2.0).abs() > 1e-6 {
        problems.push(format!("area(A ∩ B) = {} expected 2", i.unsigned_area()));
    }
    if !inside(&i, 0.5, 0.0) {
        problems.push("(0.5,0) is inside A and B but not inside A ∩ B".into());
    }
    if (i.unsigned_area() + u.unsigned_area() - 18.0).abs() > 1e-6 {
        problems.push(format!(
            "area(A∩B)+area(A∪B) = {} expected area(A)+area(B) = 18",
            i.unsigned_area() + u.unsigned_area()
        ));
    }
    if (d.unsigned_area() - 14.0).abs() > 1e-6 {
        problems.push(format!("area(B − A) = {} expected 14", d.unsigned_area()));
    }
    if inside(&d, 0.5, 0.0) {
        problems.push("(0.5,0) is inside A but also inside B − A".into());
    }
    if (x.unsigned_area() - 14.0).abs() > 1e-6 {
        problems.push(format!("area(A xor B) = {} expected 14", x.unsigned_area()));
    }
    assert!(problems.is_empty(), "{:#?}", problems);
}

/// Finding 1b (same root cause, triggered by MIXED MAGNITUDE of the two operands rather than by a
/// tiny edge): the grid spacing is derived from the joint bounding box of both operands, so a
/// perfectly ordinary short last edge of one operand collapses when the other operand is large.
///
/// A = the square [0,100]^2 whose ring starts at (0,0) and ends with a 1 mm edge
///     (0,100) -> (0,0.001) -> (0,0)   (a parcel in metres; valid, area 10000).
/// B = the square [-4e6, 4e6]^2 (a continent-sized rectangle), A is inside B.
/// Grid: half extent 4e6, log2 = 21.9 -> 22, scale 2^(29-22) = 128, spacing 1/128 = 0.0078 m.
/// A ∩ B = A: area 10000 up to spacing x perimeter = 0.0078 x 400 ~ 3; the point (10, 10) is 10 m
/// (1280 grid cells) from A's boundary, inside A and inside B, so it is inside A ∩ B and outside B − A.
/// The library returns the triangle (100,0),(100,100),(0,100) for A ∩ B: area 5000, (10,10) outside.
#[test]
fn c04_f1b_mixed_magnitude_operands_collapse_last_edge() {
    let a: Polygon<f64> = Polygon::new(
        LineString::from(vec![
            (0., 0.),
            (100., 0.),
            (100., 100.),
            (0., 100.),
            (0., 0.001),
            (0., 0.),
        ]),
        vec![],
    );
    let b: Polygon<f64> = Polygon::new(
        LineString::from(vec![
            (-4e6, -4e6),
            (4e6, -4e6),
            (4e6, 4e6),
            (-4e6, 4e6),
            (-4e6, -4e6),
        ]),
        vec![],
    );
    assert!(a.is_valid() && b.is_valid());
    let i = a.intersection(&b);
    let d = b.difference(&a);
    let mut problems: Vec<String> = vec![];
    if (i.unsigned_area() - 10000.0).abs() > 10.0 {
        problems.push(format!("area(A ∩ B) = {} expected 10000 (+-3); {:?}", i.unsigned_area(), i));
    }
    if !inside(&i, 10.0, 10.0) {
        problems.push("(10,10) is inside A and B but not inside A ∩ B".into());
    }
    if inside(&d, 10.0, 10.0) {
        problems.push("(10,10) is inside A but also inside B − A".into());
    }
    // control: the same A against a B of A's own magnitude is handled correctly
    let b_small: Polygon<f64> = Polygon::new(
        LineString::from(vec![(-400., -400.), (400., -400.), (400., 400.), (-400., 400.), (-400., -400.)]),
        vec![],
    );
    assert!((a.intersection(&b_small).unsigned_area() - 10000.0).abs() < 1.0);
    assert!(problems.is_empty(), "{:#?}", problems);
}

/// Finding 2 (same root cause, different entry point and a stronger symptom): a triangle generated
/// from the angles 0, 2pi/3, 4pi/3, 2pi disappears completely, from `union` as well as from
/// `unary_union`, so unary_union([T, S]) covers less than S ∪ T.
///
/// T = (1,0), (-1/2, √3/2), (-1/2, -√3/2), (1, -2.45e-16) [, closing (1,0)]: area 3·√3/4 = 1.2990.
/// S = the unit square [3,4]x[0,1], disjoint from T. union of both has area 2.2990 and contains the
/// centroid (0,0) of T, which is 0.5 away from T's boundary.
#[test]
fn c04_f2_triangle_with_near_coincident_closing_vertex_vanishes() {
    let h = 3f64.sqrt() / 2.0;
    let t = Polygon::new(
        LineString(vec![
            coord! {x: 1.0, y: 0.0},
            coord! {x: -0.5, y: h},
            coord! {x: -0.5, y: -h},
            coord! {x: 1.0, y: SIN_2PI},
        ]),
        vec![],
    );
    assert!(t.is_valid());
    let t_area = 3.0 * 3f64.sqrt() / 4.0;
    assert!((t.unsigned_area() - t_area).abs() < 1e-12);
    let s: Polygon<f64> = Polygon::new(
        LineString::from(vec![(3., 0.), (4., 0.), (4., 1.), (3., 1.), (3., 0.)]),
        vec![],
    );

    let mut problems: Vec<String> = vec![];
    let uu = unary_union([&t, &s]);
    if (uu.unsigned_area() - (t_area + 1.0)).abs() > 1e-6 {
        problems.push(format!(
            "area(unary_union[T,S]) = {} expected {}; {:?}",
            uu.unsigned_area(),
            t_area + 1.0,
            uu
        ));
    }
    if !inside(&uu, 0.0, 0.0) {
        problems.push("(0,0) is inside T but not inside unary_union[T,S]".into());
    }
    let pu = t.union(&s);
    if (pu.unsigned_area() - (t_area + 1.0)).abs() > 1e-6 {
        problems.push(format!(
            "area(T ∪ S) = {} expected {}",
            pu.unsigned_area(),
            t_area + 1.0
        ));
    }
    let ii = t.intersection(&t.clone());
    if (ii.unsigned_area() - t_area).abs() > 1e-6 {
        problems.push(format!("area(T ∩ T) = {} expected {}", ii.unsigned_area(), t_area));
    }
    assert!(problems.is_empty(), "{:#?}", problems);
}

/// Finding 3 (same root cause, `clip`): the square [0,100]^2 digitised with a last vertex 1e-9 above
/// its first vertex (6 coordinates: (0,0),(100,0),(100,100),(0,100),(0,1e-9),(0,0); the grid spacing
/// for an extent of 100 is 100/2^30..2^29 ~ 1e-7). The vertical line x = 10 from y = -10 to y = 110
/// is inside the square for 0 <= y <= 100: inside length 100, outside length 20 (two pieces of 10).
/// The library clips against the triangle (100,0),(100,100),(0,100) instead: inside part only
/// (10,90)-(10,100), length 10.
#[test]
fn c04_f3_clip_against_ring_with_near_coincident_closing_vertex() {
    let sq = Polygon::new(
        LineString::from(vec![
            (0., 0.),
            (100., 0.),
            (100., 100.),
            (0., 100.),
            (0., 1e-9),
            (0., 0.),
        ]),
        vec![],
    );
    assert!(sq.is_valid());
    let ls = MultiLineString(vec![LineString::from(vec![(10., -10.), (10., 110.)])]);
    let inside_part = sq.clip(&ls, false);
    let outside_part = sq.clip(&ls, true);
    let li: f64 = Euclidean.length(&inside_part);
    let lo: f64 = Euclidean.length(&outside_part);
    assert!(
        (li - 100.0).abs() < 1e-5 && (lo - 20.0).abs() < 1e-5,
        "inside length {li} (expected 100): {:?}; outside length {lo} (expected 20): {:?}",
        inside_part,
        outside_part
    );
}

/// Finding 4: coordinates of extreme magnitude. The conversion to i_overlay's integer grid computes
/// `2^(29 - log2(extent/2))` and `max - min`; both leave the range of the float type for valid,
/// finite polygons:
///  * f32 squares A = [0, 4e-31]^2, B = [2e-31, 6e-31]^2 (normal f32 values, 1e7 times larger than
///    f32::MIN_POSITIVE): A ∩ B = [2e-31, 4e-31]^2. The scale 2^130 is +inf in f32; in a debug
///    build the call panics ("attempt to multiply with overflow"), in a release build the result is
///    a square from -1.28e-30 to 1.88e-30, which contains points outside both operands.
///  * f64 square C = [-1.7e308, 1.7e308]^2: C ∪ C = C, but `max - min` is +inf, the scale becomes 0
///    and the result is MULTIPOLYGON EMPTY.
#[test]
fn c04_f4_extreme_magnitudes() {
    let mut problems: Vec<String> = vec![];

    let sq32 = |lo: f32, hi: f32| -> Polygon<f32> {
        Polygon::new(
            LineString::from(vec![(lo, lo), (hi, lo), (hi, hi), (lo, hi), (lo, lo)]),
            vec![],
        )
    };
    let a = sq32(0.0, 4e-31);
    let b = sq32(2e-31, 6e-31);
    assert!(a.is_valid() && b.is_valid());
    match std::panic::catch_unwind(|| a.intersection(&b)) {
        Err(_) => problems.push("f32 tiny squares: intersection panicked".into()),
        Ok(i) => {
            // every vertex of the result must lie in [2e-31, 4e-31]^2 (up to 1e-37, far more than
            // the snapping tolerance 6e-31 / 2^29)
            let ok = i.0.len() == 1
                && i.0[0]
                    .exterior()
                    .coords()
                    .all(|c: &Coord<f32>| {
                        c.x >= 1.9e-31 && c.x <= 4.1e-31 && c.y >= 1.9e-31 && c.y <= 4.1e-31
                    });
            if !ok {
                problems.push(format!(
                    "f32 tiny squares: A ∩ B = {:?}, expected the square [2e-31,4e-31]^2",
                    i
                ));
            }
        }
    }

    let c: Polygon<f64> = Polygon::new(
        LineString::from(vec![
            (-1.7e308, -1.7e308),
            (1.7e308, -1.7e308),
            (1.7e308, 1.7e308),
            (-1.7e308, 1.7e308),
            (-1.7e308, -1.7e308),
        ]),
        vec![],
    );
    assert!(c.is_valid());
    match std::panic::catch_unwind(|| c.union(&c)) {
        Err(_) => problems.push("f64 huge square: union panicked".into()),
        Ok(u) => {
            if !u.contains(&Point::new(0.0, 0.0)) {
                problems.push(format!(
                    "f64 huge square: (0,0) is inside C but not inside C ∪ C = {:?}",
                    u
                ));
            }
        }
    }
    assert!(problems.is_empty(), "{:#?}", problems);
}

// ---------------------------------------------------------------------------------------------
// Arguably outside the statement, but surprising.
// ---------------------------------------------------------------------------------------------

/// Surprising S1 (outside the statement: the statement is about ONE simple line string; here a
/// MultiLineString has two simple members that overlap each other): `clip` takes a MultiLineString,
/// but collinear overlapping parts of different members are merged into one, so the clipped length
/// is not the sum of the members' inside lengths.
/// Square [0,10]^2; members (-5,5)-(15,5) (inside length 10) and (2,5)-(8,5) (inside length 6):
/// sum of inside lengths 16. The library returns one line of length 10.
#[test]
fn c04_s1_clip_merges_overlapping_members() {
    let sq: Polygon<f64> = Polygon::new(
        LineString::from(vec![(0., 0.), (10., 0.), (10., 10.), (0., 10.), (0., 0.)]),
        vec![],
    );
    let mls = MultiLineString(vec![
        LineString::from(vec![(-5., 5.), (15., 5.)]),
        LineString::from(vec![(2., 5.), (8., 5.)]),
    ]);
    let r = sq.clip(&mls, false);
    let l: f64 = Euclidean.length(&r);
    assert!((l - 16.0).abs() < 1e-6, "inside length {l}, expected 10 + 6 = 16: {:?}", r);
}

/// Surprising S2 (outside the statement: the collection is NOT consistently wound, which the
/// documentation of `unary_union` forbids; pairwise `union` accepts either winding): two valid
/// overlapping squares, one counter-clockwise and one clockwise. Their union is the L-shaped
/// region of area 4 + 4 - 1 = 7 containing (1.5,1.5). unary_union silently returns the first square
/// minus the second one (area 3, with (1.5,1.5) and (2.5,2.5) outside).
#[test]
fn c04_s2_unary_union_mixed_winding() {
    let a: Polygon<f64> = Polygon::new(
        LineString::from(vec![(0., 0.), (2., 0.), (2., 2.), (0., 2.), (0., 0.)]),
        vec![],
    );
    let b: Polygon<f64> = Polygon::new(
        LineString::from(vec![(1., 1.), (1., 3.), (3., 3.), (3., 1.), (1., 1.)]),
        vec![],
    );
    let fold = a.union(&b);
    assert!((fold.unsigned_area() - 7.0).abs() < 1e-9);
    let uu = unary_union([&a, &b]);
    assert!(
        (uu.unsigned_area() - 7.0).abs() < 1e-9 && inside(&uu, 1.5, 1.5),
        "unary_union area {} (pairwise union: 7): {:?}",
        uu.unsigned_area(),
        uu
    );
}
