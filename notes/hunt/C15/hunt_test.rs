//! C15 bug hunt: interpolation, location and densification agree along a line.
//!
//! Every test asserts the statement of the property on a concrete input; the expected value is
//! derived by hand in the comment above the assertion. All tests FAIL on the unmodified library.
//! Tests whose name starts with `outside_` are arguably outside the quantified domain.
#![allow(deprecated)]

use geo::{
    coord, Densify, Euclidean, InterpolateLine, Length, Line, LineInterpolatePoint,
    LineLocatePoint, LineString, Point,
};

fn close(a: f64, b: f64, rel: f64) -> bool {
    a.is_finite() && (a - b).abs() <= rel * b.abs().max(a.abs())
}

/// Finding 1. The distance-based forms (and, because LineString routes its ratio forms through
/// them, the LineString ratio forms) overflow to infinite coordinates as soon as a segment is
/// longer than sqrt(f64::MAX) ~ 1.34e154 (f32: ~1.8e19), although every coordinate, the length and
/// the answer are finite and the sibling `Line` ratio form computes it exactly.
///
/// Line / LineString (0 0, 1e155 0): length = 1e155 (finite). The point at ratio 0.5 / at distance
/// 5e154 from either end is (5e154, 0).
#[test]
fn distance_forms_overflow_for_segments_longer_than_sqrt_max() {
    let mut failures: Vec<String> = vec![];
    let m = 1e155_f64;
    let line = Line::new(coord! {x: 0.0, y: 0.0}, coord! {x: m, y: 0.0});
    let ls = LineString::new(vec![line.start, line.end]);
    assert_eq!(Euclidean.length(&ls), m); // the length itself is fine
    let expected = Point::new(5e154, 0.0);

    // the sibling that works: Line, ratio form
    assert_eq!(Euclidean.point_at_ratio_from_start(&line, 0.5), expected);
    assert_eq!(Euclidean.point_at_ratio_from_end(&line, 0.5), expected);

    let mut check = |name: &str, got: Point<f64>| {
        if !(close(got.x(), expected.x(), 1e-12) && got.y() == 0.0) {
            failures.push(format!("{name}: expected {expected:?}, got {got:?}"));
        }
    };
    check(
        "Line::point_at_distance_from_start(5e154)",
        Euclidean.point_at_distance_from_start(&line, 0.5 * m),
    );
    check(
        "Line::point_at_distance_from_end(5e154)",
        Euclidean.point_at_distance_from_end(&line, 0.5 * m),
    );
    check(
        "LineString::point_at_ratio_from_start(0.5)",
        Euclidean.point_at_ratio_from_start(&ls, 0.5).unwrap(),
    );
    check(
        "LineString::point_at_ratio_from_end(0.5)",
        Euclidean.point_at_ratio_from_end(&ls, 0.5).unwrap(),
    );
    check(
        "LineString::point_at_distance_from_start(5e154)",
        Euclidean.point_at_distance_from_start(&ls, 0.5 * m).unwrap(),
    );
    check(
        "LineString::point_at_distance_from_end(5e154)",
        Euclidean.point_at_distance_from_end(&ls, 0.5 * m).unwrap(),
    );
    // the deprecated form gets it right: (5e154, 0)
    assert_eq!(ls.line_interpolate_point(0.5), Some(expected));

    // f32: LINESTRING(0 0, 1e20 0), ratio 0.5 -> (5e19, 0); 1e20 is far below f32::MAX = 3.4e38
    let m32 = 1e20_f32;
    let ls32 = LineString::new(vec![coord! {x: 0.0f32, y: 0.0}, coord! {x: m32, y: 0.0}]);
    let got32 = Euclidean.point_at_ratio_from_start(&ls32, 0.5).unwrap();
    if got32 != Point::new(5e19_f32, 0.0) {
        failures.push(format!(
            "f32 LineString::point_at_ratio_from_start(0.5): expected POINT(5e19 0), got {got32:?}"
        ));
    }
    assert!(failures.is_empty(), "\n{}", failures.join("\n"));
}

/// Finding 2. Same product, other direction: for a line string shorter than ~1.5e-154 (f32: ~1e-22)
/// `diff * distance` underflows (to a subnormal with a few bits, or to 0), so the forward map is
/// garbage relative to the line:
///
///  a) LINESTRING(0 0, 1e-162 0): length 1e-162, midpoint (5e-163, 0). from_start(0.5) returns the
///     start vertex and from_end(1 - 0.5) returns the end vertex - a whole line length apart.
///  b) LINESTRING(0 0, 3e-162 4e-162): length 5e-162 (3-4-5), midpoint (1.5e-162, 2e-162).
///     from_start(0.5) returns a point with x == y, which is not on the line (slope 4/3) at all.
///
/// The sibling `Line` ratio form returns the midpoint in both cases.
#[test]
fn distance_forms_underflow_on_a_tiny_linestring() {
    let mut failures: Vec<String> = vec![];
    for (ex, ey) in [(1e-162_f64, 0.0_f64), (3e-162, 4e-162)] {
        let ls = LineString::new(vec![coord! {x: 0.0, y: 0.0}, coord! {x: ex, y: ey}]);
        let line = Line::new(ls.0[0], ls.0[1]);
        let len = Euclidean.length(&ls);
        assert!(close(len, ex.hypot(ey), 1e-12) && len > 0.0); // the length is computed correctly
        let mid = Point::new(ex / 2.0, ey / 2.0);
        let near = |g: Point<f64>, e: Point<f64>| (g.x() - e.x()).hypot(g.y() - e.y()) <= 1e-6 * len;
        // sibling that works
        assert!(near(Euclidean.point_at_ratio_from_start(&line, 0.5), mid));
        assert!(near(Euclidean.point_at_ratio_from_end(&line, 0.5), mid));

        let p = Euclidean.point_at_ratio_from_start(&ls, 0.5).unwrap();
        let q = Euclidean.point_at_ratio_from_end(&ls, 1.0 - 0.5).unwrap();
        let pd = Euclidean.point_at_distance_from_start(&line, 0.5 * len);
        let gap = (p.x() - q.x()).hypot(p.y() - q.y());
        if !(gap <= 1e-6 * len) {
            failures.push(format!(
                "(0 0, {ex:e} {ey:e}): from_start(0.5) = {p:?} and from_end(0.5) = {q:?} are {gap:e} apart; line length {len:e}"
            ));
        }
        for (name, g) in [
            ("LineString from_start(0.5)", p),
            ("LineString from_end(0.5)", q),
            ("Line distance_from_start(len/2)", pd),
        ] {
            if !near(g, mid) {
                failures.push(format!("(0 0, {ex:e} {ey:e}): {name}: expected {mid:?}, got {g:?}"));
            }
        }
    }
    assert!(failures.is_empty(), "\n{}", failures.join("\n"));
}

/// Finding 3. line_locate_point does not map the interpolated point back to r when the squared
/// length of a segment leaves the f64 range: v.v overflows to inf (answer None or 0) or underflows
/// to 0 (the segment is declared "zero length", answer 0), although the line is simple, finite and
/// of non-zero length.
///
///  a) LINE(0 0, 1e155 0), r = 0.25  -> p = (2.5e154, 0) -> locate must give 0.25
///  b) LINE(0 0, 2e154 0), r = 0.25  -> p = (5e153, 0)   -> locate must give 0.25
///  c) LINE(0 0, 1e-162 0), r = 0.75 -> p = (7.5e-163,0) -> locate must give 0.75
#[test]
fn line_locate_point_does_not_invert_interpolation_when_squared_length_leaves_the_float_range() {
    let mut failures: Vec<String> = vec![];
    for (m, r) in [(1e155_f64, 0.25_f64), (2e154, 0.25), (1e-162, 0.75)] {
        let line = Line::new(coord! {x: 0.0, y: 0.0}, coord! {x: m, y: 0.0});
        let ls = LineString::new(vec![line.start, line.end]);
        // forward map via the ratio form on Line, which is exact here
        let p = Euclidean.point_at_ratio_from_start(&line, r);
        assert!(close(p.x(), r * m, 1e-12) && p.y() == 0.0);
        let back_line = line.line_locate_point(&p);
        let back_ls = ls.line_locate_point(&p);
        for (name, back) in [("Line", back_line), ("LineString", back_ls)] {
            let ok = matches!(back, Some(b) if (b - r).abs() <= 1e-9);
            if !ok {
                failures.push(format!(
                    "{name} (0 0, {m:e} 0): locate(point_at_ratio({r})) expected Some({r}), got {back:?}"
                ));
            }
        }
    }
    assert!(failures.is_empty(), "\n{}", failures.join("\n"));
}

/// Finding 4. densify leaves a segment strictly longer than max_segment_length when the length is
/// (up to rounding) a multiple of max: the segment count is ceil(fl(length / max)), and the rounded
/// quotient is an integer although the real quotient is above it.
///
/// LINE(0 0, 1 0), max = fl(1/3) = 0.333333333333333314829616256247...  (< 1/3).
/// Real arithmetic: 1 / max = 3.000000000000000166... > 3, so 4 segments are needed; three
/// segments cannot all be <= max because 3 * max < 1.
#[test]
fn densify_leaves_a_segment_longer_than_max_when_length_is_a_rounded_multiple_of_max() {
    let line = Line::new(coord! {x: 0.0, y: 0.0}, coord! {x: 1.0, y: 0.0});
    let max = 1.0_f64 / 3.0;
    // max is below 1/3: 2*max and 1 - 2*max are computed exactly (power-of-two scaling, Sterbenz),
    // and the remainder 1 - 2*max is larger than max, i.e. 3*max < 1 in real arithmetic.
    assert!(1.0 - 2.0 * max > max);
    let dense = Euclidean.densify(&line, max);
    let longest = dense
        .lines()
        .map(|l| Euclidean.length(&l))
        .fold(0.0, f64::max);
    assert!(
        longest <= max,
        "densify(LINE(0 0,1 0), {max:?}) = {dense:?}: longest segment {longest:?} > max {max:?}"
    );
}

/// Finding 5 (deprecated entry point). LineString::line_interpolate_point disagrees with the
/// forms that replace it on a one-coordinate line string: it panics on a debug assertion in debug
/// builds and returns None in release builds, while point_at_ratio_from_start /
/// point_at_distance_from_start return the single coordinate (which is the only point "on" it).
///
/// LINESTRING(1 1), fraction 0.5 -> (1, 1).
#[test]
fn deprecated_line_interpolate_point_on_a_one_coordinate_linestring() {
    let ls = LineString::new(vec![coord! {x: 1.0, y: 1.0}]);
    let new_form = Euclidean.point_at_ratio_from_start(&ls, 0.5);
    assert_eq!(new_form, Some(Point::new(1.0, 1.0)));
    let old_form = std::panic::catch_unwind(|| ls.line_interpolate_point(0.5));
    match old_form {
        Ok(got) => assert_eq!(
            got, new_form,
            "line_interpolate_point(0.5) must coincide with point_at_ratio_from_start(0.5)"
        ),
        Err(_) => panic!("line_interpolate_point(0.5) panicked (debug assertion) on LINESTRING(1 1)"),
    }
}

// ---------------------------------------------------------------------------------------------
// Arguably outside the statement, but surprising
// ---------------------------------------------------------------------------------------------

/// A NaN ratio is not clamped and not rejected: the result is a point with NaN coordinates
/// (the deprecated line_interpolate_point returns None for it).
#[test]
fn outside_nan_ratio_gives_nan_point() {
    let ls = LineString::new(vec![coord! {x: 0.0, y: 0.0}, coord! {x: 1.0, y: 0.0}]);
    assert_eq!(ls.line_interpolate_point(f64::NAN), None);
    let got = Euclidean.point_at_ratio_from_start(&ls, f64::NAN);
    assert!(
        got.map_or(true, |p| !p.x().is_nan() && !p.y().is_nan()),
        "point_at_ratio_from_start(NaN) = {got:?}"
    );
}

/// A positive max_segment_length "far below the shortest segment" makes densify panic with
/// "unreasonable number of segments" instead of returning an error (length / max = inf).
#[test]
fn outside_densify_panics_for_a_very_small_positive_max() {
    let line = Line::new(coord! {x: 0.0, y: 0.0}, coord! {x: 1.0, y: 0.0});
    let r = std::panic::catch_unwind(|| Euclidean.densify(&line, 1e-310).0.len());
    assert!(r.is_ok(), "densify(LINE(0 0,1 0), 1e-310) panicked");
}

/// On a closed simple ring the point at ratio 1 is the start vertex, and line_locate_point maps it
/// to 0, not to 1 (first closest segment wins).
#[test]
fn outside_closed_ring_ratio_one_maps_back_to_zero() {
    let ring = LineString::new(vec![
        coord! {x: 0.0, y: 0.0},
        coord! {x: 1.0, y: 0.0},
        coord! {x: 1.0, y: 1.0},
        coord! {x: 0.0, y: 0.0},
    ]);
    let p = Euclidean.point_at_ratio_from_start(&ring, 1.0).unwrap();
    assert_eq!(ring.line_locate_point(&p), Some(1.0));
}
