//! C08 bug hunt: convex hull is the smallest convex polygon containing the input.
//!
//! Every test asserts the statement of the property on one concrete input. The truth
//! ("expected") is decided by exact orientation: `GeoNum::Ker::orient2d` is the robust
//! (adaptive precision) predicate for f32 / f64, and every orientation quoted in the comments
//! was re-computed with exact rational arithmetic (python `fractions`) on the very same
//! floating point values.

use geo::convex_hull::{graham_hull, quick_hull};
use geo::kernels::{Kernel, Orientation};
use geo::{Coord, ConvexHull, GeoNum, IsConvex, LineString, MultiPoint, Point};

fn orient<T: GeoNum>(a: Coord<T>, b: Coord<T>, c: Coord<T>) -> Orientation {
    T::Ker::orient2d(a, b, c)
}

/// The statement of C08 for one hull ring, checked clause by clause with exact orientation.
fn check_statement<T: GeoNum>(input: &[Coord<T>], hull: &LineString<T>) -> Result<(), String> {
    let h = &hull.0;
    if h.len() < 4 || h.first() != h.last() {
        return Err(format!("not a closed ring of >= 3 vertices: {h:?}"));
    }
    let n = h.len() - 1;
    for i in 0..n {
        if !input.contains(&h[i]) {
            return Err(format!("hull vertex {:?} is not an input coordinate", h[i]));
        }
        if let Some(j) = (0..i).find(|&j| h[j] == h[i]) {
            return Err(format!(
                "hull vertex {:?} is repeated (positions {j} and {i}) in {h:?}",
                h[i]
            ));
        }
    }
    for i in 0..n {
        let (a, b, c) = (h[i], h[(i + 1) % n], h[(i + 2) % n]);
        match orient(a, b, c) {
            Orientation::CounterClockwise => {}
            Orientation::Collinear => {
                return Err(format!(
                    "hull vertex {b:?} lies on the segment between its neighbours {a:?} and {c:?}"
                ))
            }
            Orientation::Clockwise => {
                return Err(format!(
                    "ring is not convex: clockwise (reflex) turn at {b:?} between {a:?} and {c:?}"
                ))
            }
        }
    }
    for p in input {
        for i in 0..n {
            if orient(h[i], h[i + 1], *p) == Orientation::Clockwise {
                return Err(format!(
                    "input coordinate {p:?} is outside the hull edge {:?} -> {:?}",
                    h[i],
                    h[i + 1]
                ));
            }
        }
    }
    Ok(())
}

fn vertex_set<T: GeoNum>(ls: &LineString<T>) -> Vec<Coord<T>> {
    let mut v = ls.0.clone();
    v.sort_by(|a, b| {
        a.x.partial_cmp(&b.x)
            .unwrap()
            .then(a.y.partial_cmp(&b.y).unwrap())
    });
    v.dedup();
    v
}

fn sorted<T: GeoNum>(mut v: Vec<Coord<T>>) -> Vec<Coord<T>> {
    v.sort_by(|a, b| {
        a.x.partial_cmp(&b.x)
            .unwrap()
            .then(a.y.partial_cmp(&b.y).unwrap())
    });
    v
}

fn c<T: GeoNum>(x: T, y: T) -> Coord<T> {
    Coord { x, y }
}

fn multi_point<T: GeoNum>(pts: &[Coord<T>]) -> MultiPoint<T> {
    MultiPoint::new(pts.iter().map(|p| Point::from(*p)).collect())
}

// ---------------------------------------------------------------------------------------------
// Finding 1 (in domain): four f64 points with one decimal digit -> a hull vertex is REPEATED,
// an interior point is a hull vertex, the ring is not convex.
//
// MULTIPOINT(3.0 0.8, 0.6 -0.4, -0.2 -0.8, -0.6 -1.0)
//
// As decimals the four points lie on x - 2y = 1.4, as f64 they do not. Exact orientations of the
// f64 values (A=(3,0.8) B=(0.6,-0.4) C=(-0.2,-0.8) D=(-0.6,-1)):
//   orient(A,B,C) = CCW, orient(A,B,D) = CW, orient(A,C,D) = CW, orient(B,C,D) = CW
// => A, D, C is a counter-clockwise triangle, and B is strictly inside it
//    (orient(A,D,B) = CCW, orient(D,C,B) = CCW, orient(C,A,B) = CCW).
// Expected hull: the ring A D C A (3 vertices; graham_hull returns exactly that).
// Got: [C, B, C, A, D, C]: C twice, B (interior) is a vertex.
// ---------------------------------------------------------------------------------------------
#[test]
fn c08_f1_one_decimal_f64_points_hull_repeats_a_vertex() {
    let pts = vec![c(3.0, 0.8), c(0.6, -0.4), c(-0.2, -0.8), c(-0.6, -1.0)];
    // in the domain: three non-collinear coordinates exist
    assert_eq!(
        orient(pts[0], pts[2], pts[3]),
        Orientation::Clockwise,
        "A, C, D are not collinear"
    );
    // B is strictly inside triangle A D C
    assert_eq!(orient(pts[0], pts[3], pts[1]), Orientation::CounterClockwise);
    assert_eq!(orient(pts[3], pts[2], pts[1]), Orientation::CounterClockwise);
    assert_eq!(orient(pts[2], pts[0], pts[1]), Orientation::CounterClockwise);

    let expected = sorted(vec![pts[0], pts[2], pts[3]]);

    // Graham scan gets it right
    let g = graham_hull(&mut pts.clone(), false);
    assert_eq!(check_statement(&pts, &g), Ok(()));
    assert_eq!(vertex_set(&g), expected);

    // the trait entry point (quick hull)
    let hull = multi_point(&pts).convex_hull();
    let ring = hull.exterior();
    assert_eq!(
        vertex_set(ring),
        expected,
        "quick hull vertex set differs from the exact hull / from graham_hull; ring = {:?}",
        ring.0
    );
    assert_eq!(check_statement(&pts, ring), Ok(()));
    assert!(ring.is_strictly_ccw_convex());
}

// Same defect, same shape of input, scalar type f32.
// MULTIPOINT(0.8 -1.3, 0.9 -1.1, 2.3 1.7, 1.7 0.5) as f32 (decimal line y = 2x - 2.9).
// Exact orientation of the f32 values: (0.9,-1.1) is strictly inside the triangle of the other
// three; expected hull vertices {(0.8,-1.3), (2.3,1.7), (1.7,0.5)}.
// Got: [(1.7,0.5), (0.9,-1.1), (1.7,0.5), (2.3,1.7), (0.8,-1.3), (1.7,0.5)].
#[test]
fn c08_f1b_one_decimal_f32_points_hull_repeats_a_vertex() {
    let pts: Vec<Coord<f32>> = vec![c(0.8, -1.3), c(0.9, -1.1), c(2.3, 1.7), c(1.7, 0.5)];
    let expected = sorted(vec![pts[0], pts[2], pts[3]]);
    let g = graham_hull(&mut pts.clone(), false);
    assert_eq!(check_statement(&pts, &g), Ok(()));
    assert_eq!(vertex_set(&g), expected);

    let q = quick_hull(&mut pts.clone());
    assert_eq!(check_statement(&pts, &q), Ok(()), "ring = {:?}", q.0);
    assert_eq!(vertex_set(&q), expected);
}

// ---------------------------------------------------------------------------------------------
// Finding 2 (in domain): five f64 points with one decimal digit -> the hull ring has a REFLEX
// (clockwise) vertex, i.e. it is not convex, and an interior point is a hull vertex.
//
// MULTIPOINT(0.1 1.1, 0.2 1.3, -1.2 -2.4, 1.2 2.4, 0.5 1.9)
//
// P0=(0.1,1.1) P1=(0.2,1.3) P4=(0.5,1.9) lie on y = 2x + 0.9 as decimals; as f64 values
// orient(P0,P1,P4) = CCW, so walking the upper-left chain P4 -> P1 -> P0 (counter-clockwise
// around the hull) turns CLOCKWISE at P1: P1 is strictly inside the hull.
// Expected hull vertices (exact): {(-1.2,-2.4), (1.2,2.4), (0.5,1.9), (0.1,1.1)}.
// Got ring: [(1.2,2.4), (0.5,1.9), (0.2,1.3), (0.1,1.1), (-1.2,-2.4), (1.2,2.4)].
// ---------------------------------------------------------------------------------------------
#[test]
fn c08_f2_one_decimal_f64_points_hull_is_not_convex() {
    let pts = vec![
        c(0.1, 1.1),
        c(0.2, 1.3),
        c(-1.2, -2.4),
        c(1.2, 2.4),
        c(0.5, 1.9),
    ];
    // the chain P4 -> P1 -> P0 turns clockwise at P1 (equivalently P1 is strictly left of the
    // hull edge P4 -> P0), i.e. P1 is strictly inside the hull:
    assert_eq!(orient(pts[4], pts[1], pts[0]), Orientation::Clockwise);
    let expected = sorted(vec![pts[0], pts[2], pts[3], pts[4]]);

    let g = graham_hull(&mut pts.clone(), false);
    assert_eq!(check_statement(&pts, &g), Ok(()));
    assert_eq!(vertex_set(&g), expected);

    let hull = LineString::new(pts.clone()).convex_hull();
    let ring = hull.exterior();
    // the library's own predicate agrees that the result is not convex
    assert!(
        ring.is_ccw_convex(),
        "convex_hull() returned a ring that is not convex: {:?}",
        ring.0
    );
    assert_eq!(check_statement(&pts, ring), Ok(()));
    assert_eq!(vertex_set(ring), expected);
}

// ---------------------------------------------------------------------------------------------
// Finding 3 (in domain): integer-valued coordinates, exact ties of the farthest-point search are
// broken by rounding -> a point in the middle of a collinear run on the hull boundary is kept
// (the defect that commit 6fdf8b23 repaired for small coordinates is still there as soon as the
// dot products round: |coordinates| of a few thousand in f32, ~1e8 in f64).
//
// f32: MULTIPOINT(-374 894, -200 716, 3571 5209, 589 1579, 1378 2442)
//   (-200,716) + (789,863) = (589,1579), + (789,863) = (1378,2442): exactly collinear, and
//   parallel to the chord (-374,894) -> (3571,5209) = 5 * (789,863).
//   Expected hull vertices: {(-374,894), (-200,716), (1378,2442), (3571,5209)}
//   Got: (589,1579) is a vertex too, between (-200,716) and (1378,2442).
// ---------------------------------------------------------------------------------------------
#[test]
fn c08_f3_f32_integer_coordinates_collinear_point_kept() {
    let pts: Vec<Coord<f32>> = vec![
        c(-374.0, 894.0),
        c(-200.0, 716.0),
        c(3571.0, 5209.0),
        c(589.0, 1579.0),
        c(1378.0, 2442.0),
    ];
    assert_eq!(orient(pts[1], pts[3], pts[4]), Orientation::Collinear);
    let expected = sorted(vec![pts[0], pts[1], pts[2], pts[4]]);

    let g = graham_hull(&mut pts.clone(), false);
    assert_eq!(check_statement(&pts, &g), Ok(()));
    assert_eq!(vertex_set(&g), expected);

    let hull = multi_point(&pts).convex_hull();
    let ring = hull.exterior();
    assert_eq!(check_statement(&pts, ring), Ok(()), "ring = {:?}", ring.0);
    assert_eq!(vertex_set(ring), expected);
    assert!(ring.is_strictly_ccw_convex());
}

// f64: MULTIPOINT(71469584 120344731, 6654340 -21174926, -638245 29072479,
//                 30690283 9249158, 54726226 39673242)
//   (6654340,-21174926) + (24035943,30424084) = (30690283,9249158), + same = (54726226,39673242)
//   and the chord (-638245,29072479) -> (71469584,120344731) = (72107829,91272252)
//   = 3 * (24035943,30424084) is exactly parallel to that run.
//   Expected hull vertices: all but (30690283,9249158). Got: it is kept.
#[test]
fn c08_f3b_f64_integer_coordinates_collinear_point_kept() {
    let pts: Vec<Coord<f64>> = vec![
        c(71469584.0, 120344731.0),
        c(6654340.0, -21174926.0),
        c(-638245.0, 29072479.0),
        c(30690283.0, 9249158.0),
        c(54726226.0, 39673242.0),
    ];
    assert_eq!(orient(pts[1], pts[3], pts[4]), Orientation::Collinear);
    let expected = sorted(vec![pts[0], pts[1], pts[2], pts[4]]);

    let g = graham_hull(&mut pts.clone(), false);
    assert_eq!(check_statement(&pts, &g), Ok(()));
    assert_eq!(vertex_set(&g), expected);

    let q = quick_hull(&mut pts.clone());
    assert_eq!(check_statement(&pts, &q), Ok(()), "ring = {:?}", q.0);
    assert_eq!(vertex_set(&q), expected);
}

// ---------------------------------------------------------------------------------------------
// Finding 4 (in domain, "large coordinates where the farthest-point selection is subject to
// rounding" / mixed magnitudes): one far away point and three ordinary ones.
//
// MULTIPOINT(9000000000.1 8999999999.9, 4.7 8.0, 7.3 7.8, 6.8 7.3)
//
// min = (4.7,8.0), max = (9000000000.1,8999999999.9). Both remaining points are below the chord.
// The chord has slope 1 - 3.9e-10; P=(7.3,7.8) and Q=(6.8,7.3) both have x - y = -0.5, so Q
// (smaller x) is farther from the chord by ~2e-10 and P is strictly inside triangle(min, Q, max)
// (exact: orient(min,P,Q) = CW ... orient(max,min,Q)=CCW, see asserts).
// Expected hull vertices: {min, Q, max}. Got ring: [Q, P, Q, max, min, Q]: Q twice, P a vertex.
// hull_set computes `pt - a` with a = the far point, which rounds to a multiple of 2e-6.
// ---------------------------------------------------------------------------------------------
#[test]
fn c08_f4_mixed_magnitude_hull_repeats_a_vertex() {
    let far = c(9000000000.1, 8999999999.9);
    let min = c(4.7, 8.0);
    let p = c(7.3, 7.8);
    let q = c(6.8, 7.3);
    let pts = vec![far, min, p, q];
    // P strictly inside the counter-clockwise triangle min -> Q -> far
    assert_eq!(orient(min, q, far), Orientation::CounterClockwise);
    assert_eq!(orient(min, q, p), Orientation::CounterClockwise);
    assert_eq!(orient(q, far, p), Orientation::CounterClockwise);
    assert_eq!(orient(far, min, p), Orientation::CounterClockwise);
    let expected = sorted(vec![far, min, q]);

    let g = graham_hull(&mut pts.clone(), false);
    assert_eq!(check_statement(&pts, &g), Ok(()));
    assert_eq!(vertex_set(&g), expected);

    let hull = multi_point(&pts).convex_hull();
    let ring = hull.exterior();
    assert_eq!(check_statement(&pts, ring), Ok(()), "ring = {:?}", ring.0);
    assert_eq!(vertex_set(ring), expected);
}

// ---------------------------------------------------------------------------------------------
// Outside the statement, but surprising
// ---------------------------------------------------------------------------------------------

// (a) graham_hull(.., include_on_hull = true) is documented to return "all the points on the
// convex hull", but it drops the input points that lie on the LAST edge (the one that closes the
// ring back to the lexicographically least point): on that ray the points are sorted by
// increasing distance, so the nearer ones are popped as clockwise turns.
// Square with edge midpoints; expected all 8 points on the ring, got 7: (0,1) is missing.
#[test]
fn c08_x1_graham_include_on_hull_drops_points_on_closing_edge() {
    let pts: Vec<Coord<f64>> = vec![
        c(0., 0.),
        c(1., 0.),
        c(2., 0.),
        c(2., 1.),
        c(2., 2.),
        c(1., 2.),
        c(0., 2.),
        c(0., 1.),
    ];
    let g = graham_hull(&mut pts.clone(), true);
    assert!(g.is_ccw_convex());
    assert_eq!(
        vertex_set(&g),
        sorted(pts.clone()),
        "every input point is on the hull boundary; ring = {:?}",
        g.0
    );
}

// (b) four or more identical coordinates (no three non-collinear coordinates: outside the
// statement): graham_hull returns a LineString with ONE coordinate (not a valid LineString;
// trivial_hull takes care to return [P, P] for < 4 points, quick_hull returns [P, P]).
#[test]
fn c08_x2_graham_identical_points_one_coordinate_linestring() {
    let pts: Vec<Coord<f64>> = vec![c(1., 2.); 5];
    let q = quick_hull(&mut pts.clone());
    assert_eq!(q.0.len(), 2);
    let g = graham_hull(&mut pts.clone(), false);
    assert_eq!(g.0, q.0, "graham_hull of 5 identical points: {:?}", g.0);
}

// (c) finite coordinates of magnitude >= 1e155: the "exact" orientation predicate itself
// overflows (robust::orient2d), quick_hull silently drops the hull vertex (-0.3s, 0.9s) and
// graham_hull returns a two-point "ring", no error. (At 1e150 both are right.)
#[test]
fn c08_x3_huge_finite_coordinates_silently_wrong() {
    let s = 1e155;
    let pts: Vec<Coord<f64>> = vec![
        c(0., 0.),
        c(s, 0.),
        c(s, s),
        c(0., s),
        c(0.5 * s, 0.25 * s),
        c(0.25 * s, 0.75 * s),
        c(-s, -0.5 * s),
        c(-0.3 * s, 0.9 * s),
    ];
    // by hand (scale by 1/s): hull of (0,0),(1,0),(1,1),(0,1),(.5,.25),(.25,.75),(-1,-.5),(-.3,.9)
    // is (-1,-.5),(1,0),(1,1),(0,1),(-.3,.9)
    let expected = sorted(vec![
        c(-s, -0.5 * s),
        c(s, 0.),
        c(s, s),
        c(0., s),
        c(-0.3 * s, 0.9 * s),
    ]);
    let q = quick_hull(&mut pts.clone());
    let g = graham_hull(&mut pts.clone(), false);
    assert_eq!(vertex_set(&g), expected, "graham ring = {:?}", g.0);
    assert_eq!(vertex_set(&q), expected, "quick ring = {:?}", q.0);
}
