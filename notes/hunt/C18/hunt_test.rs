//! C18 bug hunt: structural invariants of the geometry types.
//!
//! Every test asserts the statement of the property on a concrete input; the expected value is
//! derived by hand in the comment next to it.

use geo::{coord, Coord, CoordsIter, LineString, Polygon, Rect, Triangle};
use std::panic::{catch_unwind, AssertUnwindSafe};

fn ring_closed<T: geo::CoordNum>(ls: &LineString<T>) -> bool {
    ls.0.first() == ls.0.last()
}

fn unit_square() -> Polygon<f64> {
    Polygon::new(
        LineString::from(vec![(0., 0.), (4., 0.), (4., 4.), (0., 4.), (0., 0.)]),
        vec![LineString::from(vec![
            (1., 1.),
            (2., 1.),
            (2., 2.),
            (1., 2.),
            (1., 1.),
        ])],
    )
}

// ---------------------------------------------------------------------------------------------
// Finding 1: the panic exit of the mutator closures leaves a ring open.
//
// The fallible mutators were repaired for the `Err` exit (fix dff2225e), and Rect::set_min /
// set_max were repaired for their panic exit (fix f41c07eb), but a closure that leaves by
// unwinding still skips the re-closing step of all four Polygon mutators. The Polygon is
// perfectly reachable afterwards (catch_unwind, a Mutex that is un-poisoned, a Drop impl, a
// thread-pool that catches panics such as rayon's).
// ---------------------------------------------------------------------------------------------

#[test]
fn exterior_mut_closure_panics_after_edit_ring_left_open() {
    let mut p = unit_square();
    let r = catch_unwind(AssertUnwindSafe(|| {
        p.exterior_mut(|ext| {
            // replace the first coordinate, then fail (e.g. an index out of range further on)
            ext.0[0] = coord! { x: -1., y: -1. };
            let idx = ext.0.len() + 10;
            ext.0[idx] = coord! { x: 0., y: 0. }; // panics: index out of bounds
        });
    }));
    assert!(r.is_err(), "closure was expected to panic");
    // statement: after ANY sequence of mutator calls every ring is closed.
    // first = (-1,-1), last = (0,0) unless the ring is re-closed -> expected last == (-1,-1)
    assert!(
        ring_closed(p.exterior()),
        "exterior ring is open after exterior_mut: first {:?} last {:?}",
        p.exterior().0.first(),
        p.exterior().0.last()
    );
}

#[test]
fn try_exterior_mut_closure_panics_after_edit_ring_left_open() {
    let mut p = unit_square();
    let r = catch_unwind(AssertUnwindSafe(|| {
        let _ = p.try_exterior_mut(|ext| -> Result<(), ()> {
            ext.0.pop(); // [(0,0),(4,0),(4,4),(0,4)] : open
            let v: Option<u8> = None;
            v.unwrap(); // the user's fallible code panics instead of returning Err
            Ok(())
        });
    }));
    assert!(r.is_err());
    // expected: ring closed again, i.e. last == first == (0,0)
    assert!(
        ring_closed(p.exterior()),
        "exterior ring is open after try_exterior_mut: {:?}",
        p.exterior()
    );
}

#[test]
fn interiors_mut_closure_panics_after_edit_ring_left_open() {
    let mut p = unit_square();
    let r = catch_unwind(AssertUnwindSafe(|| {
        p.interiors_mut(|ints| {
            ints[0].0.pop(); // [(1,1),(2,1),(2,2),(1,2)] : open
            let _ = &ints[1]; // panics: the polygon has only one hole
        });
    }));
    assert!(r.is_err());
    assert!(
        ring_closed(&p.interiors()[0]),
        "interior ring is open after interiors_mut: {:?}",
        p.interiors()[0]
    );
}

#[test]
fn try_interiors_mut_closure_panics_after_edit_ring_left_open() {
    let mut p = unit_square();
    let r = catch_unwind(AssertUnwindSafe(|| {
        let _ = p.try_interiors_mut(|ints| -> Result<(), String> {
            ints[0].0[0] = coord! { x: 1.5, y: 1.5 };
            let _ = &ints[1]; // panics
            Ok(())
        });
    }));
    assert!(r.is_err());
    assert!(
        ring_closed(&p.interiors()[0]),
        "interior ring is open after try_interiors_mut: {:?}",
        p.interiors()[0]
    );
}

/// Consequence of the open ring: an algorithm that walks the ring segments silently drops the
/// closing edge. Shoelace area of the square (0,0),(4,0),(4,4),(0,4) is 16; with the closing
/// coordinate popped and not restored the last edge (0,4)->(0,0) is missing from `lines()`.
#[test]
fn open_ring_after_panicking_closure_loses_the_closing_edge() {
    use geo::LinesIter;
    let mut p = Polygon::new(
        LineString::from(vec![(0., 0.), (4., 0.), (4., 4.), (0., 4.), (0., 0.)]),
        vec![],
    );
    let _ = catch_unwind(AssertUnwindSafe(|| {
        p.exterior_mut(|ext| {
            ext.0.pop();
            panic!("user code failed");
        });
    }));
    // a closed quadrilateral has 4 boundary segments
    assert_eq!(p.lines_iter().count(), 4, "ring: {:?}", p.exterior());
}

// ---------------------------------------------------------------------------------------------
// Finding 2: the two Rect -> Polygon conversions disagree about the coordinate order.
//
// A Rect "stores and returns (by iterators) its coordinates in CCW order" starting at
// (max.x, min.y): that is the order of Rect::coords_iter(), Rect::to_lines() and
// Rect::to_polygon(). `Polygon::from(rect)` / `rect.into()` starts at (min.x, min.y) instead,
// so "Rect to Polygon" does not preserve the order of the coordinates, and the two conversions of
// one and the same Rect are not even equal to each other.
// ---------------------------------------------------------------------------------------------

#[test]
fn rect_into_polygon_differs_from_rect_to_polygon() {
    let r = Rect::new(coord! { x: 0., y: 0. }, coord! { x: 1., y: 2. });
    let via_from: Polygon<f64> = r.into();
    let via_method = r.to_polygon();
    // Both are "the Polygon equivalent to r"; equal representations => equal values.
    // to_polygon (documented): (1,0),(1,2),(0,2),(0,0),(1,0)
    assert_eq!(via_from, via_method);
}

#[test]
fn rect_into_polygon_does_not_preserve_rect_coordinate_order() {
    let r = Rect::new(coord! { x: 0, y: 0 }, coord! { x: 1, y: 2 });
    // the Rect's own coordinate order: (1,0),(1,2),(0,2),(0,0)
    let rect_coords: Vec<Coord<i32>> = r.coords_iter().collect();
    assert_eq!(
        rect_coords,
        vec![
            coord! { x: 1, y: 0 },
            coord! { x: 1, y: 2 },
            coord! { x: 0, y: 2 },
            coord! { x: 0, y: 0 }
        ]
    );
    let p: Polygon<i32> = Polygon::from(r);
    // expected: the same coordinates in the same order, followed by the closing coordinate
    let poly_coords: Vec<Coord<i32>> = p.exterior().0[..4].to_vec();
    assert_eq!(poly_coords, rect_coords);
}

#[test]
fn rect_into_polygon_segments_differ_from_rect_to_lines() {
    use geo::LinesIter;
    let r = Rect::new(coord! { x: 0., y: 0. }, coord! { x: 1., y: 2. });
    let p: Polygon<f64> = r.into();
    let from_rect: Vec<_> = r.to_lines().to_vec();
    let from_poly: Vec<_> = p.lines_iter().collect();
    // a conversion that preserves the coordinates and their order preserves the segment sequence
    assert_eq!(from_poly, from_rect);
}

// ---------------------------------------------------------------------------------------------
// Arguably outside the statement, but surprising
// ---------------------------------------------------------------------------------------------

/// Triangle::new on an unsigned coordinate type: the orientation test subtracts coordinates and
/// underflows. (0,0),(0,1),(1,0) are three distinct, non collinear u32 coordinates in cw order:
/// cross = (0-0)*(0-0) - (1-0)*(1-0) = -1 < 0, so the documented result is the reversed, ccw
/// triangle (1,0),(0,1),(0,0). Got: panic 'attempt to subtract with overflow' in debug; in
/// release the difference wraps to 2^32-1 > 0 and the triangle stays cw.
#[test]
fn outside_triangle_new_unsigned_underflows() {
    let r = catch_unwind(|| {
        Triangle::new(
            coord! { x: 0u32, y: 0u32 },
            coord! { x: 0u32, y: 1u32 },
            coord! { x: 1u32, y: 0u32 },
        )
    });
    let t = r.expect("Triangle::<u32>::new panicked");
    assert_eq!(
        t.to_array(),
        [
            coord! { x: 1, y: 0 },
            coord! { x: 0, y: 1 },
            coord! { x: 0, y: 0 }
        ]
    );
}

/// Same for a signed type with large (but representable) coordinates: the i32 product
/// 50000 * 50000 = 2.5e9 > i32::MAX. The input is ccw, so it must be kept as is. Got: panic
/// 'attempt to multiply with overflow' in debug; in release the product wraps to -1794967296 and
/// the ccw triangle is reversed into a cw one.
#[test]
fn outside_triangle_new_i32_overflows() {
    let r = catch_unwind(|| {
        Triangle::new(
            coord! { x: 0i32, y: 0i32 },
            coord! { x: 50_000i32, y: 0i32 },
            coord! { x: 0i32, y: 50_000i32 },
        )
    });
    let t = r.expect("Triangle::<i32>::new panicked");
    assert_eq!(
        t.to_array(),
        [
            coord! { x: 0, y: 0 },
            coord! { x: 50_000, y: 0 },
            coord! { x: 0, y: 50_000 }
        ]
    );
}

/// A NaN in the first coordinate of a ring: the ring can never be "closed", and every mutator
/// call (even one that does nothing) appends one more coordinate, so the ring grows without bound.
#[test]
fn outside_nan_ring_grows_on_every_noop_mutation() {
    let mut p = Polygon::new(
        LineString::from(vec![(f64::NAN, 0.), (1., 0.), (1., 1.)]),
        vec![],
    );
    let n0 = p.exterior().0.len();
    for _ in 0..5 {
        p.exterior_mut(|_| {});
    }
    // a no-op closure should leave the polygon unchanged
    assert_eq!(p.exterior().0.len(), n0);
}

/// Rect::new with a NaN: min <= max does not hold and the NaN ends up in `max` or `min`
/// depending on the argument order.
#[test]
fn outside_rect_new_nan_depends_on_argument_order() {
    let a = Rect::new((f64::NAN, 0.), (1., 1.));
    let b = Rect::new((1., 1.), (f64::NAN, 0.));
    // the same two corners in the other order should give the same Rect (bitwise)
    assert_eq!(
        (a.min().x.to_bits(), a.max().x.to_bits()),
        (b.min().x.to_bits(), b.max().x.to_bits())
    );
}

/// A Triangle built with the public tuple constructor (or From<[_; 3]>) in cw order keeps that
/// order although the type documents "irrespective of input order the resulting geometry has
/// ccw order", so Polygon::from(triangle) is cw for one constructor and ccw for the other.
#[test]
fn outside_triangle_from_array_keeps_cw_order() {
    let cw = [(0., 0.), (0., 1.), (1., 0.)];
    let a: Triangle<f64> = Triangle::from(cw);
    let b = Triangle::new(cw[0].into(), cw[1].into(), cw[2].into());
    assert_eq!(Polygon::from(a), Polygon::from(b));
}

/// map_coords with the identity function (and therefore `Convert`, e.g. f32 -> f64) reverses the
/// vertex order of a Triangle that was built in cw order through the public tuple constructor.
#[test]
fn outside_identity_map_coords_reverses_cw_triangle() {
    use geo::MapCoords;
    let t: Triangle<f64> = Triangle(
        coord! { x: 0., y: 0. },
        coord! { x: 0., y: 1. },
        coord! { x: 1., y: 0. },
    );
    let same = t.map_coords(|c| c);
    assert_eq!(same, t);
}

// ---------------------------------------------------------------------------------------------
// Outside the quantified domain (needs `--features use-serde`): the derived Deserialize impls
// are public constructors that bypass Polygon::new / Rect::new altogether.
//   cargo test -p geo --test hunt_c18 --offline --features use-serde
// ---------------------------------------------------------------------------------------------
#[cfg(feature = "use-serde")]
mod serde_bypass {
    use geo::{Polygon, Rect};
    use serde::de::value::{Error, SeqDeserializer};
    use serde::de::{Deserialize, Deserializer, IntoDeserializer, Visitor};
    use serde::forward_to_deserialize_any;

    /// a minimal self-describing value: number or sequence (what JSON `[[..],[..]]` would give)
    #[derive(Clone)]
    enum V {
        F(f64),
        S(Vec<V>),
    }
    impl<'de> IntoDeserializer<'de, Error> for V {
        type Deserializer = V;
        fn into_deserializer(self) -> V {
            self
        }
    }
    impl<'de> Deserializer<'de> for V {
        type Error = Error;
        fn deserialize_any<W: Visitor<'de>>(self, v: W) -> Result<W::Value, Error> {
            match self {
                V::F(x) => v.visit_f64(x),
                V::S(s) => v.visit_seq(SeqDeserializer::new(s.into_iter())),
            }
        }
        forward_to_deserialize_any! {
            bool i8 i16 i32 i64 i128 u8 u16 u32 u64 u128 f32 f64 char str string bytes byte_buf
            option unit unit_struct newtype_struct seq tuple tuple_struct map struct enum
            identifier ignored_any
        }
    }
    fn c(x: f64, y: f64) -> V {
        V::S(vec![V::F(x), V::F(y)])
    }

    #[test]
    fn outside_deserialized_rect_has_min_greater_than_max() {
        // Rect { min: (10,10), max: (0,0) } as the sequence [[10,10],[0,0]]
        let r = Rect::<f64>::deserialize(V::S(vec![c(10., 10.), c(0., 0.)])).unwrap();
        assert!(
            r.min().x <= r.max().x && r.min().y <= r.max().y,
            "min {:?} max {:?}",
            r.min(),
            r.max()
        );
    }

    #[test]
    fn outside_deserialized_polygon_ring_is_open() {
        // Polygon { exterior: LineString([(0,0),(1,0),(1,1)]), interiors: [] }
        // (a newtype struct read from a sequence takes its single field from element 0)
        let ring = V::S(vec![V::S(vec![c(0., 0.), c(1., 0.), c(1., 1.)])]);
        let p = Polygon::<f64>::deserialize(V::S(vec![ring, V::S(vec![])])).unwrap();
        assert_eq!(p.exterior().0.len(), 3, "deserialized as intended");
        assert!(
            p.exterior().0.first() == p.exterior().0.last(),
            "open ring: {:?}",
            p.exterior()
        );
    }
}
