//! C10 hunt: triangulations and the monotone subdivision tile the polygon exactly.
//!
//! Every test asserts the statement of the property on a concrete input, with the expected
//! value derived by hand in the comments. All of them FAIL on the unmodified library.
use geo::algorithm::monotone::monotone_subdivision;
use geo::triangulate_delaunay::TriangulateDelaunay;
use geo::{
    Area, Coord, Intersects, LineString, Polygon, StitchTriangles, Triangle, TriangulateEarcut,
    Validation,
};

fn ring<T: geo::CoordNum>(pts: &[(T, T)]) -> LineString<T> {
    LineString::new(pts.iter().map(|&(x, y)| Coord { x, y }).collect())
}

/// Twice the area of a triangle, computed from coordinate differences relative to `o`
/// (exact for integer-valued coordinates close to `o`, whatever the magnitude of `o`).
fn tri_area2<T: geo::CoordFloat>(t: &Triangle<T>, o: Coord<T>) -> f64 {
    let f = |c: Coord<T>| {
        (
            (c.x - o.x).to_f64().unwrap(),
            (c.y - o.y).to_f64().unwrap(),
        )
    };
    let (a, b, c) = (f(t.0), f(t.1), f(t.2));
    ((b.0 - a.0) * (c.1 - a.1) - (c.0 - a.0) * (b.1 - a.1)).abs()
}

// ---------------------------------------------------------------------------------------------
// Finding 1: stitching the ear-cut triangulation of a valid polygon (rings do not touch) does
// not give back a multipolygon of the same area.
//
//   shell (3 1, 5 0, 7 6)            twice its area: |(5-3)(6-1) - (7-3)(0-1)| = 14
//   hole  (4 1, 5 1, 5 2)            twice its area: 1
//   => area of the polygon = (14 - 1) / 2 = 6.5
//
// The hole lies strictly inside the shell (it does not touch it). Its lower edge (4 1)-(5 1) is
// collinear with the shell vertex (3 1). earcut returns 5 triangles that do tile the polygon
// (their areas add up to 6.5), but triangle (5 0, 3 1, 5 1) has the hole vertex (4 1) in the
// middle of its edge (3 1)-(5 1), while its neighbour (5 2, 4 1, 3 1) only uses (3 1)-(4 1).
// `stitch_triangulation` only cancels *identical* edges, so the boundary it reconstructs contains
// a spike (3 1)-(4 1) and it returns two polygons, each being the other's hole.
// ---------------------------------------------------------------------------------------------
#[test]
fn c10_stitch_of_earcut_triangulation_has_wrong_area() {
    let p: Polygon<f64> = Polygon::new(
        ring(&[(3., 1.), (5., 0.), (7., 6.), (3., 1.)]),
        vec![ring(&[(4., 1.), (5., 1.), (5., 2.), (4., 1.)])],
    );
    assert!(p.is_valid());
    assert!(!p.exterior().intersects(&p.interiors()[0]), "rings do not touch");
    assert_eq!(p.unsigned_area(), 6.5);

    let tris = p.earcut_triangles();
    // the triangulation itself is a tiling of the polygon as far as areas are concerned
    let sum: f64 = tris.iter().map(|t| t.unsigned_area()).sum();
    assert_eq!(sum, 6.5);

    let stitched = tris
        .stitch_triangulation()
        .expect("stitching a triangulation of a valid polygon succeeds");
    assert_eq!(
        stitched.unsigned_area(),
        6.5,
        "stitched back: {stitched:?} ({} polygons)",
        stitched.0.len()
    );
}

// ---------------------------------------------------------------------------------------------
// Finding 2: earcut panics for a valid polygon that has an empty interior ring.
//
// A 6x6 square with one real hole (unit square) and one interior ring without coordinates.
// `is_valid()` accepts it, its area is 36 - 1 = 35, the constrained Delaunay triangulation and
// the monotone subdivision both return pieces of total area 35. `earcut_triangles` pushes the
// start index of the empty ring (== number of vertices) into the hole index list it hands to
// `earcutr`, which answers `Err(Unknown)`; the `unwrap()` panics (debug builds already stop at
// `debug_assert!(interior.0.len() >= 4)`).
// ---------------------------------------------------------------------------------------------
#[test]
fn c10_earcut_panics_on_empty_interior_ring() {
    let p: Polygon<f64> = Polygon::new(
        ring(&[(0., 0.), (6., 0.), (6., 6.), (0., 6.), (0., 0.)]),
        vec![
            ring(&[(1., 1.), (2., 1.), (2., 2.), (1., 2.), (1., 1.)]),
            LineString::new(vec![]),
        ],
    );
    assert!(p.is_valid());
    assert_eq!(p.unsigned_area(), 35.0);
    // the sibling algorithms handle the degenerate member
    let cdt = p.constrained_triangulation(Default::default()).unwrap();
    assert_eq!(cdt.iter().map(|t| t.unsigned_area()).sum::<f64>(), 35.0);
    let mono = monotone_subdivision([p.clone()]);
    assert_eq!(
        mono.into_iter()
            .map(|m| m.into_polygon().unsigned_area())
            .sum::<f64>(),
        35.0
    );

    let q = p.clone();
    let tris = std::panic::catch_unwind(move || q.earcut_triangles());
    let tris = tris.expect("earcut_triangles must not panic for a valid polygon");
    assert_eq!(tris.iter().map(|t| t.unsigned_area()).sum::<f64>(), 35.0);
}

// ---------------------------------------------------------------------------------------------
// Finding 3: constrained Delaunay triangulation at a large offset keeps / drops the wrong
// triangles (f32 at 1 000 000, f64 at 2^50). All coordinates below are integers that are
// exactly representable in the coordinate type.
//
// (a) f32, offset o = 1 000 000 in x and y, triangle  (4 7) (0 8) (13 5):
//       twice the area = |(0-4)(5-7) - (13-4)(8-7)| = |8 - 9| = 1.
//     The polygon is a single triangle, so the triangulation must be that one triangle.
// (b) f32, offset o = 1 000 000, quadrilateral (3 11) (11 0) (11 7) (0 15), concave at (3 11):
//       shoelace: 3*0-11*11 = -121; 11*7-11*0 = 77; 11*15-0*7 = 165; 0*11-3*15 = -45  => 76.
//     The convex hull adds the pocket triangle (0 15) (3 11) (11 0) of twice-area
//     |(3-0)(0-15) - (11-0)(11-15)| = |-45 + 44| = 1. The pocket is outside the polygon and must
//     not be part of the result (sum must be 76, not 77).
// (c) f64, offset o = 2^50, triangle (5 3) (1 2) (2 2): twice the area = |(1-5)(2-3) - (2-5)(2-3)|
//     = |4 - 3| = 1.
// Triangles are selected by testing the *rounded* centroid (a+b+c)/3 against the polygon.
// ---------------------------------------------------------------------------------------------
#[test]
fn c10_cdt_large_offset_wrong_triangle_selection() {
    let mut failures = vec![];

    // (a)
    let o = 1_000_000f32;
    let oc = Coord { x: o, y: o };
    let tri: Polygon<f32> = Polygon::new(
        ring(&[(o + 4., o + 7.), (o + 0., o + 8.), (o + 13., o + 5.), (o + 4., o + 7.)]),
        vec![],
    );
    assert!(tri.is_valid());
    let t = tri.constrained_triangulation(Default::default()).unwrap();
    let sum: f64 = t.iter().map(|t| tri_area2(t, oc)).sum();
    if t.len() != 1 || sum != 1.0 {
        failures.push(format!(
            "(a) f32 triangle at 1e6: expected 1 triangle of twice-area 1, got {} triangles, twice-area {sum}",
            t.len()
        ));
    }

    // (b)
    let quad: Polygon<f32> = Polygon::new(
        ring(&[
            (o + 3., o + 11.),
            (o + 11., o + 0.),
            (o + 11., o + 7.),
            (o + 0., o + 15.),
            (o + 3., o + 11.),
        ]),
        vec![],
    );
    assert!(quad.is_valid());
    let t = quad.constrained_triangulation(Default::default()).unwrap();
    let sum: f64 = t.iter().map(|t| tri_area2(t, oc)).sum();
    if sum != 76.0 {
        failures.push(format!(
            "(b) f32 concave quadrilateral at 1e6: expected twice-area 76, got {sum} from {t:?}"
        ));
    }

    // (c)
    let o = 1125899906842624f64; // 2^50, ulp = 0.25
    let oc = Coord { x: o, y: o };
    let tri: Polygon<f64> = Polygon::new(
        ring(&[(o + 5., o + 3.), (o + 1., o + 2.), (o + 2., o + 2.), (o + 5., o + 3.)]),
        vec![],
    );
    assert!(tri.is_valid());
    let t = tri.constrained_triangulation(Default::default()).unwrap();
    let sum: f64 = t.iter().map(|t| tri_area2(t, oc)).sum();
    if t.len() != 1 || sum != 1.0 {
        failures.push(format!(
            "(c) f64 triangle at 2^50: expected 1 triangle of twice-area 1, got {} triangles, twice-area {sum}",
            t.len()
        ));
    }

    assert!(failures.is_empty(), "{}", failures.join("\n"));
}

// ---------------------------------------------------------------------------------------------
// Finding 4: earcut returns no triangles at all for a triangle at a large offset.
//
// (a) f32, offset 1 000 000: triangle (5 4) (9 1) (0 8):
//       twice the area = |(9-5)(8-4) - (0-5)(1-4)| = |16 - 15| = 1
// (b) f64, offset 2^50: triangle (0 6) (5 5) (1 6): twice the area = |(5)(0) - (1)(-1)| = 1
// The only possible triangulation is the triangle itself.
// ---------------------------------------------------------------------------------------------
#[test]
fn c10_earcut_large_offset_returns_nothing() {
    let mut failures = vec![];

    let o = 1_000_000f32;
    let tri: Polygon<f32> = Polygon::new(
        ring(&[(o + 5., o + 4.), (o + 9., o + 1.), (o + 0., o + 8.), (o + 5., o + 4.)]),
        vec![],
    );
    assert!(tri.is_valid());
    let t = tri.earcut_triangles();
    let sum: f64 = t.iter().map(|t| tri_area2(t, Coord { x: o, y: o })).sum();
    if t.len() != 1 || sum != 1.0 {
        failures.push(format!(
            "(a) f32 triangle at 1e6: expected 1 triangle of twice-area 1, got {} triangles, twice-area {sum}",
            t.len()
        ));
    }

    let o = 1125899906842624f64; // 2^50
    let tri: Polygon<f64> = Polygon::new(
        ring(&[(o + 0., o + 6.), (o + 5., o + 5.), (o + 1., o + 6.), (o + 0., o + 6.)]),
        vec![],
    );
    assert!(tri.is_valid());
    let t = tri.earcut_triangles();
    let sum: f64 = t.iter().map(|t| tri_area2(t, Coord { x: o, y: o })).sum();
    if t.len() != 1 || sum != 1.0 {
        failures.push(format!(
            "(b) f64 triangle at 2^50: expected 1 triangle of twice-area 1, got {} triangles, twice-area {sum}",
            t.len()
        ));
    }

    assert!(failures.is_empty(), "{}", failures.join("\n"));
}

// ---------------------------------------------------------------------------------------------
// Finding 5 (debug builds only): earcut panics on the empty polygon.
//
// `Polygon::new(LineString::new(vec![]), vec![])` is accepted by `is_valid()`; its area is 0 and
// the only tiling is the empty list, which is what the release build, the constrained Delaunay
// triangulation and the monotone subdivision return. With debug assertions enabled
// `polygon_to_earcutr_input` stops at `debug_assert!(polygon.exterior().0.len() >= 4)`.
// ---------------------------------------------------------------------------------------------
#[test]
fn c10_earcut_empty_polygon_debug_assert() {
    let p: Polygon<f64> = Polygon::new(LineString::new(vec![]), vec![]);
    assert!(p.is_valid());
    assert!(p.constrained_triangulation(Default::default()).unwrap().is_empty());
    assert!(monotone_subdivision([p.clone()]).is_empty());
    let tris = std::panic::catch_unwind(move || p.earcut_triangles());
    let tris = tris.expect("earcut_triangles must not panic for the empty polygon");
    assert!(tris.is_empty());
}

// =============================================================================================
// Arguably OUTSIDE the statement (documented `snap_radius`, default 1e-4; the statement speaks of
// small integer grids and large offsets, not of small scales), but surprising.
// =============================================================================================

// A valid square of side 5e-5: every vertex is within the default snap radius of the first one,
// so all four are merged and the constrained triangulation is empty (earcut returns 2 triangles).
#[test]
fn outside_cdt_default_snap_radius_swallows_small_polygon() {
    let s = 5e-5;
    let p: Polygon<f64> = Polygon::new(
        ring(&[(0., 0.), (s, 0.), (s, s), (0., s), (0., 0.)]),
        vec![],
    );
    assert!(p.is_valid());
    assert_eq!(p.earcut_triangles().len(), 2);
    let t = p.constrained_triangulation(Default::default()).unwrap();
    assert_eq!(t.len(), 2, "constrained triangulation of a 5e-5 square: {t:?}");
}

// A unit square with a V-shaped notch cut into its top edge; the mouth of the notch is 8e-5 wide
// ((0.49996 1) .. (0.50004 1)), the tip is (0.5 0.5). Area = 1 - 8e-5 * 0.5 / 2 = 0.99998.
// The two mouth vertices are merged, the notch disappears and the triangles cover the full
// square (area 1), i.e. one of them covers the notch which is outside the polygon.
#[test]
fn outside_cdt_default_snap_radius_fills_narrow_notch() {
    let p: Polygon<f64> = Polygon::new(
        ring(&[
            (0., 0.),
            (1., 0.),
            (1., 1.),
            (0.50004, 1.),
            (0.5, 0.5),
            (0.49996, 1.),
            (0., 1.),
            (0., 0.),
        ]),
        vec![],
    );
    assert!(p.is_valid());
    let t = p.constrained_triangulation(Default::default()).unwrap();
    let sum: f64 = t.iter().map(|t| t.unsigned_area()).sum();
    assert!(
        (sum - 0.99998).abs() < 1e-12,
        "area of the constrained triangulation {sum}, area of the polygon 0.99998"
    );
}

// Three holes that touch each other pairwise, at (6 4), (3 2) and (4 5), and so cut the pocket
// (6 4) (5 3) (3 2) (4 5) ... off the rest of the interior. By the documented definition the
// polygon is invalid (its interior is not connected), but `is_valid()` does not check that
// clause and answers `true`. Stitching its constrained Delaunay triangulation gives a
// multipolygon of a very different area, although the triangles themselves tile the polygon.
#[test]
fn outside_stitch_cdt_of_polygon_with_pocket_between_touching_holes() {
    let p: Polygon<f64> = Polygon::new(
        ring(&[(4., 8.), (1., 4.), (4., 1.), (6., 4.), (7., 6.), (4., 8.)]),
        vec![
            ring(&[(6., 4.), (3., 2.), (5., 3.), (6., 4.)]),
            ring(&[(3., 4.), (3., 2.), (4., 5.), (3., 4.)]),
            ring(&[(5., 6.), (4., 5.), (6., 4.), (5., 6.)]),
        ],
    );
    assert!(p.is_valid(), "the validator accepts the polygon");
    let area = p.unsigned_area();
    let t = p.constrained_triangulation(Default::default()).unwrap();
    assert_eq!(t.iter().map(|t| t.unsigned_area()).sum::<f64>(), area);
    let stitched = t.stitch_triangulation().unwrap();
    assert_eq!(stitched.unsigned_area(), area, "stitched: {stitched:?}");
}
