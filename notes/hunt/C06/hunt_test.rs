//! C06 bug hunt: "Centroid is the centre of mass of the highest-dimensional part".
//!
//! Every test asserts the statement of the property on one concrete input and FAILS on the
//! unmodified library. The expected values are derived by hand in the comments.
//!
//! Tests `c06_f1` .. `c06_f4` are inside the quantified domain; `c06_x*` are the "arguable" ones.

use geo::{
    coord, Centroid, Coord, Geometry, GeometryCollection, Line, LineString, Point, Polygon, Triangle,
    Validation,
};
use geo::CoordsIter;

/// Necessary condition for "lies within the convex hull": lies within the bounding box, with a
/// slack of 1e-9 of the extent of the geometry.
fn assert_in_bbox<G: CoordsIter<Scalar = f64>>(g: &G, c: Point<f64>, what: &str) {
    let (mut x0, mut x1, mut y0, mut y1) = (f64::MAX, f64::MIN, f64::MAX, f64::MIN);
    for p in g.coords_iter() {
        x0 = x0.min(p.x);
        x1 = x1.max(p.x);
        y0 = y0.min(p.y);
        y1 = y1.max(p.y);
    }
    let slack = 1e-9 * (x1 - x0).max(y1 - y0);
    assert!(
        c.x().is_finite()
            && c.y().is_finite()
            && c.x() >= x0 - slack
            && c.x() <= x1 + slack
            && c.y() >= y0 - slack
            && c.y() <= y1 + slack,
        "{what}: centroid {c:?} is outside the bounding box [{x0}, {x1}] x [{y0}, {y1}]"
    );
}

fn assert_close(got: Point<f64>, want: (f64, f64), tol: f64, what: &str) {
    assert!(
        (got.x() - want.0).abs() <= tol && (got.y() - want.1).abs() <= tol,
        "{what}: got {got:?}, expected ({}, {}) +- {tol}",
        want.0,
        want.1
    );
}

// ---------------------------------------------------------------------------------------------
// F1  Triangle::centroid is NaN for a triangle whose rounded area is 0 although its vertices are
//     not collinear.
//
// `Triangle::dimensions()` uses the robust orientation predicate, `Triangle::unsigned_area()` the
// rounded cross product. When the first says "not collinear" and the second says 0 the member is
// accumulated as TwoDimensional with weight 0, and `accumulated / weight` is 0/0.
// ---------------------------------------------------------------------------------------------
#[test]
fn c06_f1_triangle_centroid_nan() {
    // (a) Three decimal coordinates nominally on the line x + y = 1. As binary doubles they are not
    // collinear (exact cross product (b-a)x(c-a) = -1.67e-17), so this is a genuine, very thin
    // triangle; its centre of mass is the vertex mean
    //     ((0.1+0.2+0.8)/3, (0.9+0.8+0.2)/3) = (0.36667, 0.63333).
    // (If one prefers to regard it as flat, the centroid of the outline is (0.45, 0.55).)
    // Either way the result has to be a finite point inside [0.1, 0.8] x [0.2, 0.9].
    let t = Triangle::new(
        coord! {x: 0.1, y: 0.9},
        coord! {x: 0.2, y: 0.8},
        coord! {x: 0.8, y: 0.2},
    );
    let c = t.centroid();
    assert_in_bbox(&t, c, "TRIANGLE(0.1 0.9,0.2 0.8,0.8 0.2)");

    // (b) the same through the Geometry enum: must be Some(finite point)
    let c = Geometry::Triangle(t).centroid().unwrap();
    assert!(c.x().is_finite() && c.y().is_finite(), "Geometry::Triangle: {c:?}");
}

#[test]
fn c06_f1b_triangle_sliver_nan_exact_binary() {
    // Exactly representable coordinates, no decimal conversion involved:
    //   a = (0,0), b = (1+2^-52, 1), c = (1, 1-2^-53)
    //   b x c = (1+2^-52)(1-2^-53) - 1 = 2^-53 - 2^-105 > 0   -> a valid CCW triangle
    // but fl((1+2^-52)(1-2^-53)) = 1, so the rounded area is 0.
    // Centre of mass = vertex mean = ((2+2^-52)/3, (2-2^-53)/3) = (0.6667, 0.6667).
    let e = f64::EPSILON; // 2^-52
    let t = Triangle::new(
        coord! {x: 0.0, y: 0.0},
        coord! {x: 1.0 + e, y: 1.0},
        coord! {x: 1.0, y: 1.0 - e / 2.0},
    );
    let c = t.centroid();
    assert_close(c, (2.0 / 3.0, 2.0 / 3.0), 1e-12, "sliver triangle");
}

#[test]
fn c06_f1c_collection_with_sliver_triangle_nan() {
    // The zero-weight TwoDimensional member also poisons a collection: the triangle (area about
    // 1e-17) dominates the line by dimension, so the answer is the triangle's centroid
    // (0.36667, 0.63333); a reading that treats the triangle as flat gives a point between 0 and 1
    // too. Got: NaN.
    let t = Triangle::new(
        coord! {x: 0.1, y: 0.9},
        coord! {x: 0.2, y: 0.8},
        coord! {x: 0.8, y: 0.2},
    );
    let gc = GeometryCollection::new_from(vec![
        Geometry::Triangle(t),
        Geometry::Line(Line::new((0.0, 0.0), (1.0, 0.0))),
    ]);
    let c = gc.centroid().unwrap();
    assert_in_bbox(&gc, c, "GEOMETRYCOLLECTION(TRIANGLE(...), LINE(0 0,1 0))");
}

// ---------------------------------------------------------------------------------------------
// F2  A (nominally flat) polygon written with decimal coordinates gets a centroid far outside
//     its convex hull.
//
// The earlier fix (df4ad52e) recognises rings that are EXACTLY collinear. Decimal coordinates on a
// common line are not exactly collinear once converted to binary, so the ring is treated as areal
// and both the area and the moment are rounding noise.
// ---------------------------------------------------------------------------------------------
#[test]
fn c06_f2_decimal_flat_polygon_centroid_outside_hull() {
    // Four points of the line x + y = 1, out along the line and back:
    //   POLYGON((0.2 0.8, 0.3 0.7, 1.0 0.0, 0.9 0.1, 0.2 0.8))
    // Nominally a flat polygon: the centroid of its outline is the midpoint of (0.2 0.8)-(1.0 0.0),
    // i.e. (0.6, 0.4). Taken literally as binary doubles it is a VALID simple quadrilateral
    // (geo's own `is_valid` agrees) of area 5.0e-17 whose exact centre of mass is (0.5333, 0.4667).
    // Under both readings the centroid lies in [0.2, 1.0] x [0.0, 0.8].
    // Got: (1.3, -0.3).
    let poly = Polygon::new(
        LineString::from(vec![(0.2, 0.8), (0.3, 0.7), (1.0, 0.0), (0.9, 0.1), (0.2, 0.8)]),
        vec![],
    );
    assert!(poly.is_valid());
    let c = poly.centroid().unwrap();
    assert_in_bbox(&poly, c, "POLYGON((0.2 0.8,0.3 0.7,1.0 0.0,0.9 0.1,0.2 0.8))");
}

#[test]
fn c06_f2b_decimal_flat_polygon_other_line() {
    // Same on the line y = 0.5 + 0.3 x (two decimals):
    //   POLYGON((5.8 2.24, -8.6 -2.08, -0.5 0.35, 6.4 2.42, 5.8 2.24))
    // Every coordinate satisfies y = 0.5 + 0.3 x exactly in decimal, the outline spans
    // x in [-8.6, 6.4]; the centroid of the outline is its midpoint (-1.1, 0.17).
    // Got: (-22.77, -6.33), i.e. 14 units outside an object of extent 15.
    let poly = Polygon::new(
        LineString::from(vec![
            (5.8, 2.24),
            (-8.6, -2.08),
            (-0.5, 0.35),
            (6.4, 2.42),
            (5.8, 2.24),
        ]),
        vec![],
    );
    let c = poly.centroid().unwrap();
    assert_in_bbox(&poly, c, "POLYGON((5.8 2.24,-8.6 -2.08,-0.5 0.35,6.4 2.42,5.8 2.24))");
}

// ---------------------------------------------------------------------------------------------
// F3  Valid thin polygons with exactly representable (integer) coordinates: centroid off by 1/6 of
//     the extent.
// ---------------------------------------------------------------------------------------------
#[test]
fn c06_f3_thin_parallelogram_integer_coordinates() {
    //   A = (0,0), B = (25717, 30765), C = (129185279, 154543108), D = C - B = (129159562, 154512343)
    // B + D = C, so ABCD is a parallelogram; B x C = 25717*154543108 - 30765*129185279 = 1, so its
    // area is exactly 1 (> 0, valid, convex). The centre of mass of a parallelogram is the
    // midpoint of its diagonal: C/2 = (64592639.5, 77271554).
    // All coordinates are integers < 2^28, i.e. exact in f64.
    // Got: (43070332, 51524624.33) = C/3 -- off by 1/6 of the extent (2.6e7 units).
    let poly = Polygon::new(
        LineString::from(vec![
            (0.0, 0.0),
            (25717.0, 30765.0),
            (129185279.0, 154543108.0),
            (129159562.0, 154512343.0),
            (0.0, 0.0),
        ]),
        vec![],
    );
    assert!(poly.is_valid());
    let c = poly.centroid().unwrap();
    // tolerance: one unit on coordinates of 1.5e8 (generous: 1e8 ulps)
    assert_close(c, (64592639.5, 77271554.0), 1.0, "thin parallelogram");
}

#[test]
fn c06_f3b_sliver_triangle_polygon_treated_as_flat() {
    // The triangle of F1b as a Polygon. Its rounded area is exactly 0, so `add_ring` takes the
    // "flat ring" fallback and returns the centroid of the OUTLINE (0.5, 0.5) (two edges of length
    // sqrt 2 with midpoint (0.5,0.5), one edge of length ~1e-16) instead of the centre of mass of the
    // (valid, positive-area) triangle, which is the vertex mean (0.6667, 0.6667).
    let e = f64::EPSILON;
    let poly = Polygon::new(
        LineString::from(vec![(0.0, 0.0), (1.0 + e, 1.0), (1.0, 1.0 - e / 2.0), (0.0, 0.0)]),
        vec![],
    );
    assert!(poly.is_valid());
    let c = poly.centroid().unwrap();
    assert_close(c, (2.0 / 3.0, 2.0 / 3.0), 1e-9, "sliver triangle polygon");
}

// ---------------------------------------------------------------------------------------------
// F4  Zero-area polygon (holes cover the shell exactly): the fallback to the outline is only taken
//     when the rounded areas cancel EXACTLY (`weight.is_zero()`); otherwise noise / noise.
// ---------------------------------------------------------------------------------------------
#[test]
fn c06_f4_zero_area_polygon_cells() {
    // The library's own `polygon_cell_test` with decimal coordinates: a 0.1 x 0.3 rectangle whose
    // two holes [0,0.1]x[0,0.1] and [0,0.1]x[0.1,0.3] partition it. Area 0 -> centroid of the outline
    // of the rectangle = its centre (0.05, 0.15).
    // Got: (-0.0625, 0.25), outside the rectangle.
    let (w, h, s) = (0.1, 0.3, 0.1);
    let shell = LineString::from(vec![(0.0, 0.0), (w, 0.0), (w, h), (0.0, h), (0.0, 0.0)]);
    let bottom = LineString::from(vec![(0.0, 0.0), (w, 0.0), (w, s), (0.0, s), (0.0, 0.0)]);
    let top = LineString::from(vec![(0.0, s), (w, s), (w, h), (0.0, h), (0.0, s)]);
    let poly = Polygon::new(shell, vec![top, bottom]);
    let c = poly.centroid().unwrap();
    assert_close(c, (0.05, 0.15), 1e-12, "partitioned rectangle");
}

#[test]
fn c06_f4b_zero_area_polygon_hole_is_shell_from_other_vertex() {
    // The library's own `polygon_ring_test` (hole == shell) with a triangle whose hole starts at a
    // different vertex and runs the other way round:
    //   POLYGON((4.4 2.8,8.9 9.7,0.7 8.7,4.4 2.8),(0.7 8.7,8.9 9.7,4.4 2.8,0.7 8.7))
    // Area 0 -> centroid of the outline of the shell. Edge lengths / midpoints:
    //   (4.4 2.8)-(8.9 9.7): 8.2377, (6.65, 6.25)
    //   (8.9 9.7)-(0.7 8.7): 8.2608, (4.80, 9.20)
    //   (0.7 8.7)-(4.4 2.8): 6.9642, (2.55, 5.75)
    //   -> (112.190/23.4627, 167.529/23.4627) = (4.7817, 7.1402)
    // Got: (8, 16) -- y = 16 is far above the shell (max y 9.7).
    let shell = LineString::from(vec![(4.4, 2.8), (8.9, 9.7), (0.7, 8.7), (4.4, 2.8)]);
    let hole = LineString::from(vec![(0.7, 8.7), (8.9, 9.7), (4.4, 2.8), (0.7, 8.7)]);
    let expected = shell.centroid().unwrap();
    assert_close(expected, (4.7817, 7.1402), 1e-3, "hand computation");
    let poly = Polygon::new(shell, vec![hole]);
    let c = poly.centroid().unwrap();
    assert_close(c, (expected.x(), expected.y()), 1e-9, "hole == shell");
}

// ---------------------------------------------------------------------------------------------
// Arguable / surprising
// ---------------------------------------------------------------------------------------------

// X1  A LineString of n identical coordinates counts as n-1 points, every other zero-dimensional
//     spelling (Point, Line, 1-coordinate LineString, Polygon, Triangle, Rect) counts as one.
#[test]
fn c06_x1_repeated_coordinate_linestring_weight() {
    // GEOMETRYCOLLECTION(POINT(0 0), LINESTRING(3 3,3 3,3 3,3 3)): two zero-dimensional members,
    // one at (0,0) and one at (3,3): mean (1.5, 1.5). The same collection with the second member
    // spelt POLYGON((3 3,3 3,3 3,3 3)) does give (1.5, 1.5).
    // Got: (2.25, 2.25) = (0 + 3*3)/4 (one "point" per zero-length segment).
    let p = Geometry::Point(Point::new(0.0, 0.0));
    let same: Vec<(f64, f64)> = vec![(3.0, 3.0); 4];
    let as_poly = GeometryCollection::new_from(vec![
        p.clone(),
        Geometry::Polygon(Polygon::new(LineString::from(same.clone()), vec![])),
    ]);
    assert_eq!(as_poly.centroid(), Some(Point::new(1.5, 1.5)));
    let as_ls = GeometryCollection::new_from(vec![p, Geometry::LineString(LineString::from(same))]);
    assert_eq!(as_ls.centroid(), Some(Point::new(1.5, 1.5)));
}

// X2  Flat polygon with a flat hole: the hole's length-weighted moment is SUBTRACTED from the
//     shell's.
#[test]
fn c06_x2_flat_polygon_with_flat_hole() {
    // POLYGON((0 0,10 0,0 0),(8 0,10 0,8 0)) -- e.g. a polygon with a hole after projecting y to 0.
    // Zero area -> centroid of its outline. Shell outline: (5, 0). (Counting the hole's outline as
    // well: (20*5 + 4*9)/24 = (5.667, 0).)
    // Got: (4, 0) = (20*5 - 4*9)/(20 - 4).
    let poly: Polygon<f64> = Polygon::new(
        LineString::from(vec![(0.0, 0.0), (10.0, 0.0), (0.0, 0.0)]),
        vec![LineString::from(vec![(8.0, 0.0), (10.0, 0.0), (8.0, 0.0)])],
    );
    let c = poly.centroid().unwrap();
    assert!(
        (c.x() - 5.0).abs() < 1e-12 || (c.x() - 17.0 / 3.0).abs() < 1e-12,
        "flat polygon with flat hole: got {c:?}, expected (5, 0) (or (5.667, 0))"
    );
}

// X3  Scaling: intermediate `centroid * weight` overflows / underflows long before the coordinates
//     do.
#[test]
fn c06_x3_scaling_overflow_underflow() {
    // LINESTRING(1e20 1e20, 3e20 1e20) in f32 (f32::MAX = 3.4e38): midpoint (2e20, 1e20).
    // Got: (inf, inf) because midpoint * length = 4e40 overflows.
    let l: LineString<f32> = LineString::from(vec![(1e20f32, 1e20f32), (3e20, 1e20)]);
    let c = l.centroid().unwrap();
    assert!(
        (c.x() - 2e20).abs() < 1e15 && (c.y() - 1e20).abs() < 1e15,
        "f32 line string at 1e20: {c:?}"
    );
}

#[test]
fn c06_x3b_scaling_underflow() {
    // LINESTRING(1e-165 1e-165, 3e-165 1e-165) in f64 (all coordinates normal numbers): midpoint
    // (2e-165, 1e-165). Got (0, 0) - not on the segment - because midpoint * length underflows.
    let l: LineString<f64> = LineString::from(vec![(1e-165, 1e-165), (3e-165, 1e-165)]);
    let c = l.centroid().unwrap();
    assert!(
        (c.x() - 2e-165).abs() < 1e-175 && (c.y() - 1e-165).abs() < 1e-175,
        "f64 line string at 1e-165: {c:?}"
    );
    // and the unit right triangle scaled by 1e-170 must keep its centroid at (2/3, 1/3) * 1e-170
    let t: Triangle<f64> = Triangle::new(
        Coord { x: 0.0, y: 0.0 },
        Coord { x: 1e-170, y: 0.0 },
        Coord { x: 1e-170, y: 1e-170 },
    );
    let c = t.centroid();
    assert!(
        (c.x() - 2e-170 / 3.0).abs() < 1e-180 && (c.y() - 1e-170 / 3.0).abs() < 1e-180,
        "triangle scaled by 1e-170: {c:?}"
    );
}
