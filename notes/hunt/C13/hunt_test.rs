//! C13 bug hunt: affine transforms obey matrix algebra and commute with the algorithms.
//!
//! Every test asserts the statement of the property on one concrete input and FAILS on the
//! unmodified library.  Expected values are derived by hand in the comments.

use geo::algorithm::*;
use geo::*;

// ---------------------------------------------------------------------------------------------
// Clause: "inverse undoes a transform and is None exactly for singular matrices"
// ---------------------------------------------------------------------------------------------

/// Integer matrix [[2,0,0],[0,2,0]] (scale by 2 about the origin): determinant 4, regular.
/// Its inverse (scale by 1/2) is not an integer matrix, so the only acceptable answers are
/// `None` or a matrix that really undoes the transform.  The library returns
/// `Some([[0,0,0],[0,0,0]])` because `1 / determinant` is an integer division (1/4 == 0).
#[test]
fn inverse_of_integer_matrix_is_the_zero_matrix() {
    let t: AffineTransform<i32> = AffineTransform::scale(2, 2, Coord { x: 0, y: 0 });
    let c = Coord { x: 4, y: 6 };
    assert_eq!(t.apply(c), Coord { x: 8, y: 12 });
    if let Some(inv) = t.inverse() {
        // inverse undoes a transform: (8,12) must come back to (4,6); got (0,0)
        assert_eq!(inv.apply(t.apply(c)), c, "inverse() returned {inv:?}");
    }
}

/// Float matrix with integer entries a=1e8, b=1e8+1, d=1e8-1, e=1e8.
/// det = a*e - b*d = 1e16 - (1e16 - 1) = 1, so the matrix is regular and its exact inverse is the
/// integer matrix [[1e8, -(1e8+1)], [-(1e8-1), 1e8]].
/// The library computes b*d = 1e16-1 rounded to 1e16, gets determinant 0.0 and returns None.
#[test]
fn inverse_is_none_for_a_regular_matrix_whose_determinant_rounds_to_zero() {
    let t = AffineTransform::new(1e8, 1e8 + 1.0, 0.0, 1e8 - 1.0, 1e8, 0.0);
    let inv = t
        .inverse()
        .expect("det = 1: regular matrix, inverse() must not be None");
    assert_eq!(
        inv.apply(t.apply(Coord { x: 1.0, y: 2.0 })),
        Coord { x: 1.0, y: 2.0 }
    );
}

/// Uniform scaling by 2^-600: regular (inverse = scaling by 2^600, exactly representable),
/// but a*e = 2^-1200 underflows to 0.0, so inverse() returns None.
#[test]
fn inverse_is_none_for_a_regular_matrix_whose_determinant_underflows() {
    let s = 2f64.powi(-600);
    let t = AffineTransform::scale(s, s, Coord { x: 0.0, y: 0.0 });
    let inv = t.inverse().expect("regular matrix must have an inverse");
    assert_eq!(
        inv.apply(t.apply(Coord { x: 3.0, y: 5.0 })),
        Coord { x: 3.0, y: 5.0 }
    );
}

/// a = b = d = e = 1e200: both rows equal, the matrix is singular, inverse() must be None.
/// a*e - b*d = inf - inf = NaN, `NaN == 0` is false, and a matrix full of NaN is returned.
#[test]
fn inverse_is_some_nan_for_a_singular_matrix_whose_determinant_overflows() {
    let t = AffineTransform::new(1e200, 1e200, 0.0, 1e200, 1e200, 0.0);
    assert!(t.inverse().is_none(), "got {:?}", t.inverse());
}

// ---------------------------------------------------------------------------------------------
// Clause: "rotate, scale, skew and translate (including in-place and around-point forms) equal
//          applying the documented matrix about the documented origin"
// ---------------------------------------------------------------------------------------------

/// Documented skew matrix: [[1, tan(xs), -y0*tan(xs)], [tan(ys), 1, -x0*tan(ys)]].
/// xs = 1e-14 degrees: tan(xs) = 1.745e-16 (a perfectly normal f64).  The point (0, 1e20) skewed
/// about the origin must move to x' = 0 + tan(xs) * 1e20 = 17453.29..., y' = 1e20.
/// The library silently replaces every |tan| < 2.5e-16 by 0, so the point does not move at all.
#[test]
fn skew_by_a_small_angle_is_not_the_documented_matrix() {
    let xs = 1e-14_f64;
    let tan = xs.to_radians().tan();
    assert!(tan > 1.7e-16 && tan < 1.8e-16);
    let t = AffineTransform::skew(xs, 0.0, Coord { x: 0.0, y: 0.0 });
    assert_eq!(t.b(), tan, "matrix entry b must be tan(xs)");
    let p = Point::new(0.0, 1e20).skew_around_point(xs, 0.0, Coord { x: 0.0, y: 0.0 });
    assert_eq!(p, Point::new(tan * 1e20, 1e20));
}

/// The square [0,2]x[0,2] as a `Rect`, turned by 45 degrees about its centre (1,1), is the diamond
/// with vertices (1, 1±sqrt2), (1±sqrt2, 1): area 4 (rotation preserves area), bounding box of
/// width 2*sqrt2.  `Rect::map_coords` transforms only the two stored corners min and max, which
/// both land on the line x = 1, so the "rotated rectangle" is a degenerate Rect of width ~1e-16
/// and area ~0.  The same happens for the in-place form and for skew.
#[test]
fn rotating_a_rect_does_not_apply_the_matrix_to_the_rectangle() {
    let r: Rect<f64> = Rect::new((0.0, 0.0), (2.0, 2.0));
    let as_polygon = r.to_polygon().rotate_around_center(45.0);
    assert!((as_polygon.unsigned_area() - 4.0).abs() < 1e-12);

    let rotated = r.rotate_around_center(45.0);
    let mut rotated_in_place = r;
    rotated_in_place.rotate_around_center_mut(45.0);
    assert_eq!(rotated, rotated_in_place);
    // area must be preserved by a rotation (expected 4, got ~3e-16)
    assert!(
        (rotated.unsigned_area() - 4.0).abs() < 1e-9,
        "rotated Rect {:?} has area {}, the rotated polygon {:?} has area {}",
        rotated,
        rotated.unsigned_area(),
        as_polygon,
        as_polygon.unsigned_area()
    );
}

/// Same for skew: the square [0,2]x[0,2] sheared by 45 degrees along x about the origin
/// (x' = x + y) is the parallelogram (0 0),(2 0),(4 2),(2 2) of area 4.  The Rect version maps the
/// corners (0 0) and (2 2) to (0 0) and (4 2) and returns the rectangle [0,4]x[0,2] of area 8.
#[test]
fn skewing_a_rect_does_not_apply_the_matrix_to_the_rectangle() {
    let r: Rect<f64> = Rect::new((0.0, 0.0), (2.0, 2.0));
    let origin = Coord { x: 0.0, y: 0.0 };
    let as_polygon = r.to_polygon().skew_around_point(45.0, 0.0, origin);
    assert!((as_polygon.unsigned_area() - 4.0).abs() < 1e-12);
    let skewed = r.skew_around_point(45.0, 0.0, origin);
    assert!(
        (skewed.unsigned_area() - 4.0).abs() < 1e-9,
        "skewed Rect {:?} has area {}",
        skewed,
        skewed.unsigned_area()
    );
}

/// Documentation of `AffineTransform::rotate`:
///     yoff = origin.y - (origin.x * sin(theta)) + (origin.y * cos(theta))
/// Half turn about (0, 1): the documented formula gives yoff = 1 - 0 + 1*cos(180) = 0, but a half
/// turn about (0,1) is y' = -y + 2, i.e. yoff = 2.  The implementation uses `- origin.y * cos`:
/// the code is the correct rotation, the documented matrix is not the matrix that is applied.
#[test]
fn rotate_documented_yoff_formula_is_not_the_applied_matrix() {
    let origin = Coord { x: 0.0_f64, y: 1.0 };
    let theta = 180.0_f64;
    let (sin, cos) = theta.to_radians().sin_cos();
    let documented_yoff = origin.y - (origin.x * sin) + (origin.y * cos);
    let t = AffineTransform::rotate(theta, origin);
    assert!(
        (t.yoff() - documented_yoff).abs() < 1e-12,
        "documented yoff = {documented_yoff}, applied yoff = {}",
        t.yoff()
    );
}

// ---------------------------------------------------------------------------------------------
// Clause: "Transforming the operands by a map that is exact in floating point ... leaves every
//          predicate and DE-9IM matrix unchanged and scales area, length and distance by exactly
//          the expected factor"
// ---------------------------------------------------------------------------------------------

fn reflect_y_about(c: f64) -> AffineTransform<f64> {
    // (x, y) -> (x, c - y): exact on small integers
    AffineTransform::new(1.0, 0.0, 0.0, 0.0, -1.0, c)
}

fn swap_axes() -> AffineTransform<f64> {
    // (x, y) -> (y, x): exact always
    AffineTransform::new(0.0, 1.0, 0.0, 1.0, 0.0, 0.0)
}

fn quarter_turn() -> AffineTransform<f64> {
    // (x, y) -> (-y, x): exact always
    AffineTransform::new(0.0, -1.0, 0.0, 1.0, 0.0, 0.0)
}

/// a = MULTILINESTRING((1 3,0 0),(4 0,0 1)),  b = LINESTRING(1 3,0 0)  (b IS the first member of a).
/// DE-9IM by hand: b's interior lies in a's interior (II=1), b's end points are end points of a
/// (BB=0, IB=BI=F), the rest of a is outside b (IE=1, BE=0), nothing of b is outside a (EI=EB=F):
///     1F1F00FF2, a.contains(b) = true.
/// The library returns exactly this.  After the exact reflection y -> 6 - y (all coordinates stay
/// small integers) it returns 0F1F001F2 and contains = false.
/// Cause: the two members of a cross at (4/13, 12/13), which is not representable; self-noding
/// splits a's first segment at the rounded point, and the two halves are then compared for exact
/// collinearity (robust orientation) with b's unsplit, identical segment.  Whether the rounded
/// node happens to be exactly collinear depends on the coordinate frame.
#[test]
fn relate_and_contains_change_under_an_exact_reflection_of_crossing_lines() {
    let a: MultiLineString<f64> = wkt! { MULTILINESTRING((1. 3.,0. 0.),(4. 0.,0. 1.)) };
    let b: LineString<f64> = wkt! { LINESTRING(1. 3.,0. 0.) };
    let t = reflect_y_about(6.0);
    let (ta, tb) = (a.affine_transform(&t), b.affine_transform(&t));
    assert_eq!(ta, wkt! { MULTILINESTRING((1. 3.,0. 6.),(4. 6.,0. 5.)) });

    let m = format!("{:?}", a.relate(&b));
    let tm = format!("{:?}", ta.relate(&tb));
    assert_eq!(m, "IntersectionMatrix(1F1F00FF2)");
    assert!(a.contains(&b));
    assert_eq!(m, tm, "DE-9IM changed under y -> 6 - y");
    assert_eq!(a.contains(&b), ta.contains(&tb));
}

/// Same cause, area/line flavour: the diamond (1 1,2 0,3 1,2 2) and the two crossing lines
/// (4 1,0 2) and (0 0,2 2).  The second line runs along the diamond's edge (1 1)-(2 2), so
/// boundary(a) ∩ interior(b) is one-dimensional: BI = 1 (matrix 1F2101102, as computed in this
/// frame).  After a quarter turn plus an integer translation by (0, 2^20) the library reports BI = 0.
#[test]
fn relate_polygon_vs_crossing_lines_changes_under_quarter_turn_and_integer_translation() {
    let a: Polygon<f64> = wkt! { POLYGON((1. 1.,2. 0.,3. 1.,2. 2.,1. 1.)) };
    let b: MultiLineString<f64> = wkt! { MULTILINESTRING((4. 1.,0. 2.),(0. 0.,2. 2.)) };
    // (x, y) -> (y, -x + 2^20): rotation by -90 degrees and an integer translation
    let t = AffineTransform::new(0.0, 1.0, 0.0, -1.0, 0.0, 1048576.0);
    let (ta, tb) = (a.affine_transform(&t), b.affine_transform(&t));
    let m = format!("{:?}", a.relate(&b));
    let tm = format!("{:?}", ta.relate(&tb));
    assert_eq!(m, "IntersectionMatrix(1F2101102)");
    assert_eq!(m, tm);
}

/// a = GEOMETRYCOLLECTION(POINT(0 0), LINESTRING(4 3,4 1)),  b = Triangle (2 1),(0 2),(0 0).
/// The point of a sits on a vertex of b, the line is far away:
///     II=F IB=0 IE=1 / BI=F BB=F BE=0 / EI=2 EB=1 EE=2   ->  F01FF0212
/// The library returns this in the given frame, but 212FF0212 after swapping the axes, i.e. it then
/// claims that the interior of {point, line} meets the interior of the triangle in an AREA.
/// Cause: `RelateOperation::label_isolated_edge` locates the whole (isolated) ring of b by looking
/// at its FIRST coordinate only; a Point member of a collection creates no edge intersection, so
/// the ring stays "isolated" although it touches a.  `Triangle::new` re-orders the vertices after
/// the reflection, the ring then starts at (0 0), `coordinate_position` of the collection says
/// Inside (it is the Point member), and the whole ring of b is labelled interior to a.
#[test]
fn relate_collection_with_point_vs_triangle_changes_under_axis_swap() {
    let a = GeometryCollection::new_from(vec![
        Geometry::Point(Point::new(0.0, 0.0)),
        Geometry::LineString(wkt! { LINESTRING(4. 3.,4. 1.) }),
    ]);
    let b = Triangle::new(
        coord! {x: 2.0, y: 1.0},
        coord! {x: 0.0, y: 2.0},
        coord! {x: 0.0, y: 0.0},
    );
    let t = swap_axes();
    let (ta, tb) = (a.affine_transform(&t), b.affine_transform(&t));
    let m = format!("{:?}", a.relate(&b));
    let tm = format!("{:?}", ta.relate(&tb));
    assert_eq!(m, "IntersectionMatrix(F01FF0212)");
    assert_eq!(m, tm, "DE-9IM changed under (x,y) -> (y,x)");
}

/// a = GEOMETRYCOLLECTION(LINESTRING(0 1,2 0), RECT[2,4]x[1,4]),  b = RECT[0,1]x[1,2].
/// The members of a are disjoint from each other; only the end point (0 1) of the line touches b
/// (at b's corner); the rectangle of a is disjoint from b:
///     II=F IB=F IE=2 / BI=F BB=0 BE=1 / EI=2 EB=1 EE=2   ->  FF2F01212
/// The library returns FF2212212 (boundary(a) ∩ interior(b) of dimension 2!) and, after an exact
/// quarter turn, FF2212FF2 (nothing of b outside a).
/// Cause: `LabeledEdgeEndBundleStar::compute_labeling` fills the missing label of b's ring edges
/// at the node (0 1) with `geometry.coordinate_position()` of the WHOLE collection a, which
/// answers OnBoundary because (0 1) is the end of a's line member; JTS locates against the area
/// members only.  All three positions (on/left/right) become "boundary of a".  Which of the wrong
/// matrices comes out depends on where `Rect::to_polygon` starts the ring, hence on the frame.
#[test]
fn relate_collection_of_line_and_rect_vs_rect_changes_under_quarter_turn() {
    let a = GeometryCollection::new_from(vec![
        Geometry::LineString(wkt! { LINESTRING(0. 1.,2. 0.) }),
        Geometry::Rect(Rect::new((2.0, 1.0), (4.0, 4.0))),
    ]);
    let b: Rect<f64> = Rect::new((0.0, 1.0), (1.0, 2.0));
    let t = quarter_turn();
    let (ta, tb) = (a.affine_transform(&t), b.affine_transform(&t));
    let m = format!("{:?}", a.relate(&b));
    let tm = format!("{:?}", ta.relate(&tb));
    assert_eq!(m, tm, "DE-9IM changed under a quarter turn");
    assert_eq!(m, "IntersectionMatrix(FF2F01212)");
}

/// "scales area ... by exactly the expected factor": the map (x,y) -> (-y,-x) is exact and has
/// |det| = 1, so the unsigned area of a Triangle must not change at all.
/// `Triangle::new` (used by `map_coords`) re-orders the vertices after a reflection, and
/// `signed_area` uses vertex 0 as the local origin, so the result differs in the last digits:
/// 0.29051652822790475 vs 0.2905165282279051.
#[test]
fn triangle_area_is_not_exactly_invariant_under_an_exact_reflection() {
    let tri = Triangle::new(
        coord! {x: 3.5757636726692663, y: 0.8985485514699829},
        coord! {x: 1.5138968034951161, y: 4.4},
        coord! {x: 1.58393928781771, y: 3.9992547205645956},
    );
    let t = AffineTransform::new(0.0, -1.0, 0.0, -1.0, 0.0, 0.0);
    let ttri = tri.affine_transform(&t);
    assert_eq!(tri.unsigned_area(), ttri.unsigned_area());
}
