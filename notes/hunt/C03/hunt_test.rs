//! C03 bug hunt: "Orientation and point-location predicates are exact for all finite f64 input
//! (and for the integer types whenever the intermediate products fit the type)".
//!
//! Every test asserts what exact real arithmetic gives; every test FAILS on the unmodified tree.
//!
//! Findings 1-3 are the same root cause seen through the five predicates the statement names
//! (robust::orient2d is only exact while no intermediate product under- or overflows).

use geo::algorithm::kernels::{Kernel, Orientation, RobustKernel, SimpleKernel};
use geo::coordinate_position::{CoordPos, CoordinatePosition};
use geo::line_intersection::line_intersection;
use geo::winding_order::{triangle_winding_order, Winding, WindingOrder};
use geo::{
    coord, Contains, ConvexHull, Coord, Intersects, IsConvex, Line, LineString, MultiPoint,
    Polygon, Triangle,
};

// ---------------------------------------------------------------------------------------------
// Finding 1: UNDERFLOW. Finite, normal (not even subnormal) coordinates of size ~1e-165.
// ---------------------------------------------------------------------------------------------

/// S = 1e-165 is a normal f64 (the smallest normal is 2.2e-308), but S*S = 1e-330 is below the
/// smallest subnormal (4.9e-324) and rounds to 0.
const S: f64 = 1e-165;

/// orientation test.
/// p=(0,0) q=(S,0) r=(0,S): det = (q-p)x(r-p) = S*S - 0*0 = S^2 > 0  => CounterClockwise.
#[test]
fn f1a_orient2d_tiny_right_angle_is_reported_collinear() {
    let o = RobustKernel::orient2d(
        coord! {x: 0., y: 0.},
        coord! {x: S, y: 0.},
        coord! {x: 0., y: S},
    );
    assert_eq!(o, Orientation::CounterClockwise);
}

/// orientation test / point-on-segment, partial underflow: three EXACTLY collinear points are
/// reported as Clockwise, so a point lying exactly on a segment "does not intersect" it.
/// All coordinates are integers times 2^-540 (exactly representable, normal f64 of size ~1e-153).
/// Exactness of the expectation is checked right here in i128.
#[test]
fn f1b_exactly_collinear_tiny_points_are_reported_clockwise() {
    let (p, q, r): ((i128, i128), (i128, i128), (i128, i128)) = (
        (-1839249497, -672854630),
        (-1248927302, -1199900459),
        (-2975634812, 341722063),
    );
    // exact determinant in integers: 0, i.e. collinear; and p lies between r and q
    let det = (q.0 - p.0) * (r.1 - p.1) - (q.1 - p.1) * (r.0 - p.0);
    assert_eq!(det, 0, "test premise");
    assert!(r.0 < p.0 && p.0 < q.0, "test premise: p between r and q");

    let s = 2f64.powi(-540);
    let c = |v: (i128, i128)| coord! {x: v.0 as f64 * s, y: v.1 as f64 * s};
    // the scaling is exact: the integers have < 2^32 magnitude and the results are normal numbers
    assert!((p.0 as f64 * s).is_normal());

    assert_eq!(
        RobustKernel::orient2d(c(p), c(q), c(r)),
        Orientation::Collinear
    );
    // point-on-segment: p is on the segment r-q
    assert!(Line::new(c(r), c(q)).intersects(&c(p)));
}

/// point-in-triangle / point-in-polygon / ring winding order.
/// Triangle T = (0,0) (S,0) (0,S), i.e. {x>=0, y>=0, x+y<=S}.
///   inside  = (S/4, S/4):   x,y > 0 and x+y = S/2 < S    => strictly inside
///   outside = (3S/4, 3S/4): x+y = 1.5 S > S              => outside
#[test]
fn f1c_tiny_triangle_point_location_and_winding() {
    let inside = coord! {x: 0.25 * S, y: 0.25 * S};
    let outside = coord! {x: 0.75 * S, y: 0.75 * S};
    let (a, b, c) = (
        coord! {x: 0., y: 0.},
        coord! {x: S, y: 0.},
        coord! {x: 0., y: S},
    );
    let ring = LineString::from(vec![a, b, c, a]);
    let poly = Polygon::new(ring.clone(), vec![]);
    let tri = Triangle::new(a, b, c);

    let mut wrong = vec![];
    if ring.winding_order() != Some(WindingOrder::CounterClockwise) {
        wrong.push(format!("ring.winding_order() = {:?}", ring.winding_order()));
    }
    if poly.coordinate_position(&inside) != CoordPos::Inside {
        wrong.push(format!(
            "polygon position of inside point = {:?}",
            poly.coordinate_position(&inside)
        ));
    }
    if poly.coordinate_position(&outside) != CoordPos::Outside {
        wrong.push(format!(
            "polygon position of outside point = {:?}",
            poly.coordinate_position(&outside)
        ));
    }
    if !tri.contains(&inside) {
        wrong.push("triangle.contains(inside) = false".into());
    }
    if tri.intersects(&outside) {
        wrong.push("triangle.intersects(outside) = true".into());
    }
    if tri.coordinate_position(&outside) != CoordPos::Outside {
        wrong.push(format!(
            "triangle position of outside point = {:?}",
            tri.coordinate_position(&outside)
        ));
    }
    assert!(wrong.is_empty(), "{wrong:#?}");
}

/// segment-segment intersects.
/// p = (0,0)-(S,S) lies on y = x. q = (0,S)-(0.4S,0.6S) has y > x at both ends (S > 0, 0.6S > 0.4S),
/// so q is strictly on one side of p's line: the segments are disjoint.
/// p2 = (0,S)-(S,0) crosses p in the single point (S/2,S/2): a proper crossing, not an overlap.
#[test]
fn f1d_tiny_disjoint_segments_are_reported_intersecting() {
    let p = Line::new(coord! {x: 0., y: 0.}, coord! {x: S, y: S});
    let q = Line::new(coord! {x: 0., y: S}, coord! {x: 0.4 * S, y: 0.6 * S});
    assert!(0.6 * S > 0.4 * S, "test premise");
    assert!(!p.intersects(&q), "Line::intersects(Line) says true");
    assert_eq!(line_intersection(p, q), None);
}

// ---------------------------------------------------------------------------------------------
// Finding 2: OVERFLOW. Finite coordinates of size 1e160 (f64::MAX is 1.8e308).
// ---------------------------------------------------------------------------------------------

const B: f64 = 1e160;

/// orientation test.
/// p=(-B,-B) q=(B,-B) r=(0,B): (q-p)=(2B,0), (r-p)=(B,2B), det = 2B*2B - 0*B = 4B^2 > 0 => CCW.
#[test]
fn f2a_orient2d_huge_triangle_is_reported_collinear() {
    let o = RobustKernel::orient2d(
        coord! {x: -B, y: -B},
        coord! {x: B, y: -B},
        coord! {x: 0., y: B},
    );
    assert_eq!(o, Orientation::CounterClockwise);
}

/// point-on-segment, point-in-triangle, point-in-polygon, segment-segment.
///  * (B/2, B/4) is not on the segment (-B,-B)-(B,B) (that segment lies on y = x).
///  * (0,0) is strictly inside the triangle (-B,-B) (B,-B) (0,B): it is above the bottom edge
///    y=-B, and on the inner side of both slanted edges (at y=0 they are at x = -B/2 and x = B/2).
///  * (B/10, B/10) is strictly inside as well (at y = B/10 the edges are at x = -+0.45B).
///  * q = (-B,B)-(-0.2B,0.4B) has y > x at both ends, so it is disjoint from (-B,-B)-(B,B).
#[test]
fn f2b_huge_point_location_and_segments() {
    let diag = Line::new(coord! {x: -B, y: -B}, coord! {x: B, y: B});
    let (a, b, c) = (
        coord! {x: -B, y: -B},
        coord! {x: B, y: -B},
        coord! {x: 0., y: B},
    );
    let tri = Triangle::new(a, b, c);
    let poly = Polygon::new(LineString::from(vec![a, b, c, a]), vec![]);
    let origin = coord! {x: 0., y: 0.};
    let inner = coord! {x: 0.1 * B, y: 0.1 * B};
    let q = Line::new(coord! {x: -B, y: B}, coord! {x: -0.2 * B, y: 0.4 * B});

    let mut wrong = vec![];
    if diag.intersects(&coord! {x: 0.5 * B, y: 0.25 * B}) {
        wrong.push("point (B/2,B/4) reported ON the segment (-B,-B)-(B,B)".to_string());
    }
    if !tri.contains(&origin) {
        wrong.push("triangle.contains((0,0)) = false".into());
    }
    if tri.coordinate_position(&origin) != CoordPos::Inside {
        wrong.push(format!(
            "triangle position of (0,0) = {:?}",
            tri.coordinate_position(&origin)
        ));
    }
    if poly.coordinate_position(&inner) != CoordPos::Inside {
        wrong.push(format!(
            "polygon position of (B/10,B/10) = {:?}",
            poly.coordinate_position(&inner)
        ));
    }
    if diag.intersects(&q) {
        wrong.push("disjoint segments reported intersecting".into());
    }
    if line_intersection(diag, q).is_some() {
        wrong.push(format!(
            "line_intersection of disjoint segments = {:?}",
            line_intersection(diag, q)
        ));
    }
    assert!(wrong.is_empty(), "{wrong:#?}");
}

// ---------------------------------------------------------------------------------------------
// Finding 3: integer kernel. Both intermediate products fit, their difference does not.
// ---------------------------------------------------------------------------------------------

/// i32, coordinates <= 80_000.
/// p=(0,0) q=(40000,40000) r=(0,80000). r is to the left of the ray p->q (it is above the line
/// y = x), so the answer is CounterClockwise.
/// The library computes (q.x-p.x)*(r.y-q.y) - (q.y-p.y)*(r.x-q.x)
///   = 40000*40000 - 40000*(-40000) = 1.6e9 - (-1.6e9).
/// Each product (|1.6e9| < i32::MAX = 2.147e9) fits the type; the subtraction overflows:
/// debug build panics ("attempt to subtract with overflow"), release build wraps and answers
/// Clockwise. Comparing the two products instead of subtracting them would be exact.
#[test]
fn f3_integer_orient2d_products_fit_but_subtraction_overflows() {
    let (p, q, r) = (
        coord! {x: 0i32, y: 0},
        coord! {x: 40_000, y: 40_000},
        coord! {x: 0, y: 80_000},
    );
    // premise: the two intermediate products fit
    assert!(40_000i32.checked_mul(40_000).is_some());
    assert!(40_000i32.checked_mul(-40_000).is_some());
    let o = std::panic::catch_unwind(|| SimpleKernel::orient2d(p, q, r));
    assert_eq!(
        o.ok(),
        Some(Orientation::CounterClockwise),
        "None = panicked (debug), Some(Clockwise) = wrapped (release)"
    );
}

// ---------------------------------------------------------------------------------------------
// Finding 4: quick_hull (anchored file convex_hull/qhull.rs) picks the "furthest" point with a
// rounded dot product. If the pick is wrong, the really furthest point is strictly left of BOTH
// sub-edges and is emitted twice; the result is not a convex ring. Ordinary magnitudes.
// ---------------------------------------------------------------------------------------------

/// Five distinct points within a few ulps of a common line. Whatever the hull is, it must be a
/// closed ring without repeated vertices (other than the closing one), strictly convex and
/// counter-clockwise (documented: "The hull is always oriented counter-clockwise"; quick hull
/// yields the strict hull). `graham_hull` returns A, E, B, C for this input.
#[test]
fn f4_quick_hull_emits_a_vertex_twice() {
    let pts: Vec<Coord<f64>> = vec![
        coord! {x: 71.26721215711872, y: 121.14086202168504},  // A
        coord! {x: 826.8319415715908, y: 1405.4588515153694},  // B
        coord! {x: 667.1389463661961, y: 1134.0107828669618},  // C
        coord! {x: 350.9818070162634, y: 596.6030853310413},   // D
        coord! {x: 355.6560427565351, y: 604.5484073063238},   // E
    ];
    let hull = MultiPoint::from(pts).convex_hull();
    let ext = &hull.exterior().0;
    let open = &ext[..ext.len() - 1];
    for (i, a) in open.iter().enumerate() {
        for b in &open[i + 1..] {
            assert_ne!(a, b, "vertex repeated in hull {:?}", hull.exterior());
        }
    }
    assert!(hull.exterior().is_strictly_ccw_convex());
}

// ---------------------------------------------------------------------------------------------
// Finding 5 (outside the anchored files, geo-types): Triangle::new decides the orientation of its
// corners with a rounded cross product, so its documented CCW normalisation is flipped by
// rounding for a valid, non-degenerate triangle.
// ---------------------------------------------------------------------------------------------

/// a = (0.5 + 2^-53, 0.5), b = (12,12), c = (24,24).
/// b and c are on y = x, a is strictly below that line (a.x > a.y), so a -> b -> c turns
/// clockwise: with e = 2^-53, exact det = (b.x-a.x)(c.y-a.y) - (b.y-a.y)(c.x-a.x)
/// = (11.5-e)*23.5 - 11.5*(23.5-e) = -12e < 0 (the robust kernel agrees). Triangle::new documents "Irrespective of input order the resulting geometry has ccw
/// order", so it has to swap the corners. The rounded cross product is 0 and it does not.
#[test]
fn f5_triangle_new_keeps_clockwise_corner_order() {
    let a = coord! {x: 0.5 + 2f64.powi(-53), y: 0.5};
    let b = coord! {x: 12., y: 12.};
    let c = coord! {x: 24., y: 24.};
    assert!(a.x > 0.5, "test premise: the perturbation is representable");
    assert_eq!(RobustKernel::orient2d(a, b, c), Orientation::Clockwise, "test premise");

    let tri = Triangle::new(a, b, c);
    assert_eq!(
        triangle_winding_order(&tri),
        Some(WindingOrder::CounterClockwise)
    );
    assert_eq!(
        tri.to_polygon().exterior().winding_order(),
        Some(WindingOrder::CounterClockwise)
    );
}

// ---------------------------------------------------------------------------------------------
// Surprising, arguably outside the statement (documented-invalid input).
// ---------------------------------------------------------------------------------------------

/// A Triangle with collinear corners is documented as invalid, but `coordinate_position` handles
/// it (it answers Outside here) while `intersects` answers true for ANY point of the carrying
/// line, however far away: the two entry points disagree.
#[test]
fn s1_degenerate_triangle_intersects_far_away_collinear_point() {
    let t = Triangle::new(
        coord! {x: 0., y: 0.},
        coord! {x: 1., y: 0.},
        coord! {x: 2., y: 0.},
    );
    let far = coord! {x: 5., y: 0.};
    assert_eq!(t.coordinate_position(&far), CoordPos::Outside);
    assert!(!t.intersects(&far));
}
