//! Bug hunt for property C12: "closest and interior points lie on the geometry".
//!
//! Every test asserts the statement of the property on one concrete input, so every test in this
//! file FAILS on the unmodified library. Tests whose name starts with `outside_` use input that is
//! arguably outside the quantified domain (invalid by `Validation`, or documented behaviour).

use geo::algorithm::line_measures::{Distance, Euclidean};
use geo::{
    coord, Closest, ClosestPoint, Contains, Coord, Geometry, GeometryCollection, InteriorPoint,
    Intersects, Line, LineString, MultiLineString, Point, Polygon, Rect, Relate, Triangle,
    Validation,
};

// ---------------------------------------------------------------------------------------------
// Finding 1: closest_point of a point ON a line is Intersection(some other point, off the line)
// ---------------------------------------------------------------------------------------------

/// Clause: "closest_point(g,p) is Intersection(p) exactly when p intersects g".
///
/// The query point is the line's own end point, so it trivially intersects the line and the
/// answer must be Intersection(p). `Line::closest_point` instead returns Intersection(c) with
/// c = start + t * (end - start) recomputed in floating point: (0.8, 0.8999999999999999), which
/// is neither p nor a point of the line.
#[test]
fn line_closest_point_of_own_end_point_is_not_that_point() {
    let line = Line::new(coord! {x: 0.0, y: 0.2}, coord! {x: 0.8, y: 0.9});
    let p = Point::new(0.8, 0.9); // == line.end
    assert!(line.intersects(&p));
    let got = line.closest_point(&p);
    // the payload of an Intersection must lie on the geometry ...
    if let Closest::Intersection(c) = got {
        assert!(
            line.intersects(&c),
            "Intersection payload {c:?} does not intersect the line"
        );
    }
    // ... and by the statement it is p itself
    assert_eq!(got, Closest::Intersection(p));
}

/// Same clause, integer coordinates, interior point of the segment, through LineString and a
/// GeometryCollection (every type that delegates to `Line::closest_point` is affected; Polygon,
/// Rect and Triangle are not, they return Intersection(*p)).
///
/// (119, 84) = 0.7 * (170, 120) lies exactly on the segment (0,0)-(170,120):
/// cross product 119*120 - 84*170 = 14280 - 14280 = 0.
#[test]
fn linestring_closest_point_of_point_on_it_is_not_that_point() {
    let ls = LineString::from(vec![(0.0, 0.0), (170.0, 120.0), (170.0, 300.0)]);
    let p = Point::new(119.0, 84.0);
    assert!(ls.intersects(&p));
    let gc = GeometryCollection::new_from(vec![Geometry::LineString(ls.clone())]);
    assert_eq!(ls.closest_point(&p), Closest::Intersection(p));
    assert_eq!(gc.closest_point(&p), Closest::Intersection(p));
}

// ---------------------------------------------------------------------------------------------
// Finding 2: Polygon::interior_point returns a boundary point of a valid polygon because the
//            perturbed scan line rounds back onto the vertex row
// ---------------------------------------------------------------------------------------------

/// Clause: "interior_point(g) ... lies strictly inside whenever g has interior of its own
/// dimension (in particular for every valid polygon and multipolygon)".
///
/// f32 polygon on integer coordinates just above 2^24 (where consecutive f32 values are 2 apart;
/// this is the magnitude of Web-Mercator metres). Staircase, B = 16777216:
///
///   (0,B) (10,B) (10,B+4) (4,B+4) (4,B+6) (2,B+6) (2,B+8) (0,B+8)
///
/// y_mid = B+4 is a vertex row, so the code perturbs it to the average with the next closest
/// vertex row B+6; (B+4 + B+6)/2 = B+5 is not representable and rounds back to B+4. The scan
/// line is then collinear with the edge (10,B+4)-(4,B+4); the longest stretch between crossings
/// is x in [4,10], whose midpoint (7,B+4) lies ON that edge; `relation.is_intersects()` accepts
/// it although the stretch x in [0,4] (midpoint (2,B+4)) is strictly inside.
#[test]
fn polygon_interior_point_on_boundary_when_perturbed_scan_line_rounds_back_f32() {
    let b = 16777216.0f32;
    let poly: Polygon<f32> = Polygon::new(
        LineString::from(vec![
            (0.0, b),
            (10.0, b),
            (10.0, b + 4.0),
            (4.0, b + 4.0),
            (4.0, b + 6.0),
            (2.0, b + 6.0),
            (2.0, b + 8.0),
            (0.0, b + 8.0),
            (0.0, b),
        ]),
        vec![],
    );
    assert!(poly.is_valid());
    // a strictly interior representable point exists:
    assert!(poly.relate(&Point::new(2.0f32, b + 4.0)).is_contains());
    let ip = poly.interior_point().unwrap();
    assert!(poly.intersects(&ip));
    assert!(
        poly.relate(&ip).is_contains(),
        "interior_point {ip:?} is on the boundary of a valid polygon"
    );
}

/// The same in f64 with B = 2^53, through MultiPolygon (the valid member is also "down-ranked"
/// to segment length 0 there).
#[test]
fn multipolygon_interior_point_on_boundary_when_perturbed_scan_line_rounds_back_f64() {
    let b = 9007199254740992.0f64;
    let poly: Polygon<f64> = Polygon::new(
        LineString::from(vec![
            (0.0, b),
            (10.0, b),
            (10.0, b + 4.0),
            (4.0, b + 4.0),
            (4.0, b + 6.0),
            (2.0, b + 6.0),
            (2.0, b + 8.0),
            (0.0, b + 8.0),
            (0.0, b),
        ]),
        vec![],
    );
    assert!(poly.is_valid());
    let mp = geo::MultiPolygon::new(vec![poly]);
    assert!(mp.relate(&Point::new(2.0f64, b + 4.0)).is_contains());
    let ip = mp.interior_point().unwrap();
    assert!(
        mp.relate(&ip).is_contains(),
        "interior_point {ip:?} is on the boundary of a valid multipolygon"
    );
}

// ---------------------------------------------------------------------------------------------
// Finding 3: Polygon::interior_point of a thin (ordinary decimal) sliver is a vertex
// ---------------------------------------------------------------------------------------------

/// Clause: "lies strictly inside ... for every valid polygon" (domain: "thin slivers").
///
/// (0.1,0.1), (0.3,0.2), (0.5,0.3) are collinear as decimals but not as doubles, so the ring is a
/// valid, very thin triangle (the robust orientation predicate and `is_valid()` agree). The two
/// crossings of the scan line are a few ulps apart, their midpoint is not inside, no other
/// candidate is tried and the code falls back to "any vertex": (0.1, 0.1), a boundary point.
/// A strictly interior double exists: (0.20000000000000015, 0.15000000000000008).
#[test]
fn polygon_interior_point_of_decimal_sliver_is_a_vertex() {
    let poly: Polygon<f64> = Polygon::new(
        LineString::from(vec![(0.1, 0.1), (0.5, 0.3), (0.3, 0.2), (0.1, 0.1)]),
        vec![],
    );
    assert!(poly.is_valid());
    let witness = Point::new(0.20000000000000015, 0.15000000000000008);
    assert!(poly.relate(&witness).is_contains(), "witness is interior");
    let ip = poly.interior_point().unwrap();
    assert!(
        poly.relate(&ip).is_contains(),
        "interior_point {ip:?} is not strictly inside although {witness:?} is"
    );
}

/// Same clause, sliver two ulps wide next to the diagonal: the scan line y = 0.5 crosses the
/// edges at x = 0.5 and x = 0.5 + ~1e-16, the midpoint rounds to (0.5, 0.5) which is ON the edge
/// (0,0)-(1,1) and is returned. (0.5, 0.49999999999999994) is strictly inside.
#[test]
fn polygon_interior_point_of_two_ulp_sliver_is_on_an_edge() {
    let poly: Polygon<f64> = Polygon::new(
        LineString::from(vec![
            (0.0, 0.0),
            (1.0, 1.0),
            (0.5, 0.4999999999999999),
            (0.0, 0.0),
        ]),
        vec![],
    );
    assert!(poly.is_valid());
    let witness = Point::new(0.5, 0.49999999999999994);
    assert!(poly.relate(&witness).is_contains(), "witness is interior");
    let ip = poly.interior_point().unwrap();
    assert!(
        poly.relate(&ip).is_contains(),
        "interior_point {ip:?} is not strictly inside although {witness:?} is"
    );
}

// ---------------------------------------------------------------------------------------------
// Finding 4: Triangle::interior_point (the centroid) does not intersect a thin valid triangle
// ---------------------------------------------------------------------------------------------

/// Clause: "interior_point(g) returns a point that intersects g".
///
/// The same decimal sliver as a Triangle (valid: not collinear in binary). interior_point is
/// the rounded mean of the vertices, (0.3, 0.20000000000000004), which is outside the triangle.
#[test]
fn triangle_interior_point_of_decimal_sliver_is_outside() {
    let tri = Triangle::new(
        coord! {x: 0.1, y: 0.1},
        coord! {x: 0.5, y: 0.3},
        coord! {x: 0.3, y: 0.2},
    );
    assert!(tri.is_valid());
    let ip = tri.interior_point();
    assert!(
        tri.intersects(&ip),
        "interior_point {ip:?} does not intersect the triangle"
    );
}

// ---------------------------------------------------------------------------------------------
// Finding 5: a degenerate but valid Rect member is ignored by collections
// ---------------------------------------------------------------------------------------------

/// Clause: "otherwise a point of g whose distance to p equals the Euclidean distance from p to g".
///
/// A Rect with min == max is valid for `Validation` and behaves as a point for `intersects` and
/// `Euclidean.distance`. On its own it yields Indeterminate (allowed: zero-length input); inside
/// a collection that Indeterminate is silently skipped, so the collection reports the far member.
/// Expected: the nearest point of g to (3.5,4.5) is (3,4), distance sqrt(0.5) = 0.7071;
/// got SinglePoint((2,2)), distance 2.915.
#[test]
fn collection_closest_point_skips_point_like_rect_member() {
    let r = Rect::new(coord! {x: 3.0, y: 4.0}, coord! {x: 3.0, y: 4.0});
    assert!(r.is_valid());
    let gc = GeometryCollection::new_from(vec![
        Geometry::Point(Point::new(2.0, 2.0)),
        Geometry::Rect(r),
    ]);
    let p = Point::new(3.5, 4.5);
    let true_distance: f64 = Euclidean.distance(&Geometry::GeometryCollection(gc.clone()), &p);
    assert!((true_distance - 0.5f64.sqrt()).abs() < 1e-12);
    match gc.closest_point(&p) {
        Closest::SinglePoint(c) => {
            let d = Euclidean.distance(c, p);
            assert!(
                (d - true_distance).abs() < 1e-9,
                "closest_point {c:?} is at distance {d}, the geometry is at distance {true_distance}"
            );
        }
        other => panic!("expected SinglePoint, got {other:?}"),
    }
}

// ---------------------------------------------------------------------------------------------
// Finding 6: NaN coordinates for finite input of extreme magnitude
// ---------------------------------------------------------------------------------------------

/// Clauses: "a point of g ..." / "Indeterminate only for empty or zero-length input".
///
/// The zero-length test uses hypot (no underflow) but t = (to_p . d) / (d . d) squares the
/// coordinates: d.d underflows to 0 (0/0 = NaN) below ~1e-162 and overflows (inf/inf = NaN) above
/// ~1e154 (f32: below ~3e-23 / above ~1.8e19). The result is SinglePoint(NaN, NaN), or even
/// Intersection(NaN, NaN) when p is on the line. Expected: SinglePoint((5e-201, 0)).
#[test]
fn line_closest_point_is_nan_for_tiny_coordinates() {
    let line = Line::new(coord! {x: 0.0, y: 0.0}, coord! {x: 1e-200, y: 0.0});
    assert!(line.is_valid());
    let got = line.closest_point(&Point::new(5e-201, 1e-200));
    assert_eq!(got, Closest::SinglePoint(Point::new(5e-201, 0.0)));
}

#[test]
fn line_closest_point_is_nan_for_huge_coordinates() {
    let line = Line::new(coord! {x: 0.0, y: 0.0}, coord! {x: 1e160, y: 0.0});
    assert!(line.is_valid());
    let got = line.closest_point(&Point::new(5e159, 1.0));
    assert_eq!(got, Closest::SinglePoint(Point::new(5e159, 0.0)));
}

// ---------------------------------------------------------------------------------------------
// Arguably outside the statement (invalid input or documented behaviour) but surprising
// ---------------------------------------------------------------------------------------------

/// A flat Triangle (invalid: CollinearCoords) "intersects" every point of its supporting line,
/// also beyond its extent, so closest_point reports Intersection for a point sqrt(2) away.
/// (The interior_point unit tests treat flat triangles as supported input.)
#[test]
fn outside_flat_triangle_closest_point_is_intersection_for_far_collinear_point() {
    let tri = Triangle::new(
        coord! {x: 0.0, y: 0.0},
        coord! {x: 2.0, y: 2.0},
        coord! {x: 4.0, y: 4.0},
    );
    let p = Point::new(5.0, 5.0);
    // expected: nearest point is the vertex (4,4)
    assert_eq!(
        tri.closest_point(&p),
        Closest::SinglePoint(Point::new(4.0, 4.0))
    );
}

/// interior_point docs: "a point that's guaranteed to intersect a given geometry ... or on the
/// edge if the geometry has zero area". For the flat triangle (0,1),(2,4),(4,7) the length-weighted
/// centroid is rounded to (2, 4.000000000000001), off the segment.
#[test]
fn outside_flat_triangle_interior_point_is_off_the_triangle() {
    let tri = Triangle::new(
        coord! {x: 2.0, y: 4.0},
        coord! {x: 0.0, y: 1.0},
        coord! {x: 4.0, y: 7.0},
    );
    let ip = tri.interior_point();
    // every point of the (degenerate) triangle satisfies 3x - 2y + 2 = 0; (2,4) is its middle
    assert!(
        Line::new(coord! {x: 0.0, y: 1.0}, coord! {x: 4.0, y: 7.0}).intersects(&ip),
        "interior_point {ip:?} is not on the segment (0,1)-(4,7)"
    );
}

/// A zero-length LineString member (invalid) is skipped: nearest point of
/// MULTILINESTRING((5 2,3 4),(1 2,1 2)) to (0,2.5) is (1,2) at 1.118; got (3,4) at 3.354.
#[test]
fn outside_multilinestring_closest_point_skips_zero_length_member() {
    let mls = MultiLineString::new(vec![
        LineString::from(vec![(5.0, 2.0), (3.0, 4.0)]),
        LineString::from(vec![(1.0, 2.0), (1.0, 2.0)]),
    ]);
    let p = Point::new(0.0, 2.5);
    assert_eq!(
        mls.closest_point(&p),
        Closest::SinglePoint(Point::new(1.0, 2.0))
    );
}

/// Documented ("or an endpoint is returned otherwise"): a two-coordinate LineString has a
/// one-dimensional interior, yet interior_point is its start point, i.e. a boundary point.
#[test]
fn outside_two_point_linestring_interior_point_is_a_boundary_point() {
    let ls = LineString::from(vec![(0.0, 0.0), (1.0, 0.0)]);
    assert!(ls.is_valid());
    let ip = ls.interior_point().unwrap();
    // Contains is "interior of ls contains the point": false for an end point
    assert!(
        ls.contains(&ip),
        "interior_point {ip:?} is an end point (boundary) of the line string"
    );
    let _: Coord<f64> = ip.0;
}
