//! C09 bug hunt: Simplification keeps a vertex subsequence within the tolerance.
//!
//! Every test asserts the statement of the property on a concrete input; all of them FAIL on the
//! unmodified library.  Only the public API is used.

use geo::{
    Coord, LineString, Polygon, Simplify, SimplifyIdx, SimplifyVw, SimplifyVwIdx,
    SimplifyVwPreserve,
};
use std::process::Command;

// ------------------------------------------------------------------------------------------------
// Finding 1: Douglas-Peucker recursion depth is linear in the vertex count -> stack overflow
// ------------------------------------------------------------------------------------------------

/// The zig-zag p_i = (i, +i) for even i, (i, -i) for odd i.
///
/// Even vertices lie on the line y = x, odd vertices on y = -x.  For the chord p_0 -> p_k the
/// vertex p_(k-1) lies on the *other* diagonal at distance |(k-1) + (k-1)| / sqrt(2) =
/// sqrt(2) * (k-1) from the chord's line (its foot point is the origin = p_0, which is on the
/// chord), all other vertices p_j (j < k-1) are at distance 0 (same diagonal) or sqrt(2) * j
/// (other diagonal), i.e. strictly closer.  So with epsilon = 1 < sqrt(2):
///   * every vertex is farther than epsilon from the chord replacing it -> RDP must keep ALL
///     vertices: the expected result of simplify(1.0) is the input itself,
///   * the split vertex is always the last-but-one, so `compute_rdp` recurses once per vertex.
fn zigzag(n: usize) -> LineString<f64> {
    (0..n)
        .map(|i| {
            let v = i as f64;
            if i % 2 == 0 {
                (v, v)
            } else {
                (v, -v)
            }
        })
        .collect()
}

/// Helper that does the real work in a child process (a stack overflow aborts the whole
/// process, it cannot be caught in-process).  Does nothing unless driven by the test below.
#[test]
fn c09_child_rdp_zigzag() {
    let Ok(n) = std::env::var("HUNT_C09_CHILD_N") else {
        return;
    };
    let n: usize = n.parse().unwrap();
    let ls = zigzag(n);
    // 2 MiB is the default stack size of every thread spawned by Rust's std (and of the threads
    // the test harness runs tests on).
    let handle = std::thread::Builder::new()
        .stack_size(2 * 1024 * 1024)
        .spawn(move || {
            let out = ls.simplify(1.0);
            assert_eq!(out, ls, "every vertex is farther than 1.0 from its chord");
            let idx = ls.simplify_idx(1.0);
            assert_eq!(idx, (0..n).collect::<Vec<_>>());
        })
        .unwrap();
    handle.join().unwrap();
}

fn run_child(n: usize) -> std::process::Output {
    Command::new(std::env::current_exe().unwrap())
        .args(["--exact", "c09_child_rdp_zigzag", "--test-threads=1"])
        .env("HUNT_C09_CHILD_N", n.to_string())
        .output()
        .unwrap()
}

/// simplify(eps) must return (a subsequence of the input ...) for ALL line strings.  For a
/// 12 000-vertex zig-zag it never returns: the process dies with
/// "thread ... has overflowed its stack / fatal runtime error: stack overflow" (SIGABRT).
/// (Measured: on a 2 MiB thread ~10 000 vertices suffice in release and ~5 000 in debug; on the
/// 8 MiB main thread 40 000 in release / 20 000 in debug.)
#[test]
fn rdp_zigzag_linestring_overflows_the_stack() {
    // control: the same shape with 1 000 vertices is fine, so the harness itself works
    let small = run_child(1_000);
    assert!(
        small.status.success(),
        "control run failed: {}",
        String::from_utf8_lossy(&small.stderr)
    );

    let big = run_child(12_000);
    assert!(
        big.status.success(),
        "simplify(1.0) of a 12000-vertex LineString did not return: {:?}\n{}",
        big.status,
        String::from_utf8_lossy(&big.stderr)
    );
}

// ------------------------------------------------------------------------------------------------
// Finding 2: RDP drops a vertex that is astronomically farther than epsilon from the retained
// segment when an intermediate product of the distance formula overflows / underflows (NaN)
// ------------------------------------------------------------------------------------------------

/// LINESTRING(-1e160 0, 0 1e160, 1e160 0), eps = 1.
/// All coordinates are finite f64 (f64::MAX is 1.8e308).  The middle vertex projects onto the
/// middle of the segment (-1e160,0)-(1e160,0) and is 1e160 away from it, which is > 1, so it must
/// be kept: expected output == input, expected indices [0, 1, 2].
#[test]
fn rdp_f64_large_coordinates_drop_a_far_vertex() {
    let ls: LineString<f64> = vec![(-1e160, 0.0), (0.0, 1e160), (1e160, 0.0)].into();
    let eps = 1.0;
    let out = ls.simplify(eps);
    let idx = ls.simplify_idx(eps);
    assert_eq!(idx, vec![0, 1, 2], "vertex 1 is 1e160 > eps away from segment 0-2");
    assert_eq!(out, ls);
}

/// Same with f32 (the type the repository's own fuzz target uses): 1e20 is far inside the f32
/// range (f32::MAX = 3.4e38).  Middle vertex is 1e20 from the segment, eps = 1.
#[test]
fn rdp_f32_large_coordinates_drop_a_far_vertex() {
    let ls: LineString<f32> = vec![(-1e20_f32, 0.0), (0.0, 1e20), (1e20, 0.0)].into();
    let idx = ls.simplify_idx(1.0);
    assert_eq!(idx, vec![0, 1, 2], "vertex 1 is 1e20 > eps away from segment 0-2");
    assert_eq!(ls.simplify(1.0), ls);
}

/// The same on a polygon ring: POLYGON((-1e20 0, 0 1e20, 1e20 0, 1e20 -1e20, -1e20 -1e20, -1e20 0))
/// (a valid, convex "house" shape).  With eps = 1 nothing may be dropped: the roof apex (0,1e20)
/// is 1e20 away from the segment joining its neighbours.
#[test]
fn rdp_f32_polygon_large_coordinates_drop_a_far_vertex() {
    let ring: Vec<(f32, f32)> = vec![
        (-1e20, 0.0),
        (0.0, 1e20),
        (1e20, 0.0),
        (1e20, -1e20),
        (-1e20, -1e20),
        (-1e20, 0.0),
    ];
    let poly = Polygon::new(LineString::from(ring), vec![]);
    let out = poly.simplify(1.0);
    assert_eq!(out, poly, "every vertex is >= 4.4e19 away from any chord that could replace it");
}

/// Underflow flavour: LINESTRING(0 0, 1e-170 1e-170, 2e-170 0), eps = 1e-180.
/// The middle vertex is 1e-170 away from the segment (0,0)-(2e-170,0); 1e-170 > 1e-180, so it
/// must be kept.  (All values are normal f64 numbers, f64::MIN_POSITIVE = 2.2e-308.)
#[test]
fn rdp_f64_tiny_coordinates_drop_a_far_vertex() {
    let ls: LineString<f64> = vec![(0.0, 0.0), (1e-170, 1e-170), (2e-170, 0.0)].into();
    let eps = 1e-180;
    let idx = ls.simplify_idx(eps);
    assert_eq!(idx, vec![0, 1, 2], "vertex 1 is 1e-170 > eps away from segment 0-2");
    assert_eq!(ls.simplify(eps), ls);
}

// ------------------------------------------------------------------------------------------------
// Finding 3: Visvalingam-Whyatt panics (Option::unwrap on None in VScore::cmp) on finite input
// ------------------------------------------------------------------------------------------------

/// LINESTRING(0 0, 1e160 1e160, 2e160 2e160+1e140, 3e160 3e160), eps = 1.
/// Triangle (0,1,2): cross = 1e160*(2e160+1e140) - 1e160*2e160 = 1e300, area 5e299.
/// Triangle (1,2,3): relative to vertex 1: a = (1e160, 1e160+1e140), b = (2e160, 2e160),
///   cross = 1e160*2e160 - (1e160+1e140)*2e160 = -2e300, area 1e300.
/// Both areas are representable f64 numbers and (much) greater than eps = 1, so simplify_vw(1)
/// must return the input unchanged and simplify_vw_idx(1) must be [0,1,2,3].
#[test]
fn vw_f64_large_coordinates_panic() {
    let ls: LineString<f64> = vec![
        (0.0, 0.0),
        (1e160, 1e160),
        (2e160, 2e160 + 1e140),
        (3e160, 3e160),
    ]
    .into();
    let idx = ls.simplify_vw_idx(1.0);
    assert_eq!(idx, vec![0, 1, 2, 3]);
    assert_eq!(ls.simplify_vw(1.0), ls);
}

/// f32 flavour through the polygon entry point: the thin but valid triangle
/// POLYGON((0 0, 1e20 1e20, 2e20 2.0001e20, 0 0)), area = |1e20*2.0001e20 - 1e20*2e20| / 2 = 5e35
/// (representable, f32::MAX = 3.4e38).  Each interior ring vertex spans that same triangle with
/// its neighbours, 5e35 > eps = 1 -> identity expected.
fn thin_f32_triangle() -> Polygon<f32> {
    let ring: Vec<(f32, f32)> = vec![(0.0, 0.0), (1e20, 1e20), (2e20, 2.0001e20), (0.0, 0.0)];
    Polygon::new(LineString::from(ring), vec![])
}

#[test]
fn vw_f32_polygon_large_coordinates_panic() {
    let poly = thin_f32_triangle();
    assert_eq!(poly.simplify_vw(1.0), poly);
}

/// The topology-preserving variant must in addition never go below four ring coordinates, so
/// for this 4-coordinate ring the only admissible answer is the input itself.
#[test]
fn vw_preserve_f32_polygon_large_coordinates_panic() {
    let poly = thin_f32_triangle();
    let out = poly.simplify_vw_preserve(1.0);
    assert!(out.exterior().0.len() >= 4);
    assert!(out.exterior().is_closed());
    assert_eq!(out, poly);
}

// ------------------------------------------------------------------------------------------------
// Finding 4: RDP's distance is decided by a rounded cross product: a vertex 5.3e-9 away from the
// retained segment is dropped with eps = 1e-9 (integer-valued coordinates of size 1.3e8)
// ------------------------------------------------------------------------------------------------

/// A = (0,0), P = (2^27+1, 2^27) = (134217729, 134217728), B = (2^27+2, 2^27+1).
/// All coordinates are integers < 2^53, i.e. exact f64 values.
/// cross(P-A, B-A) = (2^27+1)(2^27+1) - 2^27 (2^27+2) = (2^54 + 2^28 + 1) - (2^54 + 2^28) = 1
/// |B-A| = sqrt((2^27+2)^2 + (2^27+1)^2) ~ 1.898e8, P projects inside the segment
/// (0 < P.B = 3.6e16 < |B|^2 = 3.6e16 + 4e8), hence dist(P, AB) = 1 / 1.898e8 = 5.27e-9.
/// With eps = 1e-9 < 5.27e-9 the vertex P must be kept: expected indices [0, 1, 2].
/// (The library computes (2^27+1)^2 rounded to 2^54 + 2^28, so the cross product becomes 0.)
#[test]
fn rdp_rounded_cross_product_drops_vertex_outside_tolerance() {
    let k = (1u64 << 27) as f64;
    let a = Coord { x: 0.0, y: 0.0 };
    let p = Coord { x: k + 1.0, y: k };
    let b = Coord { x: k + 2.0, y: k + 1.0 };
    // exact integer check of the hand derivation
    let (px, py, bx, by) = (p.x as i128, p.y as i128, b.x as i128, b.y as i128);
    assert_eq!(px * by - py * bx, 1);
    assert!(px * bx + py * by > 0 && px * bx + py * by < bx * bx + by * by);
    let true_dist = 1.0 / (b.x.hypot(b.y));
    let eps = 1e-9;
    assert!(true_dist > 5.0 * eps);

    let ls = LineString::new(vec![a, p, b]);
    assert_eq!(
        ls.simplify_idx(eps),
        vec![0, 1, 2],
        "P is {true_dist:e} away from AB, more than 5 times eps = {eps:e}"
    );
    assert_eq!(ls.simplify(eps), ls);
}
