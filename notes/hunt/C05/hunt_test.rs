//! C05 hunt: planar area and ring orientation.
//!
//! Every test asserts the statement of the property on one concrete input; the expected
//! values are derived by hand in the comments (all inputs are integer valued or powers of two,
//! so the "exact" values are exact integer arithmetic).
//!
//! Tests 1-3: the sign of `signed_area` (f32 and f64) is decided by a sum of rounded products.
//! Tests 4-5: `winding_order` / `orient` for integer coordinate types overflow.
//! Tests 6-7: `winding_order` / `signed_area` under- and overflow for extreme f64 magnitudes.
//! Tests 8-9: outside the statement, but surprising.

use geo::orient::{Direction, Orient};
use geo::winding_order::{triangle_winding_order, Winding, WindingOrder};
use geo::{coord, Area, LineString, MultiPolygon, Polygon, Triangle};

/// 1. A counter-clockwise f32 quadrilateral with coordinates below 27000 has a NEGATIVE area.
///
/// Ring: (0,0) -> p1=(26937,23977) -> p2=(18774,16711) -> p3=(13423,11948) -> (0,0).
/// All coordinates are integers < 2^24, i.e. exact in f32. Shoelace, relative to (0,0):
///   p1 x p2 = 26937*16711 - 23977*18774 = 450144207 - 450144198 = +9
///   p2 x p3 = 18774*11948 - 16711*13423 = 224311752 - 224311753 = -1
///   twice the area = +8, area = +4  => the ring is counter-clockwise
/// (`winding_order`, which uses the robust predicate, agrees).
/// In f32 the four products round to 450144192, 450144192, 224311744, 224311760, so the
/// library computes (0 - 16) / 2 = -8.
/// The magnitude of the error (12) is within rounding relative to the squared coordinate
/// magnitude (27000^2 * 2^-23 ~ 87), but the statement "signed_area is positive exactly when
/// the exterior is counter-clockwise" is violated, and `signed_area` contradicts
/// `winding_order` / `orient` of the same library.
#[test]
fn f32_ccw_thin_quad_has_negative_signed_area() {
    let ring: LineString<f32> = vec![
        (0., 0.),
        (26937., 23977.),
        (18774., 16711.),
        (13423., 11948.),
        (0., 0.),
    ]
    .into();
    assert_eq!(ring.winding_order(), Some(WindingOrder::CounterClockwise));
    let poly = Polygon::new(ring, vec![]);
    // orient(Default) must give a ccw exterior; it leaves this one alone because it is ccw already
    let oriented = poly.orient(Direction::Default);
    assert_eq!(oriented, poly);
    let area = oriented.signed_area();
    assert!(
        area > 0.,
        "exterior is counter-clockwise (exact area +4) but signed_area = {area}"
    );
}

/// 2. The same in f64: a clockwise quadrilateral (coordinates ~4e8) has a POSITIVE area.
///
/// Ring: (0,0) -> p1=(441273434,288619855) -> p2=(331839821,217043569)
///             -> p3=(282022999,184460316) -> (0,0)
///   p1 x p2 = 95775561020245946 - 95775561020245955 = -9
///   p2 x p3 = 61211278243043436 - 61211278243043431 = +5
///   twice the area = -4, area = -2 => clockwise (winding_order agrees).
/// In f64 the products round to ...952, ...952 (spacing 16) and ...440, ...432 (spacing 8), so
/// the library computes (0 + 8) / 2 = +4.
#[test]
fn f64_cw_thin_quad_has_positive_signed_area() {
    let ring: LineString<f64> = vec![
        (0., 0.),
        (441273434., 288619855.),
        (331839821., 217043569.),
        (282022999., 184460316.),
        (0., 0.),
    ]
    .into();
    assert_eq!(ring.winding_order(), Some(WindingOrder::Clockwise));
    let poly = Polygon::new(ring, vec![]);
    let area = poly.signed_area();
    assert!(
        area < 0.,
        "exterior is clockwise (exact area -2) but signed_area = {area}"
    );
}

/// 3. A counter-clockwise triangle / polygon with area 1/2 has signed and unsigned area 0.
///
/// k = 2^27. Ring (0,0) -> (k, k-1) -> (k+1, k) -> (0,0):
///   twice the area = k*k - (k-1)(k+1) = k^2 - (k^2 - 1) = +1  => ccw, area = 0.5
/// In f64 k^2 - 1 = 2^54 - 1 rounds to 2^54, so the library returns 0: "positive exactly when
/// the exterior is counter-clockwise" fails (0 is not positive), unsigned_area of a polygon
/// with interior is 0, and Triangle behaves the same.
#[test]
fn f64_ccw_thin_triangle_has_zero_area() {
    let k = (1u64 << 27) as f64;
    let (a, b, c) = (
        coord! {x: 0., y: 0.},
        coord! {x: k, y: k - 1.},
        coord! {x: k + 1., y: k},
    );
    let ring = LineString::new(vec![a, b, c, a]);
    assert_eq!(ring.winding_order(), Some(WindingOrder::CounterClockwise));
    let poly = Polygon::new(ring, vec![]);
    let tri = Triangle(a, b, c);
    assert_eq!(
        triangle_winding_order(&tri),
        Some(WindingOrder::CounterClockwise)
    );
    assert!(
        poly.signed_area() > 0. && tri.signed_area() > 0.,
        "ccw ring of exact area 0.5: polygon area {}, triangle area {}",
        poly.signed_area(),
        tri.signed_area()
    );
}

/// 4. `winding_order` of an i32 ring overflows as soon as the ring is wider than 46340 units
/// (e.g. coordinates stored in 1e-7 degrees, where 46341 units are ~500 m).
///
/// Square with side 100000 at (134050000, 525200000), listed counter-clockwise:
///   exact twice the area = 2 * 100000^2 = 2e10 > 0  => CounterClockwise.
/// Pivot = least vertex (x0,y0); prev = (x0, y0+s), next = (x0+s, y0):
///   SimpleKernel::orient2d = (0)*(0) - (-s)*(s) = s^2 = 1e10, which does not fit in i32:
///   debug build: panic "attempt to multiply with overflow";
///   release build: 1e10 wraps to 1410065408 here, other sides give a negative number (see test 5).
#[test]
fn i32_winding_order_overflows_for_wide_ring() {
    let (x0, y0, s) = (134_050_000i32, 525_200_000i32, 100_000i32);
    let ring: LineString<i32> = vec![
        (x0, y0),
        (x0 + s, y0),
        (x0 + s, y0 + s),
        (x0, y0 + s),
        (x0, y0),
    ]
    .into();
    // side 50000: s^2 = 2.5e9 wraps to -1794967296 => Clockwise in release
    let s2 = 50_000i32;
    let ring2: LineString<i32> = vec![
        (x0, y0),
        (x0 + s2, y0),
        (x0 + s2, y0 + s2),
        (x0, y0 + s2),
        (x0, y0),
    ]
    .into();
    assert_eq!(ring.winding_order(), Some(WindingOrder::CounterClockwise));
    assert_eq!(ring2.winding_order(), Some(WindingOrder::CounterClockwise));
}

/// 5. `orient` of an i16 polygon that is already correctly oriented reverses it (release) or
/// panics (debug).
///
/// Exterior (0,0),(200,0),(200,200),(0,200),(0,0): twice the area = 2*200*200 = +80000 => ccw.
/// Hole (50,50),(50,150),(150,150),(150,50),(50,50): twice the area = -20000 => cw.
/// So orient(Default) must return the polygon unchanged.
/// orient2d at the pivot (0,0) of the exterior is 200*200 = 40000 > i16::MAX: it wraps to
/// -25536 => "Clockwise", and the exterior gets reversed. (The hole's 100*100 = 10000 fits.)
#[test]
fn i16_orient_reverses_correctly_oriented_polygon() {
    let ext: LineString<i16> = vec![(0, 0), (200, 0), (200, 200), (0, 200), (0, 0)].into();
    let hole: LineString<i16> = vec![(50, 50), (50, 150), (150, 150), (150, 50), (50, 50)].into();
    let poly = Polygon::new(ext, vec![hole]);
    let oriented = poly.orient(Direction::Default);
    assert_eq!(oriented, poly);
}

/// 6. `winding_order` is None for a ring WITH area when the coordinates are tiny.
///
/// Unit square scaled by s = 2^-540 (~2.8e-163), listed counter-clockwise. Exact area
/// s^2 = 2^-1080 > 0, so the statement demands Some(CounterClockwise) ("None only for rings
/// without area"). The products inside robust::orient2d underflow to 0 => Collinear => None,
/// and `orient` therefore cannot orient such a ring either.
#[test]
fn f64_tiny_ring_has_no_winding_order() {
    let s = 2f64.powi(-540);
    let ccw: LineString<f64> = vec![(0., 0.), (s, 0.), (s, s), (0., s), (0., 0.)].into();
    let mut cw = ccw.clone();
    cw.0.reverse();
    assert_eq!(ccw.winding_order(), Some(WindingOrder::CounterClockwise));
    // orient(Default) of the clockwise ring must reverse it
    let oriented = Polygon::new(cw, vec![]).orient(Direction::Default);
    assert_eq!(oriented.exterior(), &ccw);
}

/// 7. Huge coordinates: area is NaN and winding_order None although the exact area is finite.
///
/// s = 2^530 (~3.5e159), d = 2^490. Ring (0,0) -> q=(s,s) -> r=(s,s+d) -> (0,0):
///   twice the area = q x r = s*(s+d) - s*s = s*d = 2^1020  => ccw, area = 2^1019 ~ 5.6e306,
/// which is a finite f64. The library computes inf - inf = NaN for the area, and the robust
/// predicate also produces NaN, which is mapped to Collinear => None.
#[test]
fn f64_huge_ring_area_is_nan_and_winding_none() {
    let s = 2f64.powi(530);
    let d = 2f64.powi(490);
    let ring: LineString<f64> = vec![(0., 0.), (s, s), (s, s + d), (0., 0.)].into();
    let poly = Polygon::new(ring.clone(), vec![]);
    let expected = 2f64.powi(1019);
    assert!(expected.is_finite());
    let w = ring.winding_order();
    let area = poly.signed_area();
    assert_eq!(w, Some(WindingOrder::CounterClockwise));
    assert_eq!(area, expected, "signed_area = {area}");
}

/// 8. (outside the statement: geo-types constructor) `Triangle::new` promises "irrespective of
/// input order the resulting geometry has ccw order", but decides with a rounded cross product:
/// for the clockwise triangle (0,0),(k+1,k),(k,k-1) (exact cross = (k+1)(k-1) - k*k = -1) the
/// cross product rounds to 0 and the clockwise order is kept.
#[test]
fn triangle_new_keeps_clockwise_order() {
    let k = (1u64 << 27) as f64;
    let t = Triangle::new(
        coord! {x: 0., y: 0.},
        coord! {x: k + 1., y: k},
        coord! {x: k, y: k - 1.},
    );
    assert_eq!(
        triangle_winding_order(&t),
        Some(WindingOrder::CounterClockwise)
    );
}

/// 9. (outside the statement: documented) for a MultiPolygon `unsigned_area` is not the absolute
/// value of `signed_area` when the members have different orientations: ccw unit square plus cw
/// unit square => signed 0, unsigned 2.
#[test]
fn multipolygon_unsigned_area_is_not_abs_of_signed_area() {
    let ccw: Polygon<f64> = Polygon::new(
        vec![(0., 0.), (1., 0.), (1., 1.), (0., 1.), (0., 0.)].into(),
        vec![],
    );
    let cw: Polygon<f64> = Polygon::new(
        vec![(5., 0.), (5., 1.), (6., 1.), (6., 0.), (5., 0.)].into(),
        vec![],
    );
    let mp = MultiPolygon::new(vec![ccw, cw]);
    assert_eq!(mp.signed_area(), 0.);
    assert_eq!(mp.unsigned_area(), mp.signed_area().abs());
}
