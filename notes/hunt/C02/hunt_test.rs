//! C02 bug hunt: Intersects / Contains / Within / coordinate_position must agree with DE-9IM.
//! Every test asserts the statement of the property on one concrete input; the expected values
//! are derived by hand in the comments.  All of them FAIL on the unmodified library.
//!
//! Tests named `ood_*` are arguably outside the quantified domain (see findings.json).

use geo::coordinate_position::{CoordPos, CoordinatePosition};
use geo::*;

// ---------------------------------------------------------------------------------------------
// 1. MultiLineString::coordinate_position, point that is an end point of TWO members
// ---------------------------------------------------------------------------------------------
// MULTILINESTRING((0 0,1 0),(1 0,2 0)), c = (1 0).
// c is an end point of exactly two open members.  By the mod-2 rule (SFS 6.1.15.1, quoted in
// coordinate_position.rs itself) a point on an even number of member boundaries is NOT on the
// boundary of the collection; since it is a point of the geometry it is in its interior.
// The true matrix of (mls, POINT(1 0)) is 0F1FF0FF2, so coordinate_position must be Inside.
// The library's own siblings agree with that: contains = true, intersects = true, relate = 0F1FF0FF2,
// only coordinate_position says Outside (a point OF the geometry reported as exterior).
#[test]
fn mls_coordinate_position_shared_endpoint_of_two_members() {
    let mls: MultiLineString<f64> = MultiLineString::new(vec![
        line_string![(x: 0., y: 0.), (x: 1., y: 0.)],
        line_string![(x: 1., y: 0.), (x: 2., y: 0.)],
    ]);
    let c = coord! {x: 1., y: 0.};
    // siblings (all correct)
    assert!(mls.intersects(&c));
    assert!(mls.contains(&Point::from(c)));
    assert!(Point::from(c).is_within(&mls));
    assert!(mls.relate(&Point::from(c)).is_contains());
    // the property
    assert_eq!(mls.coordinate_position(&c), CoordPos::Inside);
}

// Same thing with four members meeting in a star (even count 4), not collinear.
// MULTILINESTRING((0 0,2 2),(2 2,4 0),(2 2,4 4),(0 4,2 2)), c = (2 2): 4 end points -> interior.
#[test]
fn mls_coordinate_position_star_of_four_members() {
    let mls: MultiLineString<f64> = MultiLineString::new(vec![
        line_string![(x: 0., y: 0.), (x: 2., y: 2.)],
        line_string![(x: 2., y: 2.), (x: 4., y: 0.)],
        line_string![(x: 2., y: 2.), (x: 4., y: 4.)],
        line_string![(x: 0., y: 4.), (x: 2., y: 2.)],
    ]);
    let c = coord! {x: 2., y: 2.};
    assert!(mls.contains(&Point::from(c)));
    assert_eq!(mls.coordinate_position(&c), CoordPos::Inside);
}

// ---------------------------------------------------------------------------------------------
// 2. LineString::contains(LineString): repeated coordinate of rhs at an end point of self
// ---------------------------------------------------------------------------------------------
// a = LINESTRING(0 0,2 0), b = LINESTRING(0 0,0 0,1 0)  (b repeats its first coordinate; that is
// a valid line string - `is_valid()` is true - and as a point set it is the segment (0 0)-(1 0)).
// I(b) = open segment ]0,1[ x {0} lies in I(a); B(b) = {(0 0),(1 0)}: (0 0) in B(a), (1 0) in I(a);
// nothing of b is in E(a).  Matrix (a,b) = 1FF00F102 -> T*****FF* holds -> contains = true.
// The same b without the repeated coordinate gives true, Line(0 0,2 0).contains(b) gives true,
// relate gives true; LineString::contains(LineString) gives false.
#[test]
fn linestring_contains_linestring_with_repeated_coord_at_selfs_endpoint() {
    let a: LineString<f64> = line_string![(x: 0., y: 0.), (x: 2., y: 0.)];
    let b: LineString<f64> = line_string![(x: 0., y: 0.), (x: 0., y: 0.), (x: 1., y: 0.)];
    let b_plain: LineString<f64> = line_string![(x: 0., y: 0.), (x: 1., y: 0.)];
    assert!(b.is_valid());
    // siblings (all correct)
    assert!(a.contains(&b_plain));
    assert!(Line::new(a.0[0], a.0[1]).contains(&b));
    assert!(a.relate(&b).is_contains());
    // the property
    assert!(a.contains(&b));
}

// within(a,b) == contains(b,a) holds trivially (blanket impl), so the same input breaks `is_within`
// against its mask T*F**F***; and the repeated coordinate may also be the LAST one of rhs.
// a = LINESTRING(0 0,1 0,1 1), b = LINESTRING(1 0,1 1,1 1): b is the second segment of a.
#[test]
fn linestring_within_linestring_with_repeated_last_coord() {
    let a: LineString<f64> = line_string![(x: 0., y: 0.), (x: 1., y: 0.), (x: 1., y: 1.)];
    let b: LineString<f64> = line_string![(x: 1., y: 0.), (x: 1., y: 1.), (x: 1., y: 1.)];
    assert!(b.is_valid());
    assert!(b.relate(&a).is_within());
    assert!(b.is_within(&a));
}

// ---------------------------------------------------------------------------------------------
// 3. Rect::contains(Polygon) depends on which vertex the polygon's ring starts with
// ---------------------------------------------------------------------------------------------
// r = RECT(0 0, 1 1); p = thin triangle with vertices (0 0), (1e-17 0), (1 1).
// All three vertices lie on the boundary of r (two on the bottom edge, one at the corner (1 1)),
// r is convex, so p is a subset of r; p has non-empty interior (true area 0.5e-17 > 0, `is_valid()`),
// and an open subset of r cannot lie in r's boundary, so I(p) meets I(r): contains = true.
// Spelt from (0 0) the library says true; spelt from (1 1) it says false.
#[test]
fn rect_contains_polygon_depends_on_ring_start() {
    let r = Rect::new((0., 0.), (1., 1.));
    let p_from_00: Polygon<f64> =
        polygon![(x: 0., y: 0.), (x: 1e-17, y: 0.), (x: 1., y: 1.), (x: 0., y: 0.)];
    let p_from_11: Polygon<f64> =
        polygon![(x: 1., y: 1.), (x: 0., y: 0.), (x: 1e-17, y: 0.), (x: 1., y: 1.)];
    assert!(p_from_00.is_valid());
    assert!(p_from_11.is_valid());
    // sibling spelling (correct)
    assert!(r.contains(&p_from_00));
    assert!(p_from_00.is_within(&r));
    // the property
    assert!(r.contains(&p_from_11));
}

// The same in f32 with a sliver that is only 1e-8 wide (f32 has a 24 bit mantissa):
// 1e-8 - 1 rounds to -1 when the ring is shifted by its first coordinate (1 1).
#[test]
fn rect_contains_polygon_depends_on_ring_start_f32() {
    let r: Rect<f32> = Rect::new((0., 0.), (1., 1.));
    let p_from_00: Polygon<f32> =
        polygon![(x: 0., y: 0.), (x: 1e-8, y: 0.), (x: 1., y: 1.), (x: 0., y: 0.)];
    let p_from_11: Polygon<f32> =
        polygon![(x: 1., y: 1.), (x: 0., y: 0.), (x: 1e-8, y: 0.), (x: 1., y: 1.)];
    assert!(p_from_11.is_valid());
    assert!(r.contains(&p_from_00));
    assert!(r.contains(&p_from_11));
}

// ---------------------------------------------------------------------------------------------
// 4. Integer instantiations: orientation test overflows at modest coordinates
// ---------------------------------------------------------------------------------------------
// Line<i32> (0 0)-(65536 65536) is the diagonal y = x.  c = (0 65536) is not on it (y != x), so
// intersects = false, contains = false, coordinate_position = Outside.
// SimpleKernel::orient2d computes 65536*(65536-65536) - 65536*(0-65536) = 2^32, which panics in a
// debug build ("attempt to multiply with overflow") and wraps to 0 = Collinear in a release build,
// so a release build answers intersects = true.
#[test]
fn line_i32_intersects_coord_not_on_line() {
    let l = Line::new(coord! {x: 0i32, y: 0}, coord! {x: 65536, y: 65536});
    let c = coord! {x: 0i32, y: 65536};
    assert!(!l.intersects(&c));
    assert!(!c.intersects(&l));
    assert_eq!(l.coordinate_position(&c), CoordPos::Outside);
}

// The same with i16 at coordinates of a few hundred:
// Polygon<i16> = triangle (0 0),(256 256),(0 256)... use the plain diagonal again:
// Line<i16> (0 0)-(256 256), c = (0 256): 256*256 = 2^16 wraps to 0.
#[test]
fn line_i16_intersects_coord_not_on_line() {
    let l = Line::new(coord! {x: 0i16, y: 0}, coord! {x: 256, y: 256});
    let c = coord! {x: 0i16, y: 256};
    assert!(!l.intersects(&c));
    assert!(!l.contains(&c));
}

// Polygon<i32>: square (0 0),(70000 0),(70000 70000),(0 70000); c = (100000 35000) has x > 70000,
// so it is outside: coordinate_position = Outside, contains = false, intersects = false.
// (70000*100000 = 7e9 > i32::MAX.)  Debug: panic; release: the wrapped product has the wrong sign,
// the left edge is counted as a crossing and the point is reported Inside.
#[test]
fn polygon_i32_point_right_of_square() {
    let p: Polygon<i32> = polygon![(x: 0, y: 0), (x: 70000, y: 0), (x: 70000, y: 70000), (x: 0, y: 70000), (x: 0, y: 0)];
    let c = coord! {x: 100000, y: 35000};
    assert_eq!(p.coordinate_position(&c), CoordPos::Outside);
    assert!(!p.contains(&c));
    assert!(!p.intersects(&c));
}

// ---------------------------------------------------------------------------------------------
// Arguably outside the domain
// ---------------------------------------------------------------------------------------------

// f64 coordinates of extreme (but finite, `is_valid()`) magnitude: Line (0 0)-(1e200 1e200) is
// y = x; c = (5e199 6e199) has y != x, so it is not on the line: intersects = false.
// robust::orient2d overflows to inf - inf = NaN, the kernel maps "neither < 0 nor > 0" to Collinear.
#[test]
fn ood_line_f64_huge_coordinates_everything_is_collinear() {
    let l = Line::new(coord! {x: 0f64, y: 0.}, coord! {x: 1e200, y: 1e200});
    assert!(l.is_valid());
    let c = coord! {x: 5e199, y: 6e199};
    assert!(!l.intersects(&c));
    assert!(!l.contains(&c));
}

// GeometryCollection whose members touch (not disjoint): GC(LINESTRING(0 0,1 0), LINESTRING(1 0,2 0)).
// c = (1 0) is a point of both members.  Whatever one takes the boundary of a collection to be,
// c belongs to the geometry, so it cannot be Outside; intersects(gc, c) is true.
// (With the mod-2 rule the collection coordinate_position itself quotes, it is Inside and
// contains(gc, c) must be true as well: relate gives 0F1FF0FF2.)
#[test]
fn ood_gc_coordinate_position_shared_endpoint() {
    let gc: GeometryCollection<f64> = GeometryCollection::new_from(vec![
        Geometry::LineString(line_string![(x: 0., y: 0.), (x: 1., y: 0.)]),
        Geometry::LineString(line_string![(x: 1., y: 0.), (x: 2., y: 0.)]),
    ]);
    let c = coord! {x: 1., y: 0.};
    assert!(gc.intersects(&c));
    assert!(gc.relate(&Point::from(c)).is_contains());
    assert_ne!(gc.coordinate_position(&c), CoordPos::Outside);
    assert!(gc.contains(&c));
}

// GC(POLYGON unit square, POLYGON square (1 1)-(2 2)) touching in the vertex (1 1):
// (1 1) is on the boundary of both members, so it is a boundary point of the union;
// MultiPolygon of the same two members says OnBoundary, the collection says Outside.
#[test]
fn ood_gc_coordinate_position_polygons_touching_in_a_vertex() {
    let a: Polygon<f64> = polygon![(x: 0., y: 0.), (x: 1., y: 0.), (x: 1., y: 1.), (x: 0., y: 1.), (x: 0., y: 0.)];
    let b: Polygon<f64> = polygon![(x: 1., y: 1.), (x: 2., y: 1.), (x: 2., y: 2.), (x: 1., y: 2.), (x: 1., y: 1.)];
    let gc = GeometryCollection::new_from(vec![Geometry::Polygon(a.clone()), Geometry::Polygon(b.clone())]);
    let c = coord! {x: 1., y: 1.};
    assert!(gc.intersects(&c));
    assert_eq!(MultiPolygon::new(vec![a, b]).coordinate_position(&c), CoordPos::OnBoundary);
    assert_eq!(gc.coordinate_position(&c), CoordPos::OnBoundary);
}

// Degenerate Rect as rhs: RECT(0 0, 0 2) is the segment (0 0)-(0 2), which lies in the boundary
// of RECT(0 0, 2 2).  I(rhs) does not meet I(self): contains = false (relate agrees).
#[test]
fn ood_rect_contains_degenerate_rect_on_its_boundary() {
    let r = Rect::new((0., 0.), (2., 2.));
    let d = Rect::new((0., 0.), (0., 2.));
    assert!(!r.relate(&d).is_contains());
    assert!(!r.contains(&d));
}
