//! C07 hunt: Euclidean distance is the true minimum distance.
//!
//! Every test asserts the statement of the property on one concrete input; every test FAILS on
//! the unmodified library.  Tests prefixed `outside_` are arguably outside the quantified domain
//! (empty operands, a deprecated helper) and are reported separately.
#![allow(deprecated)]

use geo::*;

fn check(failures: &mut Vec<String>, what: &str, ok: bool, detail: String) {
    if !ok {
        failures.push(format!("{what}: {detail}"));
    }
}

/// Runs `f`, turning a panic into `None`.
fn no_panic<T>(f: impl FnOnce() -> T + std::panic::UnwindSafe) -> Option<T> {
    std::panic::catch_unwind(f).ok()
}

// ---------------------------------------------------------------------------------------------
// Finding 1: a Point lying exactly on a Line has a non-zero distance to it
// ---------------------------------------------------------------------------------------------
//
// LINE(21.7 30.1, 148.9 -54.7), POINT(37.6 19.5).
// By hand: E - S = (127.2, -84.8) = 8 * (15.9, -10.6) and P - S = (15.9, -10.6), so P = S + (E-S)/8:
// the point is on the segment, one eighth of the way along.  It is also *exactly* on the segment for
// the f64 values of these decimals: the exact predicate behind `Intersects` says so (asserted below).
// The statement demands "exactly zero precisely when the geometries intersect".
#[test]
fn point_exactly_on_line_has_nonzero_distance() {
    let line = Line::new((21.7, 30.1), (148.9, -54.7));
    let p = Point::new(37.6, 19.5);
    assert!(line.intersects(&p), "premise: the point is on the line");
    assert!(p.intersects(&line), "premise: the point is on the line");

    let mut failures = vec![];
    let d = Euclidean.distance(&p, &line);
    check(&mut failures, "Point-Line", d == 0.0, format!("{d:e}"));
    let d = Euclidean.distance(&line, &p);
    check(&mut failures, "Line-Point", d == 0.0, format!("{d:e}"));
    let d = Euclidean.distance(p.0, &line);
    check(&mut failures, "Coord-Line", d == 0.0, format!("{d:e}"));
    let d = Euclidean.distance(&MultiPoint::new(vec![p]), &line);
    check(&mut failures, "MultiPoint-Line", d == 0.0, format!("{d:e}"));
    let d = Euclidean.distance(&Geometry::Point(p), &Geometry::Line(line));
    check(&mut failures, "Geometry-Geometry", d == 0.0, format!("{d:e}"));
    let gc = GeometryCollection(vec![Geometry::Line(line)]);
    let d = Euclidean.distance(&p, &gc);
    check(&mut failures, "Point-GC[Line]", d == 0.0, format!("{d:e}"));
    let d = p.euclidean_distance(&line);
    check(&mut failures, "deprecated Point::euclidean_distance(Line)", d == 0.0, format!("{d:e}"));
    assert!(failures.is_empty(), "intersecting pair with non-zero distance: {failures:#?}");
}

// ---------------------------------------------------------------------------------------------
// Finding 2: the same segment spelt as Line / LineString gives different distances
// ---------------------------------------------------------------------------------------------
//
// Same input as above.  "The value is the same however the operands are typed or wrapped": the
// segment S-E is the same point set whether it is a Line, a two-coordinate LineString, a
// MultiLineString of one, or the edge of a Triangle / Polygon.  Expected: all 0 (the point is on it).
#[test]
fn line_and_two_coordinate_line_string_disagree() {
    let (s, e) = ((21.7, 30.1), (148.9, -54.7));
    let p = Point::new(37.6, 19.5);
    let as_line = Euclidean.distance(&p, &Line::new(s, e));
    let as_line_string = Euclidean.distance(&p, &LineString::from(vec![s, e]));
    let as_multi = Euclidean.distance(&p, &MultiLineString::new(vec![LineString::from(vec![s, e])]));
    // a triangle that has S-E as an edge
    let as_triangle = Euclidean.distance(&p, &Triangle::from([s, e, (148.9, 30.1)]));
    assert_eq!(as_line_string, 0.0);
    assert_eq!(as_multi, 0.0);
    assert_eq!(as_triangle, 0.0);
    assert_eq!(
        as_line, as_line_string,
        "Line and LineString spelling of the same segment differ"
    );
}

// ---------------------------------------------------------------------------------------------
// Finding 3: disjoint geometries with integer coordinates have distance exactly 0
// ---------------------------------------------------------------------------------------------
//
// Consecutive Fibonacci numbers: F38..F41 = 63245986, 102334155, 165580141, 267914296.
// S = (0,0), E = (F41, F40) = (267914296, 165580141), P = (F39, F38) = (102334155, 63245986).
// cross(E, P) = F41*F38 - F40*F39 = +-1 (d'Ocagne), so P is NOT on the line through S and E: its
// distance to that line is 1/|E| = 1/314_961_674.6.. = 3.175e-9, and its projection falls inside the
// segment (about 38% along).  All coordinates are integers below 2^29, exactly representable.
// `intersects` (exact predicate) rightly says the pairs are disjoint, yet the distance is exactly 0,
// so "zero precisely when the geometries intersect" fails in the other direction.
#[test]
fn disjoint_integer_geometries_have_zero_distance() {
    let (f38, f39, f40, f41): (f64, f64, f64, f64) = (63245986.0, 102334155.0, 165580141.0, 267914296.0);
    let expected = 1.0 / f41.hypot(f40); // 3.17e-9

    let line = Line::new((0.0, 0.0), (f41, f40));
    let p = Point::new(f39, f38);
    // a triangle having S-E as an edge, lying on the other side of it than P
    let t1 = polygon![(x: 0.0, y: 0.0), (x: f41, y: f40), (x: f41, y: 0.0)];
    // a triangle with a vertex at P, leading away from t1
    let t2 = polygon![(x: f39, y: f38), (x: f39 - 10.0, y: f38 + 10.0), (x: f39 - 20.0, y: f38 + 10.0)];
    let ls1 = LineString::from(vec![(0.0, 0.0), (f41, f40)]);
    let ls2 = LineString::from(vec![(f39 - 10.0, f38 + 10.0), (f39, f38), (f39 - 20.0, f38 + 10.0)]);
    assert!(!line.intersects(&p), "premise: disjoint");
    assert!(!t1.intersects(&p), "premise: disjoint");
    assert!(!t1.intersects(&t2), "premise: disjoint");
    assert!(!ls1.intersects(&ls2), "premise: disjoint");

    let mut failures = vec![];
    let mut positive = |what: &str, d: f64| {
        check(
            &mut failures,
            what,
            d > 0.0 && (d - expected).abs() < 1e-6,
            format!("got {d:e}, expected {expected:e} (> 0)"),
        )
    };
    positive("Point-Line", Euclidean.distance(&p, &line));
    positive("Point-LineString", Euclidean.distance(&p, &ls1));
    positive("Point-Polygon", Euclidean.distance(&p, &t1));
    positive("LineString-LineString", Euclidean.distance(&ls1, &ls2));
    positive("Polygon-Polygon", Euclidean.distance(&t1, &t2));
    assert!(failures.is_empty(), "disjoint pairs with distance exactly 0: {failures:#?}");
}

// ---------------------------------------------------------------------------------------------
// Finding 4: coordinates of very small magnitude: NaN, f64::MAX or a panic
// ---------------------------------------------------------------------------------------------
//
// Everything here is the picture "a unit-ish figure scaled by 1e-170" (finite, distinct, valid
// coordinates; Point-Point distance uses hypot and copes with them):
//   POINT(0 k) to LINE(-k 0, k 0)                      -> k     (the foot is the origin)
//   POINT(0 2k) to POLYGON((-k 0, k 0, 0 -k, -k 0))    -> 2k    (nearest is the top edge y=0)
//   POLYGON((-k 2k, k 2k, 0 3k)) to that polygon       -> 2k    (parallel edges y=2k and y=0)
// `dx*dx + dy*dy` underflows to 0 in line_segment_distance, r = 0/0 = NaN, and the NaN is either
// returned, or swallowed by `min` so that the fold's start value f64::MAX comes out, or it reaches the
// R-tree's `partial_cmp().unwrap()`.
#[test]
fn tiny_coordinates_give_nan_max_or_panic() {
    let k = 1e-170_f64;
    let mut failures = vec![];
    let mut close = |what: &str, got: Option<f64>, want: f64| {
        let ok = matches!(got, Some(d) if ((d - want) / want).abs() < 1e-9);
        check(&mut failures, what, ok, format!("got {got:?} (None = panic), expected {want:e}"));
    };
    let line = Line::new((-k, 0.0), (k, 0.0));
    close("Point-Line", no_panic(|| Euclidean.distance(&Point::new(0.0, k), &line)), k);
    let ls = LineString::from(vec![(-k, 0.0), (k, 0.0)]);
    close("Point-LineString", no_panic(|| Euclidean.distance(&Point::new(0.0, k), &ls)), k);
    let lower = polygon![(x: -k, y: 0.0), (x: k, y: 0.0), (x: 0.0, y: -k)];
    close("Point-Polygon", no_panic(|| Euclidean.distance(&Point::new(0.0, 2.0 * k), &lower)), 2.0 * k);
    let upper = polygon![(x: -k, y: 2.0 * k), (x: k, y: 2.0 * k), (x: 0.0, y: 3.0 * k)];
    close("Polygon-Polygon", no_panic(|| Euclidean.distance(&upper, &lower)), 2.0 * k);
    let ls_up = LineString::from(vec![(-k, k), (k, k)]);
    close("LineString-LineString", no_panic(|| Euclidean.distance(&ls_up, &ls)), k);
    // the same with f32 (k = 1e-25: k*k underflows f32)
    let kf = 1e-25_f32;
    let d = Euclidean.distance(&Point::new(0.0_f32, kf), &Line::new((-kf, 0.0), (kf, 0.0)));
    check(&mut failures, "f32 Point-Line", ((d - kf) / kf).abs() < 1e-4, format!("got {d:e}, expected {kf:e}"));
    assert!(failures.is_empty(), "{failures:#?}");
}

// ---------------------------------------------------------------------------------------------
// Finding 5: coordinates of very large magnitude: NaN or f64::MAX
// ---------------------------------------------------------------------------------------------
//
// Same picture scaled by k = 1e154 (k itself squares to 1e308 < f64::MAX, but dx = 2k does not):
//   POINT(0 k) to LINE(-k 0, k 0) -> k;  POINT(0 2k) to the triangle below the x axis -> 2k.
#[test]
fn huge_coordinates_give_nan_or_max() {
    let k = 1e154_f64;
    let mut failures = vec![];
    let mut close = |what: &str, got: Option<f64>, want: f64| {
        let ok = matches!(got, Some(d) if ((d - want) / want).abs() < 1e-9);
        check(&mut failures, what, ok, format!("got {got:?} (None = panic), expected {want:e}"));
    };
    let line = Line::new((-k, 0.0), (k, 0.0));
    close("Point-Line", no_panic(|| Euclidean.distance(&Point::new(0.0, k), &line)), k);
    let lower = polygon![(x: -k, y: 0.0), (x: k, y: 0.0), (x: 0.0, y: -k)];
    close("Point-Polygon", no_panic(|| Euclidean.distance(&Point::new(0.0, 2.0 * k), &lower)), 2.0 * k);
    let upper = polygon![(x: -k, y: 2.0 * k), (x: k, y: 2.0 * k), (x: 0.0, y: 3.0 * k)];
    close("Polygon-Polygon", no_panic(|| Euclidean.distance(&upper, &lower)), 2.0 * k);
    // f32: k = 1e20
    let kf = 1e20_f32;
    let d = Euclidean.distance(&Point::new(0.0_f32, kf), &Line::new((-kf, 0.0), (kf, 0.0)));
    check(&mut failures, "f32 Point-Line", ((d - kf) / kf).abs() < 1e-4, format!("got {d:e}, expected {kf:e}"));
    assert!(failures.is_empty(), "{failures:#?}");
}

// ---------------------------------------------------------------------------------------------
// Outside the domain (arguably): an empty operand gives 0, f64::MAX or a panic depending on spelling
// ---------------------------------------------------------------------------------------------
//
// The minimum over an empty set is undefined, so the statement does not say what the value should be;
// but "the value is the same however the operands are typed or wrapped" can still be asked.
#[test]
fn outside_empty_operand_depends_on_spelling() {
    let empty_poly: Polygon<f64> = Polygon::new(LineString::new(vec![]), vec![]);
    let empty_ls: LineString<f64> = LineString::new(vec![]);
    let p = Point::new(1.0, 1.0);
    let line = Line::new((0.0, 0.0), (1.0, 0.0));
    let ls = LineString::from(vec![(0.0, 0.0), (1.0, 0.0)]);
    let poly = polygon![(x: 0.0, y: 0.0), (x: 1.0, y: 0.0), (x: 0.0, y: 1.0)];

    let mut results = vec![];
    results.push(("Point-Polygon EMPTY", no_panic(|| Euclidean.distance(&p, &empty_poly))));
    results.push((
        "Point-MultiPolygon(EMPTY)",
        no_panic(|| Euclidean.distance(&p, &MultiPolygon::new(vec![empty_poly.clone()]))),
    ));
    results.push(("Line-Polygon EMPTY", no_panic(|| Euclidean.distance(&line, &empty_poly))));
    results.push(("LineString-Polygon EMPTY", no_panic(|| Euclidean.distance(&ls, &empty_poly))));
    results.push(("Polygon-Polygon EMPTY", no_panic(|| Euclidean.distance(&poly, &empty_poly))));
    results.push(("Point-LineString EMPTY", no_panic(|| Euclidean.distance(&p, &empty_ls))));
    results.push(("Line-LineString EMPTY", no_panic(|| Euclidean.distance(&line, &empty_ls))));
    results.push(("LineString-LineString EMPTY", no_panic(|| Euclidean.distance(&ls, &empty_ls))));
    results.push(("Point-MultiPoint EMPTY", no_panic(|| Euclidean.distance(&p, &MultiPoint::<f64>::new(vec![])))));
    let first = results[0].1;
    assert!(
        results.iter().all(|(_, r)| r.is_some() && *r == first),
        "distance to an empty geometry (None = panic): {results:#?}"
    );
}

// ---------------------------------------------------------------------------------------------
// Outside the domain (arguably): the public, deprecated helper nearest_neighbour_distance
// ---------------------------------------------------------------------------------------------
//
// Documented as "Uses an R* tree and nearest-neighbour lookups to calculate minimum distances" of two
// LineStrings.  LINESTRING(0 0, 10 10) and LINESTRING(0 10, 10 0) cross at (5 5): minimum distance 0.
#[test]
fn outside_deprecated_nearest_neighbour_distance_of_crossing_line_strings() {
    let a = LineString::from(vec![(0.0, 0.0), (10.0, 10.0)]);
    let b = LineString::from(vec![(0.0, 10.0), (10.0, 0.0)]);
    assert_eq!(Euclidean.distance(&a, &b), 0.0);
    assert_eq!(geo::euclidean_distance::nearest_neighbour_distance(&a, &b), 0.0);
}
