//! C17 hunt: PreparedGeometry answers exactly like the plain geometry.
//!
//! No in-domain violation was found. The tests below are the deterministic residue of the
//! hunt: each one pins a specific suspicion to a concrete input and asserts the statement
//! (prepared == plain, with the plain value additionally derived by hand where small enough).
//! They all PASS on the unmodified library. The last test documents an out-of-domain
//! surprise (arg index outside {0, 1}).

use geo::relate::IntersectionMatrix;
use geo::*;
use std::str::FromStr;

fn im(s: &str) -> IntersectionMatrix {
    IntersectionMatrix::from_str(s).unwrap()
}

/// Suspicion: re-labelling (swap_labels) of the cached graph when the prepared geometry is the
/// SECOND operand loses the mod-2 boundary decision made at self-noding time.
/// A = MULTILINESTRING((0 0,2 0),(2 0,4 0),(2 0,2 2)): endpoint (2,0) is shared by 3 lines ->
/// odd count -> boundary. B = POINT(2 0). By hand: B's interior meets A's boundary only.
/// b.relate(a) = "F0FFFF102": II=F, IB=0 (point on boundary of A), IE=F, BI..BE=F (point has no
/// boundary), EI=1, EB=0, EE=2.
#[test]
fn swapped_labels_keep_mod2_boundary() {
    let a = wkt!(MULTILINESTRING((0. 0.,2. 0.),(2. 0.,4. 0.),(2. 0.,2. 2.)));
    let b = wkt!(POINT(2. 0.));
    let pa = PreparedGeometry::from(&a);
    let pb = PreparedGeometry::from(&b);
    let expected = im("F0FFFF102");
    assert_eq!(b.relate(&a), expected);
    assert_eq!(b.relate(&pa), expected);
    assert_eq!(pb.relate(&pa), expected);
    // and as first operand (transposed): II=F IB=F IE=1 / BI=0 BB=F BE=0 (other endpoints) / EI=F EB=F EE=2
    let expected_t = im("FF10F0FF2");
    assert_eq!(a.relate(&b), expected_t);
    assert_eq!(pa.relate(&b), expected_t);
    assert_eq!(pa.relate(&pb), expected_t);
}

/// Suspicion: state carried across calls. The cached edges are Rc<RefCell<Edge>>; relate marks
/// edges as un-isolated, adds edge intersections and labels isolated edges for the partner. If
/// any of that leaked into the cache, a later relate against a different partner (or in the
/// other operand position) would differ.
/// A = POLYGON((0 0,10 0,10 10,0 10,0 0)).
///  1. vs crossing line LINESTRING(-5 5,15 5): "1F20F1102" (II=1 IB=F IE=2 / BI=0 BB=F BE=1 / EI=1 EB=0 EE=2)
///  2. vs inner line   LINESTRING(2 2,8 8):    "102FF1FF2" (A contains it: II=1, IB=0, IE=2, BI=F,BB=F,BE=1,EI=F,EB=F,EE=2)
///  3. vs far polygon (disjoint envelopes):    "FF2FF1212"
/// in both operand positions, interleaved, twice, also through a clone of the prepared geometry.
#[test]
fn reuse_in_any_order_and_position_is_stateless() {
    let a = wkt!(POLYGON((0. 0.,10. 0.,10. 10.,0. 10.,0. 0.)));
    let crossing = wkt!(LINESTRING(-5. 5.,15. 5.));
    let inner = wkt!(LINESTRING(2. 2.,8. 8.));
    let far = wkt!(POLYGON((100. 100.,110. 100.,110. 110.,100. 100.)));
    let pa = PreparedGeometry::from(&a);
    let pa_clone = pa.clone();
    let p_cross = PreparedGeometry::from(&crossing);

    let e_cross = a.relate(&crossing);
    let e_inner = a.relate(&inner);
    let e_far = a.relate(&far);
    assert_eq!(e_cross, im("1F20F1102"));
    assert_eq!(e_inner, im("102FF1FF2"));
    assert_eq!(e_far, im("FF2FF1212"));
    let e_cross_t = crossing.relate(&a);
    let e_inner_t = inner.relate(&a);
    let e_far_t = far.relate(&a);

    for _ in 0..3 {
        assert_eq!(pa.relate(&crossing), e_cross);
        assert_eq!(inner.relate(&pa), e_inner_t);
        assert_eq!(pa_clone.relate(&far), e_far);
        assert_eq!(p_cross.relate(&pa), e_cross_t);
        assert_eq!(pa.relate(&inner), e_inner);
        assert_eq!(far.relate(&pa_clone), e_far_t);
        assert_eq!(pa.relate(&p_cross), e_cross);
        assert_eq!(pa.relate(&pa_clone), a.relate(&a));
        assert_eq!(pa.relate(&pa), a.relate(&a));
        assert_eq!(a.relate(&a), im("2FFF1FFF2"));
    }
}

/// Suspicion: the tree is built BEFORE self-noding in prepare_geometry and the self-noding of
/// the cached graph is skipped on reuse (has_computed_self_nodes) - self-intersection nodes of a
/// non-simple line could be lost or duplicated on re-labelling.
/// A = LINESTRING(0 0,4 4,4 0,0 4) crosses itself at (2 2), interior point.
/// B = LINESTRING(2 0,2 2): touches A's self-intersection node with B's endpoint (boundary of B),
/// B's other endpoint (2 0) is off A. a.relate(b): II=F, IB=0, IE=1, BI=F, BB=F, BE=0, EI=1, EB=0, EE=2
#[test]
fn self_noded_line_cached_nodes() {
    let a = wkt!(LINESTRING(0. 0.,4. 4.,4. 0.,0. 4.));
    let b = wkt!(LINESTRING(2. 0.,2. 2.));
    let pa = PreparedGeometry::from(&a);
    let pb = PreparedGeometry::from(&b);
    let e = im("F01FF0102");
    assert_eq!(a.relate(&b), e);
    for _ in 0..2 {
        assert_eq!(pa.relate(&b), e);
        assert_eq!(pa.relate(&pb), e);
        assert_eq!(a.relate(&pb), e);
        assert_eq!(b.relate(&pa), b.relate(&a));
        assert_eq!(pb.relate(&pa), b.relate(&a));
    }
}

/// Suspicion: degenerate-but-legal members (empty members, zero-length Line, degenerate Rect and
/// Triangle, repeated coordinates) take a different route through the
/// eager graph construction (build_tree computes `coords.len() - 1`).
#[test]
fn degenerate_members() {
    let gc: GeometryCollection<f64> = GeometryCollection::new_from(vec![
        Geometry::Line(Line::new((1., 1.), (1., 1.))),
        Geometry::Rect(Rect::new((2., 2.), (2., 2.))),
        Geometry::Rect(Rect::new((3., 0.), (3., 5.))),
        Geometry::Triangle(Triangle::new((0., 0.).into(), (1., 1.).into(), (2., 2.).into())),
        Geometry::Point(Point::new(4., 4.)),
        Geometry::MultiPolygon(MultiPolygon::new(vec![Polygon::new(LineString::new(vec![]), vec![])])),
        Geometry::MultiLineString(MultiLineString::new(vec![
            wkt!(LINESTRING(0. 3.,0. 3.,5. 3.,5. 3.)),
        ])),
        Geometry::GeometryCollection(GeometryCollection::new_from(vec![])),
    ]);
    let partners: Vec<Geometry<f64>> = vec![
        wkt!(POINT(1. 1.)).into(),
        wkt!(POINT(4. 4.)).into(),
        wkt!(LINESTRING(0. 0.,5. 5.)).into(),
        wkt!(POLYGON((0. 0.,5. 0.,5. 5.,0. 5.,0. 0.))).into(),
        Geometry::Line(Line::new((3., 3.), (3., 3.))),
        Geometry::GeometryCollection(GeometryCollection::new_from(vec![])),
        Geometry::GeometryCollection(gc.clone()),
    ];
    let pgc = PreparedGeometry::from(&gc);
    let pgc_owned = PreparedGeometry::from(Geometry::GeometryCollection(gc.clone()));
    for _ in 0..2 {
        for b in &partners {
            let pb = PreparedGeometry::from(b);
            assert_eq!(pgc.relate(b), gc.relate(b), "{b:?}");
            assert_eq!(b.relate(&pgc), b.relate(&gc), "{b:?}");
            assert_eq!(pgc_owned.relate(&pb), gc.relate(b), "{b:?}");
            assert_eq!(pb.relate(&pgc_owned), b.relate(&gc), "{b:?}");
        }
    }
    // every type that can be prepared, empty: relate is all-F except EE=2
    let empty_ls = LineString::<f64>::new(vec![]);
    let pe = PreparedGeometry::from(&empty_ls);
    assert_eq!(pe.relate(&pe), empty_ls.relate(&empty_ls));
    assert_eq!(pe.relate(&pgc), empty_ls.relate(&gc));
    assert_eq!(pgc.relate(&pe), gc.relate(&empty_ls));
}

/// Suspicion: MultiPolygon turns the boundary-determination rule off (sticky flag copied by
/// clone_for_arg_index) - two squares touching in a corner, probed by a line through the corner.
/// A = MULTIPOLYGON(((0 0,1 0,1 1,0 1,0 0)),((1 1,2 1,2 2,1 2,1 1))), B = LINESTRING(0 2,2 0)
/// passes through (1 1) only: B interior meets A boundary in a point; a.relate(b) = "FF20F1102":
/// II=F, IB=F, IE=2, BI=0, BB=F, BE=1, EI=1, EB=0, EE=2.
#[test]
fn multipolygon_boundary_rule_flag_is_cloned() {
    let a = wkt!(MULTIPOLYGON(((0. 0.,1. 0.,1. 1.,0. 1.,0. 0.)),((1. 1.,2. 1.,2. 2.,1. 2.,1. 1.))));
    let b = wkt!(LINESTRING(0. 2.,2. 0.));
    let e = im("FF20F1102");
    assert_eq!(a.relate(&b), e);
    let pa = PreparedGeometry::from(&a);
    let pb = PreparedGeometry::from(&b);
    for _ in 0..2 {
        assert_eq!(pa.relate(&b), e);
        assert_eq!(pa.relate(&pb), e);
        assert_eq!(b.relate(&pa), b.relate(&a));
        assert_eq!(pb.relate(&pa), b.relate(&a));
    }
}

/// Suspicion: big inputs (R-tree with several levels, shared Rc tree used for both operands in
/// `p.relate(&p)`), f32 instantiation.
#[test]
fn large_rings_f32_and_f64_shared_tree() {
    fn ring<T: GeoFloat>(cx: f64, cy: f64, r: f64, n: usize) -> Polygon<T> {
        let mut v = vec![];
        for i in 0..n {
            let t = (i as f64) / (n as f64) * std::f64::consts::TAU;
            v.push(coord! {x: T::from(cx + r * t.cos()).unwrap(), y: T::from(cy + r * t.sin()).unwrap()});
        }
        Polygon::new(LineString::new(v), vec![])
    }
    fn go<T: GeoFloat + rstar::RTreeNum + 'static>() {
        let a: Polygon<T> = ring(0., 0., 10., 700);
        let b: Polygon<T> = ring(5., 0., 10., 333);
        let c: Polygon<T> = ring(0., 0., 5., 100);
        let (pa, pb, pc) = (PreparedGeometry::from(&a), PreparedGeometry::from(&b), PreparedGeometry::from(c.clone()));
        for _ in 0..2 {
            assert_eq!(pa.relate(&b), a.relate(&b));
            assert_eq!(pb.relate(&pa), b.relate(&a));
            assert_eq!(pc.relate(&pa), c.relate(&a));
            assert_eq!(a.relate(&pc), a.relate(&c));
            assert_eq!(pa.relate(&pa), a.relate(&a));
        }
        assert!(a.relate(&b).matches("212101212").unwrap());
        assert!(a.relate(&c).matches("212FF1FF2").unwrap());
        assert!(a.relate(&a).matches("2FFF1FFF2").unwrap());
    }
    go::<f64>();
    go::<f32>();
}

/// OUT OF DOMAIN (documented: `idx` is 0 or 1): `Relate::geometry_graph` is a public trait method.
/// For a plain geometry an index of 2 panics (index out of bounds in Label); for a prepared
/// geometry it silently returns a graph labelled for index 1.
#[test]
fn out_of_domain_arg_index_2() {
    let a = wkt!(LINESTRING(0. 0.,1. 1.));
    let pa = PreparedGeometry::from(&a);
    let plain = std::panic::catch_unwind(|| {
        let _ = Relate::geometry_graph(&a, 2);
    });
    let prepared = std::panic::catch_unwind(std::panic::AssertUnwindSafe(|| {
        let _ = Relate::geometry_graph(&pa, 2);
    }));
    // Documenting the observed asymmetry; not asserting it as a property violation.
    println!("plain idx=2 panics: {}, prepared idx=2 panics: {}", plain.is_err(), prepared.is_err());
}

/// OUTSIDE C17 (plain and prepared behave the same), but surprising: an EMPTY LineString member
/// of a GeometryCollection (a legal degenerate member) makes relate panic in DEBUG builds
/// ("invalid line string with less than 2 coords", coordinate_position.rs) as soon as an isolated
/// node of the partner has to be located in the collection. In release the result is fine.
/// This test only asserts that prepared and plain agree (both panic, or both give the same matrix).
#[test]
fn outside_statement_empty_linestring_member_debug_panic_is_same_for_both() {
    let gc: GeometryCollection<f64> = GeometryCollection::new_from(vec![
        Geometry::LineString(LineString::new(vec![])),
        wkt!(POLYGON((0. 0.,5. 0.,5. 5.,0. 5.,0. 0.))).into(),
    ]);
    let b = wkt!(POINT(1. 1.));
    let plain = std::panic::catch_unwind(|| gc.relate(&b)).ok();
    let prepared = std::panic::catch_unwind(|| PreparedGeometry::from(&gc).relate(&b)).ok();
    println!("plain: {plain:?}, prepared: {prepared:?}");
    assert_eq!(plain, prepared);
    if let Some(m) = plain {
        // point strictly inside the square: II=0, IE=2(area interior vs ext), BE=1, EE=2
        assert_eq!(m, im("0F2FF1FF2"));
    }
}
