//! Bug hunt for property C01: `relate()` returns the true DE-9IM matrix.
//!
//! Every test asserts the statement of the property on a concrete, valid input. The expected
//! matrix is derived by hand in the comment above each assertion. All tests FAIL on the
//! unmodified library (finding 4 fails only with debug assertions enabled).
//!
//! Matrix cell order: II IB IE / BI BB BE / EI EB EE  (first operand = rows).

use geo::coordinate_position::{CoordPos, CoordinatePosition};
use geo::relate::IntersectionMatrix;
use geo::*;
use std::str::FromStr;

fn im(s: &str) -> IntersectionMatrix {
    IntersectionMatrix::from_str(s).unwrap()
}

/// The valid MultiPolygon used by finding 1:
///  * member 1: the square [0,6]x[0,6] with the square hole [2,4]x[2,4]
///  * member 2: the diamond |x-3|+|y-3| <= 1, which lies inside that hole and touches the hole
///    ring in the four points (3,2) (4,3) (3,4) (2,3) - each of them a vertex of the diamond and
///    an interior point of a segment of the hole ring.
/// Interiors are disjoint and the boundaries share four points only, so this is a valid OGC
/// MultiPolygon (geo's own `is_valid()` agrees, asserted below).
fn square_with_island_touching_hole() -> MultiPolygon<f64> {
    wkt!(MULTIPOLYGON(
        ((0. 0.,6. 0.,6. 6.,0. 6.,0. 0.),(2. 2.,4. 2.,4. 4.,2. 4.,2. 2.)),
        ((3. 2.,4. 3.,3. 4.,2. 3.,3. 2.))
    ))
}

// ---------------------------------------------------------------------------------------------
// Finding 1 (structural, small integer coordinates)
// ---------------------------------------------------------------------------------------------

/// A = Rect [1,5]x[3,5].  Its bottom edge y=3 crosses the hole ring's vertical sides x=2 and x=4
/// *properly* (interior of segment x interior of segment) exactly at the touch points (2,3) and
/// (4,3), and between them runs through the interior of the diamond.
///
///  II = 2  (1.5,4) is interior to A and to the square-with-hole member
///  IB = 1  the hole-ring piece x=2, 3<y<4 lies inside A
///  IE = 2  (2.2,3.9) is inside A, inside the hole and outside the diamond
///  BI = 1  A's left edge x=1 lies in the interior of member 1
///  BB = 0  A's boundary meets B's boundary only in the points (2,3) and (4,3)
///  BE = F  A's boundary never enters B's exterior: y=3 is in member 1 for 1<=x<2 and 4<x<=5
///          and inside the diamond for 2<x<4; the edges x=1, x=5, y=5 are inside member 1
///  EI = 2, EB = 1 (outer shell), EE = 2
#[test]
fn f1_area_area_proper_crossing_at_touch_point_of_two_members() {
    use geo::algorithm::Validation;
    let b = square_with_island_touching_hole();
    assert!(b.is_valid());
    let a = Rect::new(coord! {x: 1., y: 3.}, coord! {x: 5., y: 5.});

    assert_eq!(a.relate(&b), im("21210F212"));
}

/// Same input, operands swapped: the result must be the transposed matrix.
#[test]
fn f1_transposed() {
    let b = square_with_island_touching_hole();
    let a = Rect::new(coord! {x: 1., y: 3.}, coord! {x: 5., y: 5.});

    // The library contradicts itself here: relating A's boundary ring (a closed LineString, i.e.
    // exactly the point set B(A)) to B correctly finds no part of it in B's exterior ...
    let boundary_of_a = a.to_polygon().exterior().clone();
    assert!(boundary_of_a.relate(&b).matches("**F******").unwrap());
    // ... while relating A itself claims BE = 1 (resp. EB = 1 after swapping the operands).
    assert_eq!(b.relate(&a), im("2121012F2"));
}

/// Variant found by the differential fuzzer: the Triangle's edge (5,4)->(3,2) crosses the hole
/// ring side x=4 properly at the touch point (4,3) and then runs along the diamond's edge
/// (4,3)->(3,2); its edge (3,2)->(5,2) runs along the hole ring for 3<=x<=4.
///
///  BB = 1 (shared boundary pieces), BE = F (the rest of A's boundary is inside member 1),
///  IE = 2 (the corner of the triangle near (3,2) lies in the hole outside the diamond).
#[test]
fn f1_triangle_variant() {
    let b = square_with_island_touching_hole();
    let a = Triangle::new(coord! {x: 5., y: 4.}, coord! {x: 3., y: 2.}, coord! {x: 5., y: 2.});
    assert_eq!(a.relate(&b), im("21211F212"));
}

/// Finding 1b - the Line/Area flavour of the same shortcut, integer coordinates below 3e7.
///
/// B: member 1 is the square [-3e7,3e7]^2 with a quadrilateral hole, member 2 is a triangular
/// island inside the hole whose vertex V=(218384,13404) lies on the hole-ring side
/// (-23740072,-2981403)-(9672736,1195198)  [V = start + 2994807*(8,1)].
/// L = (774110,754372)-(81578,-169004) passes through V  [direction (-3,-4): V = start +
/// 185242*(-3,-4), end = V + 45602*(-3,-4)].
///  * from its start to V, L is on the side of that hole-ring side opposite to the hole, inside
///    the shell: interior of member 1;
///  * V is on B's boundary;
///  * from V to its end, L runs inside the (convex) island: V is a vertex of the island and the
///    end point is strictly inside it (asserted below).
/// So L never enters B's exterior:
///  II = 1, IB = 0 (V), IE = F, BI = 0, BB = F, BE = F, EI = 2, EB = 1, EE = 2
/// The library computes the crossing point of L with the hole-ring side in floating point, gets a
/// point that differs from V in the last bits, does not recognise it as the touch node and
/// concludes from the "proper interior intersection" that L enters the exterior.
#[test]
fn f1b_line_area_proper_crossing_at_touch_point_rounded() {
    use geo::algorithm::Validation;
    let b = wkt!(MULTIPOLYGON(
        ((-30000000. -30000000.,30000000. -30000000.,30000000. 30000000.,-30000000. 30000000.,-30000000. -30000000.),
         (-23740072. -2981403.,9672736. 1195198.,10672736. -6804802.,-22740072. -10981403.,-23740072. -2981403.)),
        ((218384. 13404.,35980. -419818.,-146436. -283006.,218384. 13404.))
    ));
    assert!(b.is_valid());
    let l = wkt!(LINESTRING(774110. 754372.,81578. -169004.));
    let v = coord! {x: 218384., y: 13404.};
    // V is exactly on L and exactly on the hole-ring side (robust predicates)
    assert!(Line::new(l.0[0], l.0[1]).intersects(&v));
    assert!(Line::new(coord! {x: -23740072., y: -2981403.}, coord! {x: 9672736., y: 1195198.}).intersects(&v));
    // start of L: interior of member 1; end of L: interior of the island
    assert_eq!(b.0[0].coordinate_position(&l.0[0]), CoordPos::Inside);
    assert_eq!(b.0[1].coordinate_position(&l.0[1]), CoordPos::Inside);

    // the same point set with V spelt out as a vertex is computed right ...
    let l_with_vertex = wkt!(LINESTRING(774110. 754372.,218384. 13404.,81578. -169004.));
    assert_eq!(l_with_vertex.relate(&b), im("10F0FF212"));
    // ... the two-point spelling is not
    assert_eq!(l.relate(&b), im("10F0FF212"));
    assert_eq!(b.relate(&l), im("1020F1FF2"));
}

// ---------------------------------------------------------------------------------------------
// Finding 2: edge ends leaving a node in different directions are bundled as one direction when
// the rounded coordinate differences coincide
// ---------------------------------------------------------------------------------------------

/// Two f32 line strings that start in the same point V=(1e6,0) and end in different points
/// (0,1) and (0.01,1).  The segments are not collinear, so they share V only.
///  II = F, IB = F, IE = 1, BI = F, BB = 0 (V), BE = 0 (other end of A), EI = 1, EB = 0, EE = 2
#[test]
fn f2_edge_ends_with_equal_rounded_delta_f32() {
    let a = LineString::<f32>::from(vec![(1.0e6, 0.0), (0.0, 1.0)]);
    let b = LineString::<f32>::from(vec![(1.0e6, 0.0), (0.01, 1.0)]);
    // sanity: the far end of b is strictly off the line through a (robust predicate)
    assert!(!Line::new(a.0[0], a.0[1]).intersects(&b.0[1]));
    assert_eq!(a.relate(&b), im("FF1F00102"));
}

/// Same with f64: V=(2^53,0); 0.5-2^53 and 0-2^53 both round to -2^53.
#[test]
fn f2_edge_ends_with_equal_rounded_delta_f64() {
    let big = 9007199254740992.0_f64; // 2^53
    let a = LineString::from(vec![(big, 0.0), (0.0, 1.0)]);
    let b = LineString::from(vec![(big, 0.0), (0.5, 1.0)]);
    assert!(!Line::new(a.0[0], a.0[1]).intersects(&b.0[1]));
    assert_eq!(a.relate(&b), im("FF1F00102"));
}

/// Area version: two triangles that touch in the single vertex V=(1e6,0) only.
///  A = V (0.01,1) (0,2);  B = V (0,1) (0,-1)
///  The line V-(0.01,1) is y = (1e6-x)/(1e6-0.01), the line V-(0,1) is y = (1e6-x)/1e6: for
///  every x < 1e6 the first one is strictly higher.  A lies on or above the first line, B on or
///  below the second one, so the triangles have only V in common.
///  II = F, IB = F, IE = 2, BI = F, BB = 0, BE = 1, EI = 2, EB = 1, EE = 2
#[test]
fn f2_touching_triangles_f32() {
    let a = Triangle::<f32>::new(coord! {x: 1.0e6, y: 0.0}, coord! {x: 0.01, y: 1.0}, coord! {x: 0.0, y: 2.0});
    let b = Triangle::<f32>::new(coord! {x: 1.0e6, y: 0.0}, coord! {x: 0.0, y: 1.0}, coord! {x: 0.0, y: -1.0});
    // sanity (robust predicates): no vertex of one triangle other than V is in the other one
    // (Triangle::new may reorder the vertices, so spell the coordinates out)
    assert_eq!(a.coordinate_position(&coord! {x: 0.0, y: 1.0}), CoordPos::Outside);
    assert_eq!(a.coordinate_position(&coord! {x: 0.0, y: -1.0}), CoordPos::Outside);
    assert_eq!(b.coordinate_position(&coord! {x: 0.01, y: 1.0}), CoordPos::Outside);
    assert_eq!(b.coordinate_position(&coord! {x: 0.0, y: 2.0}), CoordPos::Outside);
    assert_eq!(a.coordinate_position(&coord! {x: 1.0e6, y: 0.0}), CoordPos::OnBoundary);
    assert_eq!(b.coordinate_position(&coord! {x: 1.0e6, y: 0.0}), CoordPos::OnBoundary);
    assert_eq!(a.relate(&b), im("FF2F01212"));
}

// ---------------------------------------------------------------------------------------------
// Finding 3: two different intersection points on one segment get the same rounded "edge
// distance", the second one is dropped from the edge's intersection list
// ---------------------------------------------------------------------------------------------

/// B = (0.01,0)-(0.02,0) lies on the single segment of A = (-1e6,0)-(10,0), away from A's ends.
///  II = 1, IB = 0 (both ends of B are interior points of A), IE = 1,
///  BI = F, BB = F, BE = 0, EI = F (B is covered by A), EB = F, EE = 2
#[test]
fn f3_edge_distance_tie_f32() {
    let a = LineString::<f32>::from(vec![(-1.0e6, 0.0), (10.0, 0.0)]);
    let b = LineString::<f32>::from(vec![(0.01, 0.0), (0.02, 0.0)]);
    assert_eq!(a.relate(&b), im("101FF0FF2"));
    assert_eq!(b.relate(&a), im("1FF0FF102"));
    assert!(b.relate(&a).is_within());
}

/// Same with f64: 2^52+0.25 and 2^52+0.5 both round to 2^52.
#[test]
fn f3_edge_distance_tie_f64() {
    let big = 4503599627370496.0_f64; // 2^52
    let a = LineString::from(vec![(-big, 0.0), (10.0, 0.0)]);
    let b = LineString::from(vec![(0.25, 0.0), (0.5, 0.0)]);
    assert_eq!(a.relate(&b), im("101FF0FF2"));
    assert_eq!(b.relate(&a), im("1FF0FF102"));
}

// ---------------------------------------------------------------------------------------------
// Finding 4: an empty LineString member makes relate panic (debug assertions only)
// ---------------------------------------------------------------------------------------------

/// The empty member contributes no points: the result must be that of LINESTRING(0 0,2 2) vs
/// POINT(0.5 1), which is off the line:  II=F IB=F IE=1 / BI=F BB=F BE=0 / EI=0 EB=F EE=2.
/// Passes with `--release`, panics ("invalid line string with less than 2 coords") otherwise.
#[test]
fn f4_empty_line_string_member_of_multi_line_string() {
    let a = MultiLineString::new(vec![
        LineString::<f64>::new(vec![]),
        LineString::from(vec![(0.0, 0.0), (2.0, 2.0)]),
    ]);
    let b = Point::new(0.5, 1.0);
    assert_eq!(a.relate(&b), im("FF1FF00F2"));
    assert_eq!(b.relate(&a), im("FF0FFF102"));
}

#[test]
fn f4_empty_line_string_member_of_geometry_collection() {
    let a = GeometryCollection::new_from(vec![
        Geometry::LineString(LineString::<f64>::new(vec![])),
        Geometry::LineString(LineString::from(vec![(0.0, 0.0), (2.0, 2.0)])),
    ]);
    let b = Point::new(0.5, 1.0);
    assert_eq!(a.relate(&b), im("FF1FF00F2"));
}

// ---------------------------------------------------------------------------------------------
// Finding 5: finite coordinates of extreme magnitude - the orientation predicate over/underflows
// ---------------------------------------------------------------------------------------------

/// The point (0.5e200,-0.5e200) is far off the line y=x.
///  II=F IB=F IE=1 / BI=F BB=F BE=0 / EI=0 EB=F EE=2
#[test]
fn f5_overflow_point_off_line_reported_on_line() {
    let a = Line::new(coord! {x: -1e200, y: -1e200}, coord! {x: 1e200, y: 1e200});
    let b = Point::new(0.5e200, -0.5e200);
    assert_eq!(a.relate(&b), im("FF1FF00F2"));
}

/// The point is strictly inside the square:  II=0 IB=F IE=2 / BI=F BB=F BE=1 / EI=F EB=F EE=2
#[test]
fn f5_overflow_point_inside_square_reported_outside() {
    let sq = wkt!(POLYGON((0. 0.,1e200 0.,1e200 1e200,0. 1e200,0. 0.)));
    assert_eq!(sq.relate(&Point::new(0.5e200, 0.25e200)), im("0F2FF1FF2"));
}

/// Two overlapping squares of side 1e-170 / 1.5e-170 (all coordinates are normal f64 numbers).
#[test]
fn f5_underflow_overlapping_squares_reported_disjoint() {
    let a = wkt!(POLYGON((0. 0.,1e-170 0.,1e-170 1e-170,0. 1e-170,0. 0.)));
    let b = wkt!(POLYGON((0.5e-170 0.5e-170,2e-170 0.5e-170,2e-170 2e-170,0.5e-170 2e-170,0.5e-170 0.5e-170)));
    assert_eq!(a.relate(&b), im("212101212"));
    assert_eq!(a.relate(&Point::new(0.5e-170, 0.25e-170)), im("0F2FF1FF2"));
}

// ---------------------------------------------------------------------------------------------
// Not a violation of C01 itself (relate never asks this question, because the shared end point
// is a node of the graph), but the anchored helper is wrong on its own:
// ---------------------------------------------------------------------------------------------

/// (1,0) is the end point of two members: by the mod-2 rule it is in the interior.
#[test]
fn side_multi_line_string_coordinate_position_of_shared_end_point() {
    let mls = wkt!(MULTILINESTRING((0. 0.,1. 0.),(1. 0.,2. 0.)));
    // relate gets it right ...
    assert_eq!(mls.relate(&Point::new(1., 0.)), im("0F1FF0FF2"));
    // ... coordinate_position does not
    assert_eq!(mls.coordinate_position(&coord! {x: 1., y: 0.}), CoordPos::Inside);
}
