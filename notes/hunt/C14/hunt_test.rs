//! C14 bug hunt: Validation accepts exactly the well-formed geometries.
//!
//! Every test asserts the property's statement on a concrete input; every test FAILS on the
//! unmodified library (the last one only documents a surprising, arguably out-of-statement case
//! and also fails).
//!
//! Run: cargo test -p geo --test hunt_c14 --offline            (debug)
//!      cargo test -p geo --test hunt_c14 --offline --release  (release)

use geo::algorithm::Validation;
use geo::{coord, LineString, MultiPolygon, Polygon, Rect, Triangle};
use std::panic::{catch_unwind, AssertUnwindSafe};

fn ring(pts: &[(f64, f64)]) -> LineString<f64> {
    LineString::from(pts.to_vec())
}

fn square(x0: f64, y0: f64, x1: f64, y1: f64) -> Polygon<f64> {
    Polygon::new(
        ring(&[(x0, y0), (x1, y0), (x1, y1), (x0, y1), (x0, y0)]),
        vec![],
    )
}

// ---------------------------------------------------------------------------------------------
// Finding 1: false ACCEPT of overlapping / nested MultiPolygon members with large finite
// coordinates (>= 2^512 ~ 1.3e154).
//
// s = 2^600 is a power of two, so every coordinate k*s below is exactly representable and
// finite (7*2^600 ~ 2.9e181 << f64::MAX ~ 1.8e308). Scaling by a power of two does not change
// the topology, so the answers are those of the unscaled integer figures:
//   (a) rectangles [0,5]x[1,5] and [1,3]x[0,4] properly cross; they share the area [1,3]x[1,4].
//   (b) square [2,3]^2 lies strictly inside square [0,7]^2.
// In both cases member interiors are not disjoint => is_valid must be false and
// validation_errors must contain ElementsOverlaps(0, 1).
// ---------------------------------------------------------------------------------------------
#[test]
fn huge_finite_overlapping_members_are_accepted() {
    let s = 2f64.powi(600);
    assert!(s.is_finite() && (7.0 * s).is_finite());

    // control: the same figures at scale 1 are (correctly) rejected
    let crossing_1 = MultiPolygon::new(vec![square(0., 1., 5., 5.), square(1., 0., 3., 4.)]);
    let nested_1 = MultiPolygon::new(vec![square(0., 0., 7., 7.), square(2., 2., 3., 3.)]);
    assert!(!crossing_1.is_valid());
    assert!(!nested_1.is_valid());

    let crossing = MultiPolygon::new(vec![
        square(0., 1. * s, 5. * s, 5. * s),
        square(1. * s, 0., 3. * s, 4. * s),
    ]);
    let nested = MultiPolygon::new(vec![
        square(0., 0., 7. * s, 7. * s),
        square(2. * s, 2. * s, 3. * s, 3. * s),
    ]);
    // each member on its own is a valid square
    for p in crossing.0.iter().chain(nested.0.iter()) {
        assert!(p.is_valid());
    }
    let mut failures = vec![];
    if crossing.is_valid() || crossing.validation_errors().is_empty() {
        failures.push("two properly crossing rectangles (scaled by 2^600) accepted as a valid MultiPolygon");
    }
    if nested.is_valid() || nested.validation_errors().is_empty() {
        failures.push("a square nested inside another member (scaled by 2^600) accepted as a valid MultiPolygon");
    }
    assert!(failures.is_empty(), "{failures:#?}");
}

// ---------------------------------------------------------------------------------------------
// Finding 2: false REJECT of valid rings when coordinate products overflow / underflow.
//
// (a) t = 2^-600 (~2.4e-181, a normal f64, far above the subnormal range). The ring
//     (0,0) (t,0) (0,t) (0,0) is a right triangle with legs t: four coordinates, simple,
//     area t^2/2 > 0 => valid. The library reports SelfIntersection(Exterior).
// (b) The same three corners as a geo::Triangle: distinct, not collinear => valid.
//     The library reports CollinearCoords.
// (c) s = 2^512 (~1.3e154). The hexagon (3,0) (4,1) (5,3) (1,6) (2,4) (1,4) scaled by s is a
//     simple ring (the unscaled integer hexagon is accepted by the library and by hand: walking
//     it, x-monotone chains (3,0)->(4,1)->(5,3) and (1,6)->(2,4)->(1,4)->(3,0) never meet
//     except at the shared end points). Scaling by a power of two is exact => still valid.
//     The library reports SelfIntersection(Exterior).
// ---------------------------------------------------------------------------------------------
#[test]
fn valid_rings_of_extreme_magnitude_are_rejected() {
    let t = 2f64.powi(-600);
    assert!(t.is_normal());
    let tiny = Polygon::new(ring(&[(0., 0.), (t, 0.), (0., t), (0., 0.)]), vec![]);
    let tiny_tri = Triangle::new(coord! {x: 0., y: 0.}, coord! {x: t, y: 0.}, coord! {x: 0., y: t});

    let hex = |s: f64| {
        Polygon::new(
            ring(&[
                (3. * s, 0.),
                (4. * s, 1. * s),
                (5. * s, 3. * s),
                (1. * s, 6. * s),
                (2. * s, 4. * s),
                (1. * s, 4. * s),
                (3. * s, 0.),
            ]),
            vec![],
        )
    };
    // control
    assert!(hex(1.0).is_valid());
    assert!(hex(2f64.powi(511)).is_valid());

    let mut failures = vec![];
    if !tiny.is_valid() {
        failures.push(format!(
            "right triangle with legs 2^-600 rejected: {:?}",
            tiny.validation_errors()
        ));
    }
    if !tiny_tri.is_valid() {
        failures.push(format!(
            "Triangle with legs 2^-600 rejected: {:?}",
            tiny_tri.validation_errors()
        ));
    }
    let big = hex(2f64.powi(512));
    if !big.is_valid() {
        failures.push(format!(
            "simple hexagon scaled by 2^512 rejected: {:?}",
            big.validation_errors()
        ));
    }
    assert!(failures.is_empty(), "{failures:#?}");
}

// ---------------------------------------------------------------------------------------------
// Finding 3: validation_errors() panics (debug AND release) for a Polygon that has a NaN
// coordinate in its exterior and at least one hole, although is_valid() returns false.
//
// Statement: "is_valid is true exactly when every coordinate is finite ..." => is_valid == false
// (that part holds), and "validation_errors is non-empty exactly when is_valid is false" =>
// validation_errors() must return a non-empty Vec containing
// NonFiniteCoord(Exterior, CoordIndex(2)). Instead it panics with
// "called `Option::unwrap()` on a `None` value" in geo/src/utils.rs (lex_cmp), reached through
// the hole-vs-shell `relate` call that is made regardless of the non-finite coordinate.
// ---------------------------------------------------------------------------------------------
#[test]
fn validation_errors_panics_on_nan_exterior_with_hole() {
    let polygon = Polygon::new(
        ring(&[(0., 0.), (10., 0.), (f64::NAN, 10.), (0., 10.), (0., 0.)]),
        vec![ring(&[(1., 1.), (2., 1.), (2., 2.), (1., 1.)])],
    );
    assert!(!polygon.is_valid()); // holds: short-circuits on the first error
    let errors = catch_unwind(AssertUnwindSafe(|| polygon.validation_errors()));
    match errors {
        Ok(errors) => assert!(!errors.is_empty()),
        Err(_) => panic!("validation_errors() panicked although is_valid() == false"),
    }
}

// ---------------------------------------------------------------------------------------------
// Finding 4: MultiPolygon::is_valid() panics (debug AND release) when a member other than the
// first has a NaN coordinate and the envelopes of the finite parts meet.
//
// Member 0 is a valid square [0,10]^2; member 1 is a ring with a NaN coordinate => a
// non-finite coordinate => is_valid must be false (and validation_errors non-empty).
// The overlap check relate(member 0, member 1) runs before member 1 itself is validated and
// unwraps a partial_cmp on NaN.
// ---------------------------------------------------------------------------------------------
#[test]
fn multipolygon_is_valid_panics_when_later_member_has_nan() {
    let mp = MultiPolygon::new(vec![
        square(0., 0., 10., 10.),
        Polygon::new(
            ring(&[(3., 3.), (f64::NAN, 3.), (4., 4.), (3., 3.)]),
            vec![],
        ),
    ]);
    let valid = catch_unwind(AssertUnwindSafe(|| mp.is_valid()));
    match valid {
        Ok(valid) => assert!(!valid),
        Err(_) => panic!("MultiPolygon::is_valid() panicked on a NaN coordinate in member 1"),
    }
    let errors = catch_unwind(AssertUnwindSafe(|| mp.validation_errors()));
    match errors {
        Ok(errors) => assert!(!errors.is_empty()),
        Err(_) => panic!("MultiPolygon::validation_errors() panicked on a NaN coordinate in member 1"),
    }
}

// ---------------------------------------------------------------------------------------------
// Finding 5: a Polygon with an EMPTY exterior ring is declared valid without looking at its
// interior rings at all.
//
// (a) hole (0 0, NaN 0, 0 1, 0 0): "every coordinate is finite" is violated => invalid.
// (b) hole (0 0, 1 0, 0 1, 0 0) with an empty shell: the hole cannot lie inside the (empty)
//     shell => invalid.  (c) the same polygon as a member of a MultiPolygon whose other member
//     covers the hole.
// ---------------------------------------------------------------------------------------------
#[test]
fn empty_exterior_hides_invalid_interiors() {
    let nan_hole = Polygon::new(
        LineString::new(vec![]),
        vec![ring(&[(0., 0.), (f64::NAN, 0.), (0., 1.), (0., 0.)])],
    );
    let orphan_hole = Polygon::new(
        LineString::new(vec![]),
        vec![ring(&[(0., 0.), (1., 0.), (0., 1.), (0., 0.)])],
    );
    let degenerate_hole = Polygon::new(
        LineString::new(vec![]),
        vec![ring(&[(0., 0.), (1., 1.)])], // 2 distinct points: "at least four coordinates" violated
    );
    let mut failures = vec![];
    if nan_hole.is_valid() || nan_hole.validation_errors().is_empty() {
        failures.push("polygon with empty shell and a NaN coordinate in a hole is valid");
    }
    if orphan_hole.is_valid() {
        failures.push("polygon with empty shell and a non-empty hole is valid");
    }
    if degenerate_hole.is_valid() {
        failures.push("polygon with empty shell and a two-point hole is valid");
    }
    assert!(failures.is_empty(), "{failures:#?}");
}

// ---------------------------------------------------------------------------------------------
// Finding 6 (debug builds only): MultiPolygon validation hits a debug_assert in
// relate_operation.rs when a member's exterior is a single repeated point and its hole properly
// crosses another member.
//
// Member 1 is invalid (exterior has one distinct point) => expected: is_valid == false and a
// non-empty error list naming member 1 (TooFewPointsInRing(Exterior)). In a debug build both
// calls panic with "assertion failed: (dim_a != ZeroDimensional && dim_b != ZeroDimensional) ||
// (!has_proper && !has_proper_interior)"; a release build returns false.
// ---------------------------------------------------------------------------------------------
#[test]
fn point_exterior_member_trips_debug_assertion() {
    let a = square(0., 0., 5., 3.);
    let b = Polygon::new(
        ring(&[(1., 1.), (1., 1.), (1., 1.), (1., 1.)]),
        // crosses a's top edge y = 3 properly at (2,3) and (3.5,3)
        vec![ring(&[(1., 1.), (3., 5.), (4., 1.), (1., 1.)])],
    );
    assert!(!b.is_valid());
    let mp = MultiPolygon::new(vec![a, b]);
    let valid = catch_unwind(AssertUnwindSafe(|| mp.is_valid()));
    match valid {
        Ok(valid) => assert!(!valid),
        Err(_) => panic!("MultiPolygon::is_valid() panicked (debug assertion in relate)"),
    }
    let errors = catch_unwind(AssertUnwindSafe(|| mp.validation_errors()));
    match errors {
        Ok(errors) => assert!(!errors.is_empty()),
        Err(_) => panic!("MultiPolygon::validation_errors() panicked (debug assertion in relate)"),
    }
}

// ---------------------------------------------------------------------------------------------
// Surprising / arguably outside the statement: a zero-area Rect is valid, while the polygon it
// converts to is invalid and the sibling Triangle type rejects zero-area (collinear / identical)
// corners. "likewise the other geometry types": validity of a geometry should not depend on
// which of two equivalent representations is used.
// ---------------------------------------------------------------------------------------------
#[test]
fn zero_area_rect_is_valid_but_its_polygon_is_not() {
    let flat = Rect::new(coord! {x: 0., y: 0.}, coord! {x: 1., y: 0.});
    let point = Rect::new(coord! {x: 2., y: 2.}, coord! {x: 2., y: 2.});
    assert!(!flat.to_polygon().is_valid());
    assert!(!point.to_polygon().is_valid());
    assert_eq!(
        (flat.is_valid(), point.is_valid()),
        (false, false),
        "zero-area Rects are valid although their polygons are invalid"
    );
}
