//! C20: results are a function of the inputs alone (no run / thread / allocation-address dependence).
//!
//! Findings 1-3: `geo::sweep::Intersections` (public planar-sweep iterator) breaks ties between
//! sweep segments by the *heap address* of their `Rc` (geo/src/algorithm/sweep/im_segment.rs,
//! `impl PartialOrd for IMSegment`). The yielded sequence therefore depends on where the allocator
//! happens to put the segments: the same call on the same input yields the pairs in a different
//! order / orientation, and for some inputs it panics in one call and returns normally in the next.
use geo::sweep::{Cross, Intersections, LineOrPoint};
use geo::{Coord, Line, LineIntersection};
use std::collections::BTreeMap;

/// A line that remembers its position in the input, so that the yielded pairs can be printed as
/// index pairs.
#[derive(Debug, Clone)]
struct Tagged {
    id: usize,
    line: Line<f64>,
}
impl Cross for Tagged {
    type Scalar = f64;
    fn line(&self) -> LineOrPoint<f64> {
        self.line.into()
    }
}

fn l(a: (i32, i32), b: (i32, i32)) -> Line<f64> {
    Line::new(
        Coord {
            x: a.0 as f64,
            y: a.1 as f64,
        },
        Coord {
            x: b.0 as f64,
            y: b.1 as f64,
        },
    )
}

/// The call under test: a pure function of `lines`.
fn intersections(lines: &[Line<f64>]) -> Vec<(usize, usize, LineIntersection<f64>)> {
    let input: Vec<Tagged> = lines
        .iter()
        .enumerate()
        .map(|(id, line)| Tagged { id, line: *line })
        .collect();
    let it: Intersections<_> = input.iter().collect();
    it.map(|(a, b, i)| (a.id, b.id, i)).collect()
}

/// The call under test with a panic turned into a value, so that outcomes can be compared.
fn outcome(lines: &[Line<f64>]) -> String {
    match std::panic::catch_unwind(|| intersections(lines)) {
        Ok(r) => format!("{:?}", r),
        Err(e) => format!(
            "PANIC: {}",
            e.downcast_ref::<String>()
                .cloned()
                .or(e.downcast_ref::<&str>().map(|s| s.to_string()))
                .unwrap_or_default()
        ),
    }
}

/// Work that is unrelated to the call under test and that any program may do between two calls:
/// allocate a number of small blocks and free them again, in allocation order or in reverse order.
/// It only changes which addresses the allocator hands out next.
fn unrelated_allocations(reverse: bool) {
    for size in (16..=256usize).step_by(8) {
        let mut blocks: Vec<Vec<u8>> = (0..48).map(|_| Vec::with_capacity(size)).collect();
        if reverse {
            blocks.reverse();
        }
        for b in blocks {
            drop(b);
        }
    }
}

/// Calls `outcome(lines)` `rounds` times with unrelated allocations in between and returns the
/// distinct outcomes with their multiplicity.
fn distinct_outcomes_between_unrelated_allocations(
    lines: &[Line<f64>],
    rounds: usize,
) -> BTreeMap<String, usize> {
    let mut distinct = BTreeMap::new();
    for i in 0..rounds {
        unrelated_allocations(i % 2 == 0);
        *distinct.entry(outcome(lines)).or_insert(0usize) += 1;
    }
    distinct
}

fn report(distinct: &BTreeMap<String, usize>) -> String {
    distinct
        .iter()
        .map(|(k, v)| format!("  {v} x {k}\n"))
        .collect()
}

/// Finding 1. Three lines, no duplicates, nothing degenerate:
///   L0 = (0 1, 2 2)   L1 = (1 0, 1 1)   L2 = (1 0, 1 2)
/// By hand: L1 is the lower half of L2 (collinear overlap (1 0, 1 1)); L0 crosses x = 1 at
/// y = 1.5, which is on L2 (0..2) and not on L1 (0..1). So there are exactly two intersecting
/// pairs, {1,2} and {0,2}. C20 demands that every call yields them as the same sequence of
/// (first, second, intersection) triples. Observed: the second triple is `(0, 2, ..)` in some
/// calls and `(2, 0, ..)` in others.
#[test]
fn sweep_intersections_yield_same_sequence_on_every_call() {
    let lines = [l((0, 1), (2, 2)), l((1, 0), (1, 1)), l((1, 0), (1, 2))];
    let distinct = distinct_outcomes_between_unrelated_allocations(&lines, 64);
    assert_eq!(
        distinct.len(),
        1,
        "64 calls with equal input gave {} different results:\n{}",
        distinct.len(),
        report(&distinct)
    );
}

/// Finding 2. Four lines, no duplicates, no collinear pair:
///   L0 = (3 3, 1 0)  L1 = (1 2, 3 3)  L2 = (1 3, 3 1)  L3 = (2 3, 1 1)
/// By hand (y as a function of x): L0: 1.5x-1.5, L1: 0.5x+1.5, L2: 4-x, L3: 2x-1 (x in 1..2).
///   L0/L1 meet at their common end point (3 3); L0/L2 cross at (2.2 1.8); L0/L3 would meet at
///   x = -1, i.e. not at all; L1, L2, L3 all pass through (5/3 7/3).
/// So the correct answer is five pairs and no panic. Whatever the library answers, C20 demands the
/// same answer on every call. Observed: some calls return normally, others panic with
/// "segment not found in active-vec-set", for the identical input, in the same process.
#[test]
fn sweep_intersections_panic_or_return_consistently() {
    let lines = [
        l((3, 3), (1, 0)),
        l((1, 2), (3, 3)),
        l((1, 3), (3, 1)),
        l((2, 3), (1, 1)),
    ];
    let distinct = distinct_outcomes_between_unrelated_allocations(&lines, 64);
    assert_eq!(
        distinct.len(),
        1,
        "64 calls with equal input gave {} different outcomes:\n{}",
        distinct.len(),
        report(&distinct)
    );
}

/// Finding 3. The same defect without any deliberate allocation pattern: the caller simply calls
/// the function again and again and keeps some of the results (as any caller that collects results
/// does). Input: two segments given twice each plus one crossing segment
///   L0 = L1 = (2 1, 0 2)   L2 = (1 3, 0 1)   L3 = L4 = (3 0, 1 0)
/// (coincident segments are what `lines_iter()` of two polygons sharing an edge produces).
/// By hand: {0,1} overlap completely, {3,4} overlap completely, L2 (y = 2x+1, x in 0..1) crosses
/// L0/L1 (y = 2-x/2) at x = 0.4, y = 1.8; L3/L4 lie on y = 0 and meet nothing else. Four pairs,
/// no panic. C20 demands one outcome for all 200 calls. Observed: most calls panic
/// ("segment not found in active-vec-set"), some return a result.
#[test]
fn sweep_intersections_repeated_plain_calls_agree() {
    let lines = [
        l((2, 1), (0, 2)),
        l((2, 1), (0, 2)),
        l((1, 3), (0, 1)),
        l((3, 0), (1, 0)),
        l((3, 0), (1, 0)),
    ];
    let mut kept = vec![];
    let mut distinct = BTreeMap::new();
    for i in 0..200 {
        let o = outcome(&lines);
        *distinct.entry(o.clone()).or_insert(0usize) += 1;
        if i % 3 == 0 {
            kept.push(o);
        }
    }
    assert_eq!(
        distinct.len(),
        1,
        "200 plain calls with equal input gave {} different outcomes:\n{}",
        distinct.len(),
        report(&distinct)
    );
}

// ---------------------------------------------------------------------------------------------
// Boolean operations / unary_union across rayon pool sizes (separate processes).
// ---------------------------------------------------------------------------------------------
use geo::{unary_union, BooleanOps, LineString, MultiLineString, MultiPolygon, Polygon};

fn fnv(h: &mut u64, v: u64) {
    for b in v.to_le_bytes() {
        *h ^= b as u64;
        *h = h.wrapping_mul(0x100000001b3);
    }
}

fn digest_mp(mp: &MultiPolygon<f64>) -> u64 {
    let mut h = 0xcbf29ce484222325u64;
    fnv(&mut h, mp.0.len() as u64);
    for p in &mp.0 {
        fnv(&mut h, 1 + p.interiors().len() as u64);
        for r in std::iter::once(p.exterior()).chain(p.interiors()) {
            fnv(&mut h, r.0.len() as u64);
            for c in &r.0 {
                fnv(&mut h, c.x.to_bits());
                fnv(&mut h, c.y.to_bits());
            }
        }
    }
    h
}

fn digest_mls(m: &MultiLineString<f64>) -> u64 {
    let mut h = 0xcbf29ce484222325u64;
    fnv(&mut h, m.0.len() as u64);
    for r in &m.0 {
        fnv(&mut h, r.0.len() as u64);
        for c in &r.0 {
            fnv(&mut h, c.x.to_bits());
            fnv(&mut h, c.y.to_bits());
        }
    }
    h
}

struct Lcg(u64);
impl Lcg {
    fn next(&mut self) -> f64 {
        self.0 = self
            .0
            .wrapping_mul(6364136223846793005)
            .wrapping_add(1442695040888963407);
        ((self.0 >> 11) as f64) / ((1u64 << 53) as f64)
    }
}

/// n x n grid of small diamonds/squares with side `s`, cell pitch 1, offset (ox, oy)
fn grid(n: usize, s: f64, ox: f64, oy: f64) -> MultiPolygon<f64> {
    let mut v = vec![];
    for i in 0..n {
        for j in 0..n {
            let x = i as f64 + ox;
            let y = j as f64 + oy;
            v.push(Polygon::new(
                LineString::from(vec![(x, y), (x + s, y), (x + s, y + s), (x, y + s), (x, y)]),
                vec![],
            ));
        }
    }
    MultiPolygon::new(v)
}

fn random_triangles(n: usize, seed: u64, extent: f64, size: f64) -> Vec<Polygon<f64>> {
    let mut r = Lcg(seed);
    (0..n)
        .map(|_| {
            let cx = r.next() * extent;
            let cy = r.next() * extent;
            let pts: Vec<(f64, f64)> = (0..3)
                .map(|_| (cx + r.next() * size, cy + r.next() * size))
                .collect();
            Polygon::new(
                LineString::from(vec![pts[0], pts[1], pts[2], pts[0]]),
                vec![],
            )
        })
        .collect()
}

fn boolops_digests() -> Vec<(String, u64)> {
    let mut out = vec![];
    // 1. 50x50 grid vs shifted grid: 2 * 10_000 segments (> 8000: fragment solver)
    let a = grid(50, 0.7, 0.0, 0.0);
    let b = grid(50, 0.7, 0.35, 0.35);
    out.push(("grid50 union".to_string(), digest_mp(&a.union(&b))));
    out.push(("grid50 intersection".to_string(), digest_mp(&a.intersection(&b))));
    out.push(("grid50 xor".to_string(), digest_mp(&a.xor(&b))));
    out.push(("grid50 difference".to_string(), digest_mp(&a.difference(&b))));
    // 2. 100x100 grids: 2 * 40_000 segments (> 32768: parallel sort)
    let a = grid(100, 0.7, 0.0, 0.0);
    let b = grid(100, 0.7, 0.35, 0.2);
    out.push(("grid100 union".to_string(), digest_mp(&a.union(&b))));
    out.push(("grid100 xor".to_string(), digest_mp(&a.xor(&b))));
    // clip many lines
    let lines = MultiLineString::new(
        (0..400)
            .map(|i| {
                let y = i as f64 * 0.25 + 0.1;
                LineString::from(vec![(-1.0, y), (101.0, y + 0.3)])
            })
            .collect(),
    );
    out.push(("grid100 clip".to_string(), digest_mls(&a.clip(&lines, false))));
    out.push(("grid100 clip inv".to_string(), digest_mls(&a.clip(&lines, true))));
    // 3. unary union of 12_000 overlapping random triangles (36_000 segments, many crossings)
    let tris = random_triangles(12_000, 99, 100.0, 3.0);
    out.push(("unary_union tris".to_string(), digest_mp(&unary_union(&tris))));
    // 4. unary union of irrational-ish coordinates at mixed magnitudes
    let tris = random_triangles(4_000, 7, 1.0e6, 5.0e4);
    out.push(("unary_union big".to_string(), digest_mp(&unary_union(&tris))));
    out
}

/// Child: prints the digests. Run by `boolops_same_for_every_pool_size` in a fresh process with
/// RAYON_NUM_THREADS set.
#[test]
#[ignore]
fn child_boolops_digests() {
    for (name, d) in boolops_digests() {
        println!("DIGEST|{name}|{d:016x}");
    }
    // same process, second call
    for (name, d) in boolops_digests() {
        println!("DIGEST2|{name}|{d:016x}");
    }
}

#[test]
#[ignore]
fn boolops_same_for_every_pool_size() {
    let exe = std::env::current_exe().unwrap();
    let mut all: BTreeMap<String, BTreeMap<String, Vec<String>>> = BTreeMap::new();
    for threads in ["1", "2", "3", "4", "7", "16"] {
        for rep in 0..2 {
            let o = std::process::Command::new(&exe)
                .args(["--exact", "child_boolops_digests", "--ignored", "--nocapture"])
                .env("RAYON_NUM_THREADS", threads)
                .output()
                .unwrap();
            let s = String::from_utf8_lossy(&o.stdout).to_string();
            let mut n = 0;
            for line in s.lines() {
                if let Some(rest) = line.strip_prefix("DIGEST") {
                    let parts: Vec<&str> = rest.split('|').collect();
                    all.entry(parts[1].to_string())
                        .or_default()
                        .entry(parts[2].to_string())
                        .or_default()
                        .push(format!("t{threads}r{rep}{}", parts[0]));
                    n += 1;
                }
            }
            assert_eq!(n, 20, "child failed: {s}\n{}", String::from_utf8_lossy(&o.stderr));
        }
    }
    let mut bad = vec![];
    for (name, by_digest) in &all {
        println!("{name}: {:?}", by_digest.keys().collect::<Vec<_>>());
        if by_digest.len() != 1 {
            bad.push(format!("{name}: {by_digest:?}"));
        }
    }
    assert!(bad.is_empty(), "{bad:#?}");
}

// ---------------------------------------------------------------------------------------------
// Broad check of the other collection-producing algorithms (negative result: all stable).
// ---------------------------------------------------------------------------------------------
fn hash_str(s: &str) -> u64 {
    let mut h = 0xcbf29ce484222325u64;
    for b in s.bytes() {
        h ^= b as u64;
        h = h.wrapping_mul(0x100000001b3);
    }
    h
}

#[allow(deprecated)]
fn misc_digests() -> Vec<(String, u64)> {
    use geo::triangulate_delaunay::DelaunayTriangulationConfig;
    use geo::triangulate_spade::SpadeTriangulationConfig;
    use geo::{
        monotone_subdivision, ConcaveHull, ConvexHull, InteriorPoint, KNearestConcaveHull,
        MultiPoint, OutlierDetection, Point, Relate, SimplifyVwPreserve, StitchTriangles,
        TriangulateDelaunay, TriangulateEarcut, TriangulateSpade,
    };
    let mut out: Vec<(String, u64)> = vec![];
    let mut push = |name: &str, s: String| out.push((name.to_string(), hash_str(&s)));

    // stitching: twelve separate squares, a donut with island, 60 squares
    for n in [12usize, 60] {
        let tris: Vec<_> = (0..n)
            .flat_map(|i| {
                let x = 2.0 * i as f64;
                Polygon::new(
                    LineString::from(vec![(x, 0.), (x + 1., 0.), (x + 1., 1.), (x, 1.), (x, 0.)]),
                    vec![],
                )
                .earcut_triangles()
            })
            .collect();
        push(&format!("stitch {n} squares"), format!("{:?}", tris.stitch_triangulation()));
    }
    let donut = Polygon::new(
        LineString::from(vec![(0., 0.), (9., 0.), (9., 9.), (0., 9.), (0., 0.)]),
        vec![
            LineString::from(vec![(1., 1.), (1., 4.), (4., 4.), (4., 1.), (1., 1.)]),
            LineString::from(vec![(5., 5.), (5., 8.), (8., 8.), (8., 5.), (5., 5.)]),
            LineString::from(vec![(5., 1.), (5., 4.), (8., 4.), (8., 1.), (5., 1.)]),
        ],
    );
    let island = Polygon::new(
        LineString::from(vec![(2., 2.), (3., 2.), (3., 3.), (2., 3.), (2., 2.)]),
        vec![],
    );
    let tris: Vec<_> = [donut.clone(), island]
        .iter()
        .flat_map(|p| p.earcut_triangles())
        .collect();
    push("stitch donut", format!("{:?}", tris.stitch_triangulation()));

    // point sets
    let mut r = Lcg(5);
    let pts: Vec<Point<f64>> = (0..400)
        .map(|_| Point::new((r.next() * 20.0).round(), (r.next() * 20.0).round()))
        .collect();
    let mp = MultiPoint::new(pts.clone());
    push("concave_hull", format!("{:?}", mp.concave_hull(2.0)));
    push("k_nearest_concave_hull", format!("{:?}", mp.k_nearest_concave_hull(3)));
    push("convex_hull", format!("{:?}", mp.convex_hull()));
    push("outliers", format!("{:?}", mp.outliers(5)));
    push("delaunay unconstrained", format!("{:?}", mp.0.iter().map(|p| p.0).collect::<Vec<_>>().len()));
    push("donut delaunay", format!("{:?}", TriangulateDelaunay::constrained_triangulation(&donut, DelaunayTriangulationConfig::default())));
    push("donut delaunay outer", format!("{:?}", TriangulateDelaunay::constrained_outer_triangulation(&donut, DelaunayTriangulationConfig::default())));
    push("donut delaunay unconstrained", format!("{:?}", TriangulateDelaunay::unconstrained_triangulation(&donut)));
    push("donut spade", format!("{:?}", TriangulateSpade::constrained_triangulation(&donut, SpadeTriangulationConfig::default())));
    let tri_list = random_triangles(40, 3, 10.0, 4.0);
    push("overlapping delaunay", format!("{:?}", TriangulateDelaunay::constrained_outer_triangulation(&tri_list, DelaunayTriangulationConfig::default())));
    push("donut monotone", format!("{:?}", monotone_subdivision([donut.clone()])));
    push("donut interior_point", format!("{:?}", donut.interior_point()));
    push("donut relate", format!("{:?}", donut.relate(&tri_list[0])));
    let mut r = Lcg(11);
    let wiggle = LineString::from(
        (0..500)
            .map(|i| (i as f64 * 0.1, (r.next() * 4.0).round() * 0.25))
            .collect::<Vec<_>>(),
    );
    push("simplify_vw_preserve", format!("{:?}", wiggle.simplify_vw_preserve(0.05)));
    let a = grid(6, 0.7, 0.0, 0.0);
    let b = grid(6, 0.7, 0.35, 0.35);
    push("small union", format!("{:?}", a.union(&b)));
    push("small unary", format!("{:?}", unary_union(a.0.iter().chain(b.0.iter()))));
    out
}

#[test]
#[ignore]
fn child_misc_digests() {
    for (name, d) in misc_digests() {
        println!("DIGEST|{name}|{d:016x}");
    }
    unrelated_allocations(true);
    for (name, d) in misc_digests() {
        println!("DIGEST2|{name}|{d:016x}");
    }
}

#[test]
#[ignore]
fn misc_same_in_every_process() {
    let exe = std::env::current_exe().unwrap();
    let mut all: BTreeMap<String, BTreeMap<String, Vec<String>>> = BTreeMap::new();
    for threads in ["1", "3", "16"] {
        for rep in 0..3 {
            let o = std::process::Command::new(&exe)
                .args(["--exact", "child_misc_digests", "--ignored", "--nocapture"])
                .env("RAYON_NUM_THREADS", threads)
                .output()
                .unwrap();
            let s = String::from_utf8_lossy(&o.stdout).to_string();
            let mut n = 0;
            for line in s.lines() {
                if let Some(rest) = line.strip_prefix("DIGEST") {
                    let parts: Vec<&str> = rest.split('|').collect();
                    all.entry(parts[1].to_string())
                        .or_default()
                        .entry(parts[2].to_string())
                        .or_default()
                        .push(format!("t{threads}r{rep}{}", parts[0]));
                    n += 1;
                }
            }
            assert!(n > 0, "child failed: {s}\n{}", String::from_utf8_lossy(&o.stderr));
        }
    }
    let mut bad = vec![];
    for (name, by_digest) in &all {
        println!("{name}: {:?}", by_digest.keys().collect::<Vec<_>>());
        if by_digest.len() != 1 {
            bad.push(format!("{name}: {by_digest:?}"));
        }
    }
    assert!(bad.is_empty(), "{bad:#?}");
}
