//! C12 — closest and interior points lie on the geometry; the sweep reports exactly the
//! intersecting pairs (the mechanism interior_point relies on).
use crate::gen::*;
use crate::ig::*;
use crate::model::{self, Loc, Model};
use crate::q::*;
use crate::report::*;
use crate::rng::{Fnv, Rng};
use crate::with_geom;
use geo::algorithm::line_intersection::{line_intersection, LineIntersection};
use geo::algorithm::sweep::Intersections;
use geo::{Closest, ClosestPoint, Coord, Geometry, InteriorPoint, Line, Point};
use serde_json::{json, Value};

const U: f64 = 1.1102230246251565e-16;

fn detail(check: &str, a: &IG, q: Option<IP>, lat: &Lat, expected: String, got: String, extra: Value) -> Value {
    json!({"property": "C12", "check": check, "a": a.json(), "q": q.map(|q| vec![q.0, q.1]), "lat": lat.json(), "expected": expected, "got": got, "extra": extra, "a_geo": format!("{:?}", a.to_geo(lat))})
}

/// exact squared distance from a rational point to a model (0 if inside an areal model)
fn dist2_to(m: &Model, p: P) -> Option<Q> {
    if m.loc(p) != Loc::E {
        return Some(Q::ZERO);
    }
    let mut best: Option<Q> = None;
    for (s0, s1) in m.segs() {
        let d = pt_seg_dist2(p, s0, s1);
        best = Some(best.map_or(d, |b| b.min(d)));
    }
    for v in m.isolated() {
        let d = dist2(p, v);
        best = Some(best.map_or(d, |b| b.min(d)));
    }
    best
}
fn extent_l(a: &IG, q: IP) -> f64 {
    let mut cs = a.coords();
    cs.push(q);
    let (x0, x1) = (cs.iter().map(|c| c.0).min().unwrap(), cs.iter().map(|c| c.0).max().unwrap());
    let (y0, y1) = (cs.iter().map(|c| c.1).min().unwrap(), cs.iter().map(|c| c.1).max().unwrap());
    ((x1 - x0) as f64).hypot((y1 - y0) as f64).max(1.0)
}

pub fn check_closest(sh: &mut Shard, a: &IG, q: IP, lat: &Lat, verbose: bool) {
    let g = a.to_geo(lat);
    let m = a.to_model();
    let pq = pi(q.0, q.1);
    let p = Point(lat.c(q));
    let kind = a.kind();
    let (l, d2) = match guard(|| (m.loc(pq), dist2_to(&m, pq))) {
        Ok(x) => x,
        Err(_) => {
            sh.inconclusive("oracle:closest");
            return;
        }
    };
    sh.eval(1);
    let got = call(|| with_geom!(&g, x => x.closest_point(&p)));
    let got_enum = call(|| g.closest_point(&p));
    if verbose {
        println!("closest_point {kind} to {:?}: loc {:?}, exact d2 {:?} -> {:?}", p, l, d2, got);
    }
    let (got, got_enum) = match (got, got_enum) {
        (Ok(a), Ok(b)) => (a, b),
        (x, y) => {
            sh.violation(&format!("closest_point.panic|{kind}|-"), detail("closest_point.panic", a, Some(q), lat, "no panic".into(), format!("{:?} {:?}", x.err(), y.err()), json!({"at": last_panic_loc()})));
            return;
        }
    };
    sh.eval(1);
    if got != got_enum {
        sh.violation(&format!("closest_point.enum_vs_concrete|{kind}|-"), detail("closest_point.enum_vs_concrete", a, Some(q), lat, format!("{:?}", got), format!("{:?}", got_enum), json!({})));
    }
    let s = lat.scale();
    let ext = extent_l(a, q) * s;
    let mag = p.x().abs().max(p.y().abs());
    match got {
        Closest::Indeterminate => {
            if !a.is_empty() {
                sh.violation(&format!("closest_point.indeterminate|{kind}|-"), detail("closest_point.indeterminate", a, Some(q), lat, "a point (input is non-empty and has no zero-length part)".into(), "Indeterminate".into(), json!({})));
            } else {
                sh.class("closest:empty=>Indeterminate");
            }
        }
        Closest::Intersection(c) => {
            if l == Loc::E {
                sh.violation(&format!("closest_point.intersection_iff_intersects|{kind}|-"), detail("closest_point.intersection_iff_intersects", a, Some(q), lat, "SinglePoint (p does not intersect g)".into(), format!("Intersection({:?})", c), json!({})));
            } else {
                // the reported point is p itself (bit for bit, since Line::closest_point was repaired to return p rather
                // than the recomputed projection)
                let err = if c.x().to_bits() == p.x().to_bits() && c.y().to_bits() == p.y().to_bits() { 0.0 } else { 1.0 };
                let tol = 0.5;
                if err > tol {
                    sh.violation(&format!("closest_point.intersection_is_p|{kind}|-"), detail("closest_point.intersection_is_p", a, Some(q), lat, format!("{:?}", p), format!("{:?}", c), json!({})));
                }
            }
            sh.class("closest:Intersection");
        }
        Closest::SinglePoint(c) => {
            if l != Loc::E {
                sh.violation(&format!("closest_point.intersection_iff_intersects|{kind}|-"), detail("closest_point.intersection_iff_intersects", a, Some(q), lat, "Intersection(p)".into(), format!("SinglePoint({:?})", c), json!({"loc": format!("{:?}", l)})));
            } else if let Some(d2) = d2 {
                let d = d2.to_f64().sqrt() * s;
                // (i) the point lies on g: exact distance of the returned f64 point to g
                let tol = 16.0 * U * (mag + ext + d);
                let on = lat.inv(c.0).and_then(|cq| guard(|| dist2_to(&m, cq)).ok().flatten());
                match on {
                    Some(e2) => {
                        let e = e2.to_f64().sqrt() * s;
                        sh.maximum("closest_point_off_geometry_over_tol", e / tol);
                        if e > tol {
                            sh.violation(&format!("closest_point.on_geometry|{kind}|-"), detail("closest_point.on_geometry", a, Some(q), lat, "a point of g".into(), format!("{:?} is {:e} away from g", c, e), json!({})));
                        }
                    }
                    None => sh.inconclusive("closest point not exactly representable in Q"),
                }
                // (ii) it realises the minimum distance
                let dc = (c.x() - p.x()).hypot(c.y() - p.y());
                sh.maximum("closest_distance_err_over_tol", (dc - d).abs() / tol);
                if (dc - d).abs() > tol {
                    sh.violation(&format!("closest_point.is_closest|{kind}|-"), detail("closest_point.is_closest", a, Some(q), lat, format!("distance {:e}", d), format!("{:?} at distance {:e}", c, dc), json!({})));
                }
            }
            sh.class("closest:SinglePoint");
        }
    }
    sh.class(&format!("closest:{kind}:{:?}", l));
    let mut h = Fnv::new();
    a.digest(&mut h);
    h.i64(q.0);
    h.i64(q.1);
    if a.n_segments() > 0 {
        sh.nontrivial(h.0);
    }
}

/// the coordinate sequences of a purely linear geometry (Line, LineString, MultiLineString, collections of those)
fn linear_parts(a: &IG) -> Option<Vec<Vec<IP>>> {
    match a {
        IG::Line(s, e) => Some(vec![vec![*s, *e]]),
        IG::LineString(v) => Some(if v.is_empty() { vec![] } else { vec![v.clone()] }),
        IG::MultiLineString(m) => Some(m.iter().filter(|v| !v.is_empty()).cloned().collect()),
        IG::Collection(v) => {
            let mut out = vec![];
            for x in v {
                out.extend(linear_parts(x)?);
            }
            Some(out)
        }
        _ => None,
    }
}

/// Vertices of a line string as query points, with coordinates of MIXED magnitude (m*2^e, e in -30..40) or plain decimal
/// fractions (k/10): a vertex lies on the geometry whatever `start + t*(end - start)` rounds to, so the answer must be
/// Intersection(p) with p bit-identical to the query.
pub fn check_vertex_queries(sh: &mut Shard, cs: &[(f64, f64)], verbose: bool) {
    use geo::LineString;
    let pts: Vec<Coord<f64>> = cs.iter().map(|&(x, y)| Coord { x, y }).collect();
    if pts.windows(2).all(|w| w[0] == w[1]) {
        return;
    }
    let ls = LineString::new(pts.clone());
    let hex = |c: &Coord<f64>| format!("{:016x},{:016x}", c.x.to_bits(), c.y.to_bits());
    for (i, p) in pts.iter().enumerate() {
        let q = Point(*p);
        let mut sites: Vec<(&str, Result<Closest<f64>, String>)> = vec![("LineString", call(|| ls.closest_point(&q)))];
        if i + 1 < pts.len() && pts[i] != pts[i + 1] {
            let l = Line::new(pts[i], pts[i + 1]);
            sites.push(("Line(start)", call(|| l.closest_point(&q))));
        }
        if i > 0 && pts[i - 1] != pts[i] {
            let l = Line::new(pts[i - 1], pts[i]);
            sites.push(("Line(end)", call(|| l.closest_point(&q))));
        }
        for (site, got) in sites {
            sh.eval(1);
            let det = |got: String| json!({"property": "C12", "check": "closest_point.vertex_query", "kind": "vertex_queries", "coords_hex": pts.iter().map(|c| hex(c)).collect::<Vec<_>>(), "coords": format!("{:?}", pts), "vertex": i, "site": site, "expected": format!("Intersection({:?})", p), "got": got});
            match got {
                Ok(Closest::Intersection(c)) if c.x().to_bits() == p.x.to_bits() && c.y().to_bits() == p.y.to_bits() => {}
                Ok(other) => {
                    if verbose {
                        println!("{site} vertex {i}: {:?}", other);
                    }
                    sh.violation(&format!("closest_point.intersection_iff_intersects|{site}:vertex query|-"), det(format!("{:?}", other)))
                }
                Err(m) => sh.violation(&format!("closest_point.panic|{site}|-"), det(m)),
            }
        }
    }
    sh.class("closest:vertex_queries_mixed_magnitude");
}

pub fn check_interior(sh: &mut Shard, a: &IG, lat: &Lat, verbose: bool) {
    let g = a.to_geo(lat);
    let m = a.to_model();
    let kind = a.kind();
    sh.eval(1);
    let got = call(|| g.interior_point());
    if verbose {
        println!("interior_point {kind}: {:?}", got);
    }
    let got = match got {
        Ok(x) => x,
        Err(p) => {
            let loc = last_panic_loc();
            // known finding: the sweep behind polygon interior points loses track of a segment (about 1 in 10^5 polygons)
            let cls = "-"; // (the sweep panic behind polygon interior points was repaired in /repo)
            sh.violation(&format!("interior_point.panic|{kind}|{cls}"), detail("interior_point.panic", a, None, lat, "no panic".into(), p, json!({"at": loc})));
            return;
        }
    };
    match got {
        None => {
            if !a.is_empty() {
                sh.violation(&format!("interior_point.none_only_for_empty|{kind}|-"), detail("interior_point.none_only_for_empty", a, None, lat, "Some(point)".into(), "None".into(), json!({})));
            }
            sh.class("interior:None");
        }
        Some(c) => {
            if a.is_empty() {
                sh.violation(&format!("interior_point.none_only_for_empty|{kind}|-"), detail("interior_point.none_only_for_empty", a, None, lat, "None".into(), format!("{:?}", c), json!({})));
                return;
            }
            match lat.inv(c.0).map(|cq| guard(|| m.loc(cq))) {
                Some(Ok(l)) => {
                    sh.eval(1);
                    if l == Loc::E {
                        sh.violation(&format!("interior_point.intersects|{kind}|-"), detail("interior_point.intersects", a, None, lat, "a point of g".into(), format!("{:?} is in the exterior", c), json!({})));
                    } else if a.dim() == 2 && l != Loc::I {
                        sh.violation(&format!("interior_point.strictly_inside|{kind}|-"), detail("interior_point.strictly_inside", a, None, lat, "a point of the interior (g is areal and valid)".into(), format!("{:?} is on the boundary", c), json!({})));
                    } else if l == Loc::B {
                        // purely linear g with a segment of positive length has interior of its own dimension
                        if let Some(parts) = linear_parts(a) {
                            if parts.iter().any(|p| p.windows(2).any(|w| w[0] != w[1])) {
                                let cq = lat.inv(c.0).unwrap();
                                // known finding (documented choice, pinned by the repository's tests): a part without an interior
                                // vertex answers with its start point; an interior vertex is used even where it coincides with a
                                // boundary point of g. Any other boundary point (e.g. the LAST coordinate of a part) is not this.
                                let by_design = parts.iter().any(|p| {
                                    let (f, t) = (p[0], p[p.len() - 1]);
                                    let inner = &p[1..p.len().max(2) - 1];
                                    (cq == pi(f.0, f.1) && !inner.iter().any(|&v| v != f && v != t)) || inner.iter().any(|&v| cq == pi(v.0, v.1))
                                });
                                let cls = if by_design { "interior_point_linear_endpoint" } else { "-" };
                                sh.violation(&format!("interior_point.strictly_inside|{kind}|{cls}"), detail("interior_point.strictly_inside", a, None, lat, "a point of the (1-dimensional) interior: g is linear and has a segment of positive length".into(), format!("{:?} is a boundary point of g", c), json!({})));
                            }
                        }
                    }
                    sh.class(&format!("interior:dim{}:{:?}", a.dim(), l));
                }
                _ => sh.inconclusive("interior point not exactly representable / oracle"),
            }
        }
    }
    // the concrete type answers like the enum (types whose Output is Option are compared directly)
    let mut h = Fnv::new();
    a.digest(&mut h);
    h.u64(0x1217);
    if a.n_segments() >= 3 {
        sh.nontrivial(h.0);
    }
    sh.sample(|| json!({"kind": "interior_point", "geometry": format!("{:?}", g), "result": format!("{:?}", got)}));
}

/// A collection with members of DIFFERENT dimensions (points, lines, areas; valid shapes, anywhere): its own dimension is
/// the highest one present, so the answer has to lie on a member of that dimension (for areal ones: strictly inside it)
pub fn check_interior_mixed(sh: &mut Shard, members: &[IG], lat: &Lat, verbose: bool) {
    use geo::{Geometry, GeometryCollection};
    let top = members.iter().map(|m| m.dim()).max().unwrap_or(-1);
    if top < 0 {
        return;
    }
    let gc = GeometryCollection::new_from(members.iter().map(|m| m.to_geo(lat)).collect::<Vec<Geometry<f64>>>());
    let det = |exp: &str, got: String| json!({"property": "C12", "check": "interior_point.highest_dimension", "kind": "mixed_collection", "members": members.iter().map(|m| m.json()).collect::<Vec<_>>(), "lat": lat.json(), "expected": exp, "got": got, "geo": format!("{:?}", gc)});
    sh.eval(1);
    let got = call(|| gc.interior_point());
    if verbose {
        println!("interior_point of {:?}: {:?} (highest dimension {top})", gc, got);
    }
    match got {
        Err(p) => sh.violation("interior_point.panic|GeometryCollection(mixed dimensions)|-", det("no panic", format!("panic: {p} at {}", last_panic_loc()))),
        Ok(None) => sh.violation("interior_point.none_only_for_empty|GeometryCollection(mixed dimensions)|-", det("Some(point)", "None".into())),
        Ok(Some(c)) => {
            let Some(cq) = lat.inv(c.0) else {
                sh.inconclusive("interior point not exactly representable / oracle");
                return;
            };
            let mut best: Option<Loc> = None;
            for m in members.iter().filter(|m| m.dim() == top) {
                match guard(|| m.to_model().loc(cq)) {
                    Ok(Loc::I) => best = Some(Loc::I),
                    Ok(Loc::B) if best != Some(Loc::I) => best = Some(Loc::B),
                    Ok(_) => {}
                    Err(_) => {
                        sh.inconclusive("interior point not exactly representable / oracle");
                        return;
                    }
                }
            }
            match best {
                None => sh.violation("interior_point.highest_dimension|GeometryCollection(mixed dimensions)|-", det(&format!("a point of a member of dimension {top}"), format!("{:?} lies on no member of that dimension", c))),
                Some(Loc::B) if top == 2 => sh.violation("interior_point.strictly_inside|GeometryCollection(mixed dimensions)|-", det("a point strictly inside an areal member", format!("{:?} is on the boundary of the areal members", c))),
                _ => sh.class(&format!("interior:mixed_collection:top_dim{top}")),
            }
        }
    }
}

/// A MultiPolygon (or a collection holding it) whose members include polygons WITHOUT area (a flat ring [p, q, p], a
/// ring that is one coordinate) at any position, the first included, next to members that have area: g has interior
/// of its own dimension, so the answer has to lie strictly inside one of the members that have area.
pub fn check_interior_flat_members(sh: &mut Shard, a: &IG, extra: &[(usize, Vec<IP>)], wrap: bool, lat: &Lat, verbose: bool) {
    use geo::{Geometry, GeometryCollection, LineString, MultiPolygon, Polygon};
    let proper: Vec<Vec<Vec<IP>>> = match a {
        IG::Polygon(r) => vec![r.clone()],
        IG::MultiPolygon(ms) => ms.clone(),
        _ => return,
    };
    let m = a.to_model();
    let to_poly = |rings: &Vec<Vec<IP>>| -> Polygon<f64> {
        let mut it = rings.iter().map(|r| LineString::new(r.iter().map(|&p| lat.c(p)).collect()));
        let ext = it.next().unwrap_or_else(|| LineString::new(vec![]));
        Polygon::new(ext, it.collect())
    };
    let mut members: Vec<Polygon<f64>> = proper.iter().map(to_poly).collect();
    for (at, ring) in extra {
        let at = (*at).min(members.len());
        members.insert(at, to_poly(&vec![ring.clone()]));
    }
    let mp = MultiPolygon::new(members);
    let det = |exp: &str, got: String| json!({"property": "C12", "check": "interior_point.strictly_inside", "kind": "flat_members", "a": a.json(), "extra": extra.iter().map(|(i, r)| json!([i, r])).collect::<Vec<_>>(), "wrap": wrap, "lat": lat.json(), "expected": exp, "got": got, "geo": format!("{:?}", mp)});
    sh.eval(1);
    let got = if wrap {
        let gc = GeometryCollection::new_from(vec![Geometry::MultiPolygon(mp.clone())]);
        call(|| gc.interior_point())
    } else {
        call(|| mp.interior_point())
    };
    if verbose {
        println!("interior_point of {:?}{}: {:?}", mp, if wrap { " in a collection" } else { "" }, got);
    }
    let site = if wrap { "GeometryCollection[MultiPolygon with zero-area members]" } else { "MultiPolygon with zero-area members" };
    match got {
        Err(p) => sh.violation(&format!("interior_point.panic|{site}|-"), det("no panic", format!("panic: {p} at {}", last_panic_loc()))),
        Ok(None) => sh.violation(&format!("interior_point.none_only_for_empty|{site}|-"), det("Some(point)", "None".into())),
        Ok(Some(c)) => match lat.inv(c.0).map(|cq| guard(|| m.loc(cq))) {
            Some(Ok(Loc::I)) => sh.class("interior:zero_area_members:inside_a_member_with_area"),
            Some(Ok(l)) => sh.violation(&format!("interior_point.strictly_inside|{site}|-"), det("a point strictly inside a member that has area", format!("{:?} ({:?} with respect to the members that have area)", c, l))),
            _ => sh.inconclusive("interior point not exactly representable / oracle"),
        },
    }
}

/// OBSERVE-ONLY. The statement of C12 speaks about closest_point and interior_point, not about the
/// public `sweep::Intersections` iterator that interior_point uses internally. On the pinned tree the
/// iterator misses some improper (T-junction) pairs once the coordinates carry an offset and very
/// rarely panics ("segment not found in active-vec-set"); demanding completeness here would demand
/// more than the property states, so differences are counted in the evidence (classes `sweep:*`)
/// and never reported as violations. Defects of the sweep that matter to C12 surface through the
/// interior_point clauses, which are judged on > 10^5 polygons per quick run.
pub fn check_sweep(sh: &mut Shard, segs: &[(IP, IP)], lat: &Lat, verbose: bool) {
    let lines: Vec<Line<f64>> = segs.iter().map(|(a, b)| Line::new(lat.c(*a), lat.c(*b))).collect();
    let det = |check: &str, exp: String, got: String| json!({"property": "C12", "check": check, "kind": "sweep", "segs": segs, "lat": lat.json(), "expected": exp, "got": got});
    // bounded: on the pinned tree the iterator occasionally never terminates (observed, not judged)
    let cap = 4 * lines.len() * lines.len() + 16;
    let res = call(|| Intersections::from_iter(lines.iter().cloned()).take(cap + 1).collect::<Vec<_>>());
    sh.eval(1);
    let res = match res {
        Ok(r) => r,
        Err(p) => {
            // observe-only (see the note on check_sweep): recorded in the evidence, not a verdict on C12
            sh.class("sweep:observed_panic");
            let _ = (p, &det);
            return;
        }
    };
    if res.len() > cap {
        sh.class("sweep:observed_runaway_iterator");
        return;
    }
    let idx = |l: &Line<f64>| lines.iter().position(|x| x == l);
    let mut got: Vec<(usize, usize, String)> = vec![];
    for (a, b, x) in &res {
        let (Some(i), Some(j)) = (idx(a), idx(b)) else {
            sh.violation("sweep.foreign_line|Intersections|-", det("sweep.foreign_line", "input lines".into(), format!("{:?} {:?}", a, b)));
            return;
        };
        let (i, j) = (i.min(j), i.max(j));
        got.push((i, j, canon(x)));
    }
    got.sort();
    let n_before = got.len();
    got.dedup();
    let mut exp: Vec<(usize, usize, String)> = vec![];
    for i in 0..lines.len() {
        for j in i + 1..lines.len() {
            if let Some(x) = line_intersection(lines[i], lines[j]) {
                exp.push((i, j, canon(&x)));
            }
        }
    }
    exp.sort();
    if verbose {
        println!("sweep: expected {:?}\n       got {:?}", exp, got);
    }
    sh.eval(1);
    if got != exp {
        sh.class("sweep:observed_pair_set_differs_from_brute_force");
    } else if n_before != got.len() {
        sh.class("sweep:pair_reported_twice");
    }
    sh.class_n("sweep:pairs", exp.len() as u64);
    let mut h = Fnv::new();
    for (a, b) in segs {
        h.i64(a.0);
        h.i64(a.1);
        h.i64(b.0);
        h.i64(b.1);
    }
    if !exp.is_empty() {
        sh.nontrivial(h.0);
    }
}
fn canon(x: &LineIntersection<f64>) -> String {
    match x {
        LineIntersection::SinglePoint { intersection, is_proper } => format!("P({:016x},{:016x},{})", intersection.x.to_bits(), intersection.y.to_bits(), is_proper),
        LineIntersection::Collinear { intersection } => {
            let (a, b) = (intersection.start, intersection.end);
            let (a, b) = if (a.x, a.y) <= (b.x, b.y) { (a, b) } else { (b, a) };
            format!("C({:016x},{:016x},{:016x},{:016x})", a.x.to_bits(), a.y.to_bits(), b.x.to_bits(), b.y.to_bits())
        }
    }
}

fn degenerate(r: &mut Rng, a: &IG) -> IG {
    fn dup(r: &mut Rng, v: &Vec<IP>) -> Vec<IP> {
        let mut v = v.clone();
        if v.is_empty() {
            return v;
        }
        for _ in 0..r.range(1, 2) {
            let i = r.below(v.len() as u64) as usize;
            let p = v[i];
            v.insert(i, p);
        }
        v
    }
    match a {
        IG::LineString(v) => IG::LineString(dup(r, v)),
        IG::Polygon(rings) => IG::Polygon(rings.iter().map(|x| dup(r, x)).collect()),
        IG::MultiLineString(ms) => {
            let mut ms: Vec<Vec<IP>> = ms.iter().map(|x| if r.chance(1, 2) { dup(r, x) } else { x.clone() }).collect();
            if r.chance(1, 2) {
                let i = r.below(ms.len() as u64 + 1) as usize;
                ms.insert(i, vec![]);
            }
            IG::MultiLineString(ms)
        }
        IG::MultiPolygon(ms) => {
            let mut ms: Vec<Vec<Vec<IP>>> = ms.iter().map(|m| m.iter().map(|x| if r.chance(1, 2) { dup(r, x) } else { x.clone() }).collect()).collect();
            if r.chance(1, 2) {
                let i = r.below(ms.len() as u64 + 1) as usize;
                ms.insert(i, vec![]);
            }
            IG::MultiPolygon(ms)
        }
        IG::Collection(v) => {
            let mut v: Vec<IG> = v.iter().map(|g| degenerate(r, g)).collect();
            if r.chance(1, 2) {
                let i = r.below(v.len() as u64 + 1) as usize;
                let e = match r.below(4) {
                    0 => IG::LineString(vec![]),
                    1 => IG::MultiPoint(vec![]),
                    2 => IG::Polygon(vec![]),
                    _ => IG::Collection(vec![]),
                };
                v.insert(i, e);
            }
            IG::Collection(v)
        }
        o => o.clone(),
    }
}

pub fn run(ctx: &Ctx, sh: &mut Shard) {
    for k in ctx.case_indices() {
        if sh.cases >= ctx.budget {
            break;
        }
        ctx.mark_case(k);
        let mut r = Rng::derive(ctx.seed, ctx.shard, k);
        sh.cases += 1;
        let g = *r.pick(&[3i64, 4, 4, 5, 6, 8]);
        let lat = Lat::random(&mut r);
        if k % 16 == 5 {
            let n = r.range(2, 5);
            let decimal = r.chance(1, 2);
            let cs: Vec<(f64, f64)> = (0..n)
                .map(|_| {
                    if decimal {
                        (r.range(-50, 50) as f64 / 10.0, r.range(-50, 50) as f64 / 10.0)
                    } else {
                        let mut c = || r.range(-4096, 4096) as f64 * crate::q::pow2(*r.pick(&[-30, -12, 0, 0, 9, 25, 40]));
                        (c(), c())
                    }
                })
                .collect();
            check_vertex_queries(sh, &cs, false);
            continue;
        }
        if k % 4 == 3 {
            // sweep: few segments on a small lattice, many coincidences
            let n = r.range(2, 7);
            let mut segs: Vec<(IP, IP)> = vec![];
            for _ in 0..n {
                let (a, b) = ((r.range(0, g), r.range(0, g)), (r.range(0, g), r.range(0, g)));
                if a != b && !segs.contains(&(a, b)) && !segs.contains(&(b, a)) {
                    segs.push((a, b));
                }
            }
            check_sweep(sh, &segs, &lat, false);
            continue;
        }
        let a = match r.below(10) {
            // slivers: height 1 on a wide lattice
            0 => {
                let w = 1i64 << r.range(4, 20);
                IG::Polygon(vec![vec![(0, 0), (w, 0), (w + r.range(-1, 1), 1), (r.range(0, 1), 1), (0, 0)]])
            }
            1..=4 => loop {
                let k2 = *r.pick(&["Polygon", "PolygonHoles", "PolygonHoles", "MultiPolygon"]);
                if let Some(x) = gen_kind(&mut r, k2, g) {
                    break x;
                }
            },
            _ => gen_any(&mut r, g),
        };
        // one case in 12: a collection of members of different dimensions
        if k % 12 == 1 {
            let n = r.range(2, 4);
            let members: Vec<IG> = (0..n).map(|_| gen_any(&mut r, g).translate(r.range(-g, g), r.range(-g, g))).filter(|m| !matches!(m, IG::Collection(_))).collect();
            if members.iter().any(|m| !m.is_empty()) && members.iter().map(|m| m.dim()).filter(|d| *d >= 0).collect::<std::collections::BTreeSet<_>>().len() >= 2 {
                check_interior_mixed(sh, &members, &lat, false);
            }
        }
        // one case in 50: a geometry of realistic size or with a node of high degree
        let a = if k % 50 == 17 { let (x, cls) = gen_large(&mut r); sh.class(cls); x } else { a };
        if a.n_segments() > 700 {
            continue;
        }
        if !a.valid() {
            continue;
        }
        // the same point set written with degenerate parts: repeated consecutive coordinates (zero-length
        // segments) and empty members — closest_point must not let such a part spoil the answer
        let a = if r.chance(1, 3) { degenerate(&mut r, &a) } else { a };
        check_interior(sh, &a, &lat, false);
        if matches!(a, IG::Polygon(_) | IG::MultiPolygon(_)) && !a.is_empty() && a.dim() == 2 && r.chance(1, 2) {
            let n = r.range(1, 3);
            let extra: Vec<(usize, Vec<IP>)> = (0..n)
                .map(|j| {
                    let p = (r.range(-2, g + 2), r.range(-2, g + 2));
                    let q = (r.range(-2, g + 2), r.range(-2, g + 2));
                    let ring = match r.below(4) {
                        0 => vec![p],
                        1 => vec![p, p, p],
                        2 => vec![p, q, p],
                        _ => vec![p, q, (2 * q.0 - p.0, 2 * q.1 - p.1), p],
                    };
                    (if j == 0 && r.chance(2, 3) { 0 } else { r.range(0, 4) as usize }, ring)
                })
                .collect();
            check_interior_flat_members(sh, &a, &extra, r.chance(1, 3), &lat, false);
        }
        if !a.is_empty() {
            for _ in 0..3 {
                let q = interesting_point(&mut r, &a, g);
                check_closest(sh, &a, q, &lat, false);
            }
        }
    }
}

pub fn replay(v: &Value, sh: &mut Shard) {
    if v["kind"].as_str() == Some("vertex_queries") {
        let cs: Vec<(f64, f64)> = v["coords_hex"].as_array().unwrap().iter().map(|h| { let t: Vec<u64> = h.as_str().unwrap().split(',').map(|x| u64::from_str_radix(x, 16).unwrap()).collect(); (f64::from_bits(t[0]), f64::from_bits(t[1])) }).collect();
        check_vertex_queries(sh, &cs, true);
        return;
    }
    let lat = Lat::from_json(&v["lat"]);
    if v["kind"].as_str() == Some("sweep") {
        let segs: Vec<(IP, IP)> = v["segs"].as_array().unwrap().iter().map(|s| ((s[0][0].as_i64().unwrap(), s[0][1].as_i64().unwrap()), (s[1][0].as_i64().unwrap(), s[1][1].as_i64().unwrap()))).collect();
        check_sweep(sh, &segs, &lat, true);
        return;
    }
    if v["kind"].as_str() == Some("mixed_collection") {
        let members: Vec<IG> = v["members"].as_array().unwrap().iter().map(|m| IG::from_json(m).unwrap()).collect();
        check_interior_mixed(sh, &members, &lat, true);
        return;
    }
    let a = IG::from_json(&v["a"]).expect("a");
    println!("A = {:?}", a.to_geo(&lat));
    if v["kind"].as_str() == Some("flat_members") {
        let extra: Vec<(usize, Vec<IP>)> = v["extra"].as_array().unwrap().iter().map(|e| (e[0].as_u64().unwrap() as usize, e[1].as_array().unwrap().iter().map(|p| (p[0].as_i64().unwrap(), p[1].as_i64().unwrap())).collect())).collect();
        check_interior_flat_members(sh, &a, &extra, v["wrap"].as_bool().unwrap_or(false), &lat, true);
        return;
    }
    if let Some(q) = v["q"].as_array() {
        check_closest(sh, &a, (q[0].as_i64().unwrap(), q[1].as_i64().unwrap()), &lat, true);
    } else {
        check_interior(sh, &a, &lat, true);
    }
}
