//! one monitor per property
use crate::report::{Ctx, Shard};
use serde_json::Value;

pub mod c01;
pub mod c02;
pub mod c03;
pub mod c04;
pub mod c05;
pub mod c06;
pub mod c07;
pub mod c08;
pub mod c09;
pub mod c10;
pub mod c11;
pub mod c12;
pub mod c13;
pub mod c14;
pub mod c15;
pub mod c16;
pub mod c17;
pub mod c18;
pub mod c19;
pub mod c20;
pub mod witness;

pub fn run(ctx: &Ctx, sh: &mut Shard) {
    // fixed witnesses of open known findings (see witness.rs): once per run, on shard 0
    if ctx.shard == 0 && ctx.only.is_none() {
        witness::run(&ctx.prop, sh);
    }
    match ctx.prop.as_str() {
        "C01" => c01::run(ctx, sh),
        "C02" => c02::run(ctx, sh),
        "C03" => c03::run(ctx, sh),
        "C04" => c04::run(ctx, sh),
        "C05" => c05::run(ctx, sh),
        "C06" => c06::run(ctx, sh),
        "C07" => c07::run(ctx, sh),
        "C08" => c08::run(ctx, sh),
        "C09" => c09::run(ctx, sh),
        "C10" => c10::run(ctx, sh),
        "C11" => c11::run(ctx, sh),
        "C12" => c12::run(ctx, sh),
        "C13" => c13::run(ctx, sh),
        "C14" => c14::run(ctx, sh),
        "C15" => c15::run(ctx, sh),
        "C16" => c16::run(ctx, sh),
        "C17" => c17::run(ctx, sh),
        "C18" => c18::run(ctx, sh),
        "C19" => c19::run(ctx, sh),
        "C20" => c20::run(ctx, sh),
        p => {
            eprintln!("no monitor for {p}");
            std::process::exit(2);
        }
    }
}
pub fn replay(v: &Value, sh: &mut Shard) {
    match v["property"].as_str().unwrap_or("") {
        "C01" => c01::replay(v, sh),
        "C02" => c02::replay(v, sh),
        "C03" => c03::replay(v, sh),
        "C04" => c04::replay(v, sh),
        "C05" => c05::replay(v, sh),
        "C06" => c06::replay(v, sh),
        "C07" => c07::replay(v, sh),
        "C08" => c08::replay(v, sh),
        "C09" => c09::replay(v, sh),
        "C10" => c10::replay(v, sh),
        "C11" => c11::replay(v, sh),
        "C12" => c12::replay(v, sh),
        "C13" => c13::replay(v, sh),
        "C14" => c14::replay(v, sh),
        "C15" => c15::replay(v, sh),
        "C16" => c16::replay(v, sh),
        "C17" => c17::replay(v, sh),
        "C18" => c18::replay(v, sh),
        "C19" => c19::replay(v, sh),
        "C20" => c20::replay(v, sh),
        p => {
            eprintln!("no replay for {p}");
            std::process::exit(2);
        }
    }
}
pub fn extra_command(cmd: &str, args: &[String]) -> bool {
    match cmd {
        "c11-min" => {
            c11::find_small(args);
            true
        }
        "c11-min2" => {
            c11::find_small2(args);
            true
        }
        "c08-min" if args.len() > 2 => {
            c08::minimize(&args[2]);
            true
        }
        "monotone-debug" if args.len() > 2 => {
            // print geo's own debug!/info! log of the monotone builder for one recorded polygon
            struct L;
            impl log::Log for L {
                fn enabled(&self, _: &log::Metadata) -> bool {
                    true
                }
                fn log(&self, r: &log::Record) {
                    eprintln!("[{}] {}", r.target().rsplit("::").next().unwrap_or(""), r.args());
                }
                fn flush(&self) {}
            }
            static LOGGER: L = L;
            let _ = log::set_logger(&LOGGER);
            log::set_max_level(log::LevelFilter::Trace);
            let v: serde_json::Value = serde_json::from_str(&std::fs::read_to_string(&args[2]).unwrap()).unwrap();
            let a = crate::ig::IG::from_json(&v["a"]).unwrap();
            let lat = crate::ig::Lat::from_json(&v["lat"]);
            if args.get(3).map(|s| s.as_str()) == Some("interior_point") {
                use geo::InteriorPoint;
                println!("{:?}", a.to_geo(&lat));
                println!("{:?}", a.to_geo(&lat).interior_point());
            } else if let geo::Geometry::Polygon(p) = a.to_geo(&lat) {
                let r = geo::monotone_subdivision([p]);
                for m in r {
                    println!("{:?}", m.into_polygon());
                }
            }
            true
        }
        "cpu-ms-test" => {
            // self-test of the watchdogs' clock: ~300 ms of spinning must show, 300 ms of sleeping must not
            let c0 = crate::report::cpu_ms();
            let t = std::time::Instant::now();
            let mut x = 0u64;
            while t.elapsed().as_millis() < 300 {
                x = x.wrapping_mul(6364136223846793005).wrapping_add(1);
            }
            let c1 = crate::report::cpu_ms();
            std::thread::sleep(std::time::Duration::from_millis(300));
            let c2 = crate::report::cpu_ms();
            println!("spin: {} ms cpu, sleep: {} ms cpu ({x})", c1 - c0, c2 - c1);
            true
        }
        "digest-run" => {
            c20::digest_run(args);
            true
        }
        _ => false,
    }
}
