//! C07 — Euclidean distance is the true minimum distance.
use crate::gen::*;
use crate::ig::*;
use crate::model;
use crate::q::Q;
use crate::report::*;
use crate::rng::{Fnv, Rng};
use crate::with_geom;
use geo::algorithm::line_measures::{Distance, Euclidean};
use geo::{EuclideanDistance, Geometry};
use serde_json::{json, Value};

const U: f64 = 1.1102230246251565e-16;

fn detail(check: &str, a: &IG, b: &IG, lat: &Lat, expected: String, got: String, extra: Value) -> Value {
    json!({"property": "C07", "check": check, "a": a.json(), "b": b.json(), "lat": lat.json(), "expected": expected, "got": got, "extra": extra,
           "a_geo": format!("{:?}", a.to_geo(lat)), "b_geo": format!("{:?}", b.to_geo(lat))})
}

/// sqrt of an exact non-negative rational, correctly rounded to within 2 ulps
fn sqrt_q(q: Q) -> f64 {
    // scale so that numerator/denominator conversion to f64 does not lose more than 1 ulp
    (q.n as f64 / q.d as f64).sqrt()
}

fn extent(a: &IG, b: &IG, lat: &Lat) -> f64 {
    let cs: Vec<IP> = a.coords().into_iter().chain(b.coords()).collect();
    if cs.is_empty() {
        return 0.0;
    }
    let (x0, x1) = (cs.iter().map(|c| c.0).min().unwrap(), cs.iter().map(|c| c.0).max().unwrap());
    let (y0, y1) = (cs.iter().map(|c| c.1).min().unwrap(), cs.iter().map(|c| c.1).max().unwrap());
    (((x1 - x0) as f64).hypot((y1 - y0) as f64)) * lat.scale()
}

pub fn dist_enum(a: &Geometry<f64>, b: &Geometry<f64>) -> Result<f64, String> {
    call(|| Euclidean.distance(a, b))
}
pub fn dist_concrete(a: &Geometry<f64>, b: &Geometry<f64>) -> Result<f64, String> {
    call(|| with_geom!(a, x => with_geom!(b, y => Euclidean.distance(x, y))))
}
pub fn dist_legacy(a: &Geometry<f64>, b: &Geometry<f64>) -> Result<f64, String> {
    call(|| with_geom!(a, x => with_geom!(b, y => x.euclidean_distance(y))))
}

pub fn check_pair(sh: &mut Shard, r: &mut Rng, a: &IG, b: &IG, lat: &Lat, verbose: bool) {
    sh.cases += 1;
    let (ga, gb) = (a.to_geo(lat), b.to_geo(lat));
    let pair = format!("{}x{}", a.kind(), b.kind());
    if a.is_empty() || b.is_empty() {
        // the statement is about pairs of (non-empty) geometries; observe only (no verdict, catches aborts)
        let _ = dist_enum(&ga, &gb);
        sh.class("observe_only:empty_operand");
        return;
    }
    let (ma, mb) = (a.to_model(), b.to_model());
    let d2 = match guard(|| model::dist2_models(&ma, &mb)) {
        Ok(Some(d)) => d,
        Ok(None) => return,
        Err(Caught::Panic(s)) => panic!("oracle bug: {s}"),
        Err(e) => {
            sh.inconclusive(&format!("oracle:{e:?}"));
            return;
        }
    };
    let exp = sqrt_q(d2) * lat.scale();
    let ext = extent(a, b, lat);
    // The reference carries <= 2 ulps; geo's formulas work on coordinate differences (exact on the
    // lattice) followed by a handful of multiplications, one division and a square root, each <= 1/2 ulp,
    // and on projections whose absolute error scales with the size of the configuration: 32·u·max(d, extent) (observed maximum 1.6·u·max(d, extent) over 2·10^5 pairs).
    let tol = 32.0 * U * exp.max(ext);
    let mut judge = |sh: &mut Shard, check: &str, x: &IG, y: &IG, got: Result<f64, String>| {
        sh.eval(1);
        if verbose {
            println!("{check} {}x{}: expected {:e} got {:?}", x.kind(), y.kind(), exp, got);
        }
        let site = format!("{}x{}", x.kind(), y.kind());
        match got {
            Ok(g) => {
                if d2.is_zero() != (g == 0.0) {
                    sh.violation(&format!("{check}.zero_iff_intersects|{site}|-"), detail(&format!("{check}.zero_iff_intersects"), x, y, lat, format!("{:e}", exp), format!("{:e}", g), json!({"exact_d2": format!("{}/{}", d2.n, d2.d)})));
                } else if !((g - exp).abs() <= tol) {
                    sh.violation(&format!("{check}.value|{site}|-"), detail(&format!("{check}.value"), x, y, lat, format!("{:e}", exp), format!("{:e}", g), json!({"exact_d2": format!("{}/{}", d2.n, d2.d), "tol": tol})));
                }
                if tol > 0.0 {
                    sh.maximum("value_err_over_tol", (g - exp).abs() / tol);
                }
                Some(g)
            }
            Err(p) => {
                sh.violation(&format!("{check}.panic|{site}|-"), detail(&format!("{check}.panic"), x, y, lat, format!("{:e}", exp), p, json!({"at": last_panic_loc()})));
                None
            }
        }
    };
    let d_ab = judge(sh, "distance.enum", a, b, dist_enum(&ga, &gb));
    let d_ba = judge(sh, "distance.enum", b, a, dist_enum(&gb, &ga));
    let c_ab = judge(sh, "distance", a, b, dist_concrete(&ga, &gb));
    let c_ba = judge(sh, "distance", b, a, dist_concrete(&gb, &ga));
    let l_ab = judge(sh, "euclidean_distance_legacy", a, b, dist_legacy(&ga, &gb));
    // symmetry and typing/wrapping invariance: the same primitive computations are performed, so the
    // value must be identical, not merely close
    let mut same = |sh: &mut Shard, check: &str, x: Option<f64>, y: Option<f64>, extra: Value| {
        sh.eval(1);
        if let (Some(x), Some(y)) = (x, y) {
            let ulps = if x == y { 0.0 } else { (x - y).abs() / (U * 2.0 * x.abs().max(y.abs())) };
            sh.maximum(&format!("{check}.ulps"), ulps);
            if ulps > 4.0 {
                sh.violation(&format!("{check}|{pair}|-"), detail(check, a, b, lat, format!("{:e}", x), format!("{:e}", y), extra));
            }
        }
    };
    same(sh, "symmetry", d_ab, d_ba, json!({}));
    same(sh, "symmetry.concrete", c_ab, c_ba, json!({}));
    same(sh, "enum_vs_concrete", d_ab, c_ab, json!({}));
    same(sh, "legacy_vs_new", c_ab, l_ab, json!({}));
    // one operand concrete, the other wrapped in the enum (both trait families, both sides), and the Coord forms
    let mixed: Vec<(&str, Result<f64, String>)> = vec![
        ("distance(concrete, &Geometry)", call(|| with_geom!(&ga, x => Euclidean.distance(x, &gb)))),
        ("distance(&Geometry, concrete)", call(|| with_geom!(&gb, y => Euclidean.distance(&ga, y)))),
        ("concrete.euclidean_distance(&Geometry)", call(|| with_geom!(&ga, x => x.euclidean_distance(&gb)))),
        ("Geometry.euclidean_distance(concrete)", call(|| with_geom!(&gb, y => ga.euclidean_distance(y)))),
    ];
    for (name, got) in mixed {
        let g = judge(sh, "distance.mixed", a, b, got);
        same(sh, "mixed_vs_concrete", c_ab, g, json!({"form": name}));
    }
    {
        use geo::{Coord, Line};
        let mut coord_forms: Vec<(&str, Result<f64, String>)> = vec![];
        match (&ga, &gb) {
            (Geometry::Point(p), Geometry::Point(q)) => {
                let (p, q): (Coord<f64>, Coord<f64>) = (p.0, q.0);
                coord_forms.push(("distance(Coord, Coord)", call(|| Euclidean.distance(p, q))));
                coord_forms.push(("Coord.euclidean_distance(Coord)", call(|| p.euclidean_distance(&q))));
            }
            (Geometry::Point(p), Geometry::Line(l)) | (Geometry::Line(l), Geometry::Point(p)) => {
                let (p, l): (Coord<f64>, Line<f64>) = (p.0, *l);
                coord_forms.push(("distance(Coord, &Line)", call(|| Euclidean.distance(p, &l))));
                coord_forms.push(("distance(&Line, Coord)", call(|| Euclidean.distance(&l, p))));
                coord_forms.push(("Coord.euclidean_distance(Line)", call(|| p.euclidean_distance(&l))));
                coord_forms.push(("Line.euclidean_distance(Coord)", call(|| l.euclidean_distance(&p))));
            }
            (Geometry::LineString(x), Geometry::LineString(y)) if x.0.len() >= 2 && y.0.len() >= 2 => {
                // the public brute-force helper: documented as the minimum distance between two DISJOINT line strings
                if !d2.is_zero() {
                    #[allow(deprecated)]
                    coord_forms.push(("nearest_neighbour_distance(LineString, LineString)", call(|| geo::algorithm::euclidean_distance::nearest_neighbour_distance(x, y))));
                }
            }
            _ => {}
        }
        for (name, got) in coord_forms {
            sh.class(&format!("coord_form:{name}"));
            let g = judge(sh, "distance.coord_form", a, b, got);
            same(sh, "coord_form_vs_concrete", c_ab, g, json!({"form": name}));
        }
    }
    for (which, base) in [(0, a), (1, b)] {
        for (name, alt) in respellings(r, base) {
            let galt = alt.to_geo(lat);
            let got = if which == 0 { dist_enum(&galt, &gb) } else { dist_enum(&ga, &galt) };
            let (x, y) = if which == 0 { (&alt, b) } else { (a, &alt) };
            let g = judge(sh, "distance.spelling", x, y, got);
            same(sh, "spelling_invariance", d_ab, g, json!({"spelling": name, "of_operand": which}));
            sh.class(&format!("spelling:{name}"));
        }
    }
    sh.class(&format!("pair:{pair}"));
    sh.class(if d2.is_zero() { "truth:intersecting" } else { "truth:disjoint" });
    if lat.ox != 0 || lat.oy != 0 {
        sh.class("lattice:offset");
    }
    // containment without boundary contact: the branch where only the containment test can find distance 0
    if d2.is_zero() {
        if let Ok(rel) = guard(|| model::relate(&ma, &mb)) {
            if rel.m[1][1] < 0 && rel.m[1][0] < 0 && rel.m[0][1] < 0 {
                sh.class("zero_by_containment_only");
            }
        }
    }
    let mut h = Fnv::new();
    a.digest(&mut h);
    b.digest(&mut h);
    if a.n_segments() + b.n_segments() > 0 {
        sh.nontrivial(h.0);
    }
    sh.sample(|| json!({"a": format!("{:?}", ga), "b": format!("{:?}", gb), "exact_distance_squared_lattice": format!("{}/{}", d2.n, d2.d), "expected": exp}));
}

/// a geometry lying inside a hole of a polygon (distance > 0 although the envelopes are nested), or
/// inside the shell next to the hole, or a polygon nested in a polygon: the containment branches
fn gen_in_hole(r: &mut Rng) -> (IG, IG, Lat) {
    let g = 12i64;
    let (h0, h1) = (r.range(1, 3), r.range(9, 11));
    let shell = IG::rect_ring((0, 0), (g, g));
    let mut hole = IG::rect_ring((h0, h0), (h1, h1));
    if r.chance(1, 2) {
        hole.reverse();
    }
    let outer = if r.chance(1, 3) { IG::MultiPolygon(vec![vec![shell, hole]]) } else { IG::Polygon(vec![shell, hole]) };
    let inner = loop {
        let x = gen_any(r, 3);
        if !x.is_empty() {
            break x;
        }
    };
    // inside the hole (h0+1 .. h1-1 has room for a 0..3 lattice), touching its edge, or straddling it
    let off = match r.below(4) {
        0 => h0,
        1 => h0 - 2,
        _ => r.range(h0 + 1, h1 - 4),
    };
    let inner = inner.translate(off, r.range(h0 + 1, h1 - 4));
    let lat = Lat::random(r);
    if r.chance(1, 2) {
        (outer, inner, lat)
    } else {
        (inner, outer, lat)
    }
}

/// Distances at scales where the SQUARE of the distance leaves the range of the scalar type (f64: 2^±(520..600),
/// f32: 2^±(64..100)). A Pythagorean offset (dx,dy)·2^e has the distance k·2^e exactly; a distance is not a squared
/// distance, so nothing here needs to leave the range. Point–Point, Point–Line (foot inside), Line–Line (parallel).
pub fn check_extreme_scale(sh: &mut Shard, t: (i64, i64, i64), e64: i32, e32: i32, verbose: bool) {
    use geo::{Line, Point};
    let (dx, dy, k) = t;
    let det = |site: &str, exp: String, got: String| json!({"property": "C07", "check": "distance.extreme_scale", "kind": "extreme_scale", "triple": [dx, dy, k], "e64": e64, "e32": e32, "site": site, "expected": exp, "got": got});
    {
        let s = crate::q::pow2(e64);
        let (p, q) = (Point::new(s, -2.0 * s), Point::new((1 + dx) as f64 * s, (dy - 2) as f64 * s));
        let exp = k as f64 * s;
        // a segment through q perpendicular to p->q (direction (-dy, dx)): its distance from p is k·s as well
        let l = Line::new(geo::Coord { x: q.x() + dy as f64 * s, y: q.y() - dx as f64 * s }, geo::Coord { x: q.x() - dy as f64 * s, y: q.y() + dx as f64 * s });
        let l2 = Line::new(geo::Coord { x: p.x() + dy as f64 * s, y: p.y() - dx as f64 * s }, geo::Coord { x: p.x() - dy as f64 * s, y: p.y() + dx as f64 * s });
        let cases: Vec<(&str, Result<f64, String>)> = vec![
            ("Point-Point f64", call(|| Euclidean.distance(&p, &q))),
            ("Point-Point f64 (legacy euclidean_distance)", call(|| p.euclidean_distance(&q))),
            ("Point-Line f64", call(|| Euclidean.distance(&p, &l))),
            ("Line-Line f64 (parallel)", call(|| Euclidean.distance(&l2, &l))),
        ];
        for (site, got) in cases {
            sh.eval(1);
            match got {
                Ok(d) => {
                    if verbose {
                        println!("{site}: {d:e} (expected {exp:e})");
                    }
                    if !((d - exp).abs() <= 8.0 * f64::EPSILON * exp) {
                        // known finding: the point-to-segment kernel divides by the SQUARED segment length, which is 0 or inf
                        // here: NaN / inf / 0 from it (and from what is built on it) is that finding; any finite non-zero
                        // wrong value, and anything wrong in Point-Point, is not [see below]
                        // (the whole stratum has squared segment lengths outside the normal range of f64: also a finite value
                        // computed from a subnormal squared length is that finding; Point-Point stays strict)
                        let kc = if !site.starts_with("Point-Point") { "distance_segment_kernel_squares_leave_range" } else { "-" };
                        sh.violation(&format!("distance.extreme_scale|{site}|{kc}"), det(site, format!("{exp:e}"), format!("{d:e}")));
                    }
                }
                Err(m) => sh.violation(&format!("distance.extreme_scale.panic|{site}|-"), det(site, "no panic".into(), m)),
            }
        }
    }
    {
        let s = (2.0f32).powi(e32);
        let (p, q) = (Point::new(s, -2.0 * s), Point::new((1 + dx) as f32 * s, (dy - 2) as f32 * s));
        let exp = k as f32 * s;
        sh.eval(1);
        match call(|| Euclidean.distance(&p, &q)) {
            Ok(d) => {
                if !((d - exp).abs() <= 8.0 * f32::EPSILON * exp) {
                    sh.violation("distance.extreme_scale|Point-Point f32|-", det("Point-Point f32", format!("{exp:e}"), format!("{d:e}")));
                }
            }
            Err(m) => sh.violation("distance.extreme_scale.panic|Point-Point f32|-", det("Point-Point f32", "no panic".into(), m)),
        }
    }
    sh.class("distance:scale_where_squares_leave_the_range");
}

pub fn run(ctx: &Ctx, sh: &mut Shard) {
    for k in ctx.case_indices() {
        if sh.cases >= ctx.budget {
            break;
        }
        ctx.mark_case(k);
        let mut r = Rng::derive(ctx.seed, ctx.shard, k);
        if k % 64 == 11 {
            sh.cases += 1;
            let t = *r.pick(&[(3i64, 4i64, 5i64), (5, 12, 13), (8, 15, 17), (7, 24, 25), (20, 21, 29)]);
            let t = if r.chance(1, 2) { t } else { (-t.1, t.0, t.2) };
            let e64 = if r.chance(1, 2) { r.range(-600, -520) } else { r.range(520, 600) } as i32;
            let e32 = if r.chance(1, 2) { r.range(-100, -64) } else { r.range(64, 100) } as i32;
            check_extreme_scale(sh, t, e64, e32, false);
            continue;
        }
        // one case in 400: many members on a grid against a partner near one of them (gen_many_members), or an operand of
        // realistic size with a derived partner (gen_large_pair): the distance oracle is only O(n*m)
        let (a, b, lat) = if k % 400 == 7 {
            let (a, b, cls) = if r.chance(1, 2) {
                gen_many_members(&mut r)
            } else {
                match gen_large_pair(&mut r) {
                    Some(x) => x,
                    None => gen_many_members(&mut r),
                }
            };
            sh.class(cls);
            (a, b, Lat::random(&mut r))
        } else if k % 6 == 5 { gen_in_hole(&mut r) } else { super::c01::gen_case(&mut r) };
        if a.n_segments() + b.n_segments() > 700 {
            continue;
        }
        check_pair(sh, &mut r, &a, &b, &lat, false);
    }
}

pub fn replay(v: &Value, sh: &mut Shard) {
    if v["kind"].as_str() == Some("extreme_scale") {
        let t = &v["triple"];
        check_extreme_scale(sh, (t[0].as_i64().unwrap(), t[1].as_i64().unwrap(), t[2].as_i64().unwrap()), v["e64"].as_i64().unwrap() as i32, v["e32"].as_i64().unwrap() as i32, true);
        return;
    }
    let a = IG::from_json(&v["a"]).expect("a");
    let b = IG::from_json(&v["b"]).expect("b");
    let lat = Lat::from_json(&v["lat"]);
    let mut r = Rng::new(1);
    println!("A = {:?}\nB = {:?}", a.to_geo(&lat), b.to_geo(&lat));
    check_pair(sh, &mut r, &a, &b, &lat, true);
}
