//! C11 — line_intersection classifies and locates segment crossings exactly.
//!
//! Oracle: pure integer arithmetic on the exact images of the eight f64 coordinates of a case. Every
//! coordinate is read from its bit pattern as m * 2^e; all coordinates of the case are multiplied by one
//! common power of two so that they become integers. The only quantities that need arithmetic are the four
//! orientation signs orient(a,b,c), orient(a,b,d), orient(c,d,a), orient(c,d,b): i128 when the set bits of
//! the case span at most 60 binary digits (differences < 2^61, cross products < 2^123), a small
//! arbitrary-precision integer otherwise (any finite f64 whatsoever). Everything else in the
//! classification (bounding boxes, which end point lies between which, equality of end points, the
//! interval comparison of collinear segments) is a comparison of input coordinates, which is exact in f64.
//! The exact crossing of a proper pair is the rational a + (b-a) Nt / D; the distance of the returned point
//! from it is measured with a 256-bit integer on the grid 2^(hi-64) (|G D - dx Nt 2^s| / |D|) on the i128
//! path and with the arbitrary-precision integers otherwise; one case in 64 of the i128 path is recomputed
//! on the arbitrary-precision path and the two must agree (self-check of the reference).
//! Nothing of geo, `robust`, or the shared Q module is used to form an expectation.
//!
//! Clauses (each its own `check` name):
//!   classify            None / Collinear / SinglePoint{proper} / SinglePoint{improper} vs the exact answer
//!   classify.zero_length_on_segment   the same clause restricted to the input class "one segment has zero
//!                       length and lies on the other" with the result `Collinear{zero-length line}` (the
//!                       defect known on the pinned tree; any other wrong answer on that class is `classify`)
//!   classify.is_proper_method   LineIntersection::is_proper() is true exactly for SinglePoint{is_proper: true}
//!   collinear.segment   the returned line is the exact shared sub-segment up to direction, each end
//!                       bit-identical to an input end point located there
//!   improper.endpoint   the returned point is bit-identical to an input end point located at the shared point
//!   proper.envelope     a point flagged proper lies in both closed bounding boxes (exact f64 comparisons)
//!   proper.envelope.nearest_endpoint   the same clause when the returned point is a bit copy of an input end
//!                       point (the nearest_endpoint fallback): a defect of the pinned tree, kept apart so that
//!                       `proper.envelope` (a *computed* point outside a box) stays silent
//!   proper.accuracy     max-norm distance to the exact crossing <= TOL_K u (M + E kappa), judged for
//!                       kappa <= KAPPA_MAX only (nearly parallel pairs: envelope + classification only)
//!   agrees.intersects   Line::intersects(&Line) == line_intersection(..).is_some(), both orders
//!   order.independence  (p,q) vs (q,p): same classification, same improper point, same overlap up to direction
//!   panic               any panic inside geo on these inputs
use crate::report::*;
use crate::rng::{Fnv, Rng};
use geo::line_intersection::{line_intersection, LineIntersection};
use geo::{Coord, Intersects, Line};
use serde_json::{json, Value};
use std::collections::HashMap;

// ------------------------------------------------------------------------------------------------
// tolerance of the one inexact clause
// ------------------------------------------------------------------------------------------------

/// proper.accuracy: |got - X|_inf <= TOL_K * u * (M + E * kappa), u = 2^-53.
///   M     = largest |coordinate| of the input (the final `x_int + mid_x` rounds relative to the result, <= u M)
///   E     = largest bounding-box side of either segment (every conditioned coordinate v - mid is <= E,
///           because mid lies in both bounding boxes)
///   kappa = |p| |q| / |p x q| = 1 / sin(angle)
/// Derivation (first order, per axis), with all conditioned coordinates <= E:
///   conditioning  v - mid rounds by <= u E per coordinate = moving each end point by <= sqrt2 u E; a line
///                 moved by eps at the crossing shifts the crossing by <= eps / sin => 2 sqrt2 u E kappa  (2.9)
///   pw, qw        2x2 determinants of conditioned coordinates: error <= 3 u E^2
///   xw = py qw - qy pw: error <= |py| 3uEq^2 + |qy| 3uEp^2 + 3u(|py qw| + |qy pw|) <= 18 u Ep Eq E
///                 divided by |w| = |p||q| sin >= Ep Eq / kappa                              => 18 u E kappa
///   w  = px qy - qx py: relative error <= 5 u kappa, times |x_int| <= E/2                   => 2.5 u E kappa
///   division u |x_int| (0.5 u E), final addition of mid u M
/// Sum: <= 24 u E kappa + u M in the worst case of every bound at once; typical errors are 10-50 times
/// smaller. TOL_K = 32 stays above the worst-case bound and the calibration (REPORT.md) shows the
/// observed maximum (1.001, i.e. the final rounding u M) below TOL_K/16 = 2.
const TOL_K: f64 = 32.0;
/// pairs with kappa above this are "nearly parallel": only classification and envelope are judged
const KAPPA_MAX: f64 = 1024.0;

// ------------------------------------------------------------------------------------------------
// exact side
// ------------------------------------------------------------------------------------------------

type XP = (i128, i128);
/// the generator keeps the bit span of a case (highest set bit .. lowest set bit over all coordinates) below this
const GEN_BITS: i32 = 58;
/// the oracle refuses (inconclusive) beyond this: |v| < 2^60 => differences < 2^61, products < 2^122, sums of two < 2^123
const ORC_BITS: i32 = 60;

/// v = m * 2^e with m odd (or m = 0); None for non-finite
fn decomp(v: f64) -> Option<(i128, i32)> {
    if !v.is_finite() {
        return None;
    }
    let b = v.to_bits();
    let neg = (b >> 63) != 0;
    let ef = ((b >> 52) & 0x7ff) as i32;
    let fr = b & ((1u64 << 52) - 1);
    let (mut m, mut e) = if ef == 0 { (fr, -1074) } else { (fr | (1u64 << 52), ef - 1075) };
    if m == 0 {
        return Some((0, 0));
    }
    let tz = m.trailing_zeros() as i32;
    m >>= tz;
    e += tz;
    Some((if neg { -(m as i128) } else { m as i128 }, e))
}
fn bitlen(m: i128) -> i32 {
    (128 - m.unsigned_abs().leading_zeros()) as i32
}
/// (lowest exponent of a set bit, one past the highest exponent of a set bit) over all nonzero values
fn span(vals: &[f64]) -> Option<(i32, i32)> {
    let (mut lo, mut hi) = (i32::MAX, i32::MIN);
    for &v in vals {
        let (m, e) = decomp(v)?;
        if m != 0 {
            lo = lo.min(e);
            hi = hi.max(e + bitlen(m));
        }
    }
    if lo == i32::MAX {
        Some((0, 0))
    } else {
        Some((lo, hi))
    }
}
/// all values times 2^-lo as exact integers; None if they do not fit `limit` bits
fn scale_vals(vals: &[f64], limit: i32) -> Option<(Vec<i128>, i32, i32)> {
    let (lo, hi) = span(vals)?;
    if hi - lo > limit {
        return None;
    }
    let mut out = Vec::with_capacity(vals.len());
    for &v in vals {
        let (m, e) = decomp(v)?;
        out.push(if m == 0 { 0 } else { m << ((e - lo) as u32) });
    }
    Some((out, lo, hi))
}


// ---- arbitrary-precision integers (inputs whose set bits span more than 60 binary digits) ------

/// sign + little-endian u64 limbs; zero is the empty magnitude
#[derive(Clone, PartialEq, Eq, Debug)]
struct Big {
    neg: bool,
    mag: Vec<u64>,
}
impl Big {
    fn norm(mut self) -> Big {
        while self.mag.last() == Some(&0) {
            self.mag.pop();
        }
        if self.mag.is_empty() {
            self.neg = false;
        }
        self
    }
    /// m * 2^sh, |m| < 2^64
    fn from_shifted(m: i128, sh: u32) -> Big {
        let a = m.unsigned_abs() as u64;
        let (w, b) = ((sh / 64) as usize, sh % 64);
        let mut mag = vec![0u64; w];
        mag.push(a << b);
        if b > 0 {
            mag.push(a >> (64 - b));
        }
        Big { neg: m < 0, mag }.norm()
    }
    fn cmp_mag(a: &[u64], b: &[u64]) -> std::cmp::Ordering {
        if a.len() != b.len() {
            return a.len().cmp(&b.len());
        }
        for i in (0..a.len()).rev() {
            if a[i] != b[i] {
                return a[i].cmp(&b[i]);
            }
        }
        std::cmp::Ordering::Equal
    }
    fn add_mag(a: &[u64], b: &[u64]) -> Vec<u64> {
        let (a, b) = if a.len() >= b.len() { (a, b) } else { (b, a) };
        let mut out = Vec::with_capacity(a.len() + 1);
        let mut carry = 0u128;
        for i in 0..a.len() {
            let s = a[i] as u128 + if i < b.len() { b[i] as u128 } else { 0 } + carry;
            out.push(s as u64);
            carry = s >> 64;
        }
        if carry > 0 {
            out.push(carry as u64);
        }
        out
    }
    /// |a| >= |b|
    fn sub_mag(a: &[u64], b: &[u64]) -> Vec<u64> {
        let mut out = Vec::with_capacity(a.len());
        let mut borrow = 0i128;
        for i in 0..a.len() {
            let mut s = a[i] as i128 - if i < b.len() { b[i] as i128 } else { 0 } - borrow;
            if s < 0 {
                s += 1i128 << 64;
                borrow = 1;
            } else {
                borrow = 0;
            }
            out.push(s as u64);
        }
        assert!(borrow == 0, "oracle bug: sub_mag underflow");
        out
    }
    fn add(&self, o: &Big) -> Big {
        if self.neg == o.neg {
            return Big { neg: self.neg, mag: Big::add_mag(&self.mag, &o.mag) }.norm();
        }
        match Big::cmp_mag(&self.mag, &o.mag) {
            std::cmp::Ordering::Less => Big { neg: o.neg, mag: Big::sub_mag(&o.mag, &self.mag) }.norm(),
            _ => Big { neg: self.neg, mag: Big::sub_mag(&self.mag, &o.mag) }.norm(),
        }
    }
    fn sub(&self, o: &Big) -> Big {
        self.add(&Big { neg: !o.neg, mag: o.mag.clone() }.norm())
    }
    fn mul(&self, o: &Big) -> Big {
        if self.mag.is_empty() || o.mag.is_empty() {
            return Big { neg: false, mag: vec![] };
        }
        let mut out = vec![0u64; self.mag.len() + o.mag.len()];
        for (i, &x) in self.mag.iter().enumerate() {
            let mut carry = 0u128;
            for (j, &y) in o.mag.iter().enumerate() {
                let t = x as u128 * y as u128 + out[i + j] as u128 + carry;
                out[i + j] = t as u64;
                carry = t >> 64;
            }
            let mut k = i + o.mag.len();
            while carry > 0 {
                let t = out[k] as u128 + carry;
                out[k] = t as u64;
                carry = t >> 64;
                k += 1;
            }
        }
        Big { neg: self.neg != o.neg, mag: out }.norm()
    }
    fn sgn(&self) -> i32 {
        if self.mag.is_empty() {
            0
        } else if self.neg {
            -1
        } else {
            1
        }
    }
    /// |self| = m * 2^e up to a relative error below 2^-52
    fn approx(&self) -> (f64, i64) {
        let n = self.mag.len();
        match n {
            0 => (0.0, 0),
            1 => (self.mag[0] as f64, 0),
            _ => (self.mag[n - 1] as f64 * 18446744073709551616.0 + self.mag[n - 2] as f64, 64 * (n as i64 - 2)),
        }
    }
}
type BP = (Big, Big);
fn b_sub(a: &BP, b: &BP) -> BP {
    (a.0.sub(&b.0), a.1.sub(&b.1))
}
fn b_cross(u: &BP, v: &BP) -> Big {
    u.0.mul(&v.1).sub(&u.1.mul(&v.0))
}
/// x * 2^k without intermediate overflow for |k| beyond the f64 exponent range
fn mul_pow2(mut x: f64, mut k: i64) -> f64 {
    while k > 500 {
        x *= pow2(500);
        k -= 500;
    }
    while k < -500 {
        x *= pow2(-500);
        k += 500;
    }
    x * pow2(k as i32)
}
/// the eight coordinates as integers in units of 2^unit (unit <= every set bit)
fn big_image(f: &[(f64, f64); 4], unit: i32) -> Option<[BP; 4]> {
    let g = |v: f64| -> Option<Big> {
        let (m, e) = decomp(v)?;
        Some(if m == 0 { Big { neg: false, mag: vec![] } } else { Big::from_shifted(m, (e - unit) as u32) })
    };
    Some([(g(f[0].0)?, g(f[0].1)?), (g(f[1].0)?, g(f[1].1)?), (g(f[2].0)?, g(f[2].1)?), (g(f[3].0)?, g(f[3].1)?)])
}

// ---- orientation signs: the only place where exact arithmetic is needed ------------------------
// Everything else in the classification is a comparison of input coordinates, which is exact in f64.

#[inline]
fn x_cross(u: XP, v: XP) -> i128 {
    u.0 * v.1 - u.1 * v.0
}
#[inline]
fn x_sub(a: XP, b: XP) -> XP {
    (a.0 - b.0, a.1 - b.1)
}
#[inline]
fn x_orient(a: XP, b: XP, c: XP) -> i32 {
    x_cross(x_sub(b, a), x_sub(c, a)).signum() as i32
}
/// [orient(a,b,c), orient(a,b,d), orient(c,d,a), orient(c,d,b)]
fn signs_small(p: &[XP; 4]) -> [i32; 4] {
    [x_orient(p[0], p[1], p[2]), x_orient(p[0], p[1], p[3]), x_orient(p[2], p[3], p[0]), x_orient(p[2], p[3], p[1])]
}
fn signs_big(p: &[BP; 4]) -> [i32; 4] {
    let o = |a: &BP, b: &BP, c: &BP| b_cross(&b_sub(b, a), &b_sub(c, a)).sgn();
    [o(&p[0], &p[1], &p[2]), o(&p[0], &p[1], &p[3]), o(&p[2], &p[3], &p[0]), o(&p[2], &p[3], &p[1])]
}

type F4 = [(f64, f64); 4];
#[inline]
fn same_pos(f: &F4, i: usize, j: usize) -> bool {
    f[i].0 == f[j].0 && f[i].1 == f[j].1
}
#[inline]
fn f_between(v: f64, p: f64, q: f64) -> bool {
    (p <= v && v <= q) || (q <= v && v <= p)
}
/// f[i] lies in the closed bounding box of f[j], f[k] (exact: comparisons only)
#[inline]
fn in_box(f: &F4, i: usize, j: usize, k: usize) -> bool {
    f_between(f[i].0, f[j].0, f[k].0) && f_between(f[i].1, f[j].1, f[k].1)
}
fn boxes_meet(f: &F4) -> bool {
    let (a, b, c, d) = (f[0], f[1], f[2], f[3]);
    a.0.min(b.0) <= c.0.max(d.0) && c.0.min(d.0) <= a.0.max(b.0) && a.1.min(b.1) <= c.1.max(d.1) && c.1.min(d.1) <= a.1.max(b.1)
}
/// end point i lies on the other closed segment (o = the four exact orientation signs)
#[inline]
fn on_other(f: &F4, o: &[i32; 4], i: usize) -> bool {
    match i {
        0 => o[2] == 0 && in_box(f, 0, 2, 3),
        1 => o[3] == 0 && in_box(f, 1, 2, 3),
        2 => o[0] == 0 && in_box(f, 2, 0, 1),
        _ => o[1] == 0 && in_box(f, 3, 0, 1),
    }
}

/// the exact intersection of two closed segments; positions are given as indices of input end points
/// (a shared point that is not a proper crossing is always an end point, and so are the ends of an overlap)
#[derive(Clone, Copy, PartialEq, Eq, Debug)]
enum Kind {
    /// no common point
    None,
    /// one common point, interior to both
    Proper,
    /// one common point which is an end point of at least one segment: located at input end point i
    Touch(usize),
    /// a common sub-segment of positive length: from input end point i to input end point j
    Overlap(usize, usize),
}
impl Kind {
    fn name(&self) -> &'static str {
        match self {
            Kind::None => "None",
            Kind::Proper => "SinglePoint{proper}",
            Kind::Touch(_) => "SinglePoint{improper}",
            Kind::Overlap(..) => "Collinear",
        }
    }
}

fn x_classify(f: &F4, o: &[i32; 4]) -> Kind {
    let (ab, cd) = (same_pos(f, 0, 1), same_pos(f, 2, 3));
    let k = if ab && cd {
        if same_pos(f, 0, 2) {
            Kind::Touch(0)
        } else {
            Kind::None
        }
    } else if ab {
        if on_other(f, o, 0) {
            Kind::Touch(0)
        } else {
            Kind::None
        }
    } else if cd {
        if on_other(f, o, 2) {
            Kind::Touch(2)
        } else {
            Kind::None
        }
    } else {
        let (o1, o2, o3, o4) = (o[0], o[1], o[2], o[3]);
        if o1 == 0 && o2 == 0 {
            // all four on one line: compare the intervals along the axis on which the line is not constant
            let usex = f[0].0 != f[1].0;
            let key = |i: usize| if usex { f[i].0 } else { f[i].1 };
            let (l1, h1) = if key(0) <= key(1) { (0, 1) } else { (1, 0) };
            let (l2, h2) = if key(2) <= key(3) { (2, 3) } else { (3, 2) };
            let lo = if key(l1) >= key(l2) { l1 } else { l2 };
            let hi = if key(h1) <= key(h2) { h1 } else { h2 };
            if key(lo) > key(hi) {
                Kind::None
            } else if key(lo) == key(hi) {
                Kind::Touch(lo)
            } else {
                Kind::Overlap(lo, hi)
            }
        } else if o1 * o2 < 0 && o3 * o4 < 0 {
            Kind::Proper
        } else if o1 * o2 <= 0 && o3 * o4 <= 0 {
            // the lines are distinct and meet in one point, which is the end point that lies on the other line
            Kind::Touch(if o1 == 0 {
                2
            } else if o2 == 0 {
                3
            } else if o3 == 0 {
                0
            } else {
                1
            })
        } else {
            Kind::None
        }
    };
    // self-check of the reference with a second formulation
    let any_end = (0..4).any(|i| on_other(f, o, i));
    match k {
        Kind::None => {
            if any_end {
                panic!("oracle bug: None but an end point lies on the other segment");
            }
        }
        Kind::Proper => {
            if any_end {
                panic!("oracle bug: Proper but an end point lies on the other segment");
            }
        }
        Kind::Touch(s) => {
            if !on_other(f, o, s) {
                panic!("oracle bug: touch point not on both segments");
            }
            // no second common point: every end point on the other segment coincides with s
            for e in 0..4 {
                if on_other(f, o, e) && !same_pos(f, e, s) {
                    panic!("oracle bug: Touch but a second common point exists");
                }
            }
        }
        Kind::Overlap(l, h) => {
            if same_pos(f, l, h) || !on_other(f, o, l) || !on_other(f, o, h) {
                panic!("oracle bug: overlap ends not on both segments");
            }
            // maximality: every end point lying on the other segment is inside [l, h] (all four are collinear here)
            for e in 0..4 {
                if on_other(f, o, e) && !in_box(f, e, l, h) {
                    panic!("oracle bug: overlap not maximal");
                }
            }
        }
    }
    k
}

/// 256-bit sign-magnitude integer: just enough for |G D - dx Nt| and its conversion to f64
#[derive(Clone, Copy, Debug)]
struct W {
    neg: bool,
    hi: u128,
    lo: u128,
}
fn umul(a: u128, b: u128) -> (u128, u128) {
    const M: u128 = (1u128 << 64) - 1;
    let (a1, a0, b1, b0) = (a >> 64, a & M, b >> 64, b & M);
    let (p00, p01, p10, p11) = (a0 * b0, a0 * b1, a1 * b0, a1 * b1);
    let mid = (p00 >> 64) + (p01 & M) + (p10 & M);
    let lo = (p00 & M) | (mid << 64);
    let hi = p11 + (p01 >> 64) + (p10 >> 64) + (mid >> 64);
    (hi, lo)
}
fn wmul(a: i128, b: i128) -> W {
    let (hi, lo) = umul(a.unsigned_abs(), b.unsigned_abs());
    W { neg: (a < 0) != (b < 0) && (hi != 0 || lo != 0), hi, lo }
}
fn mag_ge(a: &W, b: &W) -> bool {
    (a.hi, a.lo) >= (b.hi, b.lo)
}
fn mag_add(a: &W, b: &W) -> (u128, u128) {
    let (lo, c) = a.lo.overflowing_add(b.lo);
    let hi = a.hi.checked_add(b.hi).and_then(|h| h.checked_add(c as u128)).expect("W overflow");
    (hi, lo)
}
fn mag_sub(a: &W, b: &W) -> (u128, u128) {
    // |a| >= |b|
    let (lo, br) = a.lo.overflowing_sub(b.lo);
    let hi = a.hi - b.hi - br as u128;
    (hi, lo)
}
fn wsub(a: W, b: W) -> W {
    // a - b
    let b = W { neg: !b.neg, ..b };
    if a.neg == b.neg {
        let (hi, lo) = mag_add(&a, &b);
        W { neg: a.neg, hi, lo }
    } else if mag_ge(&a, &b) {
        let (hi, lo) = mag_sub(&a, &b);
        W { neg: a.neg && (hi != 0 || lo != 0), hi, lo }
    } else {
        let (hi, lo) = mag_sub(&b, &a);
        W { neg: b.neg, hi, lo }
    }
}
impl W {
    fn abs_f64(&self) -> f64 {
        self.hi as f64 * 340282366920938463463374607431768211456.0 + self.lo as f64
    }
}

/// exact integer image of a case whose set bits span at most 60 binary digits
#[derive(Clone, Copy)]
struct Small {
    p: [XP; 4],
    /// span of the input: lowest set bit exponent, one past the highest
    lo: i32,
    hi: i32,
}
/// everything exact about one case
struct Exact {
    /// the four orientation signs [orient(a,b,c), orient(a,b,d), orient(c,d,a), orient(c,d,b)]
    o: [i32; 4],
    kind: Kind,
    boxes_meet: bool,
    /// Some: i128 path; None: wide exponent range, arbitrary-precision path
    small: Option<Small>,
}

/// result of the accuracy measurement of a proper point
struct Acc {
    /// max-norm error divided by u (M + E kappa)
    ratio: f64,
    /// max-norm error divided by u M
    ulps_m: f64,
    kappa: f64,
}

fn pow2(e: i32) -> f64 {
    debug_assert!((-1022..=1023).contains(&e));
    f64::from_bits(((1023 + e) as u64) << 52)
}

/// the value of a result coordinate on the fine grid 2^gamma (floor; the caller adds one unit of slack)
fn to_fine(v: f64, gamma: i32) -> Option<i128> {
    let (m, e) = decomp(v)?;
    if m == 0 {
        return Some(0);
    }
    let sh = e - gamma;
    if sh >= 0 {
        if sh + bitlen(m) > 100 {
            return None;
        }
        Some(m << sh as u32)
    } else {
        Some(m >> ((-sh).min(120) as u32))
    }
}

/// distance of a returned proper point from the exact crossing a + (b-a) Nt / D (i128 / 256-bit path)
fn x_accuracy(ex: &Small, got: Coord<f64>) -> Option<Acc> {
    let [a, b, c, d] = ex.p;
    let (u, v) = (x_sub(b, a), x_sub(d, c));
    let dd = x_cross(u, v);
    let nt = x_cross(x_sub(c, a), v);
    if dd == 0 {
        return None;
    }
    let gamma = ex.hi - 64;
    let s = (ex.lo - gamma) as u32; // 64 - span, in [4, 64]
    if s > 64 {
        return None;
    }
    let mut worst: f64 = 0.0;
    let dabs = wmul(dd, 1).abs_f64();
    for (g, a0, du) in [(got.x, a.0, u.0), (got.y, a.1, u.1)] {
        let gf = to_fine(g, gamma)?;
        let rel = gf - (a0 << s);
        let lhs = wsub(wmul(rel, dd), wmul(du << s, nt));
        // error in fine units; +1 for the floor in to_fine
        let e = lhs.abs_f64() / dabs + 1.0;
        worst = worst.max(e);
    }
    let f = pow2(s as i32);
    let m_f = ex.p.iter().map(|p| p.0.abs().max(p.1.abs())).max().unwrap() as f64 * f;
    let e_f = u.0.abs().max(u.1.abs()).max(v.0.abs()).max(v.1.abs()) as f64 * f;
    let lp = (u.0 as f64).hypot(u.1 as f64);
    let lq = (v.0 as f64).hypot(v.1 as f64);
    let kappa = (lp * lq / (dd.unsigned_abs() as f64)).max(1.0);
    let uu = pow2(-53);
    Some(Acc { ratio: worst / (uu * (m_f + e_f * kappa)), ulps_m: worst / (uu * m_f), kappa })
}

/// the same measurement with arbitrary-precision integers (any exponent spread; no flooring: the unit is the
/// lowest set bit of the inputs and of the result)
fn big_accuracy(f: &F4, got: Coord<f64>) -> Option<Acc> {
    let mut unit = i32::MAX;
    for v in f.iter().flat_map(|p| [p.0, p.1]).chain([got.x, got.y]) {
        let (m, e) = decomp(v)?;
        if m != 0 {
            unit = unit.min(e);
        }
    }
    if unit == i32::MAX {
        return None;
    }
    let p = big_image(f, unit)?;
    let (u, v) = (b_sub(&p[1], &p[0]), b_sub(&p[3], &p[2]));
    let dd = b_cross(&u, &v);
    let nt = b_cross(&b_sub(&p[2], &p[0]), &v);
    if dd.sgn() == 0 {
        return None;
    }
    let g = |x: f64| -> Option<Big> {
        let (m, e) = decomp(x)?;
        Some(if m == 0 { Big { neg: false, mag: vec![] } } else { Big::from_shifted(m, (e - unit) as u32) })
    };
    let (da, de) = dd.approx();
    let mut worst: f64 = 0.0; // in real units
    for (gv, a0, du) in [(got.x, &p[0].0, &u.0), (got.y, &p[0].1, &u.1)] {
        let lhs = g(gv)?.sub(a0).mul(&dd).sub(&du.mul(&nt));
        let (la, le) = lhs.approx();
        worst = worst.max(mul_pow2(la / da, le - de + unit as i64));
    }
    let m_r = f.iter().fold(0.0f64, |a, p| a.max(p.0.abs()).max(p.1.abs()));
    let e_r = (f[1].0 - f[0].0).abs().max((f[1].1 - f[0].1).abs()).max((f[3].0 - f[2].0).abs()).max((f[3].1 - f[2].1).abs());
    let lp = (f[1].0 - f[0].0).hypot(f[1].1 - f[0].1);
    let lq = (f[3].0 - f[2].0).hypot(f[3].1 - f[2].1);
    let d_r = mul_pow2(da, de + 2 * unit as i64);
    let kappa = (lp * lq / d_r).max(1.0);
    let uu = pow2(-53);
    Some(Acc { ratio: worst / (uu * (m_r + e_r * kappa)), ulps_m: worst / (uu * m_r), kappa })
}

// ------------------------------------------------------------------------------------------------
// cases
// ------------------------------------------------------------------------------------------------

#[derive(Clone, Debug)]
pub struct Case {
    /// p = f[0]-f[1], q = f[2]-f[3]
    f: [(f64, f64); 4],
    stratum: &'static str,
    /// no verdicts (exponents outside the range in which no intermediate product over- or underflows)
    observe_only: bool,
}
impl Case {
    fn flat(&self) -> Vec<f64> {
        self.f.iter().flat_map(|p| [p.0, p.1]).collect()
    }
    /// None: a non-finite coordinate
    fn exact(&self) -> Option<Exact> {
        let flat = self.flat();
        let (lo, hi) = span(&flat)?;
        let (o, small) = if hi - lo <= ORC_BITS {
            let (v, lo, hi) = scale_vals(&flat, ORC_BITS)?;
            let p = [(v[0], v[1]), (v[2], v[3]), (v[4], v[5]), (v[6], v[7])];
            (signs_small(&p), Some(Small { p, lo, hi }))
        } else {
            (signs_big(&big_image(&self.f, lo)?), None)
        };
        Some(Exact { o, kind: x_classify(&self.f, &o), boxes_meet: boxes_meet(&self.f), small })
    }
    /// the orientation signs once more, on the arbitrary-precision path
    fn signs_by_bigint(&self) -> Option<[i32; 4]> {
        let (lo, _) = span(&self.flat())?;
        Some(signs_big(&big_image(&self.f, lo)?))
    }
    fn json(&self) -> Value {
        json!({"stratum": self.stratum, "observe_only": self.observe_only,
               "pts": self.f.iter().map(|p| json!([hexf(p.0), hexf(p.1)])).collect::<Vec<_>>(),
               "shown": format!("p = ({:?}, {:?}) - ({:?}, {:?}); q = ({:?}, {:?}) - ({:?}, {:?})",
                   self.f[0].0, self.f[0].1, self.f[1].0, self.f[1].1, self.f[2].0, self.f[2].1, self.f[3].0, self.f[3].1)})
    }
    fn from_json(v: &Value) -> Option<Case> {
        let a = v["pts"].as_array()?;
        if a.len() != 4 {
            return None;
        }
        let mut f = [(0.0, 0.0); 4];
        for (i, p) in a.iter().enumerate() {
            let g = |s: &Value| -> Option<f64> { Some(f64::from_bits(u64::from_str_radix(s.as_str()?, 16).ok()?)) };
            f[i] = (g(&p[0])?, g(&p[1])?);
        }
        Some(Case { f, stratum: "replay", observe_only: v["observe_only"].as_bool().unwrap_or(false) })
    }
    fn digest(&self) -> u64 {
        let mut h = Fnv::new();
        for p in &self.f {
            h.f64(p.0);
            h.f64(p.1);
        }
        h.0
    }
    fn detail(&self, check: &str, expected: &str, got: &str) -> Value {
        json!({"property": "C11", "check": check, "expected": expected, "got": got, "case": self.json()})
    }
    fn line(&self, i: usize) -> Line<f64> {
        Line::new(Coord { x: self.f[2 * i].0, y: self.f[2 * i].1 }, Coord { x: self.f[2 * i + 1].0, y: self.f[2 * i + 1].1 })
    }
}

#[derive(Default)]
pub struct Cnt {
    m: HashMap<&'static str, u64>,
}
impl Cnt {
    #[inline]
    fn add(&mut self, k: &'static str) {
        *self.m.entry(k).or_insert(0) += 1;
    }
    fn flush(&mut self, sh: &mut Shard) {
        for (k, v) in self.m.drain() {
            sh.class_n(k, v);
        }
    }
}

struct Out<'a> {
    sh: &'a mut Shard,
    st: &'a mut Cnt,
    verbose: bool,
}
impl<'a> Out<'a> {
    fn verdict(&mut self, case: &Case, check: &'static str, site: &'static str, ok: bool, exp: impl FnOnce() -> String, got: impl FnOnce() -> String) {
        self.sh.eval(1);
        if ok {
            if self.verbose {
                println!("  {check:<34} {site:<24} ok");
            }
            return;
        }
        let (e, g) = (exp(), got());
        if self.verbose {
            println!("  {check:<34} {site:<24} VIOLATED: expected {e} got {g}");
        }
        // known finding (defect emulation is done where `check` is chosen: the returned point is a bit copy of an
        // input end point that misses the other segment's box by at most 16 u·M)
        let cls = if check == "proper.envelope.nearest_endpoint" { "line_intersection_fallback_outside_box" } else { "-" };
        self.sh.violation(&format!("{check}|{site}|{cls}"), case.detail(check, &e, &g));
    }
}

#[derive(Clone, Copy, PartialEq, Debug)]
enum Got {
    None,
    Proper(Coord<f64>),
    Improper(Coord<f64>),
    Col(Line<f64>),
}
impl Got {
    fn of(r: Option<LineIntersection<f64>>) -> Got {
        match r {
            None => Got::None,
            Some(LineIntersection::SinglePoint { intersection, is_proper: true }) => Got::Proper(intersection),
            Some(LineIntersection::SinglePoint { intersection, is_proper: false }) => Got::Improper(intersection),
            Some(LineIntersection::Collinear { intersection }) => Got::Col(intersection),
        }
    }
    fn name(&self) -> &'static str {
        match self {
            Got::None => "None",
            Got::Proper(_) => "SinglePoint{proper}",
            Got::Improper(_) => "SinglePoint{improper}",
            Got::Col(_) => "Collinear",
        }
    }
    fn show(&self) -> String {
        match self {
            Got::None => "None".into(),
            Got::Proper(c) => format!("SinglePoint{{({:?}, {:?}), proper}}", c.x, c.y),
            Got::Improper(c) => format!("SinglePoint{{({:?}, {:?}), improper}}", c.x, c.y),
            Got::Col(l) => format!("Collinear{{({:?}, {:?}) - ({:?}, {:?})}}", l.start.x, l.start.y, l.end.x, l.end.y),
        }
    }
}

fn same_bits(c: Coord<f64>, p: (f64, f64)) -> bool {
    c.x.to_bits() == p.0.to_bits() && c.y.to_bits() == p.1.to_bits()
}
/// a returned coordinate that must be a copy of an input end point: the index of an input end point with
/// exactly these bits (two such end points necessarily share one position)
fn located(case: &Case, c: Coord<f64>) -> Option<usize> {
    (0..4).find(|&i| same_bits(c, case.f[i]))
}
fn show_pos(case: &Case, i: usize) -> String {
    format!("({:?}, {:?})", case.f[i].0, case.f[i].1)
}

/// which arm of the `match` in collinear_intersection an all-collinear input reaches; computed from the
/// exact images for the evidence histogram only (never used to form an expectation)
fn arm_label(f: &F4, p0: usize, p1: usize, q0: usize, q1: usize) -> &'static str {
    let m = (in_box(f, q0, p0, p1), in_box(f, q1, p0, p1), in_box(f, p0, q0, q1), in_box(f, p1, q0, q1));
    let eq = |i: usize, j: usize| same_pos(f, i, j);
    match m {
        (true, true, _, _) => "arm:01 (T,T,_,_) collinear(q)",
        (_, _, true, true) => "arm:02 (_,_,T,T) collinear(p)",
        (true, false, true, false) if eq(q0, p0) => "arm:03 (T,F,T,F) q.start==p.start improper",
        (true, _, true, _) => "arm:04 (T,_,T,_) q.start-p.start",
        (true, false, false, true) if eq(q0, p1) => "arm:05 (T,F,F,T) q.start==p.end improper",
        (true, _, _, true) => "arm:06 (T,_,_,T) q.start-p.end",
        (false, true, true, false) if eq(q1, p0) => "arm:07 (F,T,T,F) q.end==p.start improper",
        (_, true, true, _) => "arm:08 (_,T,T,_) q.end-p.start",
        (false, true, false, true) if eq(q1, p1) => "arm:09 (F,T,F,T) q.end==p.end improper",
        (_, true, _, true) => "arm:10 (_,T,_,T) q.end-p.end",
        _ => "arm:11 _ None",
    }
}

/// judge one ordered call line_intersection(first, second); `ord` = 0: (p,q), 1: (q,p)
fn judge_call(o: &mut Out, case: &Case, ex: &Exact, ord: usize) -> Option<Got> {
    let site: &'static str = if ord == 0 { "line_intersection(p,q)" } else { "line_intersection(q,p)" };
    let (l1, l2) = (case.line(ord), case.line(1 - ord));
    let idx = if ord == 0 { [0, 1, 2, 3] } else { [2, 3, 0, 1] };
    let (p0, p1, q0, q1) = (idx[0], idx[1], idx[2], idx[3]);
    let f = &case.f;
    let method_proper;
    let got = match call(|| {
        let r = line_intersection(l1, l2);
        (r, r.map_or(false, |li| li.is_proper()))
    }) {
        Ok((r, mp)) => {
            method_proper = mp;
            Got::of(r)
        }
        Err(msg) => {
            let mut d = case.detail("panic", ex.kind.name(), &format!("panic: {msg}"));
            d["at"] = json!(last_panic_loc());
            o.sh.eval(1);
            o.sh.violation(&format!("panic|{site}|-"), d);
            if o.verbose {
                println!("  panic                              {site:<24} VIOLATED: {msg}");
            }
            return None;
        }
    };
    if o.verbose {
        println!("  {site}: exact {}  got {}", ex.kind.name(), got.show());
    }

    // -- evidence of reach (input-defined) ------------------------------------------------------
    if !ex.boxes_meet {
        o.st.add("path:envelope_rejection");
    } else {
        let (o1, o2, o3, o4) = if ord == 0 { (ex.o[0], ex.o[1], ex.o[2], ex.o[3]) } else { (ex.o[2], ex.o[3], ex.o[0], ex.o[1]) };
        if o1 == 0 && o2 == 0 && o3 == 0 && o4 == 0 {
            o.st.add("path:collinear_match");
            o.st.add(arm_label(f, p0, p1, q0, q1));
        } else if (o1 * o2 > 0) || (o3 * o4 > 0) {
            o.st.add("path:orientation_rejection");
        } else if o1 == 0 || o2 == 0 || o3 == 0 || o4 == 0 {
            if same_pos(f, p0, q0) || same_pos(f, p0, q1) || same_pos(f, p1, q0) || same_pos(f, p1, q1) {
                o.st.add("path:improper_shared_endpoint");
            } else {
                o.st.add("path:improper_endpoint_in_interior");
            }
        } else {
            o.st.add("path:proper_intersection");
        }
    }

    // -- clause: classification -----------------------------------------------------------------
    let class_ok = got.name() == ex.kind.name();
    let degenerate = same_pos(f, p0, p1) || same_pos(f, q0, q1);
    let known_zero_len = !class_ok
        && degenerate
        && matches!(ex.kind, Kind::Touch(_))
        && match got {
            Got::Col(l) => {
                // the zero-length input itself (or an identical one) is returned as the "overlap"
                let z = if same_pos(f, p0, p1) { l1 } else { l2 };
                l.start == l.end && l.start == z.start
            }
            _ => false,
        };
    if degenerate && matches!(ex.kind, Kind::Touch(_)) {
        // the input class of the known defect gets its own signature, so that `classify` stays silent on the pinned tree
        o.st.add("class:zero_length_on_segment");
        if known_zero_len {
            o.sh.eval(1);
            if o.verbose {
                println!("  classify.zero_length_on_segment    {site:<24} VIOLATED (known on the pinned tree): expected SinglePoint{{improper}} got {}", got.show());
            }
            o.sh.violation(
                &format!("classify.zero_length_on_segment|{site}|-"),
                case.detail("classify.zero_length_on_segment", &format!("SinglePoint{{{}, improper}}", match ex.kind { Kind::Touch(s) => show_pos(case, s), _ => String::new() }), &got.show()),
            );
        } else {
            o.verdict(case, "classify", site, class_ok, || ex.kind.name().to_string(), || got.show());
        }
    } else {
        o.verdict(case, "classify", site, class_ok, || ex.kind.name().to_string(), || got.show());
    }

    // the accessor LineIntersection::is_proper() must tell the same story as the variant / field
    o.verdict(case, "classify.is_proper_method", site, method_proper == matches!(got, Got::Proper(_)), || format!("is_proper() == {}", matches!(got, Got::Proper(_))), || format!("is_proper() = {method_proper} on {}", got.show()));

    // -- clauses on the returned geometry -------------------------------------------------------
    match (got, ex.kind) {
        (Got::Col(l), Kind::Overlap(lo, hi)) => {
            let (s, e) = (located(case, l.start), located(case, l.end));
            let ok = match (s, e) {
                (Some(s), Some(e)) => (same_pos(f, s, lo) && same_pos(f, e, hi)) || (same_pos(f, s, hi) && same_pos(f, e, lo)),
                _ => false,
            };
            o.verdict(case, "collinear.segment", site, ok, || format!("{} - {} (either direction, end points copied from the input)", show_pos(case, lo), show_pos(case, hi)), || got.show());
        }
        (Got::Improper(c), Kind::Touch(s)) => {
            let ok = located(case, c).map_or(false, |i| same_pos(f, i, s));
            o.verdict(case, "improper.endpoint", site, ok, || format!("{} (bit-identical copy of the end point involved)", show_pos(case, s)), || got.show());
        }
        _ => {}
    }
    if let Got::Proper(c) = got {
        // hard check with plain f64 comparisons (exact): closed boxes of both segments
        let inb = |l: &Line<f64>| c.x >= l.start.x.min(l.end.x) && c.x <= l.start.x.max(l.end.x) && c.y >= l.start.y.min(l.end.y) && c.y <= l.start.y.max(l.end.y);
        let env_ok = inb(&l1) && inb(&l2);
        let is_endpoint = (0..4).any(|i| same_bits(c, case.f[i]));
        if is_endpoint {
            o.st.add("path:proper_point_is_an_input_endpoint (nearest_endpoint fallback, inferred)");
        }
        // how far outside, in units of u M
        let excess = if env_ok {
            0.0
        } else {
            let ex_of = |l: &Line<f64>| -> f64 {
                let (x0, x1, y0, y1) = (l.start.x.min(l.end.x), l.start.x.max(l.end.x), l.start.y.min(l.end.y), l.start.y.max(l.end.y));
                (x0 - c.x).max(c.x - x1).max(y0 - c.y).max(c.y - y1).max(0.0)
            };
            let m = case.flat().iter().fold(0.0f64, |a, v| a.max(v.abs()));
            ex_of(&l1).max(ex_of(&l2)) / (pow2(-53) * m)
        };
        // a copied end point (the nearest_endpoint fallback) that misses the *other* segment's box by a few
        // ulps is the defect of the pinned tree; it gets its own signature. A computed point outside a box, or
        // an end point far outside, is `proper.envelope`.
        let check: &'static str = if is_endpoint && excess <= 16.0 { "proper.envelope.nearest_endpoint" } else { "proper.envelope" };
        if !env_ok {
            o.sh.maximum("proper.envelope: distance outside the box / (u M)", excess);
        }
        o.verdict(case, check, site, env_ok, || "a point inside both closed bounding boxes".to_string(), || got.show());
        if ex.kind == Kind::Proper && env_ok {
            let acc = match &ex.small {
                Some(sm) => x_accuracy(sm, c),
                None => {
                    o.st.add("accuracy:measured_with_bigint (wide exponent range)");
                    big_accuracy(f, c)
                }
            };
            if let (Some(_), Some(a1)) = (&ex.small, &acc) {
                if (case.digest() >> 7) % 64 == 0 {
                    // the 256-bit measurement (floor + 1 unit of slack) against the arbitrary-precision one (exact)
                    match big_accuracy(f, c) {
                        Some(a2) if (a1.ratio - a2.ratio).abs() <= 1.0 / 256.0 + 1e-9 * a2.ratio && (a1.kappa - a2.kappa).abs() <= 1e-9 * a2.kappa => {
                            o.st.add("oracle:accuracy_cross_checked_with_bigint")
                        }
                        other => {
                            eprintln!("C11 accuracy cross-check failed: {:?} -> {:?}: {} vs {:?}", case.f, c, a1.ratio, other.map(|a| a.ratio));
                            o.sh.inconclusive("accuracy cross-check failed (harness error)");
                        }
                    }
                }
            }
            match acc {
                Some(acc) => {
                    if acc.kappa <= KAPPA_MAX {
                        o.st.add("accuracy:judged (kappa<=1024)");
                        if is_endpoint {
                            o.st.add("accuracy:judged_on_fallback_point");
                        }
                        o.sh.maximum("proper.err/(u(M+E*kappa)) kappa<=1024 [tolerance 32]", acc.ratio);
                        o.sh.maximum("proper.err/(u*M) kappa<=2 (ulps of the largest coordinate)", if acc.kappa <= 2.0 { acc.ulps_m } else { 0.0 });
                        if o.verbose {
                            println!("    kappa = {:.4e}, error = {:.4} u(M+E kappa) = {:.4} u M", acc.kappa, acc.ratio, acc.ulps_m);
                        }
                        o.verdict(case, "proper.accuracy", site, acc.ratio <= TOL_K, || format!("within {TOL_K} u (M + E kappa) of the exact crossing (kappa = {:.3e})", acc.kappa), || format!("{} at {:.4e} u (M + E kappa)", got.show(), acc.ratio));
                    } else {
                        o.st.add("accuracy:not_judged_nearly_parallel (kappa>1024)");
                        o.sh.maximum("observed only: proper.err/(u(M+E*kappa)) kappa>1024", acc.ratio);
                        if o.verbose {
                            println!("    kappa = {:.4e} > {KAPPA_MAX}: accuracy observed only, error = {:.4} u(M+E kappa)", acc.kappa, acc.ratio);
                        }
                    }
                }
                None => o.sh.inconclusive("accuracy: result outside the fine grid"),
            }
        }
    }

    // -- clause: agreement with intersects -------------------------------------------------------
    match call(|| l1.intersects(&l2)) {
        Ok(b) => {
            let site2: &'static str = if ord == 0 { "p.intersects(q)" } else { "q.intersects(p)" };
            o.verdict(case, "agrees.intersects", site2, b == (got != Got::None), || format!("intersects == is_some (line_intersection gave {})", got.show()), || format!("intersects = {b}"));
        }
        Err(msg) => {
            o.sh.eval(1);
            o.sh.violation("panic|Line.intersects(Line)|-", case.detail("panic", "no panic", &format!("panic: {msg}")));
        }
    }
    Some(got)
}

fn run_case(o: &mut Out, case: &Case) {
    if case.observe_only {
        // outside the monitored exponent range: crashes only
        o.st.add("observe_only_cases");
        for ord in 0..2 {
            let (l1, l2) = (case.line(ord), case.line(1 - ord));
            if let Err(msg) = call(|| line_intersection(l1, l2)) {
                let mut d = case.detail("panic", "no panic", &format!("panic: {msg}"));
                d["at"] = json!(last_panic_loc());
                o.sh.eval(1);
                o.sh.violation("panic|line_intersection(observe_only)|-", d);
            }
        }
        return;
    }
    let ex = match guard(|| case.exact()) {
        Ok(Some(e)) => e,
        Ok(None) => {
            o.sh.inconclusive("non-finite coordinate");
            return;
        }
        Err(Caught::Panic(s)) => {
            eprintln!("C11 oracle self-check failed: {s}: {:?}", case.f);
            o.sh.inconclusive("oracle self-check failed (harness error)");
            return;
        }
        Err(_) => {
            o.sh.inconclusive("oracle overflow");
            return;
        }
    };
    o.st.add(match ex.kind {
        Kind::None => "exact:None",
        Kind::Proper => "exact:SinglePoint{proper}",
        Kind::Touch(_) => "exact:SinglePoint{improper}",
        Kind::Overlap(..) => "exact:Collinear",
    });
    let dg = case.digest();
    if ex.boxes_meet {
        o.sh.nontrivial(dg);
    }
    o.st.add(if ex.small.is_some() { "oracle:i128 (span <= 60 bits)" } else { "oracle:bigint (span > 60 bits)" });
    if ex.small.is_some() && (dg >> 7) % 64 == 0 {
        // self-check of the reference: the arbitrary-precision path must give the same signs
        o.st.add("oracle:i128_cross_checked_with_bigint");
        if case.signs_by_bigint() != Some(ex.o) {
            eprintln!("C11 oracle cross-check failed: {:?}", case.f);
            o.sh.inconclusive("oracle cross-check failed (harness error)");
            return;
        }
    }
    let g0 = judge_call(o, case, &ex, 0);
    let g1 = judge_call(o, case, &ex, 1);
    if let (Some(g0), Some(g1)) = (g0, g1) {
        // order independence: classification, improper point, overlap up to direction (numeric equality:
        // each was already required to be a bit copy of an input end point; two end points at one position
        // may differ in the sign of a zero). The computed proper point is outside this clause.
        let same = match (g0, g1) {
            (Got::None, Got::None) => true,
            (Got::Proper(_), Got::Proper(_)) => true,
            (Got::Improper(a), Got::Improper(b)) => a == b,
            (Got::Col(a), Got::Col(b)) => (a.start == b.start && a.end == b.end) || (a.start == b.end && a.end == b.start),
            _ => false,
        };
        o.verdict(case, "order.independence", "line_intersection", same, || format!("(p,q) gave {}", g0.show()), || format!("(q,p) gave {}", g1.show()));
        if let (Got::Proper(a), Got::Proper(b)) = (g0, g1) {
            if a != b {
                o.st.add("observed:proper_point_differs_between_orders (not judged)");
            }
        }
    }
}

// ------------------------------------------------------------------------------------------------
// generator helpers
// ------------------------------------------------------------------------------------------------

fn step64(v: f64, k: i32) -> f64 {
    if v == 0.0 || !v.is_finite() || k == 0 {
        return v;
    }
    let b = v.to_bits();
    let mag = (b & 0x7fff_ffff_ffff_ffff) as i64;
    let neg = (b >> 63) != 0;
    let m2 = if neg { mag - k as i64 } else { mag + k as i64 };
    if m2 <= 0 || m2 >= 0x7ff0_0000_0000_0000 {
        return v;
    }
    f64::from_bits((m2 as u64) | if neg { 1u64 << 63 } else { 0 })
}
fn flat_of(f: &[(f64, f64)]) -> Vec<f64> {
    f.iter().flat_map(|p| [p.0, p.1]).collect()
}
fn fits(f: &[(f64, f64)]) -> bool {
    span(&flat_of(f)).map_or(false, |(lo, hi)| hi - lo <= GEN_BITS)
}
fn get(f: &[(f64, f64)], idx: usize, axis: usize) -> f64 {
    if axis == 0 {
        f[idx].0
    } else {
        f[idx].1
    }
}
fn set(f: &mut [(f64, f64)], idx: usize, axis: usize, v: f64) {
    if axis == 0 {
        f[idx].0 = v
    } else {
        f[idx].1 = v
    }
}
/// perturb one coordinate by k ulps; if that would exceed the oracle's bit budget (coordinate much smaller than
/// the others), by k units of the coarsest admissible power of two instead; give up (no change) if neither fits
fn perturb_fit(f: &mut [(f64, f64)], idx: usize, axis: usize, k: i32) -> bool {
    let orig = get(f, idx, axis);
    let cand = step64(orig, k);
    set(f, idx, axis, cand);
    if cand != orig && fits(f) {
        return true;
    }
    set(f, idx, axis, orig);
    if let Some((lo, hi)) = span(&flat_of(f)) {
        let floor = lo.max(hi - GEN_BITS + 1);
        if (-1000..1000).contains(&floor) {
            let cand = orig + k as f64 * pow2(floor);
            set(f, idx, axis, cand);
            if cand != orig && cand.is_finite() && fits(f) {
                return true;
            }
        }
    }
    set(f, idx, axis, orig);
    false
}
/// round every coordinate to a multiple of 2^(top-56) so that the case fits the oracle
fn force_fit(f: &mut [(f64, f64)]) {
    if fits(f) {
        return;
    }
    if let Some((_, hi)) = span(&flat_of(f)) {
        let u = pow2(hi - 56);
        for p in f.iter_mut() {
            p.0 = (p.0 / u).round() * u;
            p.1 = (p.1 / u).round() * u;
        }
    }
}
/// quantise point idx so that the whole case fits the oracle (a computed point much smaller than the rest)
fn fit_point(f: &mut [(f64, f64)], idx: usize) {
    if fits(f) {
        return;
    }
    let others: Vec<f64> = f.iter().enumerate().filter(|(i, _)| *i != idx).flat_map(|(_, p)| [p.0, p.1]).collect();
    if let Some((lo, hi)) = span(&others) {
        let u = pow2(lo.max(hi - GEN_BITS + 2));
        f[idx].0 = (f[idx].0 / u).round() * u;
        f[idx].1 = (f[idx].1 / u).round() * u;
    }
    if !fits(f) {
        force_fit(f);
    }
}
fn scale_pow2(f: &mut [(f64, f64)], e: i32) {
    // exact: the callers keep every nonzero magnitude inside [2^-1000, 2^1000]
    let (e1, e2) = (e / 2, e - e / 2);
    for p in f.iter_mut() {
        p.0 = p.0 * pow2(e1) * pow2(e2);
        p.1 = p.1 * pow2(e1) * pow2(e2);
    }
}
/// uniform in (-2^bits, 2^bits)
fn rs(r: &mut Rng, bits: u32) -> i64 {
    if bits == 0 {
        return 0;
    }
    let m = (r.next() >> (64 - bits.min(62))) as i64;
    if r.chance(1, 2) {
        -m
    } else {
        m
    }
}
/// a small nonzero offset in [-k, k]
fn small(r: &mut Rng, k: i64) -> i64 {
    let v = r.range(1, k);
    if r.chance(1, 2) {
        -v
    } else {
        v
    }
}
fn rp(r: &mut Rng, hb: u32) -> (i64, i64) {
    (rs(r, hb), rs(r, hb))
}
fn within(p: (i64, i64), hb: u32) -> bool {
    let h = 1i64 << hb;
    p.0.abs() <= h && p.1.abs() <= h
}

/// a family of exactly collinear lattice points a + t d, |t| <= tmax, all coordinates below 2^hb in magnitude
struct Fam {
    a: (i64, i64),
    d: (i64, i64),
    tmax: i64,
}
impl Fam {
    /// hb >= 10
    fn new(r: &mut Rng, hb: u32) -> Fam {
        let h = r.range(1, hb as i64 - 6) as u32;
        let (mut dx, mut dy) = (rs(r, h), rs(r, h));
        match r.below(12) {
            0 => dx = 0,
            1 => dy = 0,
            2 => dy = dx,
            3 => dy = -dx,
            _ => {}
        }
        if dx == 0 && dy == 0 {
            dx = 1;
        }
        let tb = hb - 1 - h; // >= 5
        Fam { a: (rs(r, hb - 1), rs(r, hb - 1)), d: (dx, dy), tmax: (1i64 << tb) - 1 }
    }
    fn pt(&self, t: i64) -> (i64, i64) {
        (self.a.0 + t * self.d.0, self.a.1 + t * self.d.1)
    }
    /// four strictly increasing parameters; sometimes adjacent integers, sometimes spread over the whole range
    fn slots(&self, r: &mut Rng) -> [i64; 4] {
        let m = self.tmax;
        if r.chance(1, 4) {
            let t = r.range(-m, m - 3);
            return [t, t + 1, t + 2, t + 3];
        }
        for _ in 0..8 {
            let mut v = [r.range(-m, m), r.range(-m, m), r.range(-m, m), r.range(-m, m)];
            v.sort();
            if v[0] < v[1] && v[1] < v[2] && v[2] < v[3] {
                return v;
            }
        }
        let t = r.range(-m, m - 3);
        [t, t + 1, t + 2, t + 3]
    }
    /// a parameter chosen relative to [t0, t1]: an end, strictly between, just beyond, anywhere
    fn t_rel(&self, r: &mut Rng, t0: i64, t1: i64) -> i64 {
        let (lo, hi) = (t0.min(t1), t0.max(t1));
        let t = match r.below(10) {
            0 => t0,
            1 => t1,
            2..=5 => r.range(lo, hi),
            6 => lo - 1,
            7 => hi + 1,
            _ => r.range(-self.tmax, self.tmax),
        };
        t.clamp(-self.tmax, self.tmax)
    }
    /// strictly between (needs |t1 - t0| >= 2)
    fn t_inside(&self, r: &mut Rng, t0: i64, t1: i64) -> i64 {
        let (lo, hi) = (t0.min(t1), t0.max(t1));
        if hi - lo < 2 {
            lo
        } else {
            r.range(lo + 1, hi - 1)
        }
    }
}

/// integer core of a case: four lattice points below 2^hb, indices that may be moved by ulps, how many moves
struct Core {
    stratum: &'static str,
    pts: [(i64, i64); 4],
    pert: Vec<usize>,
    npert: usize,
    hb: u32,
}

fn npert_pick(r: &mut Rng) -> usize {
    match r.below(20) {
        0..=1 => 0,
        2..=10 => 1,
        11..=16 => 2,
        _ => 3,
    }
}
fn pick_hb(r: &mut Rng) -> u32 {
    if r.chance(1, 2) {
        52
    } else {
        r.range(10, 51) as u32
    }
}
/// random role swap and direction flips: every configuration occurs in both orders and both directions
fn shuffle_roles(r: &mut Rng, pts: &mut [(i64, i64); 4], pert: &mut [usize]) {
    let mut map = [0usize, 1, 2, 3];
    if r.chance(1, 2) {
        map.swap(0, 1);
    }
    if r.chance(1, 2) {
        map.swap(2, 3);
    }
    if r.chance(1, 2) {
        map.swap(0, 2);
        map.swap(1, 3);
    }
    // map[new] = old
    let old = *pts;
    for n in 0..4 {
        pts[n] = old[map[n]];
    }
    for i in pert.iter_mut() {
        *i = map.iter().position(|&o| o == *i).unwrap();
    }
}

fn core_crossing(r: &mut Rng, hb: u32) -> Core {
    let f = Fam::new(r, hb);
    let s = f.slots(r);
    let (t0, t1) = (s[0], s[3]);
    let (a, b) = (f.pt(t0), f.pt(t1));
    let m = f.pt(f.t_inside(r, t0, t1));
    let (stratum, c, d) = match r.below(3) {
        0 => {
            // crossing exactly at the lattice point m
            let wb = r.range(1, hb as i64 - 3) as u32;
            let w = (rs(r, wb), rs(r, wb));
            let (k1, k2) = (r.range(1, 3), r.range(1, 3));
            let (c, d) = ((m.0 + k1 * w.0, m.1 + k1 * w.1), (m.0 - k2 * w.0, m.1 - k2 * w.1));
            if within(c, hb) && within(d, hb) {
                ("crossing_at_lattice_point", c, d)
            } else {
                ("crossing_generic", rp(r, hb), rp(r, hb))
            }
        }
        1 => {
            // two independent vectors around m: crossing (if any) at a non-lattice point
            let sb = r.range(1, hb as i64 - 2) as u32;
            let (c, d) = ((m.0 + rs(r, sb), m.1 + rs(r, sb)), (m.0 + rs(r, sb), m.1 + rs(r, sb)));
            if within(c, hb) && within(d, hb) {
                ("crossing_near_midpoint", c, d)
            } else {
                ("crossing_generic", rp(r, hb), rp(r, hb))
            }
        }
        _ => ("crossing_generic", rp(r, hb), rp(r, hb)),
    };
    Core { stratum, pts: [a, b, c, d], pert: vec![0, 1, 2, 3], npert: if r.chance(1, 4) { 1 } else { 0 }, hb }
}

fn core_endpoint_touch(r: &mut Rng, hb: u32, adversarial: bool) -> Core {
    let f = Fam::new(r, hb);
    let s = f.slots(r);
    let (t0, t1) = (s[0], s[2]);
    let (a, b) = (f.pt(t0), f.pt(t1));
    let c = if r.chance(1, 2) { a } else { b };
    let d = match r.below(4) {
        0 => {
            // almost collinear continuation / fold-back: touching at the shared end point only
            let t = f.t_rel(r, t0, t1);
            let e = f.pt(t);
            let e2 = (e.0 + r.range(-2, 2), e.1 + r.range(-2, 2));
            if within(e2, hb) && e2 != c {
                e2
            } else {
                rp(r, hb)
            }
        }
        _ => rp(r, hb),
    };
    if adversarial {
        Core { stratum: "near_touch:shared_endpoint_moved_by_ulps", pts: [a, b, c, d], pert: vec![0, 1, 2, 3], npert: npert_pick(r).max(1), hb }
    } else {
        Core { stratum: "endpoint_touch", pts: [a, b, c, d], pert: vec![], npert: 0, hb }
    }
}

fn core_t_junction(r: &mut Rng, hb: u32, adversarial: bool) -> Core {
    let f = Fam::new(r, hb);
    let s = f.slots(r);
    let (t0, t1) = (s[0], s[3]);
    let (a, b) = (f.pt(t0), f.pt(t1));
    // an end point of q in the interior of p (sometimes next to an end of p)
    let tm = match r.below(4) {
        0 => t0 + 1,
        1 => t1 - 1,
        _ => f.t_inside(r, t0, t1),
    };
    let c = f.pt(tm);
    let d = rp(r, hb);
    if adversarial {
        Core { stratum: "near_touch:t_junction_moved_by_ulps", pts: [a, b, c, d], pert: vec![2, 2, 2, 0, 1, 3], npert: npert_pick(r).max(1), hb }
    } else {
        Core { stratum: "t_junction", pts: [a, b, c, d], pert: vec![], npert: 0, hb }
    }
}

fn core_cross_at_end(r: &mut Rng, hb: u32) -> Core {
    // q passes through (or an ulp beside) a point m of line p that is at / next to an end of p
    let f = Fam::new(r, hb);
    let s = f.slots(r);
    let (t0, t1) = (s[0], s[3]);
    let (a, b) = (f.pt(t0), f.pt(t1));
    let m = f.pt(f.t_rel(r, t0, t1));
    let wb = r.range(1, hb as i64 - 2) as u32;
    let w = (rs(r, wb), rs(r, wb));
    let (k1, k2) = (r.range(0, 3), r.range(0, 3));
    let (c, d) = ((m.0 + k1 * w.0, m.1 + k1 * w.1), (m.0 - k2 * w.0, m.1 - k2 * w.1));
    let (c, d) = if within(c, hb) && within(d, hb) { (c, d) } else { (m, rp(r, hb)) };
    Core { stratum: "near_touch:crossing_at_end_moved_by_ulps", pts: [a, b, c, d], pert: vec![2, 3, 0, 1], npert: npert_pick(r), hb }
}

fn core_collinear(r: &mut Rng, hb: u32) -> Core {
    let f = Fam::new(r, hb);
    let u = f.slots(r);
    let cfg = r.below(7);
    let (name, p, q): (&'static str, (i64, i64), (i64, i64)) = match cfg {
        0 => ("collinear:disjoint", (u[0], u[1]), (u[2], u[3])),
        1 => ("collinear:abutting", (u[0], u[1]), (u[1], u[2])),
        2 => ("collinear:partial_overlap", (u[0], u[2]), (u[1], u[3])),
        3 => ("collinear:contained_strictly", (u[0], u[3]), (u[1], u[2])),
        4 => ("collinear:contained_shared_start", (u[0], u[2]), (u[0], u[1])),
        5 => ("collinear:contained_shared_end", (u[0], u[2]), (u[1], u[2])),
        _ => ("collinear:equal", (u[0], u[1]), (u[0], u[1])),
    };
    let pts = [f.pt(p.0), f.pt(p.1), f.pt(q.0), f.pt(q.1)];
    if r.chance(1, 5) {
        Core { stratum: "collinear_moved_by_ulps", pts, pert: vec![0, 1, 2, 3], npert: 1, hb }
    } else {
        Core { stratum: name, pts, pert: vec![], npert: 0, hb }
    }
}

fn core_near_parallel(r: &mut Rng, hb: u32) -> Core {
    let f = Fam::new(r, hb);
    let s = f.slots(r);
    let (t0, t1) = (s[0], s[3]);
    let (a, b) = (f.pt(t0), f.pt(t1));
    let (mut c, mut d) = (f.pt(f.t_rel(r, t0, t1)), f.pt(f.t_rel(r, t0, t1)));
    let (stratum, n1, n2) = match r.below(4) {
        0 => ("near_parallel:few_units_random_sides", (r.range(-2, 2), r.range(-2, 2)), (r.range(-2, 2), r.range(-2, 2))),
        1 | 2 => {
            // opposite sides of p: a proper crossing at a tiny angle
            let n = (small(r, 2), small(r, 2));
            ("near_parallel:few_units_opposite_sides", n, (-n.0, -n.1))
        }
        _ => {
            let w = r.range(3, 20) as u32;
            let n = (rs(r, w), rs(r, w));
            ("near_parallel:small_angle", n, (-n.0 + r.range(-1, 1), -n.1 + r.range(-1, 1)))
        }
    };
    let (c2, d2) = ((c.0 + n1.0, c.1 + n1.1), (d.0 + n2.0, d.1 + n2.1));
    if within(c2, hb) && within(d2, hb) {
        c = c2;
        d = d2;
    }
    Core { stratum, pts: [a, b, c, d], pert: vec![0, 1, 2, 3], npert: npert_pick(r), hb }
}

fn core_zero_length(r: &mut Rng, hb: u32) -> Core {
    let f = Fam::new(r, hb);
    let s = f.slots(r);
    let (t0, t1) = (s[1], s[2]);
    let (a, b) = (f.pt(t0), f.pt(t1));
    let (stratum, pts): (&'static str, [(i64, i64); 4]) = match r.below(9) {
        0 | 1 => {
            let c = f.pt(f.t_inside(r, t0, t1));
            (if c == a { "zero_length:point_at_endpoint" } else { "zero_length:point_in_interior" }, [a, b, c, c])
        }
        2 => ("zero_length:point_at_endpoint", [a, b, a, a]),
        3 => ("zero_length:point_at_endpoint", [a, b, b, b]),
        4 => {
            let c = f.pt(if r.chance(1, 2) { s[0] } else { s[3] });
            ("zero_length:point_collinear_outside", [a, b, c, c])
        }
        5 => {
            let m = f.pt(f.t_rel(r, t0, t1));
            let c = (m.0 + small(r, 2), m.1 + small(r, 2));
            let c = if within(c, hb) { c } else { m };
            ("zero_length:point_beside_segment", [a, b, c, c])
        }
        6 => {
            let c = rp(r, hb);
            ("zero_length:point_anywhere", [a, b, c, c])
        }
        7 => ("zero_length:two_equal_points", [a, a, a, a]),
        _ => ("zero_length:two_different_points", [a, a, b, b]),
    };
    Core { stratum, pts, pert: vec![], npert: 0, hb }
}

fn core_thin(r: &mut Rng, hb: u32) -> Core {
    // q almost parallel to an axis: its bounding box is a few units thin; p crosses it steeply
    let wb = hb - 2;
    let (x0, y0) = if r.chance(1, 3) { (rs(r, 12), rs(r, 12)) } else { (rs(r, wb - 1), rs(r, wb - 1)) };
    let w = rs(r, wb - 1) | 1 << r.range(2, wb as i64 - 2);
    let dmax = *r.pick(&[1i64, 1, 2, 4, 64]);
    let delta = small(r, dmax);
    let (c, d) = ((x0, y0), (x0 + w, y0 + delta));
    let xm = x0 + (w as f64 * r.f01()) as i64;
    let hh = r.range(1, wb as i64 - 1) as u32;
    let (h1, h2) = (rs(r, hh).abs(), rs(r, hh).abs());
    let sb = r.range(0, hh as i64) as u32;
    let (a, b) = ((xm + rs(r, sb), y0 - h1), (xm + rs(r, sb), y0 + delta + h2));
    let mut pts = [a, b, c, d];
    for p in pts.iter_mut() {
        if !within(*p, hb) {
            *p = (p.0.clamp(-(1i64 << hb), 1i64 << hb), p.1.clamp(-(1i64 << hb), 1i64 << hb));
        }
    }
    if r.chance(1, 2) {
        for p in pts.iter_mut() {
            *p = (p.1, p.0);
        }
    }
    Core { stratum: "thin_bounding_box", pts, pert: vec![0, 1, 2, 3], npert: if r.chance(1, 3) { 1 } else { 0 }, hb }
}

fn core_random(r: &mut Rng, hb: u32) -> Core {
    Core { stratum: "random_control", pts: [rp(r, hb), rp(r, hb), rp(r, hb), rp(r, hb)], pert: vec![], npert: 0, hb }
}

/// cores -> f64 case: optional large offset, ulp moves, optional common power-of-two factor
fn float_from_core(r: &mut Rng, mut core: Core, st: &mut Cnt) -> Case {
    shuffle_roles(r, &mut core.pts, &mut core.pert);
    // a large common offset (exact: everything stays an integer below 2^53): small extents far from the origin
    if core.hb <= 50 && r.chance(1, 3) {
        let room = (1i64 << 52) - (1i64 << core.hb) - 2;
        let pick = |r: &mut Rng| -> i64 {
            let v = match r.below(6) {
                0 => 1000,
                1 => 100_000_000,
                2 => 1i64 << 40,
                3 => room,
                _ => r.range(0, room),
            };
            let v = v.min(room);
            if r.chance(1, 2) {
                -v
            } else {
                v
            }
        };
        let (ox, oy) = (pick(r), if r.chance(1, 4) { 0 } else { pick(r) });
        for p in core.pts.iter_mut() {
            p.0 += ox;
            p.1 += oy;
        }
        st.add("finish:large_offset");
    }
    let mut f: Vec<(f64, f64)> = core.pts.iter().map(|p| (p.0 as f64, p.1 as f64)).collect();
    if !core.pert.is_empty() {
        for _ in 0..core.npert {
            let idx = *r.pick(&core.pert);
            let axis = r.below(2) as usize;
            let k = match r.below(8) {
                0 => small(r, 3),
                1 => small(r, 2),
                _ => small(r, 1),
            } as i32;
            if perturb_fit(&mut f, idx, axis, k) {
                st.add("finish:coordinate_moved_by_ulps");
            }
        }
    }
    let (lo, hi) = span(&flat_of(&f)).unwrap_or((0, 0));
    match r.below(10) {
        0..=5 => {}
        6..=8 => {
            scale_pow2(&mut f, r.range(-30, 30) as i32);
            st.add("finish:scaled_2^[-30,30]");
        }
        _ => {
            // anywhere in the range in which no intermediate product (three factors) over- or underflows
            let e = r.range(-300 - lo as i64, 300 - hi as i64) as i32;
            scale_pow2(&mut f, e);
            st.add("finish:scaled_2^[-300,300]");
        }
    }
    Case { f: [f[0], f[1], f[2], f[3]], stratum: core.stratum, observe_only: false }
}

/// coincidence-rich small lattice, mapped through an axis-wise affine map (offsets and two different
/// power-of-two scales): incidences are preserved, the code under test sees mixed exponents
fn small_lattice_case(r: &mut Rng, st: &mut Cnt) -> Case {
    let g = *r.pick(&[2i64, 3, 4, 4, 6, 8, 16]);
    let mut p = [(0i64, 0i64); 4];
    for q in p.iter_mut() {
        *q = (r.range(0, g), r.range(0, g));
    }
    match r.below(16) {
        0 | 1 => p[2] = p[*r.pick(&[0usize, 1])],
        2 => p[3] = p[2],
        3 => p[1] = p[0],
        4 => {
            p[2] = p[0];
            p[3] = p[1]
        }
        5 => {
            p[2] = p[1];
            p[3] = p[0]
        }
        _ => {}
    }
    let offs = [0i64, 0, 0, 1000, 100_000_000, 1 << 40, (1 << 52) - 20, -1000, -100_000_000, -(1 << 40), -((1 << 52) - 20), -8];
    let (ox, oy) = (*r.pick(&offs), *r.pick(&offs));
    let (ex, ey) = match r.below(4) {
        0 => (0, 0),
        1 => {
            let e = r.range(-30, 30) as i32;
            (e, e)
        }
        2 => (r.range(-30, 30) as i32, r.range(-30, 30) as i32),
        _ => {
            let e = r.range(-300, 240) as i32;
            (e, e + r.range(-5, 5) as i32)
        }
    };
    let build = |ex: i32, ey: i32| -> Vec<(f64, f64)> { p.iter().map(|q| ((ox + q.0) as f64 * pow2(ex), (oy + q.1) as f64 * pow2(ey))).collect() };
    let mut f = build(ex, ey);
    let mut stratum = if ex != ey { "small_lattice:anisotropic_scales" } else { "small_lattice" };
    if !fits(&f) {
        f = build(ex, ex);
        stratum = "small_lattice";
    }
    if !fits(&f) {
        f = p.iter().map(|q| (q.0 as f64, q.1 as f64)).collect();
    }
    // signed zeros: equal as numbers, different bit patterns
    for q in f.iter_mut() {
        if q.0 == 0.0 && r.chance(1, 6) {
            q.0 = -0.0;
            st.add("finish:negative_zero");
        }
        if q.1 == 0.0 && r.chance(1, 6) {
            q.1 = -0.0;
            st.add("finish:negative_zero");
        }
    }
    Case { f: [f[0], f[1], f[2], f[3]], stratum, observe_only: false }
}

fn rand_full(r: &mut Rng, e: i32) -> f64 {
    let m = (1u64 << 52) | (r.next() >> 12);
    let v = m as f64 * pow2(e - 52);
    if r.chance(1, 2) {
        -v
    } else {
        v
    }
}
fn rand_pt(r: &mut Rng, e0: i32) -> (f64, f64) {
    let j = [0, 0, 0, 1, 2, 4];
    let (jx, jy) = (*r.pick(&j), *r.pick(&j));
    (rand_full(r, e0 - jx), rand_full(r, e0 - jy))
}
fn lerp(a: (f64, f64), b: (f64, f64), t: f64) -> (f64, f64) {
    (a.0 + t * (b.0 - a.0), a.1 + t * (b.1 - a.1))
}
fn rand_t(r: &mut Rng) -> f64 {
    match r.below(8) {
        0 => 0.0,
        1 => 1.0,
        2 => 0.5,
        3 => r.f01() * 1.5 - 0.25,
        _ => r.f01(),
    }
}

/// full 53-bit mantissas (no lattice structure): rounded points on / beside a segment, random quadruples,
/// and short mantissas at widely different binary exponents
fn native_case(r: &mut Rng) -> Case {
    let e0 = r.range(-30, 40) as i32;
    let (stratum, mut f): (&'static str, Vec<(f64, f64)>) = match r.below(8) {
        0..=2 => {
            // nearly parallel / nearly touching with full mantissas
            let (a, b) = (rand_pt(r, e0), rand_pt(r, e0));
            let c = lerp(a, b, rand_t(r));
            let d = if r.chance(1, 2) { lerp(a, b, rand_t(r)) } else { rand_pt(r, e0) };
            let mut v = vec![a, b, c, d];
            fit_point(&mut v, 2);
            fit_point(&mut v, 3);
            for idx in 2..4 {
                for axis in 0..2 {
                    let k = r.range(-2, 2) as i32;
                    if k != 0 {
                        perturb_fit(&mut v, idx, axis, k);
                    }
                }
            }
            ("native:rounded_onto_segment", v)
        }
        3..=4 => {
            // a crossing through a rounded point of p
            let (a, b) = (rand_pt(r, e0), rand_pt(r, e0));
            let m = lerp(a, b, rand_t(r));
            let we = e0 - r.range(0, 20) as i32;
            let w = rand_pt(r, we);
            let (k1, k2) = (r.f01() * 2.0, r.f01() * 2.0);
            let c = (m.0 + k1 * w.0, m.1 + k1 * w.1);
            let d = (m.0 - k2 * w.0, m.1 - k2 * w.1);
            let mut v = vec![a, b, c, d];
            fit_point(&mut v, 2);
            fit_point(&mut v, 3);
            ("native:crossing_full_mantissa", v)
        }
        5 => ("native:random_full_mantissa", vec![rand_pt(r, e0), rand_pt(r, e0), rand_pt(r, e0), rand_pt(r, e0)]),
        _ => {
            // mixed exponents: short mantissas, every coordinate with its own binary exponent
            let w = r.range(4, 20) as u32;
            let room = (GEN_BITS as i64 - w as i64 - 1).max(1);
            let mk = |r: &mut Rng| -> f64 { rs(r, w) as f64 * pow2(e0 + r.range(0, room) as i32 - 20) };
            let mut v = vec![(mk(r), mk(r)), (mk(r), mk(r)), (mk(r), mk(r)), (mk(r), mk(r))];
            if r.chance(1, 2) {
                // make q start on the line of p at a rounded position
                v[2] = lerp(v[0], v[1], rand_t(r));
                fit_point(&mut v, 2);
            }
            ("native:mixed_exponents", v)
        }
    };
    force_fit(&mut f);
    if r.chance(1, 2) {
        f.swap(0, 2);
        f.swap(1, 3);
    }
    Case { f: [f[0], f[1], f[2], f[3]], stratum, observe_only: false }
}

/// exponent spreads far beyond 60 bits (the arbitrary-precision path of the oracle): points s d 2^k on a line
/// through the origin (exactly collinear whatever the exponents), wide random points
fn wide_case(r: &mut Rng) -> Case {
    let mb = r.range(1, 30) as u32;
    let (mut dx, mut dy) = (rs(r, mb), rs(r, mb));
    match r.below(8) {
        0 => dx = 0,
        1 => dy = 0,
        _ => {}
    }
    if dx == 0 && dy == 0 {
        dx = 1;
    }
    let on = |k: i64, sg: i64| ((sg * dx) as f64 * pow2(k as i32), (sg * dy) as f64 * pow2(k as i32));
    let mut ks = [0i64; 4];
    loop {
        for k in ks.iter_mut() {
            *k = if r.chance(1, 3) { r.range(-40, 40) } else { r.range(-240, 240) };
        }
        ks.sort();
        if ks[0] < ks[1] && ks[1] < ks[2] && ks[2] < ks[3] {
            break;
        }
    }
    let wide_pt = |r: &mut Rng| -> (f64, f64) {
        let b = r.range(1, 30) as u32;
        let (kx, ky) = (r.range(-240, 240) as i32, r.range(-240, 240) as i32);
        (rs(r, b) as f64 * pow2(kx), rs(r, b) as f64 * pow2(ky))
    };
    let u = ks;
    let (stratum, mut f): (&'static str, [(f64, f64); 4]) = match r.below(9) {
        0 | 1 => {
            let (p, q) = match r.below(7) {
                0 => ((u[0], u[1]), (u[2], u[3])),
                1 => ((u[0], u[1]), (u[1], u[2])),
                2 => ((u[0], u[2]), (u[1], u[3])),
                3 => ((u[0], u[3]), (u[1], u[2])),
                4 => ((u[0], u[2]), (u[0], u[1])),
                5 => ((u[0], u[2]), (u[1], u[2])),
                _ => ((u[0], u[1]), (u[0], u[1])),
            };
            ("wide:collinear_configurations", [on(p.0, 1), on(p.1, 1), on(q.0, 1), on(q.1, 1)])
        }
        2 => {
            // the line through the origin, both sides
            let s1 = if r.chance(1, 2) { -1 } else { 1 };
            ("wide:collinear_through_origin", [on(u[0], -1), on(u[2], 1), on(u[1], s1), on(u[3], 1)])
        }
        3 => ("wide:t_junction", [on(u[0], 1), on(u[3], 1), on(if r.chance(1, 2) { u[1] } else { u[2] }, 1), wide_pt(r)]),
        4 => {
            let e = if r.chance(1, 2) { on(u[0], 1) } else { on(u[3], 1) };
            ("wide:shared_endpoint", [on(u[0], 1), on(u[3], 1), e, wide_pt(r)])
        }
        5 => {
            let c = on(*r.pick(&[u[0], u[1], u[2], u[3]]), 1);
            ("wide:zero_length", [on(u[0], 1), on(u[2], 1), c, c])
        }
        6 => ("wide:random_second_segment", [on(u[0], -1), on(u[3], 1), wide_pt(r), wide_pt(r)]),
        7 => {
            let mut f = [on(u[0], 1), on(u[2], 1), on(u[1], 1), on(u[3], 1)];
            let (i, ax, k) = (r.below(4) as usize, r.below(2), if r.chance(1, 2) { 1 } else { -1 });
            if ax == 0 {
                f[i].0 = step64(f[i].0, k)
            } else {
                f[i].1 = step64(f[i].1, k)
            }
            ("wide:collinear_moved_by_ulp", f)
        }
        _ => ("wide:random", [wide_pt(r), wide_pt(r), wide_pt(r), wide_pt(r)]),
    };
    if r.chance(1, 2) {
        f.swap(0, 1);
    }
    if r.chance(1, 2) {
        f.swap(2, 3);
    }
    if r.chance(1, 2) {
        f.swap(0, 2);
        f.swap(1, 3);
    }
    Case { f, stratum, observe_only: false }
}

fn gen_case(r: &mut Rng, st: &mut Cnt) -> Case {
    let sel = r.below(34);
    match sel {
        0..=2 => return small_lattice_case(r, st),
        27..=29 => return native_case(r),
        32..=33 => return wide_case(r),
        _ => {}
    }
    let hb = pick_hb(r);
    let core = match sel {
        3..=5 => core_crossing(r, hb),
        6..=7 => core_endpoint_touch(r, hb, false),
        8..=10 => core_t_junction(r, hb, false),
        11..=15 => core_collinear(r, hb),
        16..=19 => core_near_parallel(r, hb),
        20..=21 => core_zero_length(r, hb),
        22 => core_endpoint_touch(r, hb, true),
        23 => core_t_junction(r, hb, true),
        24 => core_cross_at_end(r, hb),
        25..=26 => core_thin(r, hb),
        30 => core_random(r, hb),
        _ => {
            // observe only: magnitudes at which the cubic intermediate products over- or underflow
            let c = match r.below(4) {
                0 => core_crossing(r, hb),
                1 => core_near_parallel(r, hb),
                2 => core_collinear(r, hb),
                _ => core_t_junction(r, hb, true),
            };
            let mut case = float_from_core(r, Core { npert: 0, ..c }, &mut Cnt::default());
            let (lo, hi) = span(&case.flat()).unwrap_or((0, 0));
            let e = if r.chance(1, 2) { r.range(330, 1000) as i32 - hi } else { -(r.range(330, 1000) as i32) - lo };
            let mut f = case.f.to_vec();
            scale_pow2(&mut f, e.clamp(-1000 - lo, 1000 - hi));
            case.f = [f[0], f[1], f[2], f[3]];
            case.stratum = "observe_only:extreme_exponents";
            case.observe_only = true;
            return case;
        }
    };
    float_from_core(r, core, st)
}

// ------------------------------------------------------------------------------------------------
// exhaustive sub-space: every ordered pair of segments on a G x G lattice
// ------------------------------------------------------------------------------------------------

fn exh_side(tier: &str) -> u64 {
    if tier == "thorough" {
        7
    } else {
        5
    }
}
fn exh_case(seed: u64, side: u64, idx: u64) -> Case {
    // the lattice map is a function of the seed only (all shards enumerate one lattice)
    let mut lr = Rng::derive(seed, 0xC11, 0xE);
    let offs = [0i64, 0, -2, 1000, -100_000_000, 1 << 40, -((1 << 52) - 8)];
    let (ox, oy) = (*lr.pick(&offs), *lr.pick(&offs));
    let e = lr.range(-8, 8) as i32;
    let n = side * side;
    let mut f = [(0.0, 0.0); 4];
    let mut i = idx;
    for k in 0..4 {
        let v = i % n;
        i /= n;
        f[k] = ((ox + (v % side) as i64) as f64 * pow2(e), (oy + (v / side) as i64) as f64 * pow2(e));
    }
    Case { f, stratum: "exhaustive_lattice", observe_only: false }
}

// ------------------------------------------------------------------------------------------------
// entry points
// ------------------------------------------------------------------------------------------------

/// fixed witnesses of the defect known on the pinned tree, replayed at the start of every shard
fn witnesses() -> Vec<Case> {
    let mk = |v: [f64; 8]| Case { f: [(v[0], v[1]), (v[2], v[3]), (v[4], v[5]), (v[6], v[7])], stratum: "witness:zero_length_on_segment", observe_only: false };
    vec![mk([0.0, 0.0, 4.0, 4.0, 1.0, 1.0, 1.0, 1.0]), mk([0.0, 0.0, 1.0, 0.0, 0.0, 0.0, 0.0, 0.0]), mk([0.0, 0.0, 0.0, 0.0, 0.0, 0.0, 0.0, 0.0])]
}

pub fn run(ctx: &Ctx, sh: &mut Shard) {
    let mut st = Cnt::default();
    if ctx.only.is_none() {
        for w in witnesses() {
            let mut o = Out { sh: &mut *sh, st: &mut st, verbose: false };
            run_case(&mut o, &w);
            st.add("witness_replayed");
        }
    }
    let side = exh_side(&ctx.tier);
    let total = side.pow(8);
    let nsh = ctx.nshards.max(1);
    let mine = if ctx.shard < total { (total - 1 - ctx.shard) / nsh + 1 } else { 0 };
    let mut exh_done = 0u64;
    for k in ctx.case_indices() {
        if sh.cases >= ctx.budget {
            break;
        }
        ctx.mark_case(k);
        sh.cases += 1;
        // every fourth case index walks the exhaustive lattice sub-space until it is finished
        let case = if k % 4 == 0 && (k / 4) * nsh + ctx.shard < total {
            exh_done += 1;
            exh_case(ctx.seed, side, (k / 4) * nsh + ctx.shard)
        } else {
            let mut r = Rng::derive(ctx.seed, ctx.shard, k);
            gen_case(&mut r, &mut st)
        };
        st.add(stratum_key(case.stratum));
        let mut o = Out { sh: &mut *sh, st: &mut st, verbose: false };
        run_case(&mut o, &case);
        sh.sample(|| case.json());
    }
    st.flush(sh);
    sh.notes.insert("exhaustive_lattice".into(), json!({"side": side, "ordered_segment_pairs_total": total, "this_shard_share": mine, "this_shard_done": exh_done, "exhaustive": exh_done >= mine}));
    sh.notes.insert("oracle".into(), json!("four exact orientation signs (i128 on the coordinates' exact integer images when the set bits span <= 60 binary digits, arbitrary-precision integers otherwise) + exact f64 coordinate comparisons; crossing error measured with a 256-bit integer on the grid 2^(hi-64) (arbitrary precision on the wide path); 1 case in 64 recomputed on both paths"));
    sh.notes.insert("unreachable".into(), json!("arm 11 (`_ => return None`) of collinear_intersection cannot be reached through line_intersection: four collinear orientations and intersecting bounding boxes imply that an end point lies in the other box"));
    sh.notes.insert("tolerance".into(), json!({"proper.accuracy": "32 u (M + E kappa), judged for kappa <= 1024", "u": "2^-53"}));
}

/// class names of the strata (static, prefixed)
fn stratum_key(s: &'static str) -> &'static str {
    macro_rules! keys {
        ($($n:literal),*) => {
            match s { $($n => concat!("stratum:", $n),)* _ => "stratum:other" }
        };
    }
    keys!(
        "crossing_at_lattice_point",
        "crossing_near_midpoint",
        "crossing_generic",
        "endpoint_touch",
        "t_junction",
        "near_touch:shared_endpoint_moved_by_ulps",
        "near_touch:t_junction_moved_by_ulps",
        "near_touch:crossing_at_end_moved_by_ulps",
        "collinear:disjoint",
        "collinear:abutting",
        "collinear:partial_overlap",
        "collinear:contained_strictly",
        "collinear:contained_shared_start",
        "collinear:contained_shared_end",
        "collinear:equal",
        "collinear_moved_by_ulps",
        "near_parallel:few_units_random_sides",
        "near_parallel:few_units_opposite_sides",
        "near_parallel:small_angle",
        "zero_length:point_in_interior",
        "zero_length:point_at_endpoint",
        "zero_length:point_collinear_outside",
        "zero_length:point_beside_segment",
        "zero_length:point_anywhere",
        "zero_length:two_equal_points",
        "zero_length:two_different_points",
        "thin_bounding_box",
        "random_control",
        "small_lattice",
        "small_lattice:anisotropic_scales",
        "native:rounded_onto_segment",
        "native:crossing_full_mantissa",
        "native:random_full_mantissa",
        "native:mixed_exponents",
        "observe_only:extreme_exponents",
        "wide:collinear_configurations",
        "wide:collinear_through_origin",
        "wide:t_junction",
        "wide:shared_endpoint",
        "wide:zero_length",
        "wide:random_second_segment",
        "wide:collinear_moved_by_ulp",
        "wide:random",
        "exhaustive_lattice"
    )
}

pub fn replay(v: &Value, sh: &mut Shard) {
    let case = Case::from_json(&v["case"]).expect("replay file: case");
    println!("C11 replay: {}", case.json()["shown"].as_str().unwrap_or(""));
    if let Ok(Some(ex)) = guard(|| case.exact()) {
        match &ex.small {
            Some(sm) => println!("  exact integer image (units of 2^{}): {:?}", sm.lo, sm.p),
            None => println!("  set bits span more than {ORC_BITS} binary digits: arbitrary-precision path"),
        }
        println!("  exact orientation signs [abc, abd, cda, cdb]: {:?}", ex.o);
        println!(
            "  exact intersection: {}",
            match ex.kind {
                Kind::None => "None".to_string(),
                Kind::Proper => "one point, interior to both".to_string(),
                Kind::Touch(s) => format!("one point {} (an end point)", show_pos(&case, s)),
                Kind::Overlap(l, h) => format!("overlap {} - {}", show_pos(&case, l), show_pos(&case, h)),
            }
        );
    }
    let mut st = Cnt::default();
    let mut o = Out { sh: &mut *sh, st: &mut st, verbose: true };
    run_case(&mut o, &case);
    st.flush(sh);
    println!("  classes: {:?}", sh.classes);
}

/// `gvh c11-min <check-prefix> [side]`: smallest witness (by coordinate sum) of a violation signature among
/// all segment pairs on a small lattice, each also with one coordinate moved by +-1 ulp (used for REPORT.md)
pub fn find_small(args: &[String]) {
    let want = args.get(2).cloned().unwrap_or_else(|| "proper.envelope".into());
    let side: i64 = args.get(3).and_then(|s| s.parse().ok()).unwrap_or(4);
    let n = (side * side) as u64;
    let mut best: Option<(i64, Case, String)> = None;
    let mut count = 0u64;
    for idx in 0..n.pow(4) {
        let mut base = [(0.0f64, 0.0f64); 4];
        let mut i = idx;
        let mut cost = 0i64;
        for k in 0..4 {
            let v = (i % n) as i64;
            i /= n;
            base[k] = ((v % side) as f64, (v / side) as f64);
            cost += v % side + v / side;
        }
        for mv in 0..17 {
            let mut f = base;
            if mv > 0 {
                let (pt, axis, dir) = ((mv - 1) / 4, ((mv - 1) / 2) % 2, if (mv - 1) % 2 == 0 { 1 } else { -1 });
                let v = if axis == 0 { f[pt].0 } else { f[pt].1 };
                if v == 0.0 {
                    continue;
                }
                let w = step64(v, dir);
                if axis == 0 {
                    f[pt].0 = w
                } else {
                    f[pt].1 = w
                }
            }
            let case = Case { f, stratum: "search", observe_only: false };
            let mut sh = Shard::new();
            let mut st = Cnt::default();
            let mut o = Out { sh: &mut sh, st: &mut st, verbose: false };
            run_case(&mut o, &case);
            if let Some(sig) = sh.viol_sigs.keys().find(|k| k.starts_with(&want)) {
                count += 1;
                let c2 = cost * 2 + (mv > 0) as i64;
                if best.as_ref().map_or(true, |b| c2 < b.0) {
                    best = Some((c2, case.clone(), format!("{sig}: expected {} got {}", sh.violations[0]["expected"], sh.violations[0]["got"])));
                }
            }
        }
    }
    println!("{count} inputs with a signature starting with {want:?}");
    if let Some((_, c, s)) = best {
        println!("smallest: {}\n  {s}\n  replay: {}", c.json()["shown"], json!({"property": "C11", "case": c.json()}));
    }
}

/// `gvh c11-min2 <check-prefix> [side]`: structured search: q.start = p.end moved by one ulp in one coordinate
pub fn find_small2(args: &[String]) {
    let want = args.get(2).cloned().unwrap_or_else(|| "proper.envelope".into());
    let side: i64 = args.get(3).and_then(|s| s.parse().ok()).unwrap_or(10);
    let n = side * side;
    let pt = |v: i64| ((v % side + 1) as f64, (v / side + 1) as f64);
    let mut best: Option<(i64, Case, String)> = None;
    let mut count = 0u64;
    for i0 in 0..n {
        for i1 in 0..n {
            for i3 in 0..n {
                for mv in 0..4 {
                    let (a, b, d) = (pt(i0), pt(i1), pt(i3));
                    let mut c = b;
                    let dir = if mv % 2 == 0 { 1 } else { -1 };
                    if mv / 2 == 0 {
                        c.0 = step64(c.0, dir)
                    } else {
                        c.1 = step64(c.1, dir)
                    }
                    let case = Case { f: [a, b, c, d], stratum: "search", observe_only: false };
                    let mut sh = Shard::new();
                    let mut st = Cnt::default();
                    let mut o = Out { sh: &mut sh, st: &mut st, verbose: false };
                    run_case(&mut o, &case);
                    if let Some(sig) = sh.viol_sigs.keys().find(|k| k.starts_with(&want)) {
                        count += 1;
                        let cost = (a.0 + a.1 + b.0 + b.1 + d.0 + d.1) as i64;
                        if best.as_ref().map_or(true, |x| cost < x.0) {
                            best = Some((cost, case.clone(), format!("{sig}: expected {} got {}", sh.violations[0]["expected"], sh.violations[0]["got"])));
                        }
                    }
                }
            }
        }
    }
    println!("{count} inputs with a signature starting with {want:?}");
    if let Some((_, c, s)) = best {
        println!("smallest: {}\n  {s}\n  replay: {}", c.json()["shown"], json!({"property": "C11", "case": c.json()}));
    }
}
