//! C05 — Planar area and ring orientation are exact up to rounding.
//!
//! Oracle: every input is an integer-lattice geometry `IG` mapped through `Lat`
//! (`x = (ox + i)·2^sh`, exact in the scalar type under test).  Twice the signed area of every ring is
//! computed in checked `i128` on the lattice integers (shifted to the first vertex, so the only
//! magnitudes that matter are local); orientation, collinearity and ring simplicity are decided by
//! exact `i128` determinants.  Nothing of geo (no `robust`, no `Area`, no `Winding`) is used on the
//! expected side.
//!
//! Units: all expected values are kept as *twice the area in lattice units* (`s2`, an integer).  A geo
//! result `a` is brought to the same units by the exact power-of-two scaling `a · 2^(1-2·sh)`.
//!
//! Tolerances (statement: "within a few units of rounding relative to the coordinate magnitude";
//! the magnitude is the one *after* the shift to the first vertex of the ring, i.e. the local extent):
//! with u the unit roundoff of the scalar type (2^-53, 2^-24), for one ring of n segments,
//! E = max_i max(|x_i-x_0|, |y_i-y_0|), S = max_k |partial shoelace sum_k| (exact, twice-area units):
//!   * each shifted coordinate carries a relative error <= u (0 on an exact lattice);
//!   * each product <= 3u·E² relative to the true product, each determinant
//!     fl(fl(a·d) - fl(b·c)) therefore errs by <= 3u(|ad|+|bc|) + u·|P-Q| <= 8u·E²;
//!   * the running sum adds <= u·|s_k| <= u·S per addition;
//!   => |twice-area error| <= n·u·(8E² + S)·(1+2^-10)      [`ring_ex().coef` = n·(8E²+S)·SLACK, where SLACK
//!      carries the (1+2^-10) and the calibration factor 16: the tolerance actually applied is 16x this bound]
//!   (S <= 8E² for every ring whose partial fans stay inside the ring's bounding box, which gives the
//!   design bound 8·n·u·E² for the area; S is kept data-dependent so the bound is rigorous for spirals.)
//!   Polygon: sum of the ring bounds + one rounding u·(|e|+Σ|h|) per hole subtraction.
//!   MultiPolygon / GeometryCollection: sum of member bounds + m·u·Σ|member| for the fold.
//!   Rect: w·h with w, h differences of the corners: 3u·w·h (twice-area: 6u·w·h).
//!   Triangle (geo does NOT shift; see REPORT.md): judged against the *global* magnitude
//!   M = max|coordinate|: 3 determinants at 4u·M² each + two additions (4u·M², 6u·M²) = 22u·M².
//!   (1+2^-10) swallows every second-order term (n·u <= 200·2^-24 << 2^-10).
use crate::gen::{gen_kind, gen_polygon, simple_ring_in};
use crate::ig::*;
use crate::q::qovf;
use crate::report::*;
use crate::rng::{Fnv, Rng};
use geo::orient::{Direction, Orient};
use geo::winding_order::{Winding, WindingOrder};
use geo::{Area, Coord, Geometry, GeometryCollection, Line, LineString, MultiLineString, MultiPoint, MultiPolygon, Point, Polygon, Rect, Triangle};
use serde_json::{json, Value};
use std::sync::atomic::{AtomicU64, Ordering};
use std::sync::Arc;
use std::time::{Duration, Instant};

/// Safety factor on every first-order rigorous bound below: 16 (HARNESS_API rule 1 asks for observed
/// error <= tolerance/16; with this factor that holds by construction, because an error can never exceed
/// the rigorous bound; measured maxima are in REPORT.md) times (1+2^-10) for the second-order terms.
const SLACK: f64 = 16.0 * (1.0 + 1.0 / 1024.0);

// ------------------------------------------------------------------------------------------
// scalar types under test
// ------------------------------------------------------------------------------------------
pub trait Sc: geo::GeoNum + std::fmt::Debug + 'static {
    const NAME: &'static str;
    /// unit roundoff
    const U: f64;
    /// the lattice value v·2^sh, only if it is exact in this type (and far from over/underflow)
    fn mk(v: i64, sh: i32) -> Option<Self>;
    fn to64(self) -> f64;
    /// -0.0 for the float types
    fn neg_zero() -> Option<Self> {
        None
    }
}
impl Sc for f64 {
    fn neg_zero() -> Option<f64> {
        Some(-0.0)
    }
    const NAME: &'static str = "f64";
    const U: f64 = 1.1102230246251565e-16; // 2^-53
    fn mk(v: i64, sh: i32) -> Option<f64> {
        let f = v as f64;
        if f as i128 != v as i128 || sh.abs() > 60 {
            return None;
        }
        Some(f * crate::q::pow2(sh))
    }
    fn to64(self) -> f64 {
        self
    }
}
impl Sc for f32 {
    fn neg_zero() -> Option<f32> {
        Some(-0.0)
    }
    const NAME: &'static str = "f32";
    const U: f64 = 5.960464477539063e-8; // 2^-24
    fn mk(v: i64, sh: i32) -> Option<f32> {
        // |v| < 2^28 and |sh| <= 30 keep every product of two coordinates and every sum of <= 2^6 of
        // them inside f32's normal range (2^-126 .. 2^127)
        if v.abs() >= 1 << 28 || sh.abs() > 30 {
            return None;
        }
        let f = v as f32;
        if f as i64 != v {
            return None;
        }
        Some(f * crate::q::pow2(sh) as f32)
    }
    fn to64(self) -> f64 {
        self as f64
    }
}
impl Sc for i64 {
    const NAME: &'static str = "i64";
    const U: f64 = 0.0;
    fn mk(v: i64, sh: i32) -> Option<i64> {
        if sh != 0 {
            return None;
        }
        Some(v)
    }
    fn to64(self) -> f64 {
        self as f64
    }
}
pub trait ScF: Sc + geo::GeoFloat {}
impl ScF for f64 {}
impl ScF for f32 {}

fn mk_c<T: Sc>(p: IP, sh: i32) -> Option<Coord<T>> {
    Some(Coord { x: T::mk(p.0, sh)?, y: T::mk(p.1, sh)? })
}
fn mk_ls<T: Sc>(v: &[IP], sh: i32) -> Option<LineString<T>> {
    v.iter().map(|&p| mk_c::<T>(p, sh)).collect::<Option<Vec<_>>>().map(LineString::new)
}
fn mk_poly<T: Sc>(rings: &[Vec<IP>], sh: i32) -> Option<Polygon<T>> {
    if rings.is_empty() {
        return Some(Polygon::new(LineString::new(vec![]), vec![]));
    }
    let mut it = rings.iter().map(|r| mk_ls::<T>(r, sh));
    let e = it.next().unwrap()?;
    let hs = it.collect::<Option<Vec<_>>>()?;
    Some(Polygon::new(e, hs))
}
fn mk_geom<T: Sc>(g: &IG, sh: i32) -> Option<Geometry<T>> {
    Some(match g {
        IG::Point(p) => Geometry::Point(Point(mk_c(*p, sh)?)),
        IG::Line(a, b) => Geometry::Line(Line::new(mk_c::<T>(*a, sh)?, mk_c::<T>(*b, sh)?)),
        IG::LineString(v) => Geometry::LineString(mk_ls(v, sh)?),
        IG::Polygon(r) => Geometry::Polygon(mk_poly(r, sh)?),
        IG::MultiPoint(v) => Geometry::MultiPoint(MultiPoint::new(v.iter().map(|&p| mk_c::<T>(p, sh).map(Point)).collect::<Option<Vec<_>>>()?)),
        IG::MultiLineString(v) => Geometry::MultiLineString(MultiLineString::new(v.iter().map(|x| mk_ls::<T>(x, sh)).collect::<Option<Vec<_>>>()?)),
        IG::MultiPolygon(v) => Geometry::MultiPolygon(MultiPolygon::new(v.iter().map(|x| mk_poly::<T>(x, sh)).collect::<Option<Vec<_>>>()?)),
        IG::Rect(a, b) => Geometry::Rect(Rect::new(mk_c::<T>(*a, sh)?, mk_c::<T>(*b, sh)?)),
        // the tuple constructor keeps the vertex order (Triangle::new re-orders to ccw with a non-robust
        // cross product; that constructor is exercised separately in `area_checks`)
        IG::Triangle(a, b, c) => Geometry::Triangle(Triangle(mk_c::<T>(*a, sh)?, mk_c::<T>(*b, sh)?, mk_c::<T>(*c, sh)?)),
        IG::Collection(v) => Geometry::GeometryCollection(GeometryCollection::new_from(v.iter().map(|x| mk_geom::<T>(x, sh)).collect::<Option<Vec<_>>>()?)),
    })
}

// ------------------------------------------------------------------------------------------
// exact oracle
// ------------------------------------------------------------------------------------------
#[inline]
fn cm(a: i128, b: i128) -> i128 {
    a.checked_mul(b).unwrap_or_else(|| qovf())
}
#[inline]
fn ca(a: i128, b: i128) -> i128 {
    a.checked_add(b).unwrap_or_else(|| qovf())
}
#[inline]
fn cs(a: i128, b: i128) -> i128 {
    a.checked_sub(b).unwrap_or_else(|| qovf())
}
/// exact orientation determinant of (a, b, c)
fn det3(a: IP, b: IP, c: IP) -> i128 {
    let (bx, by) = (b.0 as i128 - a.0 as i128, b.1 as i128 - a.1 as i128);
    let (cx, cy) = (c.0 as i128 - a.0 as i128, c.1 as i128 - a.1 as i128);
    cs(cm(bx, cy), cm(by, cx))
}
fn dot3(v: IP, p: IP, q: IP) -> i128 {
    let (px, py) = (p.0 as i128 - v.0 as i128, p.1 as i128 - v.1 as i128);
    let (qx, qy) = (q.0 as i128 - v.0 as i128, q.1 as i128 - v.1 as i128);
    ca(cm(px, qx), cm(py, qy))
}
fn in_box(a: IP, b: IP, p: IP) -> bool {
    p.0 >= a.0.min(b.0) && p.0 <= a.0.max(b.0) && p.1 >= a.1.min(b.1) && p.1 <= a.1.max(b.1)
}
/// do the closed segments ab and cd share a point?
fn segs_meet(a: IP, b: IP, c: IP, d: IP) -> bool {
    let (o1, o2, o3, o4) = (det3(a, b, c).signum(), det3(a, b, d).signum(), det3(c, d, a).signum(), det3(c, d, b).signum());
    if o1 * o2 < 0 && o3 * o4 < 0 {
        return true;
    }
    (o1 == 0 && in_box(a, b, c)) || (o2 == 0 && in_box(a, b, d)) || (o3 == 0 && in_box(c, d, a)) || (o4 == 0 && in_box(c, d, b))
}

#[derive(Clone, Debug)]
pub struct RingEx {
    /// twice the signed area (exact)
    pub a2: i128,
    /// tolerance coefficient (twice-area lattice units; tolerance = U·coef)
    pub coef: f64,
    pub n: usize,
    pub e: i128,
    pub max_s: i128,
}
/// shoelace of a ring as handed to geo (geo: fewer than 3 coordinates or not closed => 0)
pub fn ring_ex(r: &[IP]) -> RingEx {
    if r.len() < 3 || r[0] != r[r.len() - 1] {
        return RingEx { a2: 0, coef: 0.0, n: r.len().saturating_sub(1), e: 0, max_s: 0 };
    }
    let (x0, y0) = (r[0].0 as i128, r[0].1 as i128);
    let (mut s, mut e, mut max_s) = (0i128, 0i128, 0i128);
    for w in r.windows(2) {
        let (ax, ay) = (w[0].0 as i128 - x0, w[0].1 as i128 - y0);
        let (bx, by) = (w[1].0 as i128 - x0, w[1].1 as i128 - y0);
        e = e.max(bx.abs()).max(by.abs());
        s = ca(s, cs(cm(ax, by), cm(bx, ay)));
        max_s = max_s.max(s.abs());
    }
    let n = r.len() - 1;
    let ef = e as f64;
    RingEx { a2: s, coef: n as f64 * (8.0 * ef * ef + max_s as f64) * SLACK, n, e, max_s }
}

#[derive(Clone, Debug)]
pub struct Ex {
    pub s2: i128,
    pub u2: i128,
    pub coef: f64,
    /// twice the signed shoelace of the exterior (polygons only)
    pub ext2: i128,
}
fn close(r: &[IP]) -> Vec<IP> {
    // Polygon::new closes open rings
    let mut v = r.to_vec();
    if !v.is_empty() && v[0] != v[v.len() - 1] {
        v.push(v[0]);
    }
    v
}
fn poly_ex(rings: &[Vec<IP>]) -> Ex {
    if rings.is_empty() {
        return Ex { s2: 0, u2: 0, coef: 0.0, ext2: 0 };
    }
    let e = ring_ex(&close(&rings[0]));
    let mut mag = e.a2.abs();
    let mut tot = e.a2.abs();
    let mut coef = e.coef;
    for h in &rings[1..] {
        let x = ring_ex(&close(h));
        mag = ca(mag, x.a2.abs());
        tot = cs(tot, x.a2.abs());
        coef += x.coef;
    }
    coef += (rings.len() - 1) as f64 * mag as f64 * SLACK;
    let s2 = if e.a2 < 0 { -tot } else { tot };
    Ex { s2, u2: s2.abs(), coef, ext2: e.a2 }
}
fn max_abs(g: &IG) -> i128 {
    g.coords().iter().map(|p| (p.0 as i128).abs().max((p.1 as i128).abs())).max().unwrap_or(0)
}
/// expected areas of a geometry given in ABSOLUTE lattice integers (offset already added)
pub fn ex_of(g: &IG) -> Ex {
    match g {
        IG::Point(_) | IG::Line(..) | IG::LineString(_) | IG::MultiPoint(_) | IG::MultiLineString(_) => Ex { s2: 0, u2: 0, coef: 0.0, ext2: 0 },
        IG::Polygon(r) => poly_ex(r),
        IG::MultiPolygon(v) => {
            let (mut s, mut u, mut coef) = (0i128, 0i128, 0.0);
            for m in v {
                let x = poly_ex(m);
                s = ca(s, x.s2);
                u = ca(u, x.s2.abs());
                coef += x.coef;
            }
            coef += v.len() as f64 * u as f64 * SLACK;
            Ex { s2: s, u2: u, coef, ext2: 0 }
        }
        IG::Rect(a, b) => {
            let w = (a.0 as i128 - b.0 as i128).abs();
            let h = (a.1 as i128 - b.1 as i128).abs();
            let s2 = cm(2, cm(w, h));
            Ex { s2, u2: s2, coef: 3.0 * s2 as f64 * SLACK, ext2: s2 }
        }
        IG::Triangle(a, b, c) => {
            let s2 = det3(*a, *b, *c);
            // Triangle::signed_area shifts to the first vertex (fix: commit "Triangle::signed_area loses all
            // precision far from the origin"): judged at the LOCAL extent like a 3-segment ring
            let d = |p: &IP, q: &IP| (p.0 as i128 - q.0 as i128).abs().max((p.1 as i128 - q.1 as i128).abs());
            let e = d(a, b).max(d(b, c)).max(d(a, c)) as f64;
            let _ = max_abs(g);
            Ex { s2, u2: s2.abs(), coef: 22.0 * e * e * SLACK, ext2: s2 }
        }
        IG::Collection(v) => {
            let (mut s, mut u, mut coef) = (0i128, 0i128, 0.0);
            for m in v {
                let x = ex_of(m);
                s = ca(s, x.s2);
                u = ca(u, x.u2);
                coef += x.coef;
            }
            coef += v.len() as f64 * u as f64 * SLACK;
            Ex { s2: s, u2: u, coef, ext2: 0 }
        }
    }
}

#[derive(Clone, Copy, PartialEq, Eq, Debug)]
pub enum RC {
    /// empty or first != last
    Open,
    /// closed, all vertices collinear (includes fewer than 3 distinct points): a ring without area
    Flat,
    /// closed, simple after dropping repeated consecutive vertices; sign of the exact area
    Simple(i32),
    /// closed, has area somewhere, but self-touching / self-crossing: outside the stated domain
    NonSimple,
}
/// cyclic list of the distinct consecutive vertices of a closed ring
fn cyc_distinct(r: &[IP]) -> Vec<IP> {
    let mut d: Vec<IP> = vec![];
    for &p in &r[..r.len() - 1] {
        if d.last() != Some(&p) {
            d.push(p);
        }
    }
    while d.len() > 1 && d[0] == d[d.len() - 1] {
        d.pop();
    }
    d
}
pub fn ring_class(r: &[IP]) -> RC {
    if r.is_empty() || r[0] != r[r.len() - 1] {
        return RC::Open;
    }
    let d = cyc_distinct(r);
    let m = d.len();
    if m < 3 {
        return RC::Flat;
    }
    // all collinear?
    let b = d[1];
    if d.iter().all(|&p| det3(d[0], b, p) == 0) {
        return RC::Flat;
    }
    for i in 0..m {
        // consecutive edges (d[i],d[i+1]) and (d[i+1],d[i+2]) must not fold back onto each other
        let (p, v, q) = (d[i], d[(i + 1) % m], d[(i + 2) % m]);
        if det3(p, v, q) == 0 && dot3(v, p, q) > 0 {
            return RC::NonSimple;
        }
    }
    for i in 0..m {
        for j in i + 2..m {
            if i == 0 && j == m - 1 {
                continue; // adjacent through the closure
            }
            if segs_meet(d[i], d[(i + 1) % m], d[j], d[(j + 1) % m]) {
                return RC::NonSimple;
            }
        }
    }
    let a2 = ring_ex(&close(&d)).a2;
    RC::Simple(a2.signum() as i32)
}

// ------------------------------------------------------------------------------------------
// reporting context
// ------------------------------------------------------------------------------------------
pub struct Cx<'a> {
    pub g: &'a IG,
    pub lat: &'a Lat,
    pub stratum: &'a str,
    pub verbose: bool,
}
impl Cx<'_> {
    fn detail(&self, check: &str, scalar: &str, expected: String, got: String, extra: Value) -> Value {
        let mut geo = format!("{:?}", self.g.to_geo(self.lat));
        if geo.len() > 1500 {
            geo.truncate(1500);
        }
        json!({"property": "C05", "check": check, "scalar": scalar, "g": self.g.json(), "lat": self.lat.json(), "stratum": self.stratum,
               "expected": expected, "got": got, "extra": extra, "geo_f64": geo})
    }
}
fn viol(sh: &mut Shard, cx: &Cx, check: &str, site: &str, class: &str, scalar: &str, expected: String, got: String, extra: Value) {
    if cx.verbose {
        println!("  VIOLATION {check}|{site}|{class}: expected {expected} got {got} {extra}");
    }
    sh.violation(&format!("{check}|{site}|{class}"), cx.detail(check, scalar, expected, got, extra));
}

/// |got - s2| where got is already in twice-area lattice units; exact up to the final rounding
fn err2(got: f64, s2: i128) -> f64 {
    if !got.is_finite() {
        return f64::INFINITY;
    }
    let t = got.trunc();
    if t.abs() < 8.0e37 {
        let d = (t as i128) - s2; // |t| < 2^126, |s2| < 2^126 by construction
        (d as f64 + (got - t)).abs()
    } else {
        (got - s2 as f64).abs()
    }
}
#[inline]
fn to_units(a: f64, shf: i32) -> f64 {
    a * crate::q::pow2(1 - 2 * shf)
}
fn fmt_area(s2: i128, shf: i32) -> String {
    format!("{:e} (exact: {}/2 * 4^{})", s2 as f64 / 2.0 * 4f64.powi(shf), s2, shf)
}
fn fmt_got<T: Sc>(a: T) -> String {
    format!("{:e} [{}]", a.to64(), hexf(a.to64()))
}

// ------------------------------------------------------------------------------------------
// area clauses
// ------------------------------------------------------------------------------------------
fn is_zero_kind(g: &IG) -> bool {
    matches!(g, IG::Point(_) | IG::Line(..) | IG::LineString(_) | IG::MultiPoint(_) | IG::MultiLineString(_))
}
/// judge one (signed, unsigned) pair returned by geo for geometry `abs` at call site `site`
fn judge_area<T: ScF>(sh: &mut Shard, cx: &Cx, abs: &IG, shf: i32, ex: &Ex, site: &str, got: Result<(T, T), String>) {
    let (s, u) = match got {
        Ok(x) => x,
        Err(p) => {
            sh.eval(1);
            viol(sh, cx, "area.panic", site, "-", T::NAME, fmt_area(ex.s2, shf), p, json!({"at": last_panic_loc()}));
            return;
        }
    };
    let tol = T::U * ex.coef;
    let (gs, gu) = (to_units(s.to64(), shf), to_units(u.to64(), shf));
    if cx.verbose {
        println!("  {site}: signed_area expected {} got {} ; unsigned got {} ; tolerance {:e} (lattice twice-area units: exp {} got {} tol {:e})", fmt_area(ex.s2, shf), fmt_got(s), fmt_got(u), tol / 2.0 * 4f64.powi(shf), ex.s2, gs, tol);
    }
    if is_zero_kind(abs) {
        // clause: geometries without interior have area exactly 0
        sh.eval(2);
        if !(s.to64() == 0.0) || !(u.to64() == 0.0) {
            viol(sh, cx, "area.zero", site, "-", T::NAME, "0 / 0".into(), format!("{} / {}", fmt_got(s), fmt_got(u)), json!({}));
        }
        return;
    }
    // clause: value
    sh.eval(1);
    let e = err2(gs, ex.s2);
    if tol > 0.0 {
        sh.maximum(&format!("area.value err/tol {}", site_kind(site)), e / tol);
    }
    if !(e <= tol) {
        viol(sh, cx, "area.value", site, "-", T::NAME, fmt_area(ex.s2, shf), fmt_got(s), json!({"err_twice_area_lattice_units": e, "tolerance_same_units": tol, "err_over_tol": e / tol}));
    }
    // clause: sign (only when the exact area is clear of the rounding band)
    sh.eval(1);
    let clear = (ex.s2.abs() as f64) > tol;
    let sign_ref = match abs {
        IG::Polygon(_) => {
            if ex.ext2.signum() == ex.s2.signum() {
                Some(ex.ext2.signum())
            } else {
                None // holes not smaller than the shell: outside the domain of the sign clause
            }
        }
        IG::Triangle(..) | IG::Rect(..) => Some(ex.s2.signum()),
        _ => None,
    };
    match sign_ref {
        Some(sg) if clear => {
            let gsig = if gs > 0.0 {
                1
            } else if gs < 0.0 {
                -1
            } else {
                0
            };
            if gsig != sg as i32 {
                viol(sh, cx, "area.sign", site, "-", T::NAME, format!("sign {:+} (exterior shoelace {})", sg, ex.ext2), format!("{} (sign {:+})", fmt_got(s), gsig), json!({}));
            }
        }
        Some(_) => sh.class(&format!("area.sign:unjudged(|area|<=tol):{}", abs.kind())),
        None => {}
    }
    // clause: unsigned
    sh.eval(1);
    match abs {
        IG::Polygon(_) | IG::Rect(..) | IG::Triangle(..) => {
            // "unsigned_area is its absolute value": the same number without the sign
            if !(u.to64() == s.to64().abs()) {
                viol(sh, cx, "area.unsigned", site, "-", T::NAME, format!("|signed_area| = {}", fmt_got(s.abs())), fmt_got(u), json!({}));
            }
        }
        _ => {
            // MultiPolygon / GeometryCollection: sum of the members' unsigned areas
            let eu = err2(gu, ex.u2);
            if tol > 0.0 {
                sh.maximum(&format!("area.unsigned err/tol {}", site_kind(site)), eu / tol);
            }
            if !(eu <= tol) || gu < 0.0 {
                viol(sh, cx, "area.unsigned", site, "-", T::NAME, fmt_area(ex.u2, shf), fmt_got(u), json!({"err_twice_area_lattice_units": eu, "tolerance_same_units": tol}));
            }
        }
    }
}
fn site_kind(site: &str) -> &str {
    site
}

fn tri_naive<T: ScF>(t: &Triangle<T>) -> T {
    // what an unshifted shoelace over the three sides gives (used ONLY to label the known defect class)
    let [a, b, c] = t.to_array();
    let d = |s: Coord<T>, e: Coord<T>| s.x * e.y - s.y * e.x;
    (((T::zero() + d(a, b)) + d(b, c)) + d(c, a)) / (T::one() + T::one())
}

fn area_checks<T: ScF>(sh: &mut Shard, cx: &Cx, abs: &IG, shf: i32, geom: &Geometry<T>) {
    let ex = match guard(|| ex_of(abs)) {
        Ok(e) => e,
        Err(Caught::Panic(s)) => panic!("oracle bug: {s}"),
        Err(e) => {
            sh.inconclusive(&format!("oracle:{e:?}"));
            return;
        }
    };
    let kind = abs.kind();
    if let (IG::Polygon(r), Geometry::Polygon(p)) = (abs, geom) {
        // calibration of the design constant: error of a hole-free polygon in units of n·u·E² (area units)
        if r.len() == 1 {
            let x = ring_ex(&close(&r[0]));
            if x.e > 0 {
                if let Ok(a) = call(|| p.signed_area()) {
                    let e = err2(to_units(a.to64(), shf), x.a2) / 2.0;
                    sh.maximum(&format!("area err/(n*u*E^2) single ring {}", T::NAME), e / (x.n as f64 * T::U * (x.e as f64) * (x.e as f64)));
                }
            }
        }
    }
    // concrete type
    let got = call(|| with_geom!(geom, x => (x.signed_area(), x.unsigned_area())));
    judge_area::<T>(sh, cx, abs, shf, &ex, &format!("{kind}.{}", T::NAME), got);
    // through the Geometry enum
    let got = call(|| (geom.signed_area(), geom.unsigned_area()));
    judge_area::<T>(sh, cx, abs, shf, &ex, &format!("Geometry::{kind}.{}", T::NAME), got);

    match (abs, geom) {
        // clause: Rect area equals that of its polygon form
        (IG::Rect(..), Geometry::Rect(rc)) => {
            let Ok((rs, poly)) = call(|| (rc.signed_area(), rc.to_polygon())) else { return };
            let ring: Vec<IP> = poly.exterior().0.iter().map(|c| inv_ip::<T>(*c, shf)).collect();
            let pex = poly_ex(&[ring.clone()]);
            let got = call(|| (poly.signed_area(), poly.unsigned_area()));
            if let Ok((ps, _)) = &got {
                eq_form::<T>(sh, cx, shf, "Rect", rs, *ps, T::U * (ex.coef + pex.coef), "-", true, json!({"polygon_form": ring}));
            }
            judge_area::<T>(sh, cx, &IG::Polygon(vec![ring]), shf, &pex, &format!("Rect.to_polygon.{}", T::NAME), got);
        }
        // clause: Triangle area equals that of its polygon form
        (IG::Triangle(a, b, c), Geometry::Triangle(tr)) => {
            let Ok((ts, poly)) = call(|| (tr.signed_area(), tr.to_polygon())) else { return };
            let ring = vec![*a, *b, *c, *a];
            let pex = poly_ex(&[ring.clone()]);
            let got = call(|| (poly.signed_area(), poly.unsigned_area()));
            if let Ok((ps, _)) = &got {
                // "equal": both are roundings of the same number computed at the LOCAL magnitude, so they may
                // differ by the sum of two local bounds (and are bit-equal whenever the lattice is exact)
                let tol = T::U * 2.0 * pex.coef;
                let class = if to_units((ts.to64() - ps.to64()).abs(), shf) > tol && ts == tri_naive(tr) && err2(to_units(ts.to64(), shf), ex.s2) <= T::U * ex.coef { "triangle_area_unshifted" } else { "-" };
                // (calibration maximum only where the triangle is as large as its distance from the origin: elsewhere the
                // pinned tree's unshifted Triangle formula is the known defect, not rounding)
                let calib = max_abs(abs) as f64 <= 2.0 * pex_extent(&ring);
                eq_form::<T>(sh, cx, shf, "Triangle", ts, *ps, tol, class, calib, json!({"polygon_form": ring, "max_abs_coordinate_lattice": max_abs(abs) as f64, "local_extent_lattice": pex_extent(&ring)}));
            }
            judge_area::<T>(sh, cx, &IG::Polygon(vec![ring]), shf, &pex, &format!("Triangle.to_polygon.{}", T::NAME), got);
            // the re-ordering constructor: the oracle works from the vertices it actually stored
            if let Ok(tn) = call(|| Triangle::new(tr.0, tr.1, tr.2)) {
                let tabs = IG::Triangle(inv_ip::<T>(tn.0, shf), inv_ip::<T>(tn.1, shf), inv_ip::<T>(tn.2, shf));
                if let Ok(tex) = guard(|| ex_of(&tabs)) {
                    let got = call(|| (tn.signed_area(), tn.unsigned_area()));
                    judge_area::<T>(sh, cx, &tabs, shf, &tex, &format!("Triangle::new.{}", T::NAME), got);
                }
            }
        }
        // clause: collection areas are the sums of their members (geo against geo, fold rounding only)
        (IG::MultiPolygon(_), Geometry::MultiPolygon(mp)) => {
            let Ok((ts, tu)) = call(|| (mp.signed_area(), mp.unsigned_area())) else { return };
            let mem: Result<Vec<(T, T)>, String> = call(|| mp.0.iter().map(|p| (p.signed_area(), p.unsigned_area())).collect());
            if let Ok(mem) = mem {
                sum_members::<T>(sh, cx, shf, "MultiPolygon", ts, tu, &mem);
            }
        }
        (IG::Collection(_), Geometry::GeometryCollection(gc)) => {
            let Ok((ts, tu)) = call(|| (gc.signed_area(), gc.unsigned_area())) else { return };
            let mem: Result<Vec<(T, T)>, String> = call(|| gc.0.iter().map(|p| (p.signed_area(), p.unsigned_area())).collect());
            if let Ok(mem) = mem {
                sum_members::<T>(sh, cx, shf, "GeometryCollection", ts, tu, &mem);
            }
        }
        _ => {}
    }
}
fn pex_extent(ring: &[IP]) -> f64 {
    ring_ex(ring).e as f64
}
/// exact lattice preimage of a coordinate produced by geo from lattice input (Rect::to_polygon corners)
fn inv_ip<T: Sc>(c: Coord<T>, shf: i32) -> IP {
    let s = crate::q::pow2(-shf);
    ((c.x.to64() * s) as i64, (c.y.to64() * s) as i64)
}
fn eq_form<T: ScF>(sh: &mut Shard, cx: &Cx, shf: i32, kind: &str, a: T, p: T, tol: f64, class: &str, calib: bool, extra: Value) {
    sh.eval(1);
    let d = to_units((a.to64() - p.to64()).abs(), shf);
    if a == p {
        sh.class(&format!("eq_polygon_form:{kind}.{}:bit-equal", T::NAME));
    } else {
        sh.class(&format!("eq_polygon_form:{kind}.{}:differs", T::NAME));
    }
    if tol > 0.0 && calib {
        sh.maximum(&format!("area.eq_polygon_form diff/tol {kind}.{}", T::NAME), d / tol);
    }
    if cx.verbose {
        println!("  {kind}.{}: area {} vs polygon form {} ; |diff| {:e} tol {:e} (twice-area lattice units)", T::NAME, fmt_got(a), fmt_got(p), d, tol);
    }
    if !(d <= tol) {
        let mut x = extra;
        x["diff_twice_area_lattice_units"] = json!(d);
        x["tolerance_same_units"] = json!(tol);
        viol(sh, cx, "area.eq_polygon_form", &format!("{kind}.{}", T::NAME), class, T::NAME, format!("area of polygon form {}", fmt_got(p)), fmt_got(a), x);
    }
}
fn sum_members<T: ScF>(sh: &mut Shard, cx: &Cx, shf: i32, kind: &str, ts: T, tu: T, mem: &[(T, T)]) {
    sh.eval(2);
    let (mut s, mut u, mut mag) = (0f64, 0f64, 0f64);
    for (a, b) in mem {
        s += a.to64();
        u += b.to64();
        mag += a.to64().abs().max(b.to64().abs());
    }
    // geo's fold: <= m roundings of partial sums each <= Σ|member|; ours (f64): the same bound with 2^-53
    let tol = 2.0 * mem.len() as f64 * T::U * mag * SLACK;
    let (ds, du) = ((ts.to64() - s).abs(), (tu.to64() - u).abs());
    if tol > 0.0 {
        sh.maximum(&format!("area.sum_of_members diff/tol {kind}.{}", T::NAME), ds.max(du) / tol);
    }
    if cx.verbose {
        println!("  {kind}.{}: signed {} vs sum of members {:e}; unsigned {} vs {:e}; tol {:e}", T::NAME, fmt_got(ts), s, fmt_got(tu), u, tol);
    }
    if !(ds <= tol) {
        viol(sh, cx, "area.sum_of_members", &format!("{kind}.signed.{}", T::NAME), "-", T::NAME, format!("{:e}", s), fmt_got(ts), json!({"members": mem.len(), "tolerance": tol, "shf": shf}));
    }
    if !(du <= tol) {
        viol(sh, cx, "area.sum_of_members", &format!("{kind}.unsigned.{}", T::NAME), "-", T::NAME, format!("{:e}", u), fmt_got(tu), json!({"members": mem.len(), "tolerance": tol, "shf": shf}));
    }
}

// ------------------------------------------------------------------------------------------
// winding clauses
// ------------------------------------------------------------------------------------------
fn wo_str(w: Option<WindingOrder>) -> &'static str {
    match w {
        Some(WindingOrder::Clockwise) => "Some(Clockwise)",
        Some(WindingOrder::CounterClockwise) => "Some(CounterClockwise)",
        None => "None",
    }
}
fn lex_least(v: &[IP]) -> usize {
    let mut b = 0;
    for i in 1..v.len() {
        if v[i] < v[b] {
            b = i;
        }
    }
    b
}
fn ring_tags(sh: &mut Shard, r: &[IP], rc: RC, scalar: &str) {
    sh.class(&format!("ring:{}:{}", match rc { RC::Open => "open", RC::Flat => "flat", RC::Simple(1) => "simple.ccw", RC::Simple(_) => "simple.cw", RC::NonSimple => "nonsimple" }, scalar));
    if let RC::Simple(_) = rc {
        let n = r.len();
        let li = lex_least(r);
        let pos = if li == 0 {
            "first(=closing)"
        } else if li == n - 2 {
            "last-distinct"
        } else if li == 1 {
            "second"
        } else {
            "middle"
        };
        sh.class(&format!("ring.least@{pos}"));
        let reps = r.windows(2).filter(|w| w[0] == w[1]).count();
        if reps > 0 {
            sh.class("ring.repeated-consecutive");
            let l = r[li];
            if r.windows(2).any(|w| w[0] == l && w[1] == l) {
                sh.class("ring.repeated-least-vertex");
            }
        }
        let d = cyc_distinct(r);
        let m = d.len();
        let k = lex_least(&d);
        let (p, v, q) = (d[(k + m - 1) % m], d[k], d[(k + 1) % m]);
        let (pp, qq) = (d[(k + m - 2) % m], d[(k + 2) % m]);
        if m >= 4 && (det3(pp, p, v) == 0 || det3(v, q, qq) == 0) {
            sh.class("ring.collinear-next-to-least");
        }
        if d.iter().filter(|x| x.0 == v.0).count() >= 3 {
            sh.class("ring.least-x-shared-by>=3");
        }
        if d.iter().any(|&x| x != v && {
            let i = d.iter().position(|&y| y == x).unwrap();
            det3(d[(i + m - 1) % m], x, d[(i + 1) % m]).signum() as i32 == -(match rc { RC::Simple(s) => s, _ => 0 })
        }) {
            sh.class("ring.nonconvex");
        }
        if r[0] != v && {
            let s = match rc { RC::Simple(s) => s, _ => 0 };
            // first vertex of the stored ring is reflex or flat?
            let i = d.iter().position(|&y| y == r[0]).unwrap();
            det3(d[(i + m - 1) % m], d[i], d[(i + 1) % m]).signum() as i32 != s
        } {
            sh.class("ring.first-vertex-not-convex");
        }
    }
}

fn ring_checks<T: Sc>(sh: &mut Shard, cx: &Cx, r: &[IP], shf: i32, site: &str) {
    let Some(ls) = mk_ls::<T>(r, shf) else { return };
    let rc = match guard(|| ring_class(r)) {
        Ok(c) => c,
        Err(Caught::Panic(s)) => panic!("oracle bug: {s}"),
        Err(e) => {
            sh.inconclusive(&format!("oracle.ring:{e:?}"));
            return;
        }
    };
    ring_tags(sh, r, rc, T::NAME);
    let site = &format!("{site}.{}", T::NAME);
    let ringj = || json!({"ring_abs": r.iter().map(|p| json!([p.0, p.1])).collect::<Vec<_>>(), "class": format!("{rc:?}")});
    let got = call(|| (ls.winding_order(), ls.is_cw(), ls.is_ccw()));
    let (wo, cw, ccw) = match got {
        Ok(x) => x,
        Err(p) => {
            sh.eval(1);
            viol(sh, cx, "winding.panic", site, "-", T::NAME, "no panic".into(), p, json!({"at": last_panic_loc(), "ring": ringj()}));
            return;
        }
    };
    if cx.verbose {
        println!("  {site}: ring class {rc:?}: winding_order {} is_cw {cw} is_ccw {ccw}", wo_str(wo));
    }
    // the same ring with some of its zeros written as -0.0 (floats): -0.0 == 0.0, the answers may not change
    if let Some(nz) = T::neg_zero() {
        if nz.to64().is_sign_negative() {
            let mut alt = ls.clone();
            let mut changed = false;
            for (i, c) in alt.0.iter_mut().enumerate() {
                if i % 2 == 1 || i % 3 == 0 {
                    if c.x == T::zero() && !c.x.to64().is_sign_negative() {
                        c.x = nz;
                        changed = true;
                    }
                    if c.y == T::zero() && !c.y.to64().is_sign_negative() {
                        c.y = nz;
                        changed = true;
                    }
                }
            }
            if changed {
                sh.eval(1);
                match call(|| (alt.winding_order(), alt.is_cw(), alt.is_ccw())) {
                    Ok(g) if g == (wo, cw, ccw) => {}
                    Ok(g) => viol(sh, cx, "winding.negative_zero", site, "-", T::NAME, format!("{} is_cw={cw} is_ccw={ccw} (as for the ring with +0.0)", wo_str(wo)), format!("{} is_cw={} is_ccw={} for {:?}", wo_str(g.0), g.1, g.2, alt.0), ringj()),
                    Err(p) => viol(sh, cx, "winding.panic", site, "-", T::NAME, "no panic".into(), p, json!({"at": last_panic_loc(), "ring": ringj(), "spelling": "-0.0"})),
                }
                sh.class("ring.spelt_with_negative_zero");
            }
        }
    }
    // clause: is_cw / is_ccw say the same as winding_order
    sh.eval(1);
    if cw != (wo == Some(WindingOrder::Clockwise)) || ccw != (wo == Some(WindingOrder::CounterClockwise)) {
        viol(sh, cx, "winding.is_cw_ccw", site, "-", T::NAME, format!("consistent with {}", wo_str(wo)), format!("is_cw={cw} is_ccw={ccw}"), ringj());
    }
    let fwd: Vec<Coord<T>> = ls.0.clone();
    let mut rev = fwd.clone();
    rev.reverse();
    let pts = call(|| (ls.points_cw().map(|p| p.0).collect::<Vec<_>>(), ls.points_ccw().map(|p| p.0).collect::<Vec<_>>()));
    match rc {
        RC::Simple(s) => {
            // clause: CounterClockwise exactly when the exact signed area is positive
            sh.eval(1);
            let exp = if s > 0 { WindingOrder::CounterClockwise } else { WindingOrder::Clockwise };
            if wo != Some(exp) {
                viol(sh, cx, "winding.order", site, "-", T::NAME, wo_str(Some(exp)).into(), wo_str(wo).into(), ringj());
            }
            // clause: points_cw / points_ccw yield the ring in the requested direction
            sh.eval(2);
            match pts {
                Ok((pcw, pccw)) => {
                    let (ecw, eccw) = if s < 0 { (&fwd, &rev) } else { (&rev, &fwd) };
                    if &pcw != ecw {
                        viol(sh, cx, "winding.points_iter", &format!("{site}.points_cw"), "-", T::NAME, format!("{:?}", ecw), format!("{:?}", pcw), ringj());
                    }
                    if &pccw != eccw {
                        viol(sh, cx, "winding.points_iter", &format!("{site}.points_ccw"), "-", T::NAME, format!("{:?}", eccw), format!("{:?}", pccw), ringj());
                    }
                }
                Err(p) => viol(sh, cx, "winding.panic", &format!("{site}.points"), "-", T::NAME, "no panic".into(), p, ringj()),
            }
            // clause (mechanism behind orient): make_*_winding / clone_to_winding_order
            sh.eval(3);
            let made = call(|| {
                let mut a = ls.clone();
                a.make_cw_winding();
                let mut b = ls.clone();
                b.make_ccw_winding();
                let c = ls.clone_to_winding_order(WindingOrder::CounterClockwise);
                (a.0, b.0, c.0)
            });
            match made {
                Ok((a, b, c)) => {
                    let (ecw, eccw) = if s < 0 { (&fwd, &rev) } else { (&rev, &fwd) };
                    if &a != ecw {
                        viol(sh, cx, "winding.make", &format!("{site}.make_cw_winding"), "-", T::NAME, format!("{:?}", ecw), format!("{:?}", a), ringj());
                    }
                    if &b != eccw {
                        viol(sh, cx, "winding.make", &format!("{site}.make_ccw_winding"), "-", T::NAME, format!("{:?}", eccw), format!("{:?}", b), ringj());
                    }
                    if &c != eccw {
                        viol(sh, cx, "winding.make", &format!("{site}.clone_to_winding_order"), "-", T::NAME, format!("{:?}", eccw), format!("{:?}", c), ringj());
                    }
                }
                Err(p) => viol(sh, cx, "winding.panic", &format!("{site}.make"), "-", T::NAME, "no panic".into(), p, ringj()),
            }
        }
        RC::Flat => {
            // clause: a closed ring without area has no winding order
            sh.eval(1);
            if wo.is_some() {
                viol(sh, cx, "winding.degenerate", site, "-", T::NAME, "None".into(), wo_str(wo).into(), ringj());
            }
            points_either(sh, cx, site, T::NAME, &fwd, &rev, pts, ringj());
        }
        RC::Open | RC::NonSimple => {
            // outside the stated domain: observe only (crashes, self-consistency)
            points_either(sh, cx, site, T::NAME, &fwd, &rev, pts, ringj());
        }
    }
}
fn points_either<C: PartialEq + std::fmt::Debug>(sh: &mut Shard, cx: &Cx, site: &str, scalar: &str, fwd: &Vec<C>, rev: &Vec<C>, pts: Result<(Vec<C>, Vec<C>), String>, rj: Value) {
    sh.eval(1);
    match pts {
        Ok((a, b)) => {
            if (&a != fwd && &a != rev) || (&b != fwd && &b != rev) {
                viol(sh, cx, "winding.points_iter", &format!("{site}.undirected"), "-", scalar, "the ring's points, forwards or backwards".into(), format!("{:?} / {:?}", a, b), rj);
            }
        }
        Err(p) => viol(sh, cx, "winding.panic", &format!("{site}.points"), "-", scalar, "no panic".into(), p, rj),
    }
}

// ------------------------------------------------------------------------------------------
// orient clauses
// ------------------------------------------------------------------------------------------
/// is closed ring `b` the same cyclic vertex sequence as closed ring `a`, forwards or backwards?
fn same_cycle<C: PartialEq + Copy>(a: &[C], b: &[C]) -> bool {
    if a.len() != b.len() {
        return false;
    }
    if a.is_empty() {
        return true;
    }
    let closed = |v: &[C]| v.len() >= 2 && v[0] == v[v.len() - 1];
    if !closed(a) || !closed(b) {
        let mut r = a.to_vec();
        r.reverse();
        return a == b || r == b;
    }
    let (x, y) = (&a[..a.len() - 1], &b[..b.len() - 1]);
    let n = x.len();
    for rev in [false, true] {
        let z: Vec<C> = if rev { x.iter().rev().cloned().collect() } else { x.to_vec() };
        for k in 0..n {
            if z[k] == y[0] && (0..n).all(|i| z[(k + i) % n] == y[i]) {
                return true;
            }
        }
    }
    false
}
/// exact direction (+1 ccw, -1 cw, 0 none) of an output ring whose coordinates all occur in `src`
fn out_dir<T: Sc>(out: &[Coord<T>], src: &[Coord<T>], src_ip: &[IP]) -> Option<i32> {
    let ips: Option<Vec<IP>> = out.iter().map(|c| src.iter().position(|s| s == c).map(|i| src_ip[i])).collect();
    let ips = ips?;
    Some(ring_ex(&close(&ips)).a2.signum() as i32)
}
fn check_oriented<T: Sc>(sh: &mut Shard, cx: &Cx, rings: &[Vec<IP>], inp: &Polygon<T>, out: &Polygon<T>, dir: Direction, site: &str) {
    let dname = match dir { Direction::Default => "Default", Direction::Reversed => "Reversed" };
    let want_ext = match dir { Direction::Default => 1, Direction::Reversed => -1 };
    let rj = |i: usize| json!({"direction": dname, "ring_index": i, "input_rings_abs": rings});
    // clause: the same rings
    sh.eval(1);
    if out.interiors().len() != inp.interiors().len() {
        viol(sh, cx, "orient.same_rings", site, "-", T::NAME, format!("{} interiors", inp.interiors().len()), format!("{} interiors", out.interiors().len()), rj(0));
        return;
    }
    let in_rings: Vec<&LineString<T>> = std::iter::once(inp.exterior()).chain(inp.interiors().iter()).collect();
    let out_rings: Vec<&LineString<T>> = std::iter::once(out.exterior()).chain(out.interiors().iter()).collect();
    let mut used = vec![false; in_rings.len()];
    for (j, o) in out_rings.iter().enumerate() {
        sh.eval(2);
        // exterior must correspond to exterior; an interior to some not yet used interior (same index first)
        let cands: Vec<usize> = if j == 0 { vec![0] } else { std::iter::once(j).chain(1..in_rings.len()).collect() };
        let m = cands.into_iter().find(|&i| !used[i] && same_cycle(&in_rings[i].0, &o.0));
        let Some(i) = m else {
            viol(sh, cx, "orient.same_rings", site, "-", T::NAME, format!("ring {j} = input ring {j} as a cyclic sequence, forwards or backwards: {:?}", in_rings.get(j).map(|x| &x.0)), format!("{:?}", o.0), rj(j));
            continue;
        };
        used[i] = true;
        if i != j {
            sh.class("orient:interiors-permuted");
        }
        // clause: exterior counter-clockwise and holes clockwise (or the reverse when asked)
        let rc = guard(|| ring_class(&close(&rings[i]))).unwrap_or(RC::NonSimple);
        if let RC::Simple(_) = rc {
            let want = if j == 0 { want_ext } else { -want_ext };
            let got = out_dir::<T>(&o.0, &in_rings[i].0, &close(&rings[i]));
            if cx.verbose {
                println!("  {site} orient({dname}) ring {j}: wanted direction {want:+} got {got:?}");
            }
            if got != Some(want) {
                viol(sh, cx, "orient.direction", &format!("{site}.{}", if j == 0 { "exterior" } else { "interior" }), "-", T::NAME, format!("{dname}: exact area sign {want:+}"), format!("{:?}; ring {:?}", got, o.0), rj(j));
            }
        } else {
            sh.class("orient:ring-direction-unjudged(not simple)");
        }
    }
}
fn orient_checks<T: Sc>(sh: &mut Shard, cx: &Cx, abs: &IG, geom: &Geometry<T>) {
    match (abs, geom) {
        (IG::Polygon(rings), Geometry::Polygon(p)) if !rings.is_empty() => {
            for dir in [Direction::Default, Direction::Reversed] {
                let site = format!("Polygon.{}", T::NAME);
                match call(|| p.orient(dir)) {
                    Ok(out) => check_oriented::<T>(sh, cx, rings, p, &out, dir, &site),
                    Err(e) => viol(sh, cx, "orient.panic", &site, "-", T::NAME, "no panic".into(), e, json!({"at": last_panic_loc()})),
                }
            }
        }
        (IG::MultiPolygon(ms), Geometry::MultiPolygon(mp)) => {
            for dir in [Direction::Default, Direction::Reversed] {
                let site = format!("MultiPolygon.{}", T::NAME);
                match call(|| mp.orient(dir)) {
                    Ok(out) => {
                        sh.eval(1);
                        if out.0.len() != mp.0.len() {
                            viol(sh, cx, "orient.same_rings", &site, "-", T::NAME, format!("{} members", mp.0.len()), format!("{} members", out.0.len()), json!({}));
                            continue;
                        }
                        for (i, m) in ms.iter().enumerate() {
                            if !m.is_empty() {
                                check_oriented::<T>(sh, cx, m, &mp.0[i], &out.0[i], dir, &site);
                            }
                        }
                    }
                    Err(e) => viol(sh, cx, "orient.panic", &site, "-", T::NAME, "no panic".into(), e, json!({"at": last_panic_loc()})),
                }
            }
        }
        _ => {}
    }
}

// ------------------------------------------------------------------------------------------
// one case: every applicable clause, every scalar type the lattice is exact in
// ------------------------------------------------------------------------------------------
fn rings_of(abs: &IG) -> Vec<&Vec<IP>> {
    match abs {
        IG::LineString(v) => vec![v],
        IG::Polygon(r) => r.iter().collect(),
        IG::MultiPolygon(v) => v.iter().flatten().collect(),
        _ => vec![],
    }
}
fn run_float<T: ScF>(sh: &mut Shard, cx: &Cx, abs: &IG, shf: i32) -> bool {
    let Some(geom) = mk_geom::<T>(abs, shf) else { return false };
    sh.class(&format!("scalar:{}", T::NAME));
    area_checks::<T>(sh, cx, abs, shf, &geom);
    let site = match abs { IG::LineString(_) => "LineString", IG::Polygon(_) => "Polygon.ring", _ => "MultiPolygon.ring" };
    for r in rings_of(abs) {
        ring_checks::<T>(sh, cx, r, shf, site);
    }
    if let IG::Triangle(a, b, c) = abs {
        // the polygon form's ring of a triangle is a simple ring too (slivers: robust orientation needed)
        ring_checks::<T>(sh, cx, &[*a, *b, *c, *a], shf, "Triangle.to_polygon.ring");
    }
    orient_checks::<T>(sh, cx, abs, &geom);
    true
}
fn run_int<T: Sc>(sh: &mut Shard, cx: &Cx, abs: &IG, shf: i32) -> bool {
    if rings_of(abs).is_empty() {
        return false;
    }
    let Some(geom) = mk_geom::<T>(abs, shf) else { return false };
    sh.class(&format!("scalar:{}", T::NAME));
    let site = match abs { IG::LineString(_) => "LineString", IG::Polygon(_) => "Polygon.ring", _ => "MultiPolygon.ring" };
    for r in rings_of(abs) {
        ring_checks::<T>(sh, cx, r, shf, site);
    }
    orient_checks::<T>(sh, cx, abs, &geom);
    true
}

pub fn check_geom(sh: &mut Shard, g: &IG, lat: &Lat, stratum: &str, verbose: bool) {
    let cx = Cx { g, lat, stratum, verbose };
    let (ox, oy) = (lat.ox, lat.oy);
    let abs = g.map(&|p: IP| (p.0 + ox, p.1 + oy));
    if !run_float::<f64>(sh, &cx, &abs, lat.sh) {
        sh.inconclusive("lattice not exact in f64");
        return;
    }
    if !run_float::<f32>(sh, &cx, &abs, lat.sh) {
        sh.class("scalar:f32:not-representable(skipped)");
    }
    // integer coordinates: winding / orient only (Area needs a float); geo's integer kernel multiplies
    // coordinate differences, so keep the extent below 2^30
    let cs = abs.coords();
    if lat.sh == 0 && !cs.is_empty() {
        let (x0, x1) = (cs.iter().map(|c| c.0).min().unwrap(), cs.iter().map(|c| c.0).max().unwrap());
        let (y0, y1) = (cs.iter().map(|c| c.1).min().unwrap(), cs.iter().map(|c| c.1).max().unwrap());
        if x1 - x0 < 1 << 30 && y1 - y0 < 1 << 30 {
            run_int::<i64>(sh, &cx, &abs, 0);
        }
    }
    // evidence
    sh.class(&format!("stratum:{stratum}"));
    sh.class(&format!("kind:{}", g.kind()));
    let m = ox.abs().max(oy.abs());
    sh.class(if m == 0 { "offset:0" } else if m < 100_000 { "offset:1e3" } else if m < 50_000_000 { "offset:1e6..2^23" } else if m < 1 << 39 { "offset:1e8" } else if m < 1 << 50 { "offset:2^40" } else { "offset:2^52" });
    if lat.sh != 0 {
        sh.class("lattice:scaled");
    }
    if let IG::Polygon(r) = g {
        if !r.is_empty() {
            let mut mask = 0u32;
            for (j, x) in r.iter().enumerate() {
                if ring_ex(&close(x)).a2 > 0 {
                    mask |= 1 << j;
                }
            }
            sh.class(&format!("polygon:holes={}:ccw-mask={:0w$b}", r.len() - 1, mask, w = r.len()));
        }
    }
    let nontrivial = match guard(|| ex_of(&abs)) {
        Ok(e) => e.u2 != 0,
        _ => false,
    } || matches!(g, IG::LineString(v) if matches!(guard(|| ring_class(v)), Ok(RC::Simple(_))));
    if nontrivial {
        let mut h = Fnv::new();
        abs.digest(&mut h);
        h.i64(lat.sh as i64);
        sh.nontrivial(h.0);
    }
    sh.sample(|| json!({"stratum": stratum, "geometry": format!("{:?}", g.to_geo(lat)), "lat": lat.json(), "exact_twice_area_lattice": guard(|| ex_of(&abs)).map(|e| e.s2.to_string()).unwrap_or_default()}));
}

// ------------------------------------------------------------------------------------------
// workload
// ------------------------------------------------------------------------------------------
const FAR: [i64; 14] = [0, 1000, -1000, 1_000_000, -1_000_000, 100_000_000, -100_000_000, 100_000_000, -100_000_000, 1 << 40, -(1 << 40), (1 << 52) - 4096, -((1 << 52) - 4096), 0];
const NEAR32: [i64; 8] = [0, 0, 1000, -1000, 1_000_000, -1_000_000, 1 << 23, -(1 << 23)];
fn pick_sh(r: &mut Rng) -> i32 {
    if r.chance(1, 2) {
        0
    } else {
        r.range(-30, 30) as i32
    }
}
fn lat_far(r: &mut Rng) -> Lat {
    Lat { ox: *r.pick(&FAR), oy: *r.pick(&FAR), sh: pick_sh(r), shear: 0 }
}
fn lat_f32(r: &mut Rng) -> Lat {
    Lat { ox: *r.pick(&NEAR32), oy: *r.pick(&NEAR32), sh: pick_sh(r), shear: 0 }
}
fn pick_lat(r: &mut Rng) -> Lat {
    if r.chance(3, 10) {
        lat_f32(r)
    } else {
        lat_far(r)
    }
}
fn lat_scale_only(r: &mut Rng) -> Lat {
    Lat { ox: 0, oy: 0, sh: r.range(-30, 30) as i32, shear: 0 }
}

/// re-spell a closed ring: requested direction, position of the lexicographically least vertex, repeats
fn style_ring(r: &mut Rng, ring: &[IP], want_ccw: Option<bool>) -> Vec<IP> {
    let mut v: Vec<IP> = ring[..ring.len() - 1].to_vec();
    if let Some(w) = want_ccw {
        if (ring_ex(ring).a2 > 0) != w {
            v.reverse();
        }
    } else if r.chance(1, 2) {
        v.reverse();
    }
    let n = v.len();
    let li = lex_least(&v);
    let to = match r.below(6) {
        0 | 1 => 0,     // least first (and therefore also the closing vertex)
        2 => n - 1,     // least is the last distinct vertex
        3 => 1 % n,     // least second
        _ => r.below(n as u64) as usize,
    };
    v.rotate_left((li + n - to) % n);
    if r.chance(1, 4) {
        let li = lex_least(&v);
        match r.below(4) {
            0 => {
                // repeat the least vertex 1..3 times
                for _ in 0..r.range(1, 3) {
                    let x = v[li];
                    v.insert(li, x);
                }
            }
            1 => {
                let i = r.below(v.len() as u64) as usize;
                let x = v[i];
                v.insert(i, x);
            }
            2 => {
                // repeat the first vertex at the front
                let x = v[0];
                v.insert(0, x);
            }
            _ => {
                // repeat the closing vertex
                let x = v[0];
                v.push(x);
            }
        }
    }
    let f = v[0];
    v.push(f);
    v
}
/// double the ring and put the edge midpoints next to the least vertex (collinear neighbours at the extreme point)
fn collinear_at_least(ring: &[IP]) -> Vec<IP> {
    let v: Vec<IP> = ring[..ring.len() - 1].iter().map(|p| (2 * p.0, 2 * p.1)).collect();
    let n = v.len();
    let li = lex_least(&v);
    let (p, l, q) = (v[(li + n - 1) % n], v[li], v[(li + 1) % n]);
    let mut out = vec![];
    for (i, &x) in v.iter().enumerate() {
        if i == li {
            out.push(((p.0 + l.0) / 2, (p.1 + l.1) / 2));
            out.push(x);
            out.push(((q.0 + l.0) / 2, (q.1 + l.1) / 2));
        } else {
            out.push(x);
        }
    }
    let f = out[0];
    out.push(f);
    out
}
/// ccw shell around the box, with an optional extra vertex on (b = 0: collinear) or outside each side
fn shell_around(r: &mut Rng, x0: i64, y0: i64, x1: i64, y1: i64) -> Vec<IP> {
    let mut v = vec![(x0, y0)];
    if r.chance(1, 2) {
        v.push((r.range(x0 + 1, x1 - 1), y0 - r.range(0, 2)));
    }
    v.push((x1, y0));
    if r.chance(1, 2) {
        v.push((x1 + r.range(0, 2), r.range(y0 + 1, y1 - 1)));
    }
    v.push((x1, y1));
    if r.chance(1, 2) {
        v.push((r.range(x0 + 1, x1 - 1), y1 + r.range(0, 2)));
    }
    v.push((x0, y1));
    if r.chance(1, 2) {
        v.push((x0 - r.range(0, 2), r.range(y0 + 1, y1 - 1)));
    }
    if r.chance(1, 3) {
        // second collinear vertex on the left side: several vertices share the least x
        let last = *v.last().unwrap();
        if last.0 == x0 && last.1 - y0 >= 2 {
            v.push((x0, r.range(y0 + 1, last.1 - 1)));
        }
    }
    v.push((x0, y0));
    v
}
fn restyle_polygon(r: &mut Rng, rings: Vec<Vec<IP>>) -> Vec<Vec<IP>> {
    let mask = r.below(1 << rings.len());
    rings.iter().enumerate().map(|(j, x)| style_ring(r, x, Some((mask >> j) & 1 == 1))).collect()
}
/// is p strictly inside the closed ring (p is known not to lie on it)? integer crossing parity
fn strictly_inside(ring: &[IP], p: IP) -> bool {
    let mut inside = false;
    for w in ring.windows(2) {
        let (a, b) = (w[0], w[1]);
        if (a.1 > p.1) != (b.1 > p.1) {
            let d = (b.0 - a.0) as i128 * (p.1 - a.1) as i128 - (p.0 - a.0) as i128 * (b.1 - a.1) as i128;
            if (d > 0) == (b.1 > a.1) {
                inside = !inside;
            }
        }
    }
    inside
}
fn rings_disjoint(a: &[IP], b: &[IP]) -> bool {
    a.windows(2).all(|w| b.windows(2).all(|z| !segs_meet(w[0], w[1], z[0], z[1])))
}
/// valid polygon by construction and exact integer tests: simple shell, simple holes strictly inside the
/// shell, pairwise disjoint and not nested (no Q arithmetic: ~20x cheaper than gen::gen_polygon, which is
/// still used for a fraction of the cases because it also makes holes that touch the shell)
fn fast_polygon(r: &mut Rng, g: i64, holes: usize) -> Option<Vec<Vec<IP>>> {
    let shell = simple_ring_in(r, 0, g, 0, g, 8)?;
    let (x0, x1) = (shell.iter().map(|p| p.0).min()?, shell.iter().map(|p| p.0).max()?);
    let (y0, y1) = (shell.iter().map(|p| p.1).min()?, shell.iter().map(|p| p.1).max()?);
    let mut rings = vec![shell];
    let mut tries = 0;
    while rings.len() < 1 + holes && tries < 30 {
        tries += 1;
        let k = r.range(3, 5);
        // a small ring somewhere in the shell's box
        let (cx, cy) = (r.range(x0, x1), r.range(y0, y1));
        let s = r.range(1, 1 + (g / 4).max(1));
        let mut h: Vec<IP> = (0..k).map(|_| (cx + r.range(0, s), cy + r.range(0, s))).collect();
        let f = h[0];
        h.push(f);
        if h.windows(2).any(|w| w[0] == w[1]) || !matches!(ring_class(&h), RC::Simple(_)) {
            continue;
        }
        if !rings_disjoint(&h, &rings[0]) || !strictly_inside(&rings[0], h[0]) {
            continue;
        }
        if rings[1..].iter().any(|o| !rings_disjoint(&h, o) || strictly_inside(o, h[0]) || strictly_inside(&h, o[0])) {
            continue;
        }
        rings.push(h);
    }
    Some(rings)
}
fn gen_poly_small(r: &mut Rng) -> Option<Vec<Vec<IP>>> {
    let holes = *r.pick(&[0usize, 0, 0, 1, 1, 2, 2, 3]);
    let g = if holes >= 2 { *r.pick(&[8i64, 12, 16]) } else { *r.pick(&[3i64, 4, 5, 6, 8, 12]) };
    let mut rings = if r.chance(1, 10) {
        let tangent = r.chance(1, 2);
        let IG::Polygon(rings) = gen_polygon(r, g.max(4), holes, tangent)? else { return None };
        rings
    } else {
        fast_polygon(r, g.max(4), holes)?
    };
    if r.chance(1, 6) {
        rings = rings.iter().map(|x| x.iter().map(|p| (2 * p.0, 2 * p.1)).collect()).collect();
        let k = r.below(rings.len() as u64) as usize;
        let half: Vec<IP> = rings[k].iter().map(|p| (p.0 / 2, p.1 / 2)).collect();
        rings[k] = collinear_at_least(&half);
    }
    Some(restyle_polygon(r, rings))
}
fn gen_poly_grid(r: &mut Rng) -> Option<Vec<Vec<IP>>> {
    let c = r.range(4, 6);
    let want = *r.pick(&[1i64, 2, 3, 3, 4, 4, 4]);
    let (nc, nr) = if want > 3 { (r.range(2, 3), 2) } else if want > 1 { (r.range(2, 3), r.range(1, 2)) } else { (r.range(1, 3), r.range(1, 2)) };
    let shell = shell_around(r, 0, 0, nc * c, nr * c);
    let mut cells: Vec<(i64, i64)> = (0..nc).flat_map(|i| (0..nr).map(move |j| (i, j))).collect();
    r.shuffle(&mut cells);
    let want = want as usize;
    let mut rings = vec![shell];
    for (i, j) in cells.into_iter().take(want) {
        let h = simple_ring_in(r, i * c + 1, (i + 1) * c - 1, j * c + 1, (j + 1) * c - 1, 5)?;
        rings.push(h);
    }
    Some(restyle_polygon(r, rings))
}
/// random magnitude: `bits` significant range, at most 52 significant bits
fn rnd_mag(r: &mut Rng, bits: u32) -> i64 {
    let mb = bits.min(52);
    let m = (r.next() & ((1u64 << mb) - 1)) | (1u64 << (mb - 1));
    let v = (m << (bits - mb)) as i64;
    if r.chance(1, 2) {
        -v
    } else {
        v
    }
}
/// k directions sorted counter-clockwise about the origin, strictly star-shaped (every consecutive pair turns left)
fn star_dirs(r: &mut Rng, k: usize, mut bits: impl FnMut(&mut Rng) -> u32) -> Option<Vec<IP>> {
    for _ in 0..20 {
        let mut d: Vec<IP> = (0..k).map(|_| { let b = bits(r); let c = bits(r); (rnd_mag(r, b), rnd_mag(r, c)) }).collect();
        let half = |p: &IP| if p.1 > 0 || (p.1 == 0 && p.0 > 0) { 0 } else { 1 };
        d.sort_by(|a, b| {
            half(a).cmp(&half(b)).then_with(|| {
                let cr = a.0 as i128 * b.1 as i128 - a.1 as i128 * b.0 as i128;
                0.cmp(&cr.signum())
            })
        });
        let n = d.len();
        if n >= 3 && (0..n).all(|i| det3((0, 0), d[i], d[(i + 1) % n]) > 0) {
            return Some(d);
        }
    }
    None
}
/// shell = centre + 2·d, optional hole = centre + d (homothetic, strictly inside)
fn gen_poly_star(r: &mut Rng, mixed: bool, big: bool) -> Option<(Vec<Vec<IP>>, &'static str)> {
    // thorough tier: rings of up to 200 vertices (sum of 200 terms < 2^118 each stays inside i128)
    let k = if r.chance(1, 8) { r.range(13, if big { 200 } else { 64 }) as usize } else { r.range(3, 12) as usize };
    let (d, c, name) = if mixed {
        (star_dirs(r, k, |r| r.range(4, 56) as u32)?, (0i64, 0i64), "poly.mixed-exponents")
    } else {
        // the low end (b <= 22, centre 0) is also exact in f32, where products of 2·b bits already round
        let b = r.range(12, 49) as u32;
        let c = if r.chance(1, 2) { (0, 0) } else { (rnd_mag(r, 49) & !1, rnd_mag(r, 49) & !1) };
        (star_dirs(r, k, |_| b)?, c, "poly.wide")
    };
    let shell: Vec<IP> = d.iter().map(|p| (c.0 + 2 * p.0, c.1 + 2 * p.1)).collect();
    let mut rings = vec![{ let mut s = shell.clone(); s.push(shell[0]); s }];
    if r.chance(1, 2) {
        let mut h: Vec<IP> = d.iter().map(|p| (c.0 + p.0, c.1 + p.1)).collect();
        h.push(h[0]);
        rings.push(h);
    }
    Some((restyle_polygon(r, rings), name))
}
/// 2..4 star polygons of b-bit radius on centres 2^(b+3) apart (pairwise disjoint): inexact member areas, so
/// the fold of MultiPolygon / GeometryCollection really rounds
fn gen_mp_wide(r: &mut Rng) -> Option<Vec<Vec<Vec<IP>>>> {
    let b = r.range(12, 40) as u32;
    let m = r.range(2, 4);
    let mut ms = vec![];
    for i in 0..m {
        let k = r.range(3, 10) as usize;
        let d = star_dirs(r, k, |_| b)?;
        let c = ((i % 2) << (b + 3), (i / 2) << (b + 3));
        let mut shell: Vec<IP> = d.iter().map(|p| (c.0 + 2 * p.0, c.1 + 2 * p.1)).collect();
        shell.push(shell[0]);
        let mut rings = vec![shell];
        if r.chance(1, 2) {
            let mut h: Vec<IP> = d.iter().map(|p| (c.0 + p.0, c.1 + p.1)).collect();
            h.push(h[0]);
            rings.push(h);
        }
        ms.push(restyle_polygon(r, rings));
    }
    Some(ms)
}
fn gen_gc_wide(r: &mut Rng) -> Option<IG> {
    let mut v = vec![IG::MultiPolygon(gen_mp_wide(r)?)];
    let b = r.range(12, 40) as u32;
    for _ in 0..r.range(0, 3) {
        v.push(match r.below(4) {
            0 => IG::Rect((rnd_mag(r, b), rnd_mag(r, b)), (rnd_mag(r, b), rnd_mag(r, b))),
            1 => IG::Triangle((rnd_mag(r, b), rnd_mag(r, b)), (rnd_mag(r, b), rnd_mag(r, b)), (rnd_mag(r, b), rnd_mag(r, b))),
            2 => IG::Polygon(gen_poly_star(r, false, false)?.0),
            _ => IG::Collection(vec![IG::Polygon(gen_poly_star(r, false, false)?.0), IG::Point((1, 2))]),
        });
    }
    r.shuffle(&mut v);
    Some(IG::Collection(v))
}
/// thin triangle with huge coordinates: orientation determinant many orders below the products
fn gen_sliver(r: &mut Rng) -> [IP; 3] {
    match r.below(3) {
        0 => gen_sliver_int(r),
        1 => gen_sliver_mixed(r, 50),
        _ => gen_sliver_mixed(r, 21), // also exact in f32
    }
}
/// Shewchuk's failure pattern for the naive determinant: two far anchors on a line through the origin and a
/// near point a few units off that line.  The coordinate differences need more than 53 (24) bits, so a
/// non-robust orientation test loses the offset (e) entirely; the exact sign is that of (s2-s1)·(A·e.y - B·e.x).
fn gen_sliver_mixed(r: &mut Rng, t: u32) -> [IP; 3] {
    let (a, b) = (r.range(1, 8), r.range(-8, 8));
    let s1 = r.range(1, 8);
    let mut s2 = r.range(-8, 8);
    if s2 == s1 {
        s2 = s1 + 1;
    }
    let s0 = r.range(-8, 8);
    let e = if r.chance(1, 4) { (r.range(-40, 40), r.range(-40, 40)) } else { (r.range(-6, 6), r.range(-6, 6)) };
    let (big, small) = (1i64 << t, 1i64 << (t - 6));
    let mut v = [(s0 * a * small + e.0, s0 * b * small + e.1), (s1 * a * big, s1 * b * big), (s2 * a * big, s2 * b * big)];
    r.shuffle(&mut v);
    v
}
fn gen_sliver_int(r: &mut Rng) -> [IP; 3] {
    let v0 = (rnd_mag(r, 50), rnd_mag(r, 50));
    let (a, b) = (r.range(-(1 << 20), 1 << 20), r.range(-(1 << 20), 1 << 20));
    let (m, n) = (r.range(1, 1 << 20), r.range(-(1 << 20), 1 << 20));
    let e = (r.range(-2, 2), r.range(-2, 2));
    let mut t = [v0, (v0.0 + m * a, v0.1 + m * b), (v0.0 + n * a + e.0, v0.1 + n * b + e.1)];
    r.shuffle(&mut t);
    t
}
fn gen_multipolygon(r: &mut Rng) -> Option<IG> {
    if r.chance(1, 12) {
        // members that may touch each other (shared generator, exact rational validity test)
        let g = *r.pick(&[4i64, 6, 8]);
        let IG::MultiPolygon(ms) = gen_kind(r, "MultiPolygon", g)? else { return None };
        return Some(IG::MultiPolygon(ms.into_iter().map(|m| restyle_polygon(r, m)).collect()));
    }
    let n = r.range(0, 4);
    let mut ms = vec![];
    for i in 0..n {
        if r.chance(1, 12) {
            ms.push(vec![]); // empty member
            continue;
        }
        let g = *r.pick(&[4i64, 5, 6, 8]);
        let nh = r.below(3) as usize;
        let rings = fast_polygon(r, g, nh)?;
        let (dx, dy) = ((i % 2) * 12, (i / 2) * 12);
        let rings: Vec<Vec<IP>> = rings.iter().map(|x| x.iter().map(|p| (p.0 + dx, p.1 + dy)).collect()).collect();
        ms.push(restyle_polygon(r, rings));
    }
    Some(IG::MultiPolygon(ms))
}
fn gen_member(r: &mut Rng, depth: u32) -> Option<IG> {
    let g = *r.pick(&[4i64, 6, 8]);
    let t = (r.range(-8, 24), r.range(-8, 24));
    let m = match r.below(12) {
        0 | 1 => IG::Polygon(gen_poly_small(r)?),
        2 => IG::Polygon(gen_poly_grid(r)?),
        3 => gen_multipolygon(r)?,
        4 => IG::Rect((r.range(0, g), r.range(0, g)), (r.range(0, g), r.range(0, g))),
        5 | 6 => IG::Triangle((r.range(0, g), r.range(0, g)), (r.range(0, g), r.range(0, g)), (r.range(0, g), r.range(0, g))),
        7 => {
            let k = *r.pick(&["Point", "MultiPoint", "Line"]);
            gen_kind(r, k, g)?
        }
        8 => {
            let k = *r.pick(&["LineString", "LinearRing", "MLS", "MLS-loop"]);
            gen_kind(r, k, g)?
        }
        9 if depth < 2 => gen_gc(r, depth + 1)?,
        9 => gen_kind(r, "Empty", g)?,
        _ => IG::Polygon(gen_poly_small(r)?),
    };
    Some(m.translate(t.0, t.1))
}
fn gen_gc(r: &mut Rng, depth: u32) -> Option<IG> {
    let n = r.range(0, 4);
    let mut v = vec![];
    for _ in 0..n {
        v.push(gen_member(r, depth)?);
    }
    Some(IG::Collection(v))
}
fn gen_ring_case(r: &mut Rng, big: bool) -> Option<(IG, Lat, &'static str)> {
    let g = *r.pick(&[3i64, 4, 5, 6, 8, 12, 16]);
    Some(match r.below(16) {
        0..=3 => {
            let b = simple_ring_in(r, 0, g, 0, g, 10)?;
            (IG::LineString(style_ring(r, &b, None)), pick_lat(r), "ring.simple")
        }
        4 | 5 => {
            let (w, h) = (r.range(2, 9), r.range(2, 9));
            let b = shell_around(r, 0, 0, w, h);
            (IG::LineString(style_ring(r, &b, None)), pick_lat(r), "ring.box+collinear")
        }
        6 | 7 => {
            let b = collinear_at_least(&simple_ring_in(r, 0, g, 0, g, 8)?);
            (IG::LineString(style_ring(r, &b, None)), pick_lat(r), "ring.collinear-at-least")
        }
        8 => {
            // heavy repeats
            let mut v = simple_ring_in(r, 0, g, 0, g, 8)?;
            for _ in 0..r.range(1, 4) {
                v = style_ring(r, &v, None);
                let d = cyc_distinct(&v);
                if d.len() < 3 {
                    return None;
                }
                // keep repeats: re-close without deduplicating
            }
            (IG::LineString(v), pick_lat(r), "ring.repeats")
        }
        9 | 10 => {
            // rings without area
            let (p, q) = ((r.range(0, g), r.range(0, g)), (r.range(0, g), r.range(0, g)));
            let v: Vec<IP> = match r.below(7) {
                0 => vec![p; r.range(1, 6) as usize],
                1 => vec![p, q, p],
                2 => vec![p, q, q, p],
                3 => vec![p, q, p, q, p],
                4 => vec![p, p, q, p],
                _ => {
                    // >= 3 distinct collinear points in random order
                    let d = (r.range(-3, 3), r.range(-3, 3));
                    let k = r.range(3, 6);
                    let mut v: Vec<IP> = (0..k).map(|_| { let t = r.range(-4, 4); (p.0 + t * d.0, p.1 + t * d.1) }).collect();
                    let f = v[0];
                    v.push(f);
                    v
                }
            };
            (IG::LineString(v), pick_lat(r), "ring.without-area")
        }
        11 => {
            // not closed / too short: outside the domain, observed only
            let k = r.range(0, 5);
            (IG::LineString((0..k).map(|_| (r.range(0, g), r.range(0, g))).collect()), pick_lat(r), "ring.open(observe)")
        }
        12 => {
            // random closed walk: mostly self-crossing
            let k = r.range(4, 7);
            let mut v: Vec<IP> = (0..k).map(|_| (r.range(0, g), r.range(0, g))).collect();
            let f = v[0];
            v.push(f);
            (IG::LineString(v), pick_lat(r), "ring.random-walk")
        }
        13 => {
            let t = gen_sliver(r);
            (IG::LineString(style_ring(r, &[t[0], t[1], t[2], t[0]], None)), Lat { ox: 0, oy: 0, sh: pick_sh(r), shear: 0 }, "ring.sliver")
        }
        _ => {
            let mixed = r.chance(1, 2);
            let (rings, name) = gen_poly_star(r, mixed, big)?;
            (IG::LineString(rings[0].clone()), lat_scale_only(r), if name == "poly.wide" { "ring.wide" } else { "ring.mixed-exponents" })
        }
    })
}

pub fn gen_case(r: &mut Rng, big: bool) -> Option<(IG, Lat, &'static str)> {
    // rings of realistic length (a count just beyond a power of two, or 130-700 coordinates), as shell, as hole of a
    // big rectangle, or as member of a MultiPolygon after two short members
    if r.chance(1, 1000) {
        let n = crate::gen::long_count(r);
        let ring = crate::gen::long_ring(r, n);
        let (x0, x1) = (ring.iter().map(|p| p.0).min().unwrap(), ring.iter().map(|p| p.0).max().unwrap());
        let (y0, y1) = (ring.iter().map(|p| p.1).min().unwrap(), ring.iter().map(|p| p.1).max().unwrap());
        let frame = vec![(x0 - 3, y0 - 3), (x1 + 3, y0 - 3), (x1 + 3, y1 + 3), (x0 - 3, y1 + 3), (x0 - 3, y0 - 3)];
        let g = match r.below(3) {
            0 => IG::Polygon(vec![ring]),
            1 => IG::Polygon(vec![frame, ring]),
            _ => IG::MultiPolygon(vec![vec![vec![(x1 + 10, 0), (x1 + 12, 0), (x1 + 12, 2), (x1 + 10, 0)]], vec![vec![(x1 + 20, 0), (x1 + 22, 0), (x1 + 22, 2), (x1 + 20, 2), (x1 + 20, 0)]], vec![ring]]),
        };
        return Some((g, pick_lat(r), "poly.long-ring"));
    }
    let g = *r.pick(&[3i64, 4, 6, 8, 16, 64, 256]);
    let pt = |r: &mut Rng| (r.range(0, g), r.range(0, g));
    Some(match r.below(100) {
        0..=21 => (IG::Polygon(gen_poly_small(r)?), pick_lat(r), "poly.small"),
        22..=33 => (IG::Polygon(gen_poly_grid(r)?), pick_lat(r), "poly.grid-holes"),
        34..=41 => {
            let (rings, name) = gen_poly_star(r, false, big)?;
            (IG::Polygon(rings), lat_scale_only(r), name)
        }
        42..=49 => {
            let (rings, name) = gen_poly_star(r, true, big)?;
            (IG::Polygon(rings), lat_scale_only(r), name)
        }
        50..=57 => match r.below(4) {
            0 => (IG::Rect((rnd_mag(r, 48), rnd_mag(r, 30)), (rnd_mag(r, 40), rnd_mag(r, 50))), lat_scale_only(r), "rect.wide"),
            _ => (IG::Rect(pt(r), pt(r)), pick_lat(r), "rect.small"),
        },
        58..=67 => match r.below(6) {
            0 => {
                let b = r.range(10, 50) as u32;
                (IG::Triangle((rnd_mag(r, b), rnd_mag(r, b)), (rnd_mag(r, b), rnd_mag(r, b)), (rnd_mag(r, b), rnd_mag(r, b))), lat_scale_only(r), "triangle.wide")
            }
            1 => {
                let t = gen_sliver(r);
                (IG::Triangle(t[0], t[1], t[2]), lat_scale_only(r), "triangle.sliver")
            }
            _ => (IG::Triangle(pt(r), pt(r), pt(r)), pick_lat(r), "triangle.small"),
        },
        68..=75 => {
            if r.chance(1, 5) {
                (IG::MultiPolygon(gen_mp_wide(r)?), lat_scale_only(r), "multipolygon.wide")
            } else {
                (gen_multipolygon(r)?, pick_lat(r), "multipolygon")
            }
        }
        76..=83 => {
            if r.chance(1, 5) {
                (gen_gc_wide(r)?, lat_scale_only(r), "collection.wide")
            } else {
                (gen_gc(r, 0)?, pick_lat(r), "collection")
            }
        }
        84..=87 => {
            let k = *r.pick(&["Point", "MultiPoint", "Line", "LineString", "LinearRing", "MLS", "MLS-loop", "Empty"]);
            (gen_kind(r, k, g.min(16))?, pick_lat(r), "no-area-kinds")
        }
        _ => return gen_ring_case(r, big),
    })
}

// ------------------------------------------------------------------------------------------
// hang detection: a geo call that never returns (e.g. a skip-repeated-points loop that lost its exit)
// must end as a recorded violation with a witness, not as a shard that the driver kills after 30 minutes
// ------------------------------------------------------------------------------------------
static BEAT: AtomicU64 = AtomicU64::new(0);
const BEAT_DONE: u64 = u64::MAX;
/// no case takes longer than a few milliseconds; a suspected hang is confirmed by executing the same case a
/// second time in a helper thread and waiting HANG_SECS again, so a starved or stopped process cannot
/// produce a false alarm
const HANG_SECS: u64 = 30;
fn start_watchdog(rerun: Arc<dyn Fn(u64) + Send + Sync>, on_hang: Box<dyn Fn(u64) + Send>) {
    // measured in CPU time burnt by the process (crate::report::cpu_ms), not wall-clock: a starved or stopped
    // shard accumulates none, a call that does not return accumulates it at full rate
    let cpu = crate::report::cpu_ms;
    std::thread::spawn(move || {
        let mut last = BEAT.load(Ordering::SeqCst);
        let mut since = cpu();
        loop {
            std::thread::sleep(Duration::from_millis(250));
            let b = BEAT.load(Ordering::SeqCst);
            if b == BEAT_DONE {
                return;
            }
            if b != last {
                last = b;
                since = cpu();
                continue;
            }
            if b == 0 || cpu().saturating_sub(since) < HANG_SECS * 1000 {
                continue;
            }
            let k = b - 1;
            let (tx, rx) = std::sync::mpsc::channel();
            let rr = rerun.clone();
            std::thread::spawn(move || {
                rr(k);
                let _ = tx.send(());
            });
            // the original execution and the re-execution both burn CPU now: wait for 2 x HANG_SECS of it
            let c0 = cpu();
            let returned = loop {
                if rx.recv_timeout(Duration::from_millis(250)).is_ok() || BEAT.load(Ordering::SeqCst) != b {
                    break true;
                }
                if cpu().saturating_sub(c0) >= 2 * HANG_SECS * 1000 {
                    break false;
                }
            };
            if returned {
                since = cpu(); // the re-execution returned (or the main thread moved on): no hang
                continue;
            }
            on_hang(k);
        }
    });
}

pub fn run(ctx: &Ctx, sh: &mut Shard) {
    {
        let (seed, shard, big) = (ctx.seed, ctx.shard, ctx.tier == "thorough");
        let c = Ctx { prop: ctx.prop.clone(), seed, shard, nshards: ctx.nshards, tier: ctx.tier.clone(), budget: ctx.budget, out: ctx.out.clone(), replay: None, only: ctx.only, trace: false };
        let rerun = Arc::new(move |k: u64| {
            let mut r = Rng::derive(seed, shard, k);
            let mut scratch = Shard::new();
            let _ = guard(|| {
                if let Some((g, lat, st)) = gen_case(&mut r, big) {
                    check_geom(&mut scratch, &g, &lat, st, false)
                }
            });
        });
        let on_hang = Box::new(move |k: u64| {
            let mut r = Rng::derive(seed, shard, k);
            let mut sh = Shard::new();
            sh.cases = k + 1;
            let (kind, detail) = match gen_case(&mut r, big) {
                Some((g, lat, st)) => (
                    g.kind(),
                    json!({"property": "C05", "check": "hang", "g": g.json(), "lat": lat.json(), "stratum": st, "seed": seed, "shard": shard, "k": k,
                           "expected": "every Area / Winding / Orient call on this input returns", "got": format!("no return within {HANG_SECS} s of CPU time, twice (original execution and one re-execution)"),
                           "geo_f64": format!("{:?}", g.to_geo(&lat))}),
                ),
                None => ("?", json!({"property": "C05", "check": "hang", "seed": seed, "shard": shard, "k": k, "expected": "case returns", "got": "hang"})),
            };
            sh.violation(&format!("hang|{kind}|-"), detail);
            sh.notes.insert("hang".into(), json!("the shard was ended by the in-process hang detector; counters of the cases before the hang are not included"));
            sh.write(&c);
            std::process::exit(0);
        });
        start_watchdog(rerun, on_hang);
    }
    if ctx.shard == 0 && ctx.only.is_none() {
        oracle_selfcheck(sh);
    }
    let big = ctx.tier == "thorough";
    for k in ctx.case_indices() {
        if sh.cases >= ctx.budget {
            break;
        }
        ctx.mark_case(k);
        BEAT.store(k + 1, Ordering::SeqCst);
        let mut r = Rng::derive(ctx.seed, ctx.shard, k);
        sh.cases += 1;
        // an i128 overflow anywhere in generator or oracle (none has been observed: the strata keep
        // |coordinate| < 2^58 and n <= 64) makes the case inconclusive, never a verdict
        let res = guard(|| match gen_case(&mut r, big) {
            Some((g, lat, stratum)) => check_geom(sh, &g, &lat, stratum, false),
            None => sh.class("gen:gave-up"),
        });
        match res {
            Ok(()) => {}
            Err(Caught::Panic(s)) => panic!("harness bug in case {k}: {s}"),
            Err(e) => sh.inconclusive(&format!("case:{e:?}")),
        }
    }
    BEAT.store(BEAT_DONE, Ordering::SeqCst);
}

/// The exact oracle against the harness's independent rational implementation (ig.rs / q.rs) on small rings
fn oracle_selfcheck(sh: &mut Shard) {
    let mut r = Rng::new(0xC05);
    let (mut n, mut bad) = (0u64, 0u64);
    for _ in 0..4000 {
        let g = r.range(2, 6);
        let k = r.range(3, 7);
        let mut v: Vec<IP> = (0..k).map(|_| (r.range(0, g), r.range(0, g))).collect();
        let f = v[0];
        v.push(f);
        if v.windows(2).any(|w| w[0] == w[1]) {
            continue;
        }
        n += 1;
        let mine = ring_class(&v);
        let theirs = simple_ring(&v);
        let a2 = ring_area2(&v);
        let ok = match mine {
            RC::Simple(s) => theirs && s as i128 == a2.signum(),
            RC::Flat => !theirs,
            RC::NonSimple => !theirs,
            RC::Open => false,
        } && ring_ex(&v).a2 == a2;
        if !ok {
            bad += 1;
        }
    }
    sh.notes.insert("oracle_selfcheck".into(), json!({"rings": n, "disagreements_with_ig_rs": bad}));
    if bad > 0 {
        sh.inconclusive("oracle self-check disagreement");
    }
}

pub fn replay(v: &Value, sh: &mut Shard) {
    let g = IG::from_json(&v["g"]).expect("g");
    let lat = Lat::from_json(&v["lat"]);
    println!("C05 replay: {}\n  as f64 geometry (Triangle::new may re-order vertices): {:?}\n  lattice {:?}", g.json(), g.to_geo(&lat), lat);
    {
        let (g2, lat2) = (g.clone(), lat);
        let rerun = Arc::new(move |_k: u64| {
            let mut scratch = Shard::new();
            let _ = guard(|| check_geom(&mut scratch, &g2, &lat2, "replay", false));
        });
        let on_hang = Box::new(move |_k: u64| {
            println!("  VIOLATION hang: a geo call on this input did not return within {HANG_SECS} s (twice)");
            println!("replay: violations=1");
            std::process::exit(1);
        });
        start_watchdog(rerun, on_hang);
        BEAT.store(1, Ordering::SeqCst);
    }
    check_geom(sh, &g, &lat, v["stratum"].as_str().unwrap_or("replay"), true);
    BEAT.store(BEAT_DONE, Ordering::SeqCst);
}
