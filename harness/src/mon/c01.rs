//! C01 — relate() returns the true DE-9IM matrix.
use crate::gen::*;
use crate::ig::*;
use crate::model::{self, mstr, transpose, Classes};
use crate::report::*;
use crate::rng::{Fnv, Rng};
use crate::with_geom;
use geo::coordinate_position::CoordPos;
use geo::dimensions::Dimensions;
use geo::relate::IntersectionMatrix;
use geo::{Geometry, Relate};
use serde_json::{json, Value};

pub fn im_string(m: &IntersectionMatrix) -> String {
    let mut s = String::new();
    for a in [CoordPos::Inside, CoordPos::OnBoundary, CoordPos::Outside] {
        for b in [CoordPos::Inside, CoordPos::OnBoundary, CoordPos::Outside] {
            s.push(match m.get(a, b) {
                Dimensions::Empty => 'F',
                Dimensions::ZeroDimensional => '0',
                Dimensions::OneDimensional => '1',
                Dimensions::TwoDimensional => '2',
            });
        }
    }
    s
}
pub fn transpose_str(s: &str) -> String {
    let c: Vec<char> = s.chars().collect();
    [0, 3, 6, 1, 4, 7, 2, 5, 8].iter().map(|&i| c[i]).collect()
}

pub fn relate_enum(a: &Geometry<f64>, b: &Geometry<f64>) -> Result<String, String> {
    call(|| im_string(&a.relate(b)))
}
pub fn relate_concrete(a: &Geometry<f64>, b: &Geometry<f64>) -> Result<String, String> {
    call(|| with_geom!(a, x => with_geom!(b, y => im_string(&x.relate(y)))))
}

/// Narrow, input-defined classes of the defects known on the pinned tree (see known_findings.json).
pub fn known_class(_a: &IG, _b: &IG, _cl: Classes) -> &'static str {
    "-"
}

pub fn detail(check: &str, a: &IG, b: &IG, lat: &Lat, expected: &str, got: &str, extra: Value) -> Value {
    json!({"property": "C01", "check": check, "a": a.json(), "b": b.json(), "lat": lat.json(), "expected": expected, "got": got, "extra": extra,
           "a_geo": format!("{:?}", a.to_geo(lat)), "b_geo": format!("{:?}", b.to_geo(lat))})
}

pub fn check_pair(sh: &mut Shard, r: &mut Rng, a: &IG, b: &IG, lat: &Lat, verbose: bool) {
    sh.cases += 1;
    let (ma, mb) = (a.to_model(), b.to_model());
    let orc = match guard(|| model::relate(&ma, &mb)) {
        Ok(o) => o,
        Err(Caught::Panic(s)) => panic!("oracle bug: {s}"),
        Err(e) => {
            sh.inconclusive(&format!("oracle:{e:?}"));
            return;
        }
    };
    let exp = mstr(&orc.m);
    let pair = format!("{}x{}", a.kind(), b.kind());
    let (ga, gb) = (a.to_geo(lat), b.to_geo(lat));
    let kc = known_class(a, b, orc.classes);
    // 1. the matrix itself
    sh.eval(1);
    match relate_enum(&ga, &gb) {
        Ok(got) => {
            if verbose {
                println!("relate {} : expected {} got {}", pair, exp, got);
            }
            if got != exp {
                sh.violation(&format!("relate.matrix|{pair}|{kc}"), detail("relate.matrix", a, b, lat, &exp, &got, json!({"classes": orc.classes.names()})));
            }
        }
        Err(p) => sh.violation(&format!("relate.panic|{pair}|{kc}"), detail("relate.panic", a, b, lat, &exp, &p, json!({"at": last_panic_loc()}))),
    }
    // 2. operands swapped give the transpose (judged against the oracle's transpose)
    sh.eval(1);
    let expt = mstr(&transpose(&orc.m));
    match relate_enum(&gb, &ga) {
        Ok(got) => {
            if got != expt {
                let kc2 = known_class(b, a, orc.classes);
                sh.violation(&format!("relate.transpose|{}x{}|{kc2}", b.kind(), a.kind()), detail("relate.transpose", b, a, lat, &expt, &got, json!({"classes": orc.classes.names()})));
            }
        }
        Err(p) => sh.violation(&format!("relate.panic|{}x{}|{kc}", b.kind(), a.kind()), detail("relate.panic", b, a, lat, &expt, &p, json!({"at": last_panic_loc()}))),
    }
    // 3. concrete-type entry points (not through the Geometry enum)
    sh.eval(1);
    match relate_concrete(&ga, &gb) {
        Ok(got) => {
            if got != exp {
                sh.violation(&format!("relate.concrete|{pair}|{kc}"), detail("relate.concrete", a, b, lat, &exp, &got, json!({})));
            }
        }
        Err(p) => sh.violation(&format!("relate.panic.concrete|{pair}|{kc}"), detail("relate.panic", a, b, lat, &exp, &p, json!({"at": last_panic_loc()}))),
    }
    // 4. other spellings of the same point sets
    for (which, base) in [(0, a), (1, b)] {
        for (name, alt) in respellings(r, base) {
            sh.eval(1);
            let galt = alt.to_geo(lat);
            let (x, y, xa, xb) = if which == 0 { (&galt, &gb, &alt, b) } else { (&ga, &galt, a, &alt) };
            let kc3 = known_class(xa, xb, orc.classes);
            match relate_enum(x, y) {
                Ok(got) => {
                    if got != exp {
                        sh.violation(&format!("relate.spelling|{name}|{}x{}|{kc3}", xa.kind(), xb.kind()), detail("relate.spelling", xa, xb, lat, &exp, &got, json!({"spelling": name, "of_operand": which})));
                    }
                }
                Err(p) => sh.violation(&format!("relate.panic|{}x{}|{kc3}", xa.kind(), xb.kind()), detail("relate.panic", xa, xb, lat, &exp, &p, json!({"spelling": name}))),
            }
            sh.class(&format!("spelling:{name}"));
        }
    }
    // 5. -0.0 and +0.0 are one and the same coordinate: an operand whose zeros are written as -0.0 is the same point set
    {
        use geo::{CoordsIter, MapCoords};
        let has_zero = |g: &Geometry<f64>| g.coords_iter().any(|c| c.x == 0.0 || c.y == 0.0);
        let neg = |c: geo::Coord<f64>| geo::Coord { x: if c.x == 0.0 { -0.0 } else { c.x }, y: if c.y == 0.0 { -0.0 } else { c.y } };
        for which in 0..2 {
            let (x, y) = if which == 0 { (ga.map_coords(neg), gb.clone()) } else { (ga.clone(), gb.map_coords(neg)) };
            if !has_zero(if which == 0 { &ga } else { &gb }) {
                continue;
            }
            sh.eval(1);
            match relate_enum(&x, &y) {
                Ok(got) => {
                    if got != exp {
                        sh.violation(&format!("relate.spelling|negative zero|{pair}|{kc}"), detail("relate.spelling", a, b, lat, &exp, &got, json!({"spelling": "zeros of one operand written as -0.0", "of_operand": which})));
                    }
                }
                Err(p) => sh.violation(&format!("relate.panic|{pair}|{kc}"), detail("relate.panic", a, b, lat, &exp, &p, json!({"spelling": "negative zero"}))),
            }
            sh.class("spelling:negative zero");
        }
    }
    // bookkeeping
    sh.class(&format!("pair:{pair}"));
    for n in orc.classes.names() {
        sh.class(&format!("class:{n}"));
    }
    sh.class(&format!("matrix:{exp}"));
    if lat.ox != 0 || lat.oy != 0 {
        sh.class("lattice:offset");
    }
    if lat.sh != 0 {
        sh.class("lattice:scaled");
    }
    let touching = orc.m[0][0] >= 0 || orc.m[0][1] >= 0 || orc.m[1][0] >= 0 || orc.m[1][1] >= 0;
    if touching || orc.classes.0 & !(Classes::BBOX_DISJOINT) != 0 {
        let mut h = Fnv::new();
        a.digest(&mut h);
        b.digest(&mut h);
        sh.nontrivial(h.0);
    }
    sh.sample(|| json!({"a": format!("{:?}", ga), "b": format!("{:?}", gb), "matrix": exp, "classes": orc.classes.names()}));
}

/// Rect as the polygon it stands for (a sheared rectangle is no Rect)
fn unrect(g: &IG) -> IG {
    match g {
        IG::Rect(a, b) => IG::Polygon(vec![IG::rect_ring(*a, *b)]),
        IG::Collection(v) => IG::Collection(v.iter().map(unrect).collect()),
        x => x.clone(),
    }
}

/// The DE-9IM matrix is invariant under a linear bijection of the plane. The unimodular integer map
/// (i,j) -> ((L+1)i + Lj, Li + (L-1)j) (determinant -1) sends the small lattice operands to operands with
/// coordinates around L·g whose edges are all nearly parallel: every direction comparison and orientation
/// test in relate now has products beyond 2^53 and must still be decided exactly. Expected: the oracle's
/// matrix of the small pre-images.
pub fn check_sheared(sh: &mut Shard, a: &IG, b: &IG, l: i64, verbose: bool) {
    let (ma, mb) = (a.to_model(), b.to_model());
    let orc = match guard(|| model::relate(&ma, &mb)) {
        Ok(o) => o,
        Err(_) => return,
    };
    let exp = mstr(&orc.m);
    let f = move |p: IP| ((l + 1) * p.0 + l * p.1, l * p.0 + (l - 1) * p.1);
    let (sa, sb) = (unrect(a).map(&f), unrect(b).map(&f));
    let (ga, gb) = (sa.to_geo(&Lat::ID), sb.to_geo(&Lat::ID));
    let pair = format!("{}x{}", sa.kind(), sb.kind());
    sh.eval(1);
    let det = |got: &str| json!({"property": "C01", "check": "relate.sheared", "kind": "sheared", "a": a.json(), "b": b.json(), "L": l, "expected": exp, "got": got,
        "a_geo": format!("{:?}", ga), "b_geo": format!("{:?}", gb), "classes": orc.classes.names()});
    match relate_enum(&ga, &gb) {
        Ok(got) => {
            if verbose {
                println!("relate of the sheared pair (L = {l}) {pair}: expected {exp} got {got}");
            }
            if got != exp {
                // known finding: where the operands cross properly, the node is a computed point; between two nearly
                // parallel edges of length ~L·g it is off by far more than the width of what it should fall into,
                // and relate labels it wrongly. Attributed only in this stratum and only with a proper crossing;
                // without one every predicate involved is exact and any wrong matrix is a violation.
                let kc = if orc.classes.0 & Classes::PROPER_CROSSING != 0 { "relate_ill_conditioned_crossing" } else { "-" };
                sh.violation(&format!("relate.sheared|{pair}|{kc}"), det(&got));
            }
        }
        Err(p) => sh.violation(&format!("relate.sheared.panic|{pair}|-"), det(&p)),
    }
    sh.class("sheared_pair");
}

pub fn gen_case(r: &mut Rng) -> (IG, IG, Lat) {
    // one case in 250: operands of realistic size / with a node of high degree (gen::gen_large_pair)
    if r.chance(1, 250) {
        if let Some((a, b, _)) = gen_large_pair(r) {
            return (a, b, Lat::random(r));
        }
    }
    let g = *r.pick(&[3i64, 3, 4, 4, 4, 5, 5, 6, 8, 12]);
    let a = gen_any(r, g);
    let b = partner(r, &a, g);
    let lat = Lat::random(r);
    if r.chance(1, 2) {
        (a, b, lat)
    } else {
        (b, a, lat)
    }
}

pub fn run(ctx: &Ctx, sh: &mut Shard) {
    // exhaustive sub-space (shard 0 only): every ordered pair of Point/Line/Triangle/Rect on a 3x3 lattice is too large
    // for quick; use 3x3 (coordinates 0..=2) for Point x {Line, Triangle, Rect} and Line x Line.
    if ctx.shard == 0 && ctx.only.is_none() {
        exhaustive_small(sh, if ctx.tier == "thorough" { 3 } else { 2 });
    }
    for k in ctx.case_indices() {
        if sh.cases >= ctx.budget {
            break;
        }
        ctx.mark_case(k);
        let mut r = Rng::derive(ctx.seed, ctx.shard, k);
        let (a, b, lat) = gen_case(&mut r);
        if a.n_segments() + b.n_segments() > 700 {
            continue;
        }
        if a.n_segments() + b.n_segments() > 90 {
            sh.class("size:more_than_90_segments");
        }
        check_pair(sh, &mut r, &a, &b, &lat, false);
        if k % 4 == 0 {
            let l = *r.pick(&[1i64 << 27, 100_000_000, 1 << 30, 3 << 28, (1 << 29) + 12345]);
            check_sheared(sh, &a, &b, l, false);
        }
    }
}

fn exhaustive_small(sh: &mut Shard, g: i64) {
    let pts: Vec<IP> = (0..=g).flat_map(|x| (0..=g).map(move |y| (x, y))).collect();
    let mut firsts: Vec<IG> = vec![];
    for &p in &pts {
        for &q in &pts {
            if IG::Line(p, q).valid() {
                firsts.push(IG::Line(p, q));
            }
            if IG::Rect(p, q).valid() && p < q {
                firsts.push(IG::Rect(p, q));
            }
            for &s in &pts {
                if p < q && q < s && IG::Triangle(p, q, s).valid() {
                    firsts.push(IG::Triangle(p, q, s));
                    firsts.push(IG::Triangle(p, s, q));
                }
            }
        }
    }
    let mut r = Rng::new(7);
    let mut n = 0u64;
    for a in &firsts {
        for &p in &pts {
            check_pair(sh, &mut r, a, &IG::Point(p), &Lat::ID, false);
            n += 1;
        }
        if let IG::Line(..) = a {
            for b in firsts.iter().filter(|x| matches!(x, IG::Line(..))) {
                check_pair(sh, &mut r, a, b, &Lat::ID, false);
                n += 1;
            }
        }
    }
    sh.notes.insert("exhaustive_subspace".into(), json!({"lattice": g + 1, "pairs": n, "what": "every (Line|Rect|Triangle, Point) and (Line, Line) pair on the lattice", "exhaustive": true}));
}

pub fn replay(v: &Value, sh: &mut Shard) {
    let a = IG::from_json(&v["a"]).expect("a");
    let b = IG::from_json(&v["b"]).expect("b");
    if v["kind"].as_str() == Some("sheared") {
        check_sheared(sh, &a, &b, v["L"].as_i64().unwrap(), true);
        return;
    }
    let lat = Lat::from_json(&v["lat"]);
    let mut r = Rng::new(1);
    println!("A = {:?}\nB = {:?}", a.to_geo(&lat), b.to_geo(&lat));
    check_pair(sh, &mut r, &a, &b, &lat, true);
}
