//! Fixed witnesses of open known findings that no generator of the monitors produces (found by the bug-hunting
//! agents, see DESIGN.md section 9). Each is one concrete input with the answer the property demands and the wrong
//! answer(s) recorded for the pinned tree. Shard 0 of the property's monitor runs them:
//!   * geo answers as the property demands  -> class `witness:<name>:now_correct`, nothing else;
//!   * geo gives exactly a recorded wrong answer -> a violation whose class is the finding id (printed as KNOWN-FINDING
//!     while the finding is open);
//!   * anything else (another wrong answer, a panic that is not recorded) -> class `-`: a VIOLATION.
use crate::report::*;
use geo::algorithm::line_measures::{Distance, Euclidean};
use geo::{wkt, Area, BooleanOps, Centroid, ClosestPoint, Contains, InteriorPoint, Intersects, MapCoords, Relate, StitchTriangles, TriangulateEarcut};
use geo::algorithm::line_intersection::{line_intersection, LineIntersection};
use geo::algorithm::line_measures::{Bearing, Destination};
use geo::algorithm::triangulate_delaunay::{DelaunayTriangulationConfig, TriangulateDelaunay};
use serde_json::json;

pub struct W {
    pub pid: &'static str,
    pub finding: &'static str,
    pub name: &'static str,
    pub input: &'static str,
    pub expected: &'static str,
    /// recorded wrong answers (prefix match)
    pub recorded_wrong: &'static [&'static str],
    pub run: fn() -> String,
}

fn im(m: geo::relate::IntersectionMatrix) -> String {
    super::c01::im_string(&m)
}
fn p2(x: f64) -> f64 {
    x
}

pub const ALL: &[W] = &[
    W {
        pid: "C01",
        finding: "relate_proper_crossing_at_member_touch_point",
        name: "line_area_crossing_at_touch_point_computed",
        input: "LINESTRING(774110 754372,81578 -169004) x square with hole + island whose vertex (218384 13404) lies on the hole side and on the line",
        expected: "10F0FF212",
        recorded_wrong: &["1010FF212"],
        run: || {
            let l = wkt!(LINESTRING(774110. 754372.,81578. -169004.));
            let b = wkt!(MULTIPOLYGON(((-30000000. -30000000.,30000000. -30000000.,30000000. 30000000.,-30000000. 30000000.,-30000000. -30000000.),(-23740072. -2981403.,9672736. 1195198.,10672736. -6804802.,-22740072. -10981403.,-23740072. -2981403.)),((218384. 13404.,35980. -419818.,-146436. -283006.,218384. 13404.))));
            im(l.relate(&b))
        },
    },
    W {
        pid: "C01",
        finding: "relate_rounded_direction_and_edge_distance",
        name: "edge_ends_with_equal_rounded_delta",
        input: "LINESTRING(2^53 0,0 1) x LINESTRING(2^53 0,0.5 1)",
        expected: "FF1F00102",
        recorded_wrong: &["1F1F00102"],
        run: || {
            let t = 9007199254740992.0;
            let a = geo::LineString::from(vec![(t, 0.0), (0.0, 1.0)]);
            let b = geo::LineString::from(vec![(t, 0.0), (0.5, 1.0)]);
            im(a.relate(&b))
        },
    },
    W {
        pid: "C01",
        finding: "relate_rounded_direction_and_edge_distance",
        name: "edge_distance_tie",
        input: "LINESTRING(-2^52 0,10 0) x LINESTRING(0.25 0,0.5 0)",
        expected: "101FF0FF2",
        recorded_wrong: &["101FF01F2"],
        run: || {
            let a = geo::LineString::from(vec![(-4503599627370496.0, 0.0), (10.0, 0.0)]);
            let b = geo::LineString::from(vec![(0.25, 0.0), (0.5, 0.0)]);
            im(a.relate(&b))
        },
    },
    W {
        pid: "C01",
        finding: "orient2d_underflow",
        name: "relate_square_1e200_point_inside",
        input: "POLYGON((0 0,1e200 0,1e200 1e200,0 1e200,0 0)) x POINT(0.5e200 0.25e200)",
        expected: "0F2FF1FF2",
        recorded_wrong: &["FF2FF10F2"],
        run: || {
            let s = 1e200;
            let a = geo::Polygon::new(geo::LineString::from(vec![(0.0, 0.0), (s, 0.0), (s, s), (0.0, s), (0.0, 0.0)]), vec![]);
            let b = geo::Point::new(0.5 * s, 0.25 * s);
            im(a.relate(&b))
        },
    },
    W {
        pid: "C04",
        finding: "boolops_closing_vertex_within_snap_grid",
        name: "diamond_with_near_coincident_closing_vertex",
        input: "POLYGON((1 0,0 1,-1 0,0 -1,1 -2.449e-16,1 0)) intersection POLYGON((-2 -2,2 -2,2 2,-2 2,-2 -2))",
        expected: "area 2.000",
        recorded_wrong: &["area 1.000"],
        run: || {
            let a = geo::Polygon::new(geo::LineString::from(vec![(1.0, 0.0), (0.0, 1.0), (-1.0, 0.0), (0.0, -1.0), (1.0, -2.4492935982947064e-16), (1.0, 0.0)]), vec![]);
            let b = wkt!(POLYGON((-2. -2.,2. -2.,2. 2.,-2. 2.,-2. -2.)));
            format!("area {:.3}", a.intersection(&b).unsigned_area())
        },
    },
    W {
        pid: "C06",
        finding: "centroid_nearly_flat_polygon_noise",
        name: "decimal_flat_polygon_centroid_outside_hull",
        input: "POLYGON((0.2 0.8,0.3 0.7,1.0 0.0,0.9 0.1,0.2 0.8))",
        expected: "inside the bounding box [0.2,1]x[0,0.8] of the coordinates",
        recorded_wrong: &["outside: (1.300 -0.300)"],
        run: || {
            let a = wkt!(POLYGON((0.2 0.8,0.3 0.7,1.0 0.0,0.9 0.1,0.2 0.8)));
            match a.centroid() {
                Some(c) if (0.2..=1.0).contains(&c.x()) && (0.0..=0.8).contains(&c.y()) => "inside the bounding box [0.2,1]x[0,0.8] of the coordinates".into(),
                Some(c) => format!("outside: ({:.3} {:.3})", c.x(), c.y()),
                None => "None".into(),
            }
        },
    },
    W {
        pid: "C07",
        finding: "distance_zero_for_disjoint_near_collinear",
        name: "fibonacci_point_next_to_line",
        input: "LINE(0 0,267914296 165580141) to POINT(102334155 63245986) (cross product 1: disjoint, true distance 3.175e-9)",
        expected: "positive",
        recorded_wrong: &["0e0"],
        run: || {
            let l = geo::Line::new(geo::coord! {x: p2(0.0), y: 0.0}, geo::coord! {x: 267914296.0, y: 165580141.0});
            let p = geo::Point::new(102334155.0, 63245986.0);
            let d = Euclidean.distance(&p, &l);
            if d > 0.0 && d < 1e-8 {
                "positive".into()
            } else {
                format!("{:e}", d)
            }
        },
    },
    W {
        pid: "C05",
        finding: "signed_area_sign_within_rounding",
        name: "thin_clockwise_quad_has_positive_signed_area",
        input: "POLYGON((0 0,441273434 288619855,331839821 217043569,282022999 184460316,0 0)) (exact twice-area -4: clockwise)",
        expected: "negative",
        recorded_wrong: &["4e0"],
        run: || {
            let a = wkt!(POLYGON((0. 0.,441273434. 288619855.,331839821. 217043569.,282022999. 184460316.,0. 0.)));
            let v = a.signed_area();
            if v < 0.0 { "negative".into() } else { format!("{:e}", v) }
        },
    },
    W {
        pid: "C10",
        finding: "stitch_non_conforming_triangulation",
        name: "stitch_of_earcut_triangles_with_t_junction",
        input: "POLYGON((3 1,5 0,7 6,3 1),(4 1,5 1,5 2,4 1)).earcut_triangles().stitch_triangulation()",
        expected: "area 6.5",
        recorded_wrong: &["area 13.0"],
        run: || {
            let a = wkt!(POLYGON((3. 1.,5. 0.,7. 6.,3. 1.),(4. 1.,5. 1.,5. 2.,4. 1.)));
            match a.earcut_triangles().stitch_triangulation() {
                Ok(mp) => format!("area {:.1}", mp.unsigned_area()),
                Err(e) => format!("error {e:?}"),
            }
        },
    },
    W {
        pid: "C10",
        finding: "constrained_triangulation_far_offset_face_selection",
        name: "constrained_triangulation_of_triangle_at_2_pow_50",
        input: "POLYGON((5 3,1 2,2 2,5 3)) translated by (2^50, 2^50): constrained_triangulation",
        expected: "1 triangle(s)",
        recorded_wrong: &["0 triangle(s)"],
        run: || {
            let o = 1125899906842624.0;
            let a = geo::Polygon::new(geo::LineString::from(vec![(5.0 + o, 3.0 + o), (1.0 + o, 2.0 + o), (2.0 + o, 2.0 + o), (5.0 + o, 3.0 + o)]), vec![]);
            match a.constrained_triangulation(DelaunayTriangulationConfig::default()) {
                Ok(t) => format!("{} triangle(s)", t.len()),
                Err(e) => format!("error {e:?}"),
            }
        },
    },
    W {
        pid: "C02",
        finding: "rect_contains_thin_polygon_depends_on_ring_start",
        name: "rect_contains_sliver_started_at_1_1",
        input: "RECT(0 0,1 1).contains(POLYGON((1 1,0 0,1e-17 0,1 1))) (the same ring started at (0 0) answers true)",
        expected: "true",
        recorded_wrong: &["false"],
        run: || {
            let r = geo::Rect::new((0.0, 0.0), (1.0, 1.0));
            let a = geo::Polygon::new(geo::LineString::from(vec![(1.0, 1.0), (0.0, 0.0), (1e-17, 0.0), (1.0, 1.0)]), vec![]);
            format!("{}", r.contains(&a))
        },
    },
    W {
        pid: "C07",
        finding: "distance_point_on_line_not_zero",
        name: "point_on_line_with_decimal_coordinates",
        input: "LINE(21.7 30.1,148.9 -54.7) to POINT(37.6 19.5) (intersects is true)",
        expected: "0e0 and intersects",
        recorded_wrong: &["1.48"],
        run: || {
            let l = geo::Line::new(geo::coord! {x: 21.7, y: 30.1}, geo::coord! {x: 148.9, y: -54.7});
            let p = geo::Point::new(37.6, 19.5);
            if !l.intersects(&p) {
                return "the point is not on the line (witness no longer applies)".into();
            }
            let d = Euclidean.distance(&p, &l);
            if d == 0.0 { "0e0 and intersects".into() } else { format!("{:e}", d) }
        },
    },
    W {
        pid: "C11",
        finding: "line_intersection_ill_conditioned_location",
        name: "nearly_parallel_tenths",
        input: "LINE(-0.2 -0.5,0.5 0.2) x LINE(1.0 0.7,-0.4 -0.7) (proper crossing near (0.3 0.0) as doubles)",
        expected: "proper point within 1e-6 of (0.3 0)",
        recorded_wrong: &["proper point 7.07"],
        run: || {
            let p: geo::Line<f64> = geo::Line::new(geo::coord! {x: -0.2, y: -0.5}, geo::coord! {x: 0.5, y: 0.2});
            let q = geo::Line::new(geo::coord! {x: 1.0, y: 0.7}, geo::coord! {x: -0.4, y: -0.7});
            match line_intersection(p, q) {
                Some(LineIntersection::SinglePoint { intersection: c, is_proper: true }) => {
                    let d = (c.x - 0.3).hypot(c.y);
                    if d < 1e-6 { "proper point within 1e-6 of (0.3 0)".into() } else { format!("proper point {:.2e} away", d) }
                }
                other => format!("{:?}", other),
            }
        },
    },
    W {
        pid: "C11",
        finding: "line_intersection_ill_conditioned_location",
        name: "well_conditioned_crossing_at_1e110",
        input: "LINE(-2m -m,2m m) x LINE(-m 3m,2m -3m), m = 1e110 (crossing (0.4m 0.2m))",
        expected: "proper point at (0.4m 0.2m)",
        recorded_wrong: &["proper point at (2.000m 1.000m)"],
        run: || {
            let m = 1e110f64;
            let p: geo::Line<f64> = geo::Line::new(geo::coord! {x: -2.0 * m, y: -m}, geo::coord! {x: 2.0 * m, y: m});
            let q = geo::Line::new(geo::coord! {x: -m, y: 3.0 * m}, geo::coord! {x: 2.0 * m, y: -3.0 * m});
            match line_intersection(p, q) {
                Some(LineIntersection::SinglePoint { intersection: c, is_proper: true }) => {
                    if ((c.x / m) - 0.4).abs() < 1e-9 && ((c.y / m) - 0.2).abs() < 1e-9 { "proper point at (0.4m 0.2m)".into() } else { format!("proper point at ({:.3}m {:.3}m)", c.x / m, c.y / m) }
                }
                other => format!("{:?}", other),
            }
        },
    },
    W {
        pid: "C12",
        finding: "interior_point_thin_triangle_off_geometry",
        name: "triangle_interior_point_is_its_rounded_centroid",
        input: "TRIANGLE(0.1 0.1,0.5 0.3,0.3 0.2).interior_point()",
        expected: "intersects the triangle",
        recorded_wrong: &["does not intersect"],
        run: || {
            let t = geo::Triangle::new(geo::coord! {x: 0.1, y: 0.1}, geo::coord! {x: 0.5, y: 0.3}, geo::coord! {x: 0.3, y: 0.2});
            let p = t.interior_point();
            if t.intersects(&p) { "intersects the triangle".into() } else { format!("does not intersect: {:?}", p) }
        },
    },
    W {
        pid: "C13",
        finding: "relate_changes_under_exact_map_outside_relate_domain",
        name: "non_simple_multilinestring_reflected",
        input: "MULTILINESTRING((1 3,0 0),(4 0,0 1)) x LINESTRING(1 3,0 0), and both mapped by y -> 6 - y",
        expected: "same matrix in both frames",
        recorded_wrong: &["1F1F00FF2 vs 0F1F001F2"],
        run: || {
            let a = wkt!(MULTILINESTRING((1. 3.,0. 0.),(4. 0.,0. 1.)));
            let b = wkt!(LINESTRING(1. 3.,0. 0.));
            let f = |c: geo::Coord<f64>| geo::Coord { x: c.x, y: 6.0 - c.y };
            let (m1, m2) = (im(a.relate(&b)), im(a.map_coords(f).relate(&b.map_coords(f))));
            if m1 == m2 { "same matrix in both frames".into() } else { format!("{m1} vs {m2}") }
        },
    },
    W {
        pid: "C13",
        finding: "affine_inverse_of_integer_transform",
        name: "i32_scale_2_inverse",
        input: "AffineTransform::<i32>::scale(2, 2, (0,0)).inverse()",
        expected: "None, or a transform mapping (8 12) to (4 6)",
        recorded_wrong: &["Some(transform mapping (8 12) to (0 0))"],
        run: || {
            let t = geo::AffineTransform::<i32>::scale(2, 2, geo::coord! {x: 0, y: 0});
            match t.inverse() {
                None => "None, or a transform mapping (8 12) to (4 6)".into(),
                Some(i) => {
                    let c = i.apply(geo::coord! {x: 8, y: 12});
                    if c == (geo::coord! {x: 4, y: 6}) { "None, or a transform mapping (8 12) to (4 6)".into() } else { format!("Some(transform mapping (8 12) to ({} {}))", c.x, c.y) }
                }
            }
        },
    },
    W {
        pid: "C19",
        finding: "triangle_map_coords_reorders_vertices",
        name: "triangle_reflected",
        input: "TRIANGLE(0 0,4 0,0 3).map_coords(|(x,y)| (-x,y))",
        expected: "(0 0) (-4 0) (0 3)",
        recorded_wrong: &["(0 3) (-4 0) (0 0)"],
        run: || {
            let t = geo::Triangle::new(geo::coord! {x: 0.0, y: 0.0}, geo::coord! {x: 4.0, y: 0.0}, geo::coord! {x: 0.0, y: 3.0});
            let m = t.map_coords(|c| geo::Coord { x: -c.x, y: c.y });
            let f = |c: geo::Coord<f64>| format!("({} {})", c.x + 0.0, c.y + 0.0);
            format!("{} {} {}", f(m.0), f(m.1), f(m.2))
        },
    },
    W {
        pid: "C20",
        finding: "sweep_intersections_depend_on_heap_addresses",
        name: "sweep_intersections_64_calls",
        input: "geo::sweep::Intersections over [LINE(3 3,1 0),LINE(1 2,3 3),LINE(1 3,3 1),LINE(2 3,1 1)], 64 calls with unrelated allocations in between",
        expected: "one outcome",
        recorded_wrong: &["different outcomes"],
        run: || {
            use geo::algorithm::sweep::Intersections;
            let lines = vec![
                geo::Line::new(geo::coord! {x: 3.0, y: 3.0}, geo::coord! {x: 1.0, y: 0.0}),
                geo::Line::new(geo::coord! {x: 1.0, y: 2.0}, geo::coord! {x: 3.0, y: 3.0}),
                geo::Line::new(geo::coord! {x: 1.0, y: 3.0}, geo::coord! {x: 3.0, y: 1.0}),
                geo::Line::new(geo::coord! {x: 2.0, y: 3.0}, geo::coord! {x: 1.0, y: 1.0}),
            ];
            let mut seen = std::collections::BTreeSet::new();
            let mut junk: Vec<Vec<u8>> = vec![];
            for i in 0..64usize {
                junk.push(vec![0u8; 8 + (i * 37) % 200]);
                if i % 3 == 0 {
                    junk.swap_remove(0);
                }
                let out = call(|| Intersections::from_iter(lines.iter().cloned()).take(64).map(|(a, b, x)| format!("{:?}{:?}{:?}", a, b, x)).collect::<Vec<_>>().join(";"));
                seen.insert(match out {
                    Ok(s) => s,
                    Err(p) => format!("panic: {}", p.chars().take(40).collect::<String>()),
                });
            }
            if seen.len() == 1 { "one outcome".into() } else { format!("different outcomes: {}", seen.len()) }
        },
    },
    W {
        pid: "C16",
        finding: "rhumb_nearly_east_west_ill_conditioned",
        name: "rhumb_round_trip_nearly_east_west",
        input: "Rhumb: a = (0 50), b = (170 50.00000001): destination(a, bearing(a,b), distance(a,b))",
        expected: "within 1 mm of b",
        recorded_wrong: &["2"],
        run: || {
            use geo::Rhumb;
            let (a, b) = (geo::Point::new(0.0, 50.0), geo::Point::new(170.0, 50.00000001));
            let d = Rhumb.destination(a, Rhumb.bearing(a, b), Rhumb.distance(a, b));
            let miss = Rhumb.distance(d, b);
            if miss < 1e-3 { "within 1 mm of b".into() } else { format!("{:.1} m from b", miss) }
        },
    },
];

pub fn run(pid: &str, sh: &mut Shard) {
    for w in ALL.iter().filter(|w| w.pid == pid) {
        sh.eval(1);
        let got = call(w.run);
        let det = |got: &str| json!({"property": pid, "check": "witness", "witness": w.name, "input": w.input, "expected": w.expected, "got": got, "finding": w.finding});
        match got {
            Ok(g) if g == w.expected => sh.class(&format!("witness:{}:now_correct", w.name)),
            Ok(g) => {
                let cls = if w.recorded_wrong.iter().any(|r| g.starts_with(r)) { w.finding } else { "-" };
                sh.class(&format!("witness:{}:{}", w.name, if cls == "-" { "different_wrong_answer" } else { "reproduces_recorded_wrong_answer" }));
                sh.violation(&format!("witness.{}|fixed input|{cls}", w.name), det(&g));
            }
            Err(p) => {
                let g = format!("panic: {p}");
                let cls = if w.recorded_wrong.iter().any(|r| g.starts_with(r)) { w.finding } else { "-" };
                sh.violation(&format!("witness.{}|fixed input|{cls}", w.name), det(&g));
            }
        }
    }
}
