//! Fixed witnesses of open known findings that no generator of the monitors produces (found by the bug-hunting
//! agents, see DESIGN.md section 9). Each is one concrete input with the answer the property demands and the wrong
//! answer(s) recorded for the pinned tree. Shard 0 of the property's monitor runs them:
//!   * geo answers as the property demands  -> class `witness:<name>:now_correct`, nothing else;
//!   * geo gives exactly a recorded wrong answer -> a violation whose class is the finding id (printed as KNOWN-FINDING
//!     while the finding is open);
//!   * anything else (another wrong answer, a panic that is not recorded) -> class `-`: a VIOLATION.
use crate::report::*;
use geo::algorithm::line_measures::{Distance, Euclidean};
use geo::{wkt, Area, BooleanOps, Centroid, Relate};
use serde_json::json;

pub struct W {
    pub pid: &'static str,
    pub finding: &'static str,
    pub name: &'static str,
    pub input: &'static str,
    pub expected: &'static str,
    /// recorded wrong answers (prefix match)
    pub recorded_wrong: &'static [&'static str],
    pub run: fn() -> String,
}

fn im(m: geo::relate::IntersectionMatrix) -> String {
    super::c01::im_string(&m)
}
fn p2(x: f64) -> f64 {
    x
}

pub const ALL: &[W] = &[
    W {
        pid: "C01",
        finding: "relate_proper_crossing_at_member_touch_point",
        name: "area_area_crossing_at_touch_point_of_members",
        input: "POLYGON((1 3,5 3,5 5,1 5,1 3)) x MULTIPOLYGON(((0 0,6 0,6 6,0 6,0 0),(2 2,4 2,4 4,2 4,2 2)),((3 2,4 3,3 4,2 3,3 2)))",
        expected: "21210F212",
        recorded_wrong: &["212101212"],
        run: || {
            let a = wkt!(POLYGON((1. 3.,5. 3.,5. 5.,1. 5.,1. 3.)));
            let b = wkt!(MULTIPOLYGON(((0. 0.,6. 0.,6. 6.,0. 6.,0. 0.),(2. 2.,4. 2.,4. 4.,2. 4.,2. 2.)),((3. 2.,4. 3.,3. 4.,2. 3.,3. 2.))));
            im(a.relate(&b))
        },
    },
    W {
        pid: "C01",
        finding: "relate_proper_crossing_at_member_touch_point",
        name: "line_area_crossing_at_touch_point_computed",
        input: "LINESTRING(774110 754372,81578 -169004) x square with hole + island whose vertex (218384 13404) lies on the hole side and on the line",
        expected: "10F0FF212",
        recorded_wrong: &["1010FF212"],
        run: || {
            let l = wkt!(LINESTRING(774110. 754372.,81578. -169004.));
            let b = wkt!(MULTIPOLYGON(((-30000000. -30000000.,30000000. -30000000.,30000000. 30000000.,-30000000. 30000000.,-30000000. -30000000.),(-23740072. -2981403.,9672736. 1195198.,10672736. -6804802.,-22740072. -10981403.,-23740072. -2981403.)),((218384. 13404.,35980. -419818.,-146436. -283006.,218384. 13404.))));
            im(l.relate(&b))
        },
    },
    W {
        pid: "C01",
        finding: "relate_rounded_direction_and_edge_distance",
        name: "edge_ends_with_equal_rounded_delta",
        input: "LINESTRING(2^53 0,0 1) x LINESTRING(2^53 0,0.5 1)",
        expected: "FF1F00102",
        recorded_wrong: &["1F1F00102"],
        run: || {
            let t = 9007199254740992.0;
            let a = geo::LineString::from(vec![(t, 0.0), (0.0, 1.0)]);
            let b = geo::LineString::from(vec![(t, 0.0), (0.5, 1.0)]);
            im(a.relate(&b))
        },
    },
    W {
        pid: "C01",
        finding: "relate_rounded_direction_and_edge_distance",
        name: "edge_distance_tie",
        input: "LINESTRING(-2^52 0,10 0) x LINESTRING(0.25 0,0.5 0)",
        expected: "101FF0FF2",
        recorded_wrong: &["101FF01F2"],
        run: || {
            let a = geo::LineString::from(vec![(-4503599627370496.0, 0.0), (10.0, 0.0)]);
            let b = geo::LineString::from(vec![(0.25, 0.0), (0.5, 0.0)]);
            im(a.relate(&b))
        },
    },
    W {
        pid: "C01",
        finding: "orient2d_underflow",
        name: "relate_square_1e200_point_inside",
        input: "POLYGON((0 0,1e200 0,1e200 1e200,0 1e200,0 0)) x POINT(0.5e200 0.25e200)",
        expected: "0F2FF1FF2",
        recorded_wrong: &["FF2FF10F2"],
        run: || {
            let s = 1e200;
            let a = geo::Polygon::new(geo::LineString::from(vec![(0.0, 0.0), (s, 0.0), (s, s), (0.0, s), (0.0, 0.0)]), vec![]);
            let b = geo::Point::new(0.5 * s, 0.25 * s);
            im(a.relate(&b))
        },
    },
    W {
        pid: "C04",
        finding: "boolops_closing_vertex_within_snap_grid",
        name: "diamond_with_near_coincident_closing_vertex",
        input: "POLYGON((1 0,0 1,-1 0,0 -1,1 -2.449e-16,1 0)) intersection POLYGON((-2 -2,2 -2,2 2,-2 2,-2 -2))",
        expected: "area 2.000",
        recorded_wrong: &["area 1.000"],
        run: || {
            let a = geo::Polygon::new(geo::LineString::from(vec![(1.0, 0.0), (0.0, 1.0), (-1.0, 0.0), (0.0, -1.0), (1.0, -2.4492935982947064e-16), (1.0, 0.0)]), vec![]);
            let b = wkt!(POLYGON((-2. -2.,2. -2.,2. 2.,-2. 2.,-2. -2.)));
            format!("area {:.3}", a.intersection(&b).unsigned_area())
        },
    },
    W {
        pid: "C06",
        finding: "centroid_nearly_flat_polygon_noise",
        name: "decimal_flat_polygon_centroid_outside_hull",
        input: "POLYGON((0.2 0.8,0.3 0.7,1.0 0.0,0.9 0.1,0.2 0.8))",
        expected: "inside the bounding box [0.2,1]x[0,0.8] of the coordinates",
        recorded_wrong: &["outside: (1.300 -0.300)"],
        run: || {
            let a = wkt!(POLYGON((0.2 0.8,0.3 0.7,1.0 0.0,0.9 0.1,0.2 0.8)));
            match a.centroid() {
                Some(c) if (0.2..=1.0).contains(&c.x()) && (0.0..=0.8).contains(&c.y()) => "inside the bounding box [0.2,1]x[0,0.8] of the coordinates".into(),
                Some(c) => format!("outside: ({:.3} {:.3})", c.x(), c.y()),
                None => "None".into(),
            }
        },
    },
    W {
        pid: "C07",
        finding: "distance_zero_for_disjoint_near_collinear",
        name: "fibonacci_point_next_to_line",
        input: "LINE(0 0,267914296 165580141) to POINT(102334155 63245986) (cross product 1: disjoint, true distance 3.175e-9)",
        expected: "positive",
        recorded_wrong: &["0e0"],
        run: || {
            let l = geo::Line::new(geo::coord! {x: p2(0.0), y: 0.0}, geo::coord! {x: 267914296.0, y: 165580141.0});
            let p = geo::Point::new(102334155.0, 63245986.0);
            let d = Euclidean.distance(&p, &l);
            if d > 0.0 && d < 1e-8 {
                "positive".into()
            } else {
                format!("{:e}", d)
            }
        },
    },
];

pub fn run(pid: &str, sh: &mut Shard) {
    for w in ALL.iter().filter(|w| w.pid == pid) {
        sh.eval(1);
        let got = call(w.run);
        let det = |got: &str| json!({"property": pid, "check": "witness", "witness": w.name, "input": w.input, "expected": w.expected, "got": got, "finding": w.finding});
        match got {
            Ok(g) if g == w.expected => sh.class(&format!("witness:{}:now_correct", w.name)),
            Ok(g) => {
                let cls = if w.recorded_wrong.iter().any(|r| g.starts_with(r)) { w.finding } else { "-" };
                sh.class(&format!("witness:{}:{}", w.name, if cls == "-" { "different_wrong_answer" } else { "reproduces_recorded_wrong_answer" }));
                sh.violation(&format!("witness.{}|fixed input|{cls}", w.name), det(&g));
            }
            Err(p) => {
                let g = format!("panic: {p}");
                let cls = if w.recorded_wrong.iter().any(|r| g.starts_with(r)) { w.finding } else { "-" };
                sh.violation(&format!("witness.{}|fixed input|{cls}", w.name), det(&g));
            }
        }
    }
}
