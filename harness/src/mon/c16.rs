//! C16 — Haversine, geodesic and rhumb measures are mutually consistent.
//!
//! One case = one pair of lon/lat points (a, b) + a ratio r + a free (bearing, distance) pair + a
//! line string, pushed through EVERY metric space (Haversine const, the three predefined radii, a
//! custom radius; Geodesic static, GeodesicMeasure::wgs84(), a custom ellipsoid; Rhumb) and through the
//! deprecated per-point traits.  Clauses (each its own `check` name):
//!   distance.nonneg, distance.identity, distance.symmetry, bearing.range,
//!   roundtrip (+ .bearing_plus_360k, .negative_distance), ratio.start / ratio.end, at_distance.start / .end,
//!   along.* (points_along_line vs point_at_ratio_between and the documented spacing),
//!   length.sum (Line, LineString, MultiLineString), output.range / output.finite,
//!   inverse.distance / inverse.bearing (free bearing and distance incl. negative and > 360),
//!   radius.documented, distance.reference / bearing.reference / destination.reference (independent
//!   n-vector formulas for the sphere, stable isometric-latitude formulas for the loxodrome, direct
//!   geographiclib_rs calls for the ellipsoid), legacy.* (deprecated traits == new API).
//! Tolerance clauses are judged only in the strata the statement covers ("away from poles and
//! antipodes"); poles / antipodes / coincident points are observe-only (finite, ranges, no panic).
use crate::report::*;
use crate::rng::{Fnv, Rng};
use geo::algorithm::line_measures::{Bearing, Destination, Distance, InterpolatePoint, Length};
use geo::{Geodesic, GeodesicMeasure, Haversine, HaversineMeasure, Line, LineString, MultiLineString, Point, Rhumb};
use geo::{GeodesicBearing, GeodesicDestination, GeodesicDistance, GeodesicIntermediate, GeodesicLength};
use geo::{HaversineBearing, HaversineDestination, HaversineDistance, HaversineIntermediate, HaversineLength};
use geo::{RhumbBearing, RhumbDestination, RhumbDistance, RhumbIntermediate, RhumbLength};
use geographiclib_rs::{DirectGeodesic, InverseGeodesic};
use serde_json::{json, Value};
use std::f64::consts::PI;

const U: f64 = 1.1102230246251565e-16; // 2^-53
const D2R: f64 = PI / 180.0;
/// documented: "standard earth radius of 6371.0088 km" (Moritz 2000, R1); R2 = 6371007.1810, R3 = 6371000.7900
const R_MEAN: f64 = 6_371_008.8;
const R_AREA: f64 = 6_371_007.181_0;
const R_VOL: f64 = 6_371_000.790_0;
const A_WGS: f64 = 6_378_137.0;
const F_WGS: f64 = 1.0 / 298.257_223_563;

// ------------------------------------------------------------------------------------------ tolerances
/// The statement's "millimetre-scale tolerance": 1 mm on the Earth, scaled with the size of the body for
/// custom radii / ellipsoids (i.e. an angular tolerance of 1.57e-10 rad).  Derivation of what correct code
/// needs: coordinates are degrees with ulp(180 deg) = 2.8e-14 deg = 5e-16 rad = 3e-9 m; each of bearing /
/// distance / destination is a chain of < 20 roundings on quantities of magnitude <= pi, amplified by at
/// most 1/cos(lat) <= 11.5 for |lat| <= 85 deg (asin / atan2 near the pole; 573 at 89.9 deg) and by
/// 1/sin(sigma) <= 50 for separations <= pi - 0.02 (asin near the antipode): < 20 * 50 * u * R = 7e-7 m.
/// Observed maxima over 2.4e6 cases (REPORT.md): 1.9e-7 m on the sphere (6.3e-7 m in the high-latitude
/// stratum, 2.8e-5 m for point_at_distance_between over the pole), 1.4e-8 m on the ellipsoid: a factor
/// >= 35 below 1 mm in the worst stratum, > 1000 in the general one.
const TAU_MM: f64 = 1.0e-3;
/// Rhumb only: nearly east-west courses.  geo computes q = dphi/dpsi with dpsi = ln(tan(pi/4+phi2/2) /
/// tan(pi/4+phi1/2)); the tangents carry a relative error of 2u/cos(phi), so dpsi carries an ABSOLUTE
/// error of c*u/cos(phi_max) and q a RELATIVE error of c*u/(|dpsi|*cos(phi_max)) (= c*u/|dphi| for a small
/// latitude difference); the east-west extent d_ew = R*q*|dlambda| is proportional to q, hence a position /
/// distance error of c * u * d_ew / (|dpsi| * cos(phi_max)).  K_EW is c with the calibration margin
/// (observed c <= 7.2 over 1.2e9 comparisons, REPORT.md).  At and below geo's switch |dpsi| <= 1e-11 the
/// fallback q = cos(phi1) is used: a systematic (not rounding) relative error of tan(phi)*|dphi|/2, and an
/// asymmetry d(a,b)-d(b,a) of d_ew*tan(phi)*|dphi| (<= 0.1 mm); allowed 16x.
const K_EW: f64 = 256.0;
/// distance symmetry: K_SYM*u*(d + R).  The design's 8u*d is what the formulas suggest (Haversine and Geodesic
/// are symmetric bit for bit on 1.2e9 comparisons) but Rhumb's q differs between the two directions (cos(phi1)
/// vs cos(phi2) in the fallback, ln(t2/t1) vs ln(t1/t2) otherwise) and 1-5 ulp(d) = up to 2.5*u*(d+R) are
/// observed; 64 keeps that below 1/16.  "+R": the central angle itself is only known to a few u absolutely
/// (coordinates of magnitude <= pi rad), which dominates for nearly coincident points.
const K_SYM: f64 = 64.0;

#[derive(Clone, Copy, PartialEq, Debug)]
pub struct LL {
    lon: f64,
    lat: f64,
}
fn pt(p: LL) -> Point<f64> {
    Point::new(p.lon, p.lat)
}
fn ll(p: Point<f64>) -> LL {
    LL { lon: p.x(), lat: p.y() }
}
fn ll_json(p: LL) -> Value {
    json!({"lon": hexf(p.lon), "lat": hexf(p.lat), "dec": format!("({:?}, {:?})", p.lon, p.lat)})
}
fn unhex(v: &Value) -> f64 {
    f64::from_bits(u64::from_str_radix(v.as_str().expect("hex string"), 16).expect("hex"))
}
fn ll_from(v: &Value) -> LL {
    LL { lon: unhex(&v["lon"]), lat: unhex(&v["lat"]) }
}
fn same_bits(a: Point<f64>, b: Point<f64>) -> bool {
    a.x().to_bits() == b.x().to_bits() && a.y().to_bits() == b.y().to_bits()
}
/// equal as values (0.0 == -0.0) or both NaN
fn same_val(a: f64, b: f64) -> bool {
    a == b || (a.is_nan() && b.is_nan())
}
fn same_pt(a: Point<f64>, b: Point<f64>) -> bool {
    same_val(a.x(), b.x()) && same_val(a.y(), b.y())
}
fn wrap180(d: f64) -> f64 {
    // to (-180, 180]
    let mut x = d % 360.0;
    if x > 180.0 {
        x -= 360.0
    }
    if x <= -180.0 {
        x += 360.0
    }
    x
}

// ------------------------------------------------------------------------------------------ case
#[derive(Clone, Debug)]
pub struct Case {
    kind: String,
    a: LL,
    b: LL,
    /// ratio in [0,1]
    r: f64,
    /// free bearing (degrees, any real) and distance (metres on the Earth; scaled for other bodies)
    theta: f64,
    s: f64,
    /// points_along_line: max_distance = distance(a,b) / seg
    seg: f64,
    /// bearing + 360*k variant
    k360: f64,
    extra: Vec<LL>,
    split: usize,
    radius: f64,
    ell: (f64, f64),
}
impl Case {
    fn json(&self) -> Value {
        json!({"kind": self.kind, "a": ll_json(self.a), "b": ll_json(self.b), "r": hexf(self.r), "r_dec": self.r, "theta": hexf(self.theta), "theta_dec": self.theta,
               "s": hexf(self.s), "s_dec": self.s, "seg": hexf(self.seg), "seg_dec": self.seg, "k360": self.k360, "extra": self.extra.iter().map(|p| ll_json(*p)).collect::<Vec<_>>(),
               "split": self.split, "radius": hexf(self.radius), "radius_dec": self.radius, "ell_a": hexf(self.ell.0), "ell_f": hexf(self.ell.1), "ell_dec": format!("{:?}", self.ell)})
    }
    fn from_json(v: &Value) -> Case {
        Case {
            kind: v["kind"].as_str().unwrap_or("replay").to_string(),
            a: ll_from(&v["a"]),
            b: ll_from(&v["b"]),
            r: unhex(&v["r"]),
            theta: unhex(&v["theta"]),
            s: unhex(&v["s"]),
            seg: unhex(&v["seg"]),
            k360: v["k360"].as_f64().unwrap_or(1.0),
            extra: v["extra"].as_array().map(|a| a.iter().map(ll_from).collect()).unwrap_or_default(),
            split: v["split"].as_u64().unwrap_or(0) as usize,
            radius: unhex(&v["radius"]),
            ell: (unhex(&v["ell_a"]), unhex(&v["ell_f"])),
        }
    }
}

// ------------------------------------------------------------------------------------------ generators
fn pow10(r: &mut Rng, lo: f64, hi: f64) -> f64 {
    10f64.powf(lo + (hi - lo) * r.f01())
}
fn sign(r: &mut Rng) -> f64 {
    if r.chance(1, 2) {
        1.0
    } else {
        -1.0
    }
}
fn clamp_ll(p: LL) -> LL {
    let mut lon = p.lon;
    if lon > 180.0 {
        lon -= 360.0
    }
    if lon < -180.0 {
        lon += 360.0
    }
    LL { lon: lon.clamp(-180.0, 180.0), lat: p.lat.clamp(-90.0, 90.0) }
}
/// a point with |lat| <= maxlat: uniform on the sphere, coarse (multiples of 1/4 degree) or special values
fn gen_point(r: &mut Rng, maxlat: f64) -> LL {
    for _ in 0..64 {
        let p = match r.below(10) {
            0..=6 => LL { lon: -180.0 + 360.0 * r.f01(), lat: (2.0 * r.f01() - 1.0).asin() / D2R },
            7 | 8 => LL { lon: r.range(-720, 720) as f64 * 0.25, lat: r.range(-360, 360) as f64 * 0.25 },
            _ => LL {
                lon: *r.pick(&[-180.0, 180.0, 0.0, -0.0, 90.0, -90.0, 179.99999999999997, -179.99999999999997, 1e-300, 45.0, 135.0]),
                lat: *r.pick(&[0.0, -0.0, 45.0, -45.0, 60.0, -60.0, 85.0, -85.0, 1e-300, -5e-324, 30.0, 1e-9, 89.0, -89.5]),
            },
        };
        if p.lat.abs() <= maxlat {
            return p;
        }
    }
    LL { lon: 0.0, lat: 0.0 }
}
fn gen_ratio(r: &mut Rng) -> f64 {
    match r.below(12) {
        0 => 0.0,
        1 => 1.0,
        2 => 0.5,
        3 => pow10(r, -17.0, -1.0),
        4 => 1.0 - pow10(r, -16.0, -1.0),
        5 => 1.0 - U,
        6 => *r.pick(&[0.25, 0.75, 0.1, 0.9, 1.0 / 3.0, 2.0 * U, 5e-324]),
        _ => r.f01(),
    }
}
fn gen_theta(r: &mut Rng) -> f64 {
    match r.below(8) {
        0 => *r.pick(&[0.0, -0.0, 90.0, 180.0, 270.0, 360.0, -90.0, -180.0, -270.0, -360.0, 450.0, 540.0, 720.0, 45.0, 135.0, 225.0, 315.0, 359.99999999999994, 1e-300]),
        1 => -720.0 * r.f01(),
        2 => 360.0 + 720.0 * r.f01(),
        3 => 90.0 * r.range(-4, 8) as f64 + sign(r) * pow10(r, -15.0, -3.0),
        _ => 360.0 * r.f01(),
    }
}
fn gen_s(r: &mut Rng) -> f64 {
    match r.below(10) {
        0 => *r.pick(&[0.0, -0.0, 1.0, 1e-3, 1e-9, 111_111.0, 1e7, 5e-324]),
        1 => sign(r) * pow10(r, 7.0, 8.0),          // up to 2.5 revolutions
        2 | 3 => -pow10(r, -3.0, 7.3),
        _ => pow10(r, -3.0, 7.3),
    }
}
fn gen_seg(r: &mut Rng) -> f64 {
    match r.below(8) {
        0 => 0.3 + 0.7 * r.f01(),                    // distance <= max_distance: only the ends
        1 => 1.0,                                    // distance == max_distance
        2 | 3 => r.range(2, 24) as f64,              // exact multiple
        4 => r.range(2, 24) as f64 + sign(r) * pow10(r, -15.0, -3.0),
        _ => 1.0 + 23.0 * r.f01(),
    }
}
const ELLIPSOIDS: [(f64, f64); 7] = [
    (3_396_200.0, 0.00589),            // Mars (geo's own doc example)
    (6_378_137.0, 1.0 / 298.257_222_101), // GRS80 / NAD83 (geo's own doc example)
    (6_377_563.396, 1.0 / 299.324_964_6), // Airy 1830
    (6_378_388.0, 1.0 / 297.0),        // International 1924
    (6_371_008.8, 0.0),                // sphere
    (1_737_400.0, 0.0012),             // Moon
    (6_378_137.0, F_WGS),              // WGS84 spelled out
];
const RADII: [f64; 5] = [3_389_500.0, 1.0, 1_737_400.0, 6_371_008.8, 6_378_137.0];

pub fn gen_case(r: &mut Rng) -> Case {
    let w = r.below(100);
    let (kind, a, b): (&str, LL, LL) = if w < 30 {
        ("general", gen_point(r, 85.0), gen_point(r, 85.0))
    } else if w < 40 {
        // local: 0.1 m .. 1000 km
        let a = gen_point(r, 84.0);
        let b = LL { lon: a.lon + sign(r) * pow10(r, -6.0, 1.0), lat: a.lat + sign(r) * pow10(r, -6.0, 0.0) };
        ("local", a, clamp_ll(b))
    } else if w < 52 {
        let e1 = if r.chance(1, 4) { 0.0 } else { pow10(r, -14.0, 1.3) };
        let e2 = if r.chance(1, 4) { 0.0 } else { pow10(r, -14.0, 1.3) };
        let a = LL { lon: 180.0 - e1, lat: gen_point(r, 85.0).lat };
        let b = LL { lon: -180.0 + e2, lat: if r.chance(1, 3) { a.lat + sign(r) * pow10(r, -9.0, 0.5) } else { gen_point(r, 85.0).lat } };
        let b = clamp_ll(b);
        if r.chance(1, 2) {
            ("antimeridian", a, b)
        } else {
            ("antimeridian", b, a)
        }
    } else if w < 60 {
        let a = gen_point(r, 85.0);
        let lat = gen_point(r, 85.0).lat;
        if r.chance(3, 4) {
            ("meridional", a, LL { lon: a.lon, lat })
        } else {
            ("meridional_over_pole", a, clamp_ll(LL { lon: if a.lon > 0.0 { a.lon - 180.0 } else { a.lon + 180.0 }, lat }))
        }
    } else if w < 74 {
        // equatorial / nearly east-west (rhumb's special case)
        let mut a = gen_point(r, 85.0);
        if r.chance(1, 3) {
            a.lat = *r.pick(&[0.0, -0.0, 0.0, 1e-12, -1e-9]);
        }
        let dlon = sign(r) * if r.chance(1, 4) { pow10(r, -6.0, 0.0) } else { 179.0 * r.f01() + 0.01 };
        let dlat = match r.below(10) {
            0..=2 => 0.0,
            3 => sign(r) * pow10(r, -10.5, -8.5), // around geo's |dpsi| = 1e-11 switch (5.7e-10 degrees)
            _ => sign(r) * pow10(r, -15.5, -3.0),
        };
        ("east_west", a, clamp_ll(LL { lon: a.lon + dlon, lat: a.lat + dlat }))
    } else if w < 82 {
        let a = gen_point(r, 85.0);
        let b = match r.below(4) {
            0 => LL { lon: f64::from_bits((a.lon.to_bits() as i64 + r.range(-3, 3)) as u64), lat: f64::from_bits((a.lat.to_bits() as i64 + r.range(-3, 3)) as u64) },
            1 => LL { lon: a.lon, lat: a.lat + sign(r) * pow10(r, -16.0, -6.5) },
            2 => LL { lon: a.lon + sign(r) * pow10(r, -16.0, -6.5), lat: a.lat },
            _ => LL { lon: a.lon + sign(r) * pow10(r, -16.0, -6.5), lat: a.lat + sign(r) * pow10(r, -16.0, -6.5) },
        };
        let b = if b.lon.is_finite() && b.lat.is_finite() { clamp_ll(b) } else { a };
        ("near_coincident", a, b)
    } else if w < 86 {
        // high latitude but not the pole: 85 < |lat| <= 89.9
        let mut a = gen_point(r, 85.0);
        a.lat = sign(r) * (85.0 + 4.9 * r.f01());
        let b = if r.chance(1, 2) { gen_point(r, 85.0) } else { LL { lon: gen_point(r, 85.0).lon, lat: a.lat.signum() * (85.0 + 4.9 * r.f01()) } };
        if r.chance(1, 2) {
            ("high_latitude", a, b)
        } else {
            ("high_latitude", b, a)
        }
    } else {
        // observe-only: poles, antipodes, coincident points
        let a = gen_point(r, 90.0);
        match r.below(9) {
            0 => ("pole", a, LL { lon: gen_point(r, 90.0).lon, lat: sign(r) * 90.0 }),
            1 => ("pole", LL { lon: a.lon, lat: sign(r) * 90.0 }, gen_point(r, 90.0)),
            2 => {
                let s = sign(r);
                ("pole", LL { lon: a.lon, lat: s * 90.0 }, LL { lon: gen_point(r, 90.0).lon, lat: if r.chance(1, 2) { s * 90.0 } else { -s * 90.0 } })
            }
            3 => ("pole", a, LL { lon: gen_point(r, 90.0).lon, lat: sign(r) * (90.0 - pow10(r, -14.0, -1.0)) }),
            4 | 5 => {
                let e = if r.chance(1, 4) { 0.0 } else { pow10(r, -15.0, 0.0) };
                let b = LL { lon: (if a.lon > 0.0 { a.lon - 180.0 } else { a.lon + 180.0 }) + sign(r) * e, lat: -a.lat + sign(r) * e * r.f01() };
                ("antipodal", a, clamp_ll(b))
            }
            6 => ("coincident", a, a),
            7 => {
                let lat = a.lat;
                ("coincident", LL { lon: -180.0, lat }, LL { lon: 180.0, lat })
            }
            _ => ("coincident", LL { lon: a.lon, lat: if a.lat == 0.0 { -a.lat } else { a.lat } }, a),
        }
    };
    let n_extra = match r.below(6) {
        0 => 0,
        1 => 1,
        _ => r.below(8) as usize,
    };
    let extra: Vec<LL> = if r.chance(1, 48) {
        // a long track (hundreds of coordinates, short steps): block-wise or batched summation must not lose
        // the segments between the blocks
        let n = *r.pick(&[255usize, 256, 257, 258, 300, 511, 513, 700, 1030]);
        let step = pow10(r, -4.0, -0.5);
        let mut p = a;
        (0..n)
            .map(|_| {
                p = clamp_ll(LL { lon: p.lon + step * (2.0 * r.f01() - 0.7), lat: (p.lat + step * (2.0 * r.f01() - 1.0)).clamp(-89.0, 89.0) });
                p
            })
            .collect()
    } else {
        (0..n_extra).map(|_| gen_point(r, 90.0)).collect()
    };
    let ell = if r.chance(1, 4) { (pow10(r, 5.0, 7.5), 0.012 * r.f01()) } else { *r.pick(&ELLIPSOIDS) };
    let radius = if r.chance(1, 4) { pow10(r, 0.0, 8.0) } else { *r.pick(&RADII) };
    Case {
        kind: kind.to_string(),
        a,
        b,
        r: gen_ratio(r),
        theta: gen_theta(r),
        s: gen_s(r),
        seg: gen_seg(r),
        k360: *r.pick(&[-2.0, -1.0, 1.0, 2.0, 3.0]),
        split: r.below(4) as usize,
        extra,
        radius,
        ell,
    }
}

// ------------------------------------------------------------------------------------------ independent references
type V3 = [f64; 3];
fn nvec(p: LL) -> V3 {
    let (sl, cl) = (p.lon * D2R).sin_cos();
    let (sp, cp) = (p.lat * D2R).sin_cos();
    [cp * cl, cp * sl, sp]
}
fn dot(a: V3, b: V3) -> f64 {
    a[0] * b[0] + a[1] * b[1] + a[2] * b[2]
}
fn cross(a: V3, b: V3) -> V3 {
    [a[1] * b[2] - a[2] * b[1], a[2] * b[0] - a[0] * b[2], a[0] * b[1] - a[1] * b[0]]
}
/// central angle between two lon/lat points (n-vector form: atan2(|a x b|, a.b)); absolute error a few u
fn sigma_ref(a: LL, b: LL) -> f64 {
    let (u, v) = (nvec(a), nvec(b));
    let c = cross(u, v);
    dot(c, c).sqrt().atan2(dot(u, v))
}
fn north_east(p: LL) -> (V3, V3) {
    let (sl, cl) = (p.lon * D2R).sin_cos();
    let (sp, cp) = (p.lat * D2R).sin_cos();
    ([-sp * cl, -sp * sl, cp], [-sl, cl, 0.0])
}
/// initial great-circle bearing in degrees (-180, 180]: angle of b's direction in the tangent plane at a
fn sphere_bearing_ref(a: LL, b: LL) -> f64 {
    let (n, e) = north_east(a);
    let v = nvec(b);
    dot(v, e).atan2(dot(v, n)) / D2R
}
/// great-circle destination: cos(d)*a + sin(d)*(cos(t)*north + sin(t)*east)
fn sphere_dest_ref(a: LL, theta_deg: f64, delta: f64) -> LL {
    let (n, e) = north_east(a);
    let u = nvec(a);
    let t = (theta_deg % 360.0) * D2R;
    let (sd, cd) = delta.sin_cos();
    let (st, ct) = t.sin_cos();
    let p = [cd * u[0] + sd * (ct * n[0] + st * e[0]), cd * u[1] + sd * (ct * n[1] + st * e[1]), cd * u[2] + sd * (ct * n[2] + st * e[2])];
    LL { lon: p[1].atan2(p[0]) / D2R, lat: p[2].atan2(p[0].hypot(p[1])) / D2R }
}
/// difference of isometric latitudes, psi(phi2) - psi(phi1) with psi = atanh(sin(phi)), in the
/// cancellation-free form 2*atanh(sin(dphi/2) / cos(phi_mid))
fn dpsi_stable(phi1: f64, phi2: f64) -> f64 {
    let t = ((phi2 - phi1) * 0.5).sin() / ((phi1 + phi2) * 0.5).cos();
    2.0 * t.clamp(-1.0, 1.0).atanh()
}
#[derive(Clone, Copy, Debug)]
struct RhRef {
    /// angular length of the loxodrome (radians on the unit sphere)
    delta: f64,
    /// course, degrees (-180, 180]
    theta: f64,
    dlam: f64,
    dphi: f64,
    dpsi: f64,
}
fn rh_ref(a: LL, b: LL) -> RhRef {
    let (phi1, phi2) = (a.lat * D2R, b.lat * D2R);
    let mut dl = b.lon - a.lon;
    if dl > 180.0 {
        dl -= 360.0
    }
    if dl < -180.0 {
        dl += 360.0
    }
    let dlam = dl * D2R;
    let dphi = phi2 - phi1;
    let dpsi = dpsi_stable(phi1, phi2);
    let q = if dphi == 0.0 || dpsi == 0.0 {
        phi1.cos()
    } else if dpsi.is_infinite() {
        0.0
    } else {
        dphi / dpsi
    };
    RhRef { delta: (dphi * dphi + q * q * dlam * dlam).sqrt(), theta: dlam.atan2(dpsi) / D2R, dlam, dphi, dpsi }
}
/// loxodrome destination; None when the course reaches or passes a pole (the loxodrome ends there).
/// Returns the UNWRAPPED longitude (degrees) and the latitude.
fn rh_dest_ref(a: LL, theta_deg: f64, delta: f64) -> Option<(f64, f64)> {
    let t = (theta_deg % 360.0) * D2R;
    let phi1 = a.lat * D2R;
    let phi2 = phi1 + delta * t.cos();
    if !(phi2.abs() < PI / 2.0 - 1e-9) || !(phi1.abs() < PI / 2.0 - 1e-9) {
        return None;
    }
    // numerator and denominator of q from the SAME (rounded) latitude difference
    let dphi = phi2 - phi1;
    let dpsi = dpsi_stable(phi1, phi2);
    let q = if dphi == 0.0 || dpsi == 0.0 { phi1.cos() } else { dphi / dpsi };
    let dlam = delta * t.sin() / q;
    Some((a.lon + dlam / D2R, phi2 / D2R))
}
/// extra tolerance (metres on the Earth) for Rhumb results that depend on q = dphi/dpsi for the pair (see K_EW)
fn rhumb_cond(phi1: f64, dphi: f64, dlam: f64, dpsi: f64) -> (f64, &'static str) {
    if dphi == 0.0 || dlam == 0.0 {
        return (0.0, "exact_ew_or_meridian");
    }
    let phim = phi1 + 0.5 * dphi;
    // east-west extent of the course = R * q * |dlambda|, q = dphi/dpsi (= cos(phi) in the limit)
    let q = if dpsi.is_finite() && dpsi != 0.0 { (dphi / dpsi).abs() } else { phim.cos().abs() };
    let d_ew = R_MEAN * dlam.abs() * q;
    // relative error of q = (absolute error of dpsi) / |dpsi| = (c*u / cos(phi_max)) / |dpsi|; for a small latitude
    // difference |dpsi|*cos(phi) = |dphi| and this is the c*u*d_ew/|dphi| of the comment at K_EW
    let cos_max = phi1.cos().abs().min((phi1 + dphi).cos().abs()).max(1e-12);
    let illcond = K_EW * U * d_ew / (dpsi.abs() * cos_max);
    let fallback = 16.0 * d_ew * phi1.tan().abs().max(phim.tan().abs()) * dphi.abs();
    let ad = dpsi.abs();
    if ad < 0.99e-11 {
        (fallback, "fallback")
    } else if ad <= 1.01e-11 {
        (fallback.max(illcond), "switch_band")
    } else {
        (illcond, if illcond > TAU_MM / 16.0 { "illcond" } else { "wellcond" })
    }
}

// ------------------------------------------------------------------------------------------ strata
#[derive(Clone, Copy, PartialEq, Eq, Debug)]
enum St {
    General,
    Antimeridian,
    Meridional,
    MeridionalOverPole,
    EastWest,
    NearCoincident,
    HighLat,
    Pole,
    Antipodal,
    Coincident,
}
impl St {
    fn name(self) -> &'static str {
        match self {
            St::General => "general",
            St::Antimeridian => "antimeridian",
            St::Meridional => "meridional",
            St::MeridionalOverPole => "meridional_over_pole",
            St::EastWest => "east_west",
            St::NearCoincident => "near_coincident",
            St::HighLat => "high_latitude",
            St::Pole => "observe_only:pole",
            St::Antipodal => "observe_only:antipodal",
            St::Coincident => "observe_only:coincident",
        }
    }
    /// tolerance clauses are judged ("away from poles and antipodes", distinct points)
    fn judged(self) -> bool {
        !matches!(self, St::Pole | St::Antipodal | St::Coincident)
    }
}
fn classify(a: LL, b: LL) -> St {
    let dl = (b.lon - a.lon).abs();
    if (a.lon == b.lon || dl == 360.0) && a.lat == b.lat {
        return St::Coincident;
    }
    let m = a.lat.abs().max(b.lat.abs());
    if m > 89.9 {
        return St::Pole;
    }
    let sig = sigma_ref(a, b);
    if sig > PI - 0.02 {
        return St::Antipodal;
    }
    if m > 85.0 {
        return St::HighLat;
    }
    if sig < 1e-7 {
        return St::NearCoincident;
    }
    if dl > 180.0 {
        return St::Antimeridian;
    }
    if dl == 0.0 {
        return St::Meridional;
    }
    if dl == 180.0 {
        return St::MeridionalOverPole;
    }
    if (b.lat - a.lat).abs() < 1e-3 {
        return St::EastWest;
    }
    St::General
}

// ------------------------------------------------------------------------------------------ spaces
trait Space {
    fn dist(&self, a: Point<f64>, b: Point<f64>) -> f64;
    fn bearing(&self, a: Point<f64>, b: Point<f64>) -> f64;
    fn dest(&self, a: Point<f64>, th: f64, s: f64) -> Point<f64>;
    fn ratio(&self, a: Point<f64>, b: Point<f64>, r: f64) -> Point<f64>;
    fn at_dist(&self, a: Point<f64>, b: Point<f64>, s: f64) -> Point<f64>;
    fn along(&self, a: Point<f64>, b: Point<f64>, maxd: f64, ends: bool) -> Vec<Point<f64>>;
    fn len_line(&self, l: &Line<f64>) -> f64;
    fn len_ls(&self, l: &LineString<f64>) -> f64;
    fn len_mls(&self, l: &MultiLineString<f64>) -> f64;
}
struct W<'a, M>(&'a M);
impl<'a, M> Space for W<'a, M>
where
    M: Bearing<f64> + Destination<f64> + Distance<f64, Point<f64>, Point<f64>> + InterpolatePoint<f64>,
{
    fn dist(&self, a: Point<f64>, b: Point<f64>) -> f64 {
        self.0.distance(a, b)
    }
    fn bearing(&self, a: Point<f64>, b: Point<f64>) -> f64 {
        self.0.bearing(a, b)
    }
    fn dest(&self, a: Point<f64>, th: f64, s: f64) -> Point<f64> {
        self.0.destination(a, th, s)
    }
    fn ratio(&self, a: Point<f64>, b: Point<f64>, r: f64) -> Point<f64> {
        self.0.point_at_ratio_between(a, b, r)
    }
    fn at_dist(&self, a: Point<f64>, b: Point<f64>, s: f64) -> Point<f64> {
        self.0.point_at_distance_between(a, b, s)
    }
    fn along(&self, a: Point<f64>, b: Point<f64>, maxd: f64, ends: bool) -> Vec<Point<f64>> {
        self.0.points_along_line(a, b, maxd, ends).collect()
    }
    fn len_line(&self, l: &Line<f64>) -> f64 {
        Length::length(self.0, l)
    }
    fn len_ls(&self, l: &LineString<f64>) -> f64 {
        Length::length(self.0, l)
    }
    fn len_mls(&self, l: &MultiLineString<f64>) -> f64 {
        Length::length(self.0, l)
    }
}

#[derive(Clone, Copy, Debug)]
enum Kind {
    /// documented radius
    Sphere(f64),
    /// equatorial radius, flattening
    Ellipsoid(f64, f64),
    Rhumb,
}
impl Kind {
    fn short(&self) -> &'static str {
        match self {
            Kind::Sphere(_) => "hav",
            Kind::Ellipsoid(..) => "geod",
            Kind::Rhumb => "rhumb",
        }
    }
    /// size of the body relative to the Earth (scales every metre tolerance)
    fn scale(&self) -> f64 {
        match self {
            Kind::Sphere(r) => r / R_MEAN,
            Kind::Ellipsoid(a, _) => a / A_WGS,
            Kind::Rhumb => 1.0,
        }
    }
    /// the implementing type: all five Haversine instances (and all three Geodesic ones) run the same code
    fn fam(&self) -> &'static str {
        match self {
            Kind::Sphere(_) => "HaversineMeasure",
            Kind::Ellipsoid(..) => "GeodesicMeasure",
            Kind::Rhumb => "Rhumb",
        }
    }
    fn radius(&self) -> f64 {
        match self {
            Kind::Sphere(r) => *r,
            Kind::Ellipsoid(a, _) => *a,
            Kind::Rhumb => R_MEAN,
        }
    }
}

fn watch() -> &'static Option<(String, f64)> {
    static W: std::sync::OnceLock<Option<(String, f64)>> = std::sync::OnceLock::new();
    W.get_or_init(|| {
        let v = std::env::var("GVH_C16_WATCH").ok()?;
        let (c, r) = v.split_once(':')?;
        Some((c.to_string(), r.parse().ok()?))
    })
}

/// per (case, space) context
struct Cx<'s> {
    sh: &'s mut Shard,
    case: &'s Case,
    name: &'static str,
    kind: Kind,
    st: St,
    verbose: bool,
    /// the inputs of the current section are in the part of the domain the statement excludes (poles,
    /// antipodes, coincident points): non-finite output is reported as `observe.finite`
    observe: bool,
}
impl<'s> Cx<'s> {
    fn viol(&mut self, check: &str, method: &str, expected: String, got: String, extra: Value) {
        if self.verbose {
            println!("  VIOLATION {check} at {}.{method}: expected {expected} got {got} {extra}", self.name);
        }
        // observe-only strata: name the (input-defined) sub-class so that a different failure at the poles
        // gets a different signature
        let narrowed;
        let check = if check == "observe.finite" {
            let (la, lb) = (self.case.a.lat, self.case.b.lat);
            narrowed = if (la == -90.0 || lb == -90.0) && matches!(self.kind, Kind::Rhumb) {
                "observe.finite.input_at_south_pole"
            } else if la.abs().max(lb.abs()) > 90.0 - 1e-5 {
                "observe.finite.input_within_1m_of_pole"
            } else if self.st == St::Antipodal {
                "observe.finite.nearly_antipodal"
            } else if self.st == St::Coincident {
                "observe.finite.coincident"
            } else {
                "observe.finite"
            };
            narrowed
        } else {
            check
        };
        let site = if self.name == "legacy" {
            method.to_string()
        } else if method.is_empty() || check.starts_with("observe.finite") {
            self.kind.fam().to_string()
        } else {
            format!("{}.{}", self.kind.fam(), method)
        };
        self.sh.violation(
            &format!("{check}|{site}|-"),
            json!({"property": "C16", "check": check, "space": self.name, "method": method, "stratum": self.st.name(), "expected": expected, "got": got, "extra": extra, "case": self.case.json()}),
        );
    }
    /// run a geo call; a panic is a violation
    fn run<T>(&mut self, method: &str, f: impl FnOnce() -> T) -> Option<T> {
        match call(f) {
            Ok(v) => Some(v),
            Err(p) => {
                self.viol("panic", method, "no panic".into(), p, json!({"at": last_panic_loc()}));
                None
            }
        }
    }
    /// tolerance clause: err <= tol; calibration maximum per (clause, space family, stratum)
    fn tol(&mut self, check: &str, method: &str, err: f64, tol: f64, what: &str) {
        self.sh.eval(1);
        let ratio = if tol > 0.0 { err / tol } else if err == 0.0 { 0.0 } else { f64::INFINITY };
        if ratio.is_finite() {
            self.sh.maximum(&format!("{check}/tol:{}:{}", self.kind.short(), self.st.name()), ratio);
        }
        if self.verbose {
            println!("  {:<34} {:<28} err {:.3e} tol {:.3e}  ({what})", check, format!("{}.{}", self.name, method), err, tol);
        }
        // calibration aid: GVH_C16_WATCH=<check>:<ratio> prints every case whose error exceeds that fraction of the tolerance
        if let Some((c, r)) = watch() {
            if c == check && ratio > *r {
                println!("WATCH {check} {} {} ratio {ratio:.3e} err {err:e} tol {tol:e} case {}", self.name, self.st.name(), self.case.json());
            }
        }
        if !(err <= tol) {
            self.viol(check, method, format!("error <= {tol:e} ({what})"), format!("{err:e}"), json!({}));
        }
    }
    /// finite output and coordinate ranges of a returned point
    fn point_ok(&mut self, method: &str, p: Point<f64>, judge_range: bool) -> bool {
        self.sh.eval(1);
        if !(p.x().is_finite() && p.y().is_finite()) {
            self.viol(if self.observe { "observe.finite" } else { "output.finite" }, method, "finite lon/lat".into(), format!("({:?}, {:?})", p.x(), p.y()), json!({}));
            return false;
        }
        if judge_range {
            if !(p.x() >= -180.0 && p.x() <= 180.0) {
                self.viol("output.range.lon", method, "longitude in [-180, 180]".into(), format!("{:?}", p.x()), json!({"lat": p.y()}));
            }
            if !(p.y() >= -90.0 && p.y() <= 90.0) {
                self.viol("output.range.lat", method, "latitude in [-90, 90]".into(), format!("{:?}", p.y()), json!({"lon": p.x()}));
            }
        }
        true
    }
}

fn check_space(sh: &mut Shard, sp: &dyn Space, name: &'static str, kind: Kind, case: &Case, st: St, verbose: bool) {
    let mut cx = Cx { sh, case, name, kind, st, verbose, observe: !st.judged() };
    let (la, lb) = (case.a, case.b);
    let (a, b) = (pt(la), pt(lb));
    let scale = kind.scale();
    let judged = st.judged();
    if verbose {
        println!("--- {name} ({kind:?}) stratum {}", st.name());
    }
    // ---------------- raw observations
    let d_ab = cx.run("distance", || sp.dist(a, b));
    let d_ba = cx.run("distance", || sp.dist(b, a));
    let d_aa = cx.run("distance", || sp.dist(a, a));
    let d_bb = cx.run("distance", || sp.dist(b, b));
    let t_ab = cx.run("bearing", || sp.bearing(a, b));
    let t_ba = cx.run("bearing", || sp.bearing(b, a));
    let (Some(d_ab), Some(d_ba), Some(d_aa), Some(d_bb), Some(t_ab), Some(t_ba)) = (d_ab, d_ba, d_aa, d_bb, t_ab, t_ba) else { return };
    if verbose {
        println!("  d(a,b) = {d_ab:?}  d(b,a) = {d_ba:?}  d(a,a) = {d_aa:?}  bearing(a,b) = {t_ab:?}  bearing(b,a) = {t_ba:?}");
    }
    // ---------------- tolerances for this pair
    let rr = rh_ref(la, lb);
    let (rh_extra, rh_class) = if let Kind::Rhumb = kind { rhumb_cond(la.lat * D2R, rr.dphi, rr.dlam, rr.dpsi) } else { (0.0, "") };
    let tau = TAU_MM * scale + rh_extra;
    if let Kind::Rhumb = kind {
        cx.sh.class(&format!("rhumb_conditioning:{rh_class}"));
    }
    // ---------------- distance: non-negative, zero on identical points, symmetric (all strata: no exclusion in the statement)
    cx.sh.eval(2);
    for (w, d) in [("a,b", d_ab), ("b,a", d_ba)] {
        if d.is_nan() && cx.observe {
            cx.viol("observe.finite", "distance", "finite and >= 0".into(), format!("{d:?}"), json!({"args": w}));
        } else if !(d >= 0.0) || !d.is_finite() {
            cx.viol("distance.nonneg", "distance", "finite and >= 0".into(), format!("{d:?}"), json!({"args": w}));
        }
    }
    cx.sh.eval(2);
    for (w, d) in [("a,a", d_aa), ("b,b", d_bb)] {
        if d != 0.0 {
            cx.viol("distance.identity", "distance", "0".into(), format!("{d:?}"), json!({"args": w}));
        }
    }
    if d_ab.is_finite() && d_ba.is_finite() {
        let t = K_SYM * U * (d_ab.abs().max(d_ba.abs()) + kind.radius()) + rh_extra;
        cx.tol("distance.symmetry", "distance", (d_ab - d_ba).abs(), t, "|d(a,b)-d(b,a)| <= 64u(d+R)");
    }
    // ---------------- bearing in [0, 360) (all strata)
    cx.sh.eval(2);
    for (w, t) in [("a,b", t_ab), ("b,a", t_ba)] {
        if t.is_nan() && cx.observe {
            cx.viol("observe.finite", "bearing", "a bearing in [0, 360)".into(), format!("{t:?}"), json!({"args": w}));
        } else if !(t >= 0.0 && t < 360.0) {
            cx.viol("bearing.range", "bearing", "[0, 360)".into(), format!("{t:?}"), json!({"args": w}));
        }
    }
    if !d_ab.is_finite() || !t_ab.is_finite() {
        return;
    }
    // ---------------- independent references (value of distance / bearing)
    let sig = sigma_ref(la, lb);
    match kind {
        Kind::Sphere(r) => {
            if judged {
                cx.tol("distance.reference", "distance", (d_ab - r * sig).abs(), tau, "documented radius x n-vector central angle");
                if st != St::NearCoincident {
                    let dt = wrap180(t_ab - sphere_bearing_ref(la, lb)).abs() * D2R * r * sig.sin().abs();
                    cx.tol("bearing.reference", "bearing", dt, tau, "cross-track offset at b of the bearing error (n-vector bearing; N=0, E=90)");
                }
            }
        }
        Kind::Rhumb => {
            if judged {
                cx.tol("distance.reference", "distance", (d_ab - R_MEAN * rr.delta).abs(), tau, "loxodrome length from stable isometric-latitude difference");
                if st != St::NearCoincident && rr.dlam.abs() != PI {
                    let dt = wrap180(t_ab - rr.theta).abs() * D2R * R_MEAN * rr.delta;
                    cx.tol("bearing.reference", "bearing", dt, tau, "offset at b of the course error (atan2(dlambda, dpsi); N=0, E=90)");
                }
            }
        }
        Kind::Ellipsoid(ea, ef) => {
            // geo must hand (lat, lon) to Karney's solver in the right order and normalise azi1 into [0, 360)
            let g = geographiclib_rs::Geodesic::new(ea, ef);
            let (s12, azi1, _azi2, _a12): (f64, f64, f64, f64) = g.inverse(la.lat, la.lon, lb.lat, lb.lon);
            cx.tol("geodesic.reference.distance", "distance", (d_ab - s12).abs(), 4.0 * U * s12.abs(), "== geographiclib_rs inverse(lat1, lon1, lat2, lon2).s12");
            let dt = t_ab - azi1;
            let e = dt.abs().min((dt - 360.0).abs());
            // one rounding at magnitude 360 in geo's normalisation + two in this comparison: <= 2 ulp(360) = 16u*360... allow 32u*360
            cx.tol("geodesic.reference.bearing", "bearing", e, 32.0 * U * 360.0, "== geographiclib_rs azi1 (mod 360)");
        }
    }
    // ---------------- round trip: destination(a, bearing(a,b), distance(a,b)) ~ b
    let mut trips: Vec<(&str, f64, f64)> = vec![("roundtrip", t_ab, d_ab), ("roundtrip.bearing_plus_360k", t_ab + 360.0 * case.k360, d_ab), ("roundtrip.negative_distance", t_ab + 180.0, -d_ab)];
    for (check, th, s) in trips.drain(..) {
        if let Some(p) = cx.run("destination", || sp.dest(a, th, s)) {
            if cx.point_ok("destination", p, true) {
                if let Some(e) = cx.run("distance", || sp.dist(p, b)) {
                    if judged {
                        cx.tol(check, "destination", e, tau, "distance(destination(a, bearing, distance), b)");
                        if check == "roundtrip" {
                            cx.sh.maximum(&format!("roundtrip_metres_earth_scale:{}:{}{}", kind.short(), st.name(), if rh_class.is_empty() { String::new() } else { format!(":{rh_class}") }), e / scale);
                        }
                    } else if !e.is_finite() {
                        cx.viol("observe.finite", "distance", "finite".into(), format!("{e:?}"), json!({"of": "distance(destination(..), b)"}));
                    }
                }
            }
        }
    }
    // ---------------- ratio: point_at_ratio_between divides the distance r : 1-r; point_at_distance_between likewise
    let mut ratios = vec![case.r, 0.0, 1.0];
    ratios.dedup();
    for (i, r) in ratios.iter().enumerate() {
        if let Some(m) = cx.run("point_at_ratio_between", || sp.ratio(a, b, *r)) {
            if cx.point_ok("point_at_ratio_between", m, true) {
                let d1 = cx.run("distance", || sp.dist(a, m));
                let d2 = cx.run("distance", || sp.dist(m, b));
                if let (Some(d1), Some(d2)) = (d1, d2) {
                    // "away from poles": an intermediate point within 0.1 degree of a pole (a route over the pole whose
                    // ratio lands there) has a latitude computed through asin next to 1 - centimetres of conditioning
                    // error that the statement exempts
                    let at_pole = m.y().abs() > 89.9;
                    if at_pole {
                        cx.sh.class("ratio:intermediate_point_at_a_pole(observe_only)");
                    }
                    if judged && !at_pole {
                        cx.tol("ratio.start", "point_at_ratio_between", (d1 - r * d_ab).abs(), tau, "|d(a,m) - r*d(a,b)|");
                        cx.tol("ratio.end", "point_at_ratio_between", (d2 - (1.0 - r) * d_ab).abs(), tau, "|d(m,b) - (1-r)*d(a,b)|");
                    }
                }
            }
        }
        if i == 0 {
            let s = r * d_ab;
            if let Some(m) = cx.run("point_at_distance_between", || sp.at_dist(a, b, s)) {
                if cx.point_ok("point_at_distance_between", m, true) {
                    let d1 = cx.run("distance", || sp.dist(a, m));
                    let d2 = cx.run("distance", || sp.dist(m, b));
                    if let (Some(d1), Some(d2)) = (d1, d2) {
                        let at_pole = m.y().abs() > 89.9;
                        if at_pole {
                            cx.sh.class("at_distance:intermediate_point_at_a_pole(observe_only)");
                        }
                        if judged && !at_pole {
                            cx.tol("at_distance.start", "point_at_distance_between", (d1 - s).abs(), tau, "|d(a,m) - s|");
                            cx.tol("at_distance.end", "point_at_distance_between", (d2 - (d_ab - s)).abs(), tau, "|d(m,b) - (d(a,b)-s)|");
                        }
                    }
                }
            }
        }
    }
    // ---------------- points_along_line
    if d_ab > 0.0 {
        // great-circle / loxodrome length from the harness's own formulas (the ellipsoid is within 1 % of the sphere)
        let d_indep = kind.radius() * if let Kind::Rhumb = kind { rr.delta } else { sig };
        check_along(&mut cx, sp, a, b, d_ab, tau, d_indep);
    }
    // ---------------- free bearing / distance (negative, > 360): destination ranges, reference, inverse relation
    check_free(&mut cx, sp, la);
    // ---------------- length of Line / LineString / MultiLineString == sum of the segment distances
    check_length(&mut cx, sp);
}

fn check_along(cx: &mut Cx, sp: &dyn Space, a: Point<f64>, b: Point<f64>, d_ab: f64, tau: f64, d_indep: f64) {
    let maxd = d_ab / cx.case.seg;
    if !(maxd > 0.0) || !maxd.is_finite() || d_ab / maxd > 64.0 {
        return;
    }
    // self-protection of the monitor: points_along_line allocates ceil(total/max_distance) points from the
    // implementation's OWN total; if distance() (which max_distance was derived from) is wildly too small the call
    // would exhaust memory.  The inconsistency itself is reported by the distance / round-trip clauses.
    if !(d_indep / maxd <= 4096.0) {
        cx.sh.class("along:skipped(distance_inconsistent_with_reference)");
        return;
    }
    // ... and a max_distance below the coordinate noise (16u*R = 1.1e-8 m on the Earth) is not exercised: the
    // implementations' internal totals carry an absolute error of a few u*R, so the point count would be
    // meaningless (and unbounded) there
    if maxd < 16.0 * U * cx.kind.radius() {
        cx.sh.class("along:skipped(max_distance_below_coordinate_noise)");
        return;
    }
    // probe (documented: "If the distance between start and end is less than max_distance, no additional points will
    // be included"): with max_distance = 1024 x distance only the two end points may come back.  Besides being a
    // clause of its own this bounds the next calls to 24 * 1024 points whatever the implementation believes the
    // total length to be.
    cx.sh.eval(1);
    let probe_max = 1024.0 * d_ab.max(d_indep);
    match cx.run("points_along_line", || sp.along(a, b, probe_max, true)) {
        Some(p) if p.len() == 2 => {}
        Some(p) => {
            cx.viol(
                "along.count",
                "points_along_line",
                "only the two end points (max_distance = 1024 x distance)".into(),
                format!("{} points", p.len()),
                json!({"max_distance": hexf(probe_max), "d": d_ab}),
            );
            return;
        }
        None => return,
    }
    let judged = cx.st.judged();
    let with = cx.run("points_along_line", || sp.along(a, b, maxd, true));
    let without = cx.run("points_along_line", || sp.along(a, b, maxd, false));
    let (Some(with), Some(without)) = (with, without) else { return };
    if cx.verbose {
        println!("  points_along_line(max_distance = {maxd:?}): {} points with ends, {} without", with.len(), without.len());
    }
    for p in with.iter().chain(without.iter()) {
        cx.point_ok("points_along_line", *p, true);
    }
    // include_ends only adds the two end points, bit for bit
    cx.sh.eval(1);
    let ends_ok = with.len() == without.len() + 2 && same_bits(with[0], a) && same_bits(*with.last().unwrap(), b) && with[1..with.len() - 1].iter().zip(without.iter()).all(|(p, q)| same_bits(*p, *q));
    if !ends_ok {
        cx.viol("along.ends", "points_along_line", "include_ends=true == [start] + (include_ends=false) + [end]".into(), format!("{} vs {} points", with.len(), without.len()), json!({"max_distance": hexf(maxd)}));
        return;
    }
    if !judged {
        return;
    }
    let m = without.len();
    // documented: "the distance between points never exceeds max_distance"
    let mut worst = 0.0f64;
    for w in with.windows(2) {
        if let Some(d) = cx.run("distance", || sp.dist(w[0], w[1])) {
            worst = worst.max(d - maxd);
        }
    }
    cx.tol("along.spacing", "points_along_line", worst, tau + 64.0 * U * d_ab, "consecutive distance - max_distance");
    // expected number of segments n = ceil(d / max_distance); ambiguous when the quotient is within rounding of an integer
    // (the implementations derive the total length from their own intermediate quantities, e.g. the
    // difference of the two latitudes in radians: relative 64u plus 8u*R absolute, cf. K_SYM)
    let x = d_ab / maxd;
    let rel = 64.0 * U + 8.0 * U * cx.kind.radius() / d_ab;
    let (n_lo, n_hi) = ((x * (1.0 - rel)).ceil(), (x * (1.0 + rel)).ceil());
    if n_lo != n_hi {
        cx.sh.class("along:segment_count_within_rounding_of_integer");
    }
    cx.sh.eval(1);
    // admissible segment counts n (either candidate when the quotient is within rounding of an integer) for the
    // observed number m of interior points: m == n-1, or m == n (the implementation's accumulated step k*(1/n)
    // can stay below 1 after n additions; one more point is then emitted just before `end` - not promised
    // either way by the documentation: counted, and the point itself is judged like the others)
    let mut cands: Vec<usize> = vec![];
    for n in [m + 1, m] {
        // (every integer between n_lo and n_hi is admissible: the interval is wide for distances near the rounding noise)
        if (n as f64) >= n_lo.max(1.0) && (n as f64) <= n_hi && (n == m + 1 || n >= 2) {
            cands.push(n);
        }
    }
    if cands.is_empty() {
        cx.viol(
            "along.count",
            "points_along_line",
            format!("ceil(d/max_distance) = {} segments, i.e. {} interior points", n_hi, n_hi as i64 - 1),
            format!("{m}"),
            json!({"max_distance": hexf(maxd), "d": d_ab, "n_lo": n_lo, "n_hi": n_hi}),
        );
        return;
    }
    if m == 0 {
        // "If the distance between start and end is less than max_distance, no additional points will be included"
        cx.sh.class("along:no_interior_points");
        return;
    }
    let mut best: Option<(f64, f64, usize)> = None;
    for &n in &cands {
        let (mut e_even, mut e_ratio) = (0.0f64, 0.0f64);
        for (j, p) in without.iter().enumerate() {
            let f = ((j + 1) as f64 / n as f64).min(1.0);
            if let Some(d) = cx.run("distance", || sp.dist(a, *p)) {
                e_even = e_even.max((d - f * d_ab).abs());
            }
            if let Some(q) = cx.run("point_at_ratio_between", || sp.ratio(a, b, f)) {
                if let Some(d) = cx.run("distance", || sp.dist(q, *p)) {
                    e_ratio = e_ratio.max(d);
                }
            }
        }
        if best.map_or(true, |(e, r, _)| e_even.max(e_ratio) < e.max(r)) {
            best = Some((e_even, e_ratio, n));
        }
    }
    let (e_even, e_ratio, n) = best.unwrap();
    cx.sh.class(if m == n { "along:extra_point_at_end" } else { "along:interior_points" });
    let slack = tau + 8.0 * (n as f64) * U * d_ab;
    cx.tol("along.even", "points_along_line", e_even, slack, "|d(a, p_j) - (j/n) d(a,b)|");
    cx.tol("along.ratio_consistent", "points_along_line", e_ratio, slack, "distance(p_j, point_at_ratio_between(a, b, j/n))");
}

fn check_free(cx: &mut Cx, sp: &dyn Space, la: LL) {
    let a = pt(la);
    let scale = cx.kind.scale();
    let (th, s) = (cx.case.theta, cx.case.s * scale);
    let radius = cx.kind.radius();
    let delta = s / radius;
    // Rhumb: a loxodrome ends at the pole; "travelling on" is outside any meaningful domain (observe-only)
    let rh = if let Kind::Rhumb = cx.kind { rh_dest_ref(la, th, delta) } else { None };
    let range_judged = match cx.kind {
        Kind::Rhumb => rh.is_some(),
        _ => true,
    };
    if let Kind::Rhumb = cx.kind {
        cx.sh.class(if rh.is_some() { "rhumb_destination:regular" } else { "rhumb_destination:reaches_pole(observe_only)" });
    }
    cx.observe = la.lat.abs() > 89.9 || !range_judged;
    let Some(p) = cx.run("destination", || sp.dest(a, th, s)) else { return };
    if cx.verbose {
        println!("  destination(a, {th:?}, {s:?}) = ({:?}, {:?})", p.x(), p.y());
    }
    if !cx.point_ok("destination", p, range_judged) {
        return;
    }
    let lp = ll(p);
    // the origin must be away from the poles for the bearing to mean anything; the destination too for the tolerance
    let origin_ok = la.lat.abs() <= 85.0;
    let tau = TAU_MM * scale;
    match cx.kind {
        Kind::Sphere(r) => {
            let q = sphere_dest_ref(la, th, delta);
            if origin_ok && q.lat.abs() <= 85.0 {
                cx.tol("destination.reference", "destination", r * sigma_ref(lp, q), tau + 4.0 * U * s.abs(), "n-vector destination (N=0, E=90)");
                let dl = delta.abs();
                if dl >= 1e-7 && dl <= PI - 0.02 {
                    if let (Some(d), Some(t)) = (cx.run("distance", || sp.dist(a, p)), cx.run("bearing", || sp.bearing(a, p))) {
                        cx.tol("inverse.distance", "destination", (d - s.abs()).abs(), tau, "|distance(a, destination(a, t, s)) - |s||");
                        let want = if s < 0.0 { th + 180.0 } else { th };
                        cx.tol("inverse.bearing", "destination", wrap180(t - want).abs() * D2R * r * dl.sin(), tau, "cross-track offset of bearing(a, destination(a, t, s)) vs t");
                        cx.sh.class("free_destination:inverse_judged");
                    }
                }
            } else {
                cx.sh.class("free_destination:near_pole(observe_only)");
            }
        }
        Kind::Rhumb => {
            let Some((lon_total, lat2)) = rh else { return };
            if origin_ok && lat2.abs() <= 85.0 {
                let q = LL { lon: lon_total, lat: lat2 };
                let rr = rh_ref(la, LL { lon: la.lon, lat: lat2 });
                let dlam_total = (lon_total - la.lon) * D2R;
                let (extra, _) = rhumb_cond(la.lat * D2R, rr.dphi, dlam_total, rr.dpsi);
                let tau = tau + extra;
                cx.tol("destination.reference", "destination", R_MEAN * sigma_ref(lp, q), tau + 4.0 * U * s.abs(), "loxodrome destination from stable isometric-latitude difference (N=0, E=90)");
                if dlam_total.abs() < PI - 1e-6 && delta.abs() >= 1e-7 {
                    if let (Some(d), Some(t)) = (cx.run("distance", || sp.dist(a, p)), cx.run("bearing", || sp.bearing(a, p))) {
                        cx.tol("inverse.distance", "destination", (d - s.abs()).abs(), tau, "|distance(a, destination(a, t, s)) - |s||");
                        let want = if s < 0.0 { th + 180.0 } else { th };
                        cx.tol("inverse.bearing", "destination", wrap180(t - want).abs() * D2R * s.abs(), tau, "offset of bearing(a, destination(a, t, s)) vs t");
                        cx.sh.class("free_destination:inverse_judged");
                    }
                } else {
                    cx.sh.class("free_destination:rhumb_more_than_half_turn");
                }
            } else {
                cx.sh.class("free_destination:near_pole(observe_only)");
            }
        }
        Kind::Ellipsoid(ea, ef) => {
            let g = geographiclib_rs::Geodesic::new(ea, ef);
            let (lat2, lon2): (f64, f64) = g.direct(la.lat, la.lon, th, s);
            let e = (p.y() - lat2).abs().max(wrap180(p.x() - lon2).abs());
            cx.tol("geodesic.reference.destination", "destination", e, 4.0 * U * 360.0, "== geographiclib_rs direct(lat1, lon1, azi1, s12) -> (lat2, lon2), degrees");
            // inverse relation: only while the geodesic is certainly the shortest one (s < pi*b - margin)
            let b_semi = ea * (1.0 - ef);
            if origin_ok && lat2.abs() <= 85.0 && s.abs() >= 1e-7 * ea && s.abs() <= (PI - 0.02) * b_semi {
                if let (Some(d), Some(t)) = (cx.run("distance", || sp.dist(a, p)), cx.run("bearing", || sp.bearing(a, p))) {
                    cx.tol("inverse.distance", "destination", (d - s.abs()).abs(), tau, "|distance(a, destination(a, t, s)) - |s||");
                    let want = if s < 0.0 { th + 180.0 } else { th };
                    cx.tol("inverse.bearing", "destination", wrap180(t - want).abs() * D2R * ea * (s.abs() / ea).sin().abs(), tau, "cross-track offset of bearing(a, destination(a, t, s)) vs t");
                    cx.sh.class("free_destination:inverse_judged");
                }
            }
        }
    }
}

fn case_linestring(case: &Case) -> (LineString<f64>, MultiLineString<f64>) {
    let mut pts: Vec<LL> = vec![];
    match case.extra.len() % 3 {
        0 => {
            pts.push(case.a);
            pts.push(case.b);
            pts.extend(case.extra.iter().cloned());
        }
        1 => {
            pts.extend(case.extra.iter().cloned());
            pts.push(case.a);
            pts.push(case.b);
        }
        _ => {
            // extras only; sometimes cut down to a single point or nothing at all
            pts.extend(case.extra.iter().cloned());
            if case.split == 3 {
                pts.truncate(case.extra.len() / 3);
            }
        }
    }
    let ls = LineString::from(pts.iter().map(|p| (p.lon, p.lat)).collect::<Vec<_>>());
    // split the same vertices into members (sharing the cut vertex), plus an empty member
    let mut members = vec![];
    let cut = if pts.len() >= 3 { 1 + case.split % (pts.len() - 2) } else { 0 };
    if cut > 0 {
        members.push(LineString::from(pts[..=cut].iter().map(|p| (p.lon, p.lat)).collect::<Vec<_>>()));
        members.push(LineString::from(pts[cut..].iter().map(|p| (p.lon, p.lat)).collect::<Vec<_>>()));
        if case.split % 2 == 1 {
            members.push(LineString::new(vec![]));
        }
    } else {
        members.push(ls.clone());
    }
    (ls, MultiLineString::new(members))
}

fn check_length(cx: &mut Cx, sp: &dyn Space) {
    let (ls, mls) = case_linestring(cx.case);
    let n = ls.0.len();
    let mut sum = 0.0;
    let mut ok = true;
    for w in ls.0.windows(2) {
        match cx.run("distance", || sp.dist(Point(w[0]), Point(w[1]))) {
            Some(d) if d.is_finite() => sum += d,
            _ => ok = false,
        }
    }
    let got_ls = cx.run("length(LineString)", || sp.len_ls(&ls));
    let got_mls = cx.run("length(MultiLineString)", || sp.len_mls(&mls));
    let line = Line::new(pt(cx.case.a), pt(cx.case.b));
    let got_line = cx.run("length(Line)", || sp.len_line(&line));
    let d_ab = cx.run("distance", || sp.dist(pt(cx.case.a), pt(cx.case.b)));
    if cx.verbose {
        println!("  length: LineString of {n} points {got_ls:?}, MultiLineString {got_mls:?}, sum of segment distances {sum:?}; Line {got_line:?}");
    }
    if let (Some(g), Some(d)) = (got_line, d_ab) {
        cx.sh.eval(1);
        if !same_val(g, d) {
            cx.viol("length.sum", "length(Line)", format!("{d:?}"), format!("{g:?}"), json!({}));
        }
    }
    if !ok {
        cx.sh.class("length:non_finite_segment(observe_only)");
        return;
    }
    // n-1 additions, each rounding <= u * partial sum: two different summation orders differ by at most
    // 2(n-1)*u*sum (rigorous); 16*n*u*sum keeps the observed maximum (0.8*n*u*sum) below 1/16
    let t = 16.0 * (n.max(1) as f64) * U * sum;
    if let Some(g) = got_ls {
        cx.tol("length.sum", "length(LineString)", (g - sum).abs(), t, "|length - sum of segment distances| <= 16 n u sum");
    }
    if let Some(g) = got_mls {
        // the members partition the same segments
        cx.tol("length.sum", "length(MultiLineString)", (g - sum).abs(), t, "|length - sum of segment distances| <= 16 n u sum");
    }
    // the same members with an empty and a one-coordinate member among them (no segments: nothing to add, and
    // nothing to stop at)
    if !mls.0.is_empty() && !ls.0.is_empty() {
        let mut members = mls.0.clone();
        let at = n % (members.len() + 1);
        members.insert(at, LineString::new(vec![]));
        let at2 = (n / 2) % (members.len() + 1);
        members.insert(at2, LineString::new(vec![ls.0[0]]));
        let mls2 = MultiLineString::new(members);
        if let Some(g) = cx.run("length(MultiLineString with empty members)", || sp.len_mls(&mls2)) {
            cx.tol("length.sum", "length(MultiLineString with an empty and a one-coordinate member)", (g - sum).abs(), t, "|length - sum of segment distances| <= 16 n u sum");
        }
    }
    cx.sh.class(&format!("length:linestring_points:{}", if n > 256 { 257 } else { n.min(4) }));
}

// ------------------------------------------------------------------------------------------ legacy traits
fn check_legacy(sh: &mut Shard, case: &Case, st: St, verbose: bool) {
    let mut cx = Cx { sh, case, name: "legacy", kind: Kind::Rhumb, st, verbose, observe: !st.judged() };
    let (a, b) = (pt(case.a), pt(case.b));
    let (r, th, s) = (case.r, case.theta, case.s);
    let (ls, mls) = case_linestring(case);
    let line = Line::new(a, b);
    let maxd_of = |d: f64| d / case.seg;
    macro_rules! same_f {
        ($check:expr, $old:expr, $new:expr) => {{
            let o = cx.run($check, || $old);
            let n = cx.run($check, || $new);
            if let (Some(o), Some(n)) = (o, n) {
                cx.sh.eval(1);
                if verbose {
                    println!("  legacy {:<46} old {:?} new {:?}", $check, o, n);
                }
                if !same_val(o, n) {
                    cx.viol("legacy.equal", $check, format!("{:?} (new API)", n), format!("{:?}", o), json!({}));
                }
            }
        }};
    }
    macro_rules! same_p {
        ($check:expr, $old:expr, $new:expr) => {{
            let o = cx.run($check, || $old);
            let n = cx.run($check, || $new);
            if let (Some(o), Some(n)) = (o, n) {
                cx.sh.eval(1);
                if verbose {
                    println!("  legacy {:<46} old {:?} new {:?}", $check, o, n);
                }
                if !same_pt(o, n) {
                    cx.viol("legacy.equal", $check, format!("{:?} (new API)", n), format!("{:?}", o), json!({}));
                }
            }
        }};
    }
    macro_rules! same_v {
        ($check:expr, $old:expr, $new:expr) => {{
            let o: Option<Vec<Point<f64>>> = cx.run($check, || $old);
            let n: Option<Vec<Point<f64>>> = cx.run($check, || $new);
            if let (Some(o), Some(n)) = (o, n) {
                cx.sh.eval(1);
                if o.len() != n.len() || o.iter().zip(n.iter()).any(|(p, q)| !same_pt(*p, *q)) {
                    cx.viol("legacy.equal", $check, format!("{} points (new API)", n.len()), format!("{} points / different coordinates", o.len()), json!({}));
                }
            }
        }};
    }
    // the deprecated traits delegate to the new API (read: haversine_distance.rs, geodesic_distance.rs, rhumb/*.rs): exact equality
    same_f!("HaversineDistance::haversine_distance", a.haversine_distance(&b), Haversine.distance(a, b));
    same_f!("GeodesicDistance::geodesic_distance", a.geodesic_distance(&b), Geodesic.distance(a, b));
    same_f!("RhumbDistance::rhumb_distance", a.rhumb_distance(&b), Rhumb.distance(a, b));
    same_f!("RhumbBearing::rhumb_bearing", a.rhumb_bearing(b), Rhumb.bearing(a, b));
    same_p!("RhumbDestination::rhumb_destination", a.rhumb_destination(th, s), Rhumb.destination(a, th, s));
    same_p!("HaversineDestination::haversine_destination", a.haversine_destination(th, s), Haversine.destination(a, th, s));
    same_p!("GeodesicDestination::geodesic_destination", a.geodesic_destination(th, s), Geodesic.destination(a, th, s));
    same_p!("RhumbIntermediate::rhumb_intermediate", a.rhumb_intermediate(&b, r), Rhumb.point_at_ratio_between(a, b, r));
    same_p!("HaversineIntermediate::haversine_intermediate", a.haversine_intermediate(&b, r), Haversine.point_at_ratio_between(a, b, r));
    same_p!("GeodesicIntermediate::geodesic_intermediate", a.geodesic_intermediate(&b, r), Geodesic.point_at_ratio_between(a, b, r));
    for ends in [true, false] {
        // max_distance = max(harness's own length, geo's distance) / seg, and only for separations above 1 um: the
        // implementation allocates ceil(its own total / max_distance) points, so max_distance must not be small
        // against either estimate (the reference is accurate to a few u*R absolutely; a mutant's total may be far
        // larger than the truth).  Point count <= 25 on the unmodified tree.
        let big = |x: f64, y: f64| if y.is_finite() && y > x { y } else { x };
        let d = R_MEAN * rh_ref(case.a, case.b).delta;
        if d > 1e-6 && d.is_finite() {
            let m = maxd_of(big(d, Rhumb.distance(a, b)));
            same_v!("RhumbIntermediate::rhumb_intermediate_fill", a.rhumb_intermediate_fill(&b, m, ends), Rhumb.points_along_line(a, b, m, ends).collect());
        }
        let d = R_MEAN * sigma_ref(case.a, case.b);
        if d > 1e-6 && d.is_finite() {
            let m = maxd_of(big(d, Haversine.distance(a, b)));
            same_v!("HaversineIntermediate::haversine_intermediate_fill", a.haversine_intermediate_fill(&b, m, ends), Haversine.points_along_line(a, b, m, ends).collect());
            let m = maxd_of(big(d, Geodesic.distance(a, b)));
            same_v!("GeodesicIntermediate::geodesic_intermediate_fill", a.geodesic_intermediate_fill(&b, m, ends), Geodesic.points_along_line(a, b, m, ends).collect());
        }
    }
    same_f!("RhumbLength::rhumb_length(Line)", line.rhumb_length(), Length::length(&Rhumb, &line));
    same_f!("RhumbLength::rhumb_length(LineString)", ls.rhumb_length(), Length::length(&Rhumb, &ls));
    same_f!("RhumbLength::rhumb_length(MultiLineString)", mls.rhumb_length(), Length::length(&Rhumb, &mls));
    same_f!("HaversineLength::haversine_length(Line)", line.haversine_length(), Length::length(&Haversine, &line));
    same_f!("HaversineLength::haversine_length(LineString)", ls.haversine_length(), Length::length(&Haversine, &ls));
    same_f!("HaversineLength::haversine_length(MultiLineString)", mls.haversine_length(), Length::length(&Haversine, &mls));
    same_f!("GeodesicLength::geodesic_length(Line)", line.geodesic_length(), Length::length(&Geodesic, &line));
    same_f!("GeodesicLength::geodesic_length(LineString)", ls.geodesic_length(), Length::length(&Geodesic, &ls));
    same_f!("GeodesicLength::geodesic_length(MultiLineString)", mls.geodesic_length(), Length::length(&Geodesic, &mls));
    // HaversineBearing / GeodesicBearing are the pre-0.29 forms that return (-180, 180]: they must be the new bearing mod 360
    for (check, old, new) in [
        ("HaversineBearing::haversine_bearing", cx.run("haversine_bearing", || a.haversine_bearing(b)), cx.run("bearing", || Haversine.bearing(a, b))),
        ("GeodesicBearing::geodesic_bearing", cx.run("geodesic_bearing", || a.geodesic_bearing(b)), cx.run("bearing", || Geodesic.bearing(a, b))),
        ("GeodesicBearing::geodesic_bearing_distance.0", cx.run("geodesic_bearing_distance", || a.geodesic_bearing_distance(b).0), cx.run("bearing", || Geodesic.bearing(a, b))),
    ] {
        if let (Some(o), Some(n)) = (old, new) {
            cx.sh.eval(1);
            if verbose {
                println!("  legacy {:<46} old {:?} new {:?}", check, o, n);
            }
            let e = (n - o).abs().min((n - o - 360.0).abs());
            let in_range = o >= -180.0 && o <= 180.0;
            if !(e <= 4.0 * U * 360.0) || !in_range {
                cx.viol("legacy.bearing_mod_360", check, format!("{n:?} (new API) mod 360, in [-180, 180]"), format!("{o:?}"), json!({}));
            }
        }
    }
    same_f!("GeodesicBearing::geodesic_bearing_distance.1", a.geodesic_bearing_distance(b).1, Geodesic.distance(a, b));
}

// ------------------------------------------------------------------------------------------ one case
pub fn check_case(sh: &mut Shard, case: &Case, verbose: bool) {
    let st = classify(case.a, case.b);
    sh.class(&format!("stratum:{}", st.name()));
    sh.class(&format!("generator:{}", case.kind));
    if verbose {
        println!("case {}: a = ({:?}, {:?})  b = ({:?}, {:?})  r = {:?}  free bearing {:?}  free distance {:?}  seg {:?}  stratum {}", case.kind, case.a.lon, case.a.lat, case.b.lon, case.b.lat, case.r, case.theta, case.s, case.seg, st.name());
    }
    // documented radii (HaversineMeasure docs; Moritz 2000): exact constants
    sh.eval(5);
    for (name, got, want) in [
        ("Haversine", Haversine.radius(), R_MEAN),
        ("HaversineMeasure::GRS80_MEAN_RADIUS", HaversineMeasure::GRS80_MEAN_RADIUS.radius(), R_MEAN),
        ("HaversineMeasure::GRS80_EQUAL_AREA", HaversineMeasure::GRS80_EQUAL_AREA.radius(), R_AREA),
        ("HaversineMeasure::GRS80_EQUAL_VOLUME", HaversineMeasure::GRS80_EQUAL_VOLUME.radius(), R_VOL),
        ("HaversineMeasure::default()", HaversineMeasure::default().radius(), R_MEAN),
    ] {
        if got != want {
            sh.violation(&format!("radius.documented|{name}.radius|-"), json!({"property": "C16", "check": "radius.documented", "expected": want, "got": got, "case": case.json()}));
        }
    }
    let custom = HaversineMeasure::new(case.radius);
    sh.eval(1);
    if custom.radius() != case.radius {
        sh.violation("radius.documented|HaversineMeasure::new.radius|-", json!({"property": "C16", "check": "radius.documented", "expected": case.radius, "got": custom.radius(), "case": case.json()}));
    }
    check_space(sh, &W(&Haversine), "Haversine", Kind::Sphere(R_MEAN), case, st, verbose);
    check_space(sh, &W(&HaversineMeasure::GRS80_MEAN_RADIUS), "HaversineMeasure::GRS80_MEAN_RADIUS", Kind::Sphere(R_MEAN), case, st, verbose);
    check_space(sh, &W(&HaversineMeasure::GRS80_EQUAL_AREA), "HaversineMeasure::GRS80_EQUAL_AREA", Kind::Sphere(R_AREA), case, st, verbose);
    check_space(sh, &W(&HaversineMeasure::GRS80_EQUAL_VOLUME), "HaversineMeasure::GRS80_EQUAL_VOLUME", Kind::Sphere(R_VOL), case, st, verbose);
    check_space(sh, &W(&custom), "HaversineMeasure::new", Kind::Sphere(case.radius), case, st, verbose);
    check_space(sh, &W(&Geodesic), "Geodesic", Kind::Ellipsoid(A_WGS, F_WGS), case, st, verbose);
    let wgs = GeodesicMeasure::wgs84();
    check_space(sh, &W(&wgs), "GeodesicMeasure::wgs84", Kind::Ellipsoid(A_WGS, F_WGS), case, st, verbose);
    let ell = GeodesicMeasure::new(case.ell.0, case.ell.1);
    check_space(sh, &W(&ell), "GeodesicMeasure::new", Kind::Ellipsoid(case.ell.0, case.ell.1), case, st, verbose);
    check_space(sh, &W(&Rhumb), "Rhumb", Kind::Rhumb, case, st, verbose);
    check_legacy(sh, case, st, verbose);
    // evidence of reach
    if case.r == 0.0 || case.r == 1.0 {
        sh.class("ratio:exactly_0_or_1");
    } else {
        sh.class("ratio:interior");
    }
    if case.theta < 0.0 {
        sh.class("free_bearing:negative");
    } else if case.theta >= 360.0 {
        sh.class("free_bearing:>=360");
    } else {
        sh.class("free_bearing:[0,360)");
    }
    sh.class(if case.s < 0.0 { "free_distance:negative" } else if case.s > 2.0e7 { "free_distance:more_than_half_circumference" } else { "free_distance:regular" });
    if st == St::General {
        let mut h = Fnv::new();
        for x in [case.a.lon, case.a.lat, case.b.lon, case.b.lat, case.r, case.theta, case.s] {
            h.f64(x);
        }
        sh.nontrivial(h.0);
    }
    sh.sample(|| json!({"case": case.json(), "stratum": st.name(), "haversine_distance": Haversine.distance(pt(case.a), pt(case.b)), "geodesic_distance": Geodesic.distance(pt(case.a), pt(case.b)), "rhumb_distance": Rhumb.distance(pt(case.a), pt(case.b))}));
}

/// inputs that demonstrate the defects of the pinned tree found by this monitor (REPORT.md section c); executed
/// at the start of every shard so that their signatures do not depend on the luck of the draw
fn fixed_witnesses() -> Vec<Case> {
    let mk = |kind: &str, a: (f64, f64), b: (f64, f64), r: f64, theta: f64, s: f64| Case {
        kind: format!("fixed_witness:{kind}"),
        a: LL { lon: a.0, lat: a.1 },
        b: LL { lon: b.0, lat: b.1 },
        r,
        theta,
        s,
        seg: 4.0,
        k360: 1.0,
        extra: vec![],
        split: 0,
        radius: 3_389_500.0,
        ell: ELLIPSOIDS[0],
    };
    vec![
        // Rhumb.destination longitude < -180 (1.6 turns westwards along the 80th parallel)
        mk("rhumb_destination_longitude_range", (0.0, 80.0), (10.0, 70.0), 0.5, 270.0, 1.1e7),
        // Haversine.distance is NaN for this nearly antipodal pair (sqrt(a) rounds above 1)
        mk("haversine_distance_nan_near_antipode", (19.47034616612214, 34.6141264095533), (-160.52965383057312, -34.61412641223356), 0.5, 45.0, 1000.0),
        // Haversine.destination(a, bearing(a, pole), distance(a, pole)) is NaN (asin argument rounds above 1)
        mk("haversine_destination_nan_at_pole", (0.0, -82.0), (77.0, 90.0), 0.5, 45.0, 1000.0),
        // Haversine.point_at_ratio_between is NaN: start != end but the computed central angle is 0
        mk("haversine_ratio_nan_zero_angle", (63.085423703782624, -31.573662733429188), (63.08542370378262, -31.57366273342919), 0.5, 45.0, 1000.0),
        // Rhumb from / to latitude -90: NaN bearing and NaN longitudes (tan(pi/4 + phi/2) = 0)
        mk("rhumb_south_pole_nan", (0.0, -90.0), (10.0, -90.0), 0.5, 0.0, 1000.0),
        mk("rhumb_south_pole_nan", (0.0, 0.0), (0.0, -90.0), 1.0, 0.0, 1000.0),
        // same root cause, input one ulp-step away from -90: the round trip lands on latitude -90 exactly
        mk("rhumb_south_pole_nan", (-37.75, 50.25), (81.0, -89.99999999999997), 0.5, 0.0, 1000.0),
    ]
}

pub fn run(ctx: &Ctx, sh: &mut Shard) {
    for k in ctx.case_indices() {
        if sh.cases >= ctx.budget {
            break;
        }
        ctx.mark_case(k);
        if k == 0 {
            for w in fixed_witnesses() {
                check_case(sh, &w, false);
            }
        }
        let mut r = Rng::derive(ctx.seed, ctx.shard, k);
        sh.cases += 1;
        let case = gen_case(&mut r);
        if ctx.only.is_some() {
            // crash replay: show the input before executing it
            println!("C16 case k={k}: {}", case.json());
        }
        check_case(sh, &case, false);
    }
    sh.notes.insert("tolerances".into(), json!({"tau_mm_earth_scale": TAU_MM, "K_EW": K_EW, "K_SYM": K_SYM, "u": U}));
}

pub fn replay(v: &Value, sh: &mut Shard) {
    let case = Case::from_json(if v.get("case").is_some() { &v["case"] } else { v });
    check_case(sh, &case, true);
}
