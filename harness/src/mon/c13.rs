//! C13 — affine transforms obey matrix algebra and commute with the algorithms.
//! Part A (algebra): integer / small-dyadic matrices, for which every product and sum is exact in
//! f64, are compared bit for bit with an i128 matrix model (also `AffineTransform<i64>`); the named
//! constructors and the Rotate/Scale/Skew/Translate trait methods are compared with the documented
//! matrix about the documented origin within a derived rounding tolerance.
//! Part B (commutation): for maps that are exact in floating point (integer translation,
//! power-of-two scaling, axis swap, reflections, quarter turns and compositions) every predicate
//! and matrix must be unchanged and measures must scale by exactly the expected factor.
use crate::gen::*;
use crate::ig::*;
use crate::report::*;
use crate::rng::{Fnv, Rng};
use geo::algorithm::line_measures::{Distance, Euclidean, Length};
use geo::coordinate_position::CoordinatePosition;
use geo::{AffineOps, AffineTransform, Area, BoundingRect, Centroid, Contains, ConvexHull, Coord, CoordsIter, Geometry, HausdorffDistance, Intersects, Point, Relate, Rotate, Scale, Skew, Translate, Validation};
use serde_json::{json, Value};

use super::c01::im_string;

const U: f64 = 1.1102230246251565e-16; // 2^-53

// ---------------------------------------------------------------- exact integer matrix model
#[derive(Clone, Copy, Debug, PartialEq)]
struct M {
    a: i128,
    b: i128,
    x: i128,
    d: i128,
    e: i128,
    y: i128,
}
impl M {
    const ID: M = M { a: 1, b: 0, x: 0, d: 0, e: 1, y: 0 };
    fn apply(&self, p: (i128, i128)) -> (i128, i128) {
        (self.a * p.0 + self.b * p.1 + self.x, self.d * p.0 + self.e * p.1 + self.y)
    }
    /// first self, then o
    fn then(&self, o: &M) -> M {
        M { a: o.a * self.a + o.b * self.d, b: o.a * self.b + o.b * self.e, x: o.a * self.x + o.b * self.y + o.x, d: o.d * self.a + o.e * self.d, e: o.d * self.b + o.e * self.e, y: o.d * self.x + o.e * self.y + o.y }
    }
    fn det(&self) -> i128 {
        self.a * self.e - self.b * self.d
    }
    fn to_f(&self) -> AffineTransform<f64> {
        AffineTransform::new(self.a as f64, self.b as f64, self.x as f64, self.d as f64, self.e as f64, self.y as f64)
    }
    fn to_i(&self) -> AffineTransform<i64> {
        AffineTransform::new(self.a as i64, self.b as i64, self.x as i64, self.d as i64, self.e as i64, self.y as i64)
    }
    fn json(&self) -> Value {
        json!([self.a as i64, self.b as i64, self.x as i64, self.d as i64, self.e as i64, self.y as i64])
    }
    fn from_json(v: &Value) -> M {
        let g = |i: usize| v[i].as_i64().unwrap() as i128;
        M { a: g(0), b: g(1), x: g(2), d: g(3), e: g(4), y: g(5) }
    }
    fn max_abs(&self) -> i128 {
        [self.a, self.b, self.x, self.d, self.e, self.y].iter().map(|v| v.abs()).max().unwrap()
    }
}
fn rand_m(r: &mut Rng) -> M {
    let e = |r: &mut Rng| r.range(-6, 6) as i128;
    let o = |r: &mut Rng| if r.chance(1, 3) { r.range(-1000, 1000) as i128 } else { r.range(-9, 9) as i128 };
    match r.below(8) {
        0 => M { a: 1, b: 0, x: o(r), d: 0, e: 1, y: o(r) },                   // translation
        1 => M { a: 0, b: -1, x: o(r), d: 1, e: 0, y: o(r) },                  // quarter turn
        2 => M { a: e(r), b: 0, x: 0, d: 0, e: e(r), y: 0 },                   // scaling (possibly singular)
        3 => {
            // singular rank-1
            let (p, q, s, t) = (e(r), e(r), e(r), e(r));
            M { a: p * s, b: p * t, x: o(r), d: q * s, e: q * t, y: o(r) }
        }
        4 => M { a: 1, b: e(r), x: o(r), d: 0, e: 1, y: o(r) }, // shear (det 1)
        _ => M { a: e(r), b: e(r), x: o(r), d: e(r), e: e(r), y: o(r) },
    }
}
fn mat_of_f(t: &AffineTransform<f64>) -> [f64; 6] {
    [t.a(), t.b(), t.xoff(), t.d(), t.e(), t.yoff()]
}
fn mat_of_i(t: &AffineTransform<i64>) -> [i64; 6] {
    [t.a(), t.b(), t.xoff(), t.d(), t.e(), t.yoff()]
}
fn m_arr(m: &M) -> [i128; 6] {
    [m.a, m.b, m.x, m.d, m.e, m.y]
}

fn algebra_case(sh: &mut Shard, chain: &[M], pts: &[(i64, i64)], verbose: bool) {
    let det = |check: &str, exp: String, got: String| json!({"property": "C13", "check": check, "kind": "algebra", "chain": chain.iter().map(|m| m.json()).collect::<Vec<_>>(), "pts": pts, "expected": exp, "got": got});
    // model of the whole chain; keep magnitudes exactly representable
    let mut acc = M::ID;
    for m in chain {
        acc = acc.then(m);
    }
    if acc.max_abs() > (1 << 40) {
        sh.inconclusive("chain magnitude beyond the exactly representable range");
        return;
    }
    // ---- compose (pairwise fold) and compose_many, f64 and i64
    let tf: Vec<AffineTransform<f64>> = chain.iter().map(|m| m.to_f()).collect();
    let ti: Vec<AffineTransform<i64>> = chain.iter().map(|m| m.to_i()).collect();
    let mut cf = tf[0];
    let mut ci = ti[0];
    for k in 1..chain.len() {
        cf = cf.compose(&tf[k]);
        ci = ci.compose(&ti[k]);
    }
    sh.eval(2);
    let exp = m_arr(&acc);
    if mat_of_f(&cf).iter().zip(exp.iter()).any(|(g, e)| *g != *e as f64) {
        sh.violation("compose.matrix|AffineTransform<f64>|-", det("compose.matrix", format!("{:?}", exp), format!("{:?}", mat_of_f(&cf))));
    }
    if mat_of_i(&ci).iter().zip(exp.iter()).any(|(g, e)| *g as i128 != *e) {
        sh.violation("compose.matrix|AffineTransform<i64>|-", det("compose.matrix", format!("{:?}", exp), format!("{:?}", mat_of_i(&ci))));
    }
    if chain.len() >= 2 {
        sh.eval(2);
        let cm = tf[0].compose_many(&tf[1..]);
        if mat_of_f(&cm) != mat_of_f(&cf) {
            sh.violation("compose_many.fold|AffineTransform<f64>|-", det("compose_many.fold", format!("{:?}", mat_of_f(&cf)), format!("{:?}", mat_of_f(&cm))));
        }
        let cmi = ti[0].compose_many(&ti[1..]);
        if mat_of_i(&cmi) != mat_of_i(&ci) {
            sh.violation("compose_many.fold|AffineTransform<i64>|-", det("compose_many.fold", format!("{:?}", mat_of_i(&ci)), format!("{:?}", mat_of_i(&cmi))));
        }
        sh.class("compose_many");
    }
    // ---- the cumulative builder forms: t.translated(..) / scaled / rotated / skewed are documented as "the new
    // transform is added to the existing one", i.e. t.compose(&constructor(..)) - the existing transform first
    if !pts.is_empty() {
        let o = Coord { x: pts[0].0 as f64, y: pts[0].1 as f64 };
        let (dx, dy) = (pts[pts.len() - 1].0 as f64, pts[pts.len() - 1].1 as f64);
        let forms: Vec<(&str, AffineTransform<f64>, AffineTransform<f64>)> = vec![
            ("translated", cf.translated(dx, dy), cf.compose(&AffineTransform::translate(dx, dy))),
            ("scaled", cf.scaled(2.0, -3.0, o), cf.compose(&AffineTransform::scale(2.0, -3.0, o))),
            ("rotated", cf.rotated(30.0, o), cf.compose(&AffineTransform::rotate(30.0, o))),
            ("skewed", cf.skewed(20.0, 35.0, o), cf.compose(&AffineTransform::skew(20.0, 35.0, o))),
        ];
        for (name, got, exp) in forms {
            sh.eval(1);
            let (g, e) = (mat_of_f(&got), mat_of_f(&exp));
            let mag = e.iter().fold(1.0f64, |a, b| a.max(b.abs()));
            if g.iter().zip(e.iter()).any(|(x, y)| !((x - y).abs() <= 1e-9 * mag)) {
                sh.violation(&format!("builder.{name}|AffineTransform<f64>|-"), det(&format!("builder.{name}"), format!("t.compose(&{name} constructor) = {:?}", e), format!("{:?}", g)));
            }
        }
        sh.eval(2);
        let (oi, di) = (Coord { x: pts[0].0, y: pts[0].1 }, (pts[pts.len() - 1].0, pts[pts.len() - 1].1));
        if mat_of_i(&ci.translated(di.0, di.1)) != mat_of_i(&ci.compose(&AffineTransform::translate(di.0, di.1))) {
            sh.violation("builder.translated|AffineTransform<i64>|-", det("builder.translated", format!("{:?}", mat_of_i(&ci.compose(&AffineTransform::translate(di.0, di.1)))), format!("{:?}", mat_of_i(&ci.translated(di.0, di.1)))));
        }
        if mat_of_i(&ci.scaled(2, -3, oi)) != mat_of_i(&ci.compose(&AffineTransform::scale(2, -3, oi))) {
            sh.violation("builder.scaled|AffineTransform<i64>|-", det("builder.scaled", format!("{:?}", mat_of_i(&ci.compose(&AffineTransform::scale(2, -3, oi)))), format!("{:?}", mat_of_i(&ci.scaled(2, -3, oi)))));
        }
        sh.class("builder_forms");
    }
    // ---- apply: composed transform == applying one after the other == model
    for &p in pts {
        sh.eval(1);
        let e = acc.apply((p.0 as i128, p.1 as i128));
        let c = Coord { x: p.0 as f64, y: p.1 as f64 };
        let g1 = cf.apply(c);
        let mut g2 = c;
        for t in &tf {
            g2 = t.apply(g2);
        }
        let gi = ci.apply(Coord { x: p.0, y: p.1 });
        if verbose {
            println!("apply {:?}: model {:?} composed {:?} stepwise {:?} i64 {:?}", p, e, g1, g2, gi);
        }
        if g1.x != e.0 as f64 || g1.y != e.1 as f64 || g2 != g1 || gi.x as i128 != e.0 || gi.y as i128 != e.1 {
            sh.violation("compose.apply|AffineTransform|-", det("compose.apply", format!("{:?}", e), format!("composed {:?} stepwise {:?} i64 {:?}", g1, g2, gi)));
        }
    }
    // ---- identity / is_identity
    sh.eval(1);
    if cf.is_identity() != (acc == M::ID) {
        sh.violation("is_identity|AffineTransform<f64>|-", det("is_identity", (acc == M::ID).to_string(), cf.is_identity().to_string()));
    }
    // ---- new, From<[T; 6]> and From<(T, T, T, T, T, T)> take the six entries in the same order [a, b, xoff, d, e, yoff]
    sh.eval(1);
    {
        let arr = [acc.a as f64, acc.b as f64, acc.x as f64, acc.d as f64, acc.e as f64, acc.y as f64];
        let from_arr: AffineTransform<f64> = arr.into();
        let from_tup: AffineTransform<f64> = (arr[0], arr[1], arr[2], arr[3], arr[4], arr[5]).into();
        let iarr = [acc.a as i64, acc.b as i64, acc.x as i64, acc.d as i64, acc.e as i64, acc.y as i64];
        let ifrom_arr: AffineTransform<i64> = iarr.into();
        let ifrom_tup: AffineTransform<i64> = (iarr[0], iarr[1], iarr[2], iarr[3], iarr[4], iarr[5]).into();
        if mat_of_f(&from_arr) != arr || mat_of_f(&from_tup) != arr || mat_of_f(&acc.to_f()) != arr || mat_of_i(&ifrom_arr) != iarr || mat_of_i(&ifrom_tup) != iarr {
            sh.violation("constructors.entry_order|AffineTransform|-", det("constructors.entry_order", format!("{:?}", arr), format!("from array {:?} from tuple {:?} new {:?} i64: {:?} {:?}", mat_of_f(&from_arr), mat_of_f(&from_tup), mat_of_f(&acc.to_f()), mat_of_i(&ifrom_arr), mat_of_i(&ifrom_tup))));
        }
    }
    // ---- inverse: None exactly for singular matrices; inverse∘t = id
    sh.eval(1);
    let d = acc.det();
    let inv = cf.inverse();
    if (d == 0) != inv.is_none() {
        sh.violation("inverse.none_iff_singular|AffineTransform<f64>|-", det("inverse.none_iff_singular", format!("det={d} => {}", if d == 0 { "None" } else { "Some" }), format!("{:?}", inv.map(|t| mat_of_f(&t)))));
    }
    sh.class(if d == 0 { "singular" } else { "non_singular" });
    if let Some(inv) = inv {
        // exact inverse entries: adj/det. Rounding: 1/det is rounded once, each entry one more product.
        let adj = [acc.e, -acc.b, acc.b * acc.y - acc.e * acc.x, -acc.d, acc.a, acc.d * acc.x - acc.a * acc.y];
        let got = mat_of_f(&inv);
        for k in 0..6 {
            sh.eval(1);
            let e = adj[k] as f64 / d as f64;
            // |fl(adj * fl(1/det)) - adj/det| <= 3u|adj/det|
            let tol = 4.0 * U * e.abs();
            sh.maximum("inverse.entry_err_over_tol", if tol > 0.0 { (got[k] - e).abs() / tol } else { 0.0 });
            if (got[k] - e).abs() > tol {
                sh.violation("inverse.entries|AffineTransform<f64>|-", det("inverse.entries", format!("entry {k} = {e:e}"), format!("{:e}", got[k])));
            }
        }
        for &p in pts {
            sh.eval(1);
            let c = Coord { x: p.0 as f64, y: p.1 as f64 };
            let back = inv.apply(cf.apply(c));
            // magnitude of the terms that are added up when applying the inverse
            let q = cf.apply(c);
            let s = (got[0] * q.x).abs() + (got[1] * q.y).abs() + got[2].abs() + (got[3] * q.x).abs() + (got[4] * q.y).abs() + got[5].abs();
            let tol = 16.0 * U * s;
            let err = (back.x - c.x).abs().max((back.y - c.y).abs());
            sh.maximum("inverse.roundtrip_err_over_tol", if tol > 0.0 { err / tol } else { 0.0 });
            if err > tol {
                sh.violation("inverse.roundtrip|AffineTransform<f64>|-", det("inverse.roundtrip", format!("{:?}", c), format!("{:?}", back)));
            }
        }
        if d == 1 || d == -1 {
            // exact case: also the i64 inverse
            sh.eval(1);
            if let Some(ii) = ci.inverse() {
                let e: Vec<i128> = adj.iter().map(|a| a / d).collect();
                if mat_of_i(&ii).iter().zip(e.iter()).any(|(g, e)| *g as i128 != *e) {
                    sh.violation("inverse.entries|AffineTransform<i64>|-", det("inverse.entries", format!("{:?}", e), format!("{:?}", mat_of_i(&ii))));
                }
            } else {
                sh.violation("inverse.none_iff_singular|AffineTransform<i64>|-", det("inverse.none_iff_singular", "Some".into(), "None".into()));
            }
            sh.class("unimodular_inverse");
        }
    }
    let mut h = Fnv::new();
    for m in chain {
        for v in m_arr(m) {
            h.i64(v as i64);
        }
    }
    if chain.len() >= 2 {
        sh.nontrivial(h.0);
    }
    sh.class(&format!("chain_len:{}", chain.len()));
    sh.sample(|| json!({"kind": "algebra", "chain": chain.iter().map(|m| m.json()).collect::<Vec<_>>(), "composed": acc.json(), "det": d as i64}));
}

// ---------------------------------------------------------------- documented constructors and trait methods
#[derive(Clone, Copy, Debug)]
struct Doc {
    m: [f64; 6],
    /// magnitude of the terms summed inside xoff / yoff (for the tolerance)
    soff: f64,
}
fn doc_rotate(deg: f64, o: Coord<f64>) -> Doc {
    let (s, c) = deg.to_radians().sin_cos();
    Doc { m: [c, -s, o.x - o.x * c + o.y * s, s, c, o.y - o.x * s - o.y * c], soff: (o.x.abs() + o.y.abs()) * 2.0 }
}
fn doc_scale(fx: f64, fy: f64, o: Coord<f64>) -> Doc {
    Doc { m: [fx, 0.0, o.x - o.x * fx, 0.0, fy, o.y - o.y * fy], soff: o.x.abs() * (1.0 + fx.abs()) + o.y.abs() * (1.0 + fy.abs()) }
}
fn doc_skew(xs: f64, ys: f64, o: Coord<f64>) -> Doc {
    let (tx, ty) = (xs.to_radians().tan(), ys.to_radians().tan());
    Doc { m: [1.0, tx, -o.y * tx, ty, 1.0, -o.x * ty], soff: (o.y * tx).abs() + (o.x * ty).abs() }
}
fn doc_translate(dx: f64, dy: f64) -> Doc {
    Doc { m: [1.0, 0.0, dx, 0.0, 1.0, dy], soff: dx.abs() + dy.abs() }
}
impl Doc {
    fn apply(&self, c: Coord<f64>) -> (Coord<f64>, f64) {
        let m = &self.m;
        let x = m[0] * c.x + m[1] * c.y + m[2];
        let y = m[3] * c.x + m[4] * c.y + m[5];
        let s = (m[0] * c.x).abs() + (m[1] * c.y).abs() + (m[3] * c.x).abs() + (m[4] * c.y).abs() + self.soff;
        (Coord { x, y }, s)
    }
}
#[derive(Clone, Debug)]
enum TOp {
    Rotate(f64, (i64, i64)),
    RotateCentroid(f64),
    RotateCenter(f64),
    Scale(f64),
    ScaleXY(f64, f64),
    ScaleAround(f64, f64, (i64, i64)),
    Skew(f64),
    SkewXY(f64, f64),
    SkewAround(f64, f64, (i64, i64)),
    Translate(f64, f64),
}
fn top_json(t: &TOp) -> Value {
    match t {
        TOp::Rotate(a, o) => json!(["rotate_around_point", a, [o.0, o.1]]),
        TOp::RotateCentroid(a) => json!(["rotate_around_centroid", a]),
        TOp::RotateCenter(a) => json!(["rotate_around_center", a]),
        TOp::Scale(f) => json!(["scale", f]),
        TOp::ScaleXY(a, b) => json!(["scale_xy", a, b]),
        TOp::ScaleAround(a, b, o) => json!(["scale_around_point", a, b, [o.0, o.1]]),
        TOp::Skew(a) => json!(["skew", a]),
        TOp::SkewXY(a, b) => json!(["skew_xy", a, b]),
        TOp::SkewAround(a, b, o) => json!(["skew_around_point", a, b, [o.0, o.1]]),
        TOp::Translate(a, b) => json!(["translate", a, b]),
    }
}
fn top_from_json(v: &Value) -> TOp {
    let f = |i: usize| v[i].as_f64().unwrap();
    let o = |i: usize| (v[i][0].as_i64().unwrap(), v[i][1].as_i64().unwrap());
    match v[0].as_str().unwrap() {
        "rotate_around_point" => TOp::Rotate(f(1), o(2)),
        "rotate_around_centroid" => TOp::RotateCentroid(f(1)),
        "rotate_around_center" => TOp::RotateCenter(f(1)),
        "scale" => TOp::Scale(f(1)),
        "scale_xy" => TOp::ScaleXY(f(1), f(2)),
        "scale_around_point" => TOp::ScaleAround(f(1), f(2), o(3)),
        "skew" => TOp::Skew(f(1)),
        "skew_xy" => TOp::SkewXY(f(1), f(2)),
        "skew_around_point" => TOp::SkewAround(f(1), f(2), o(3)),
        _ => TOp::Translate(f(1), f(2)),
    }
}
fn rand_top(r: &mut Rng) -> TOp {
    let ang = |r: &mut Rng| *r.pick(&[0.0, 30.0, 45.0, 90.0, 180.0, -90.0, 270.0, 360.0, 12.5, -33.0, 123.456, 720.5]);
    let sk = |r: &mut Rng| *r.pick(&[0.0, 10.0, 30.0, 45.0, -20.0, 60.0, 5.5]);
    let fac = |r: &mut Rng| *r.pick(&[2.0, 0.5, 3.0, 1.5, -1.0, 1.0, 0.1, 7.25]);
    let org = |r: &mut Rng| (r.range(-20, 20), r.range(-20, 20));
    match r.below(10) {
        0 => TOp::Rotate(ang(r), org(r)),
        1 => TOp::RotateCentroid(ang(r)),
        2 => TOp::RotateCenter(ang(r)),
        3 => TOp::Scale(fac(r)),
        4 => TOp::ScaleXY(fac(r), fac(r)),
        5 => TOp::ScaleAround(fac(r), fac(r), org(r)),
        6 => TOp::Skew(sk(r)),
        7 => TOp::SkewXY(sk(r), sk(r)),
        8 => TOp::SkewAround(sk(r), sk(r), org(r)),
        _ => TOp::Translate(r.range(-1000, 1000) as f64 * 0.5, r.range(-1000, 1000) as f64 * 0.25),
    }
}
fn coords_of(g: &Geometry<f64>) -> Vec<Coord<f64>> {
    g.coords_iter().collect()
}
fn bbox_center(cs: &[Coord<f64>]) -> Option<Coord<f64>> {
    if cs.is_empty() {
        return None;
    }
    let (mut x0, mut x1, mut y0, mut y1) = (cs[0].x, cs[0].x, cs[0].y, cs[0].y);
    for c in cs {
        x0 = x0.min(c.x);
        x1 = x1.max(c.x);
        y0 = y0.min(c.y);
        y1 = y1.max(c.y);
    }
    Some(Coord { x: (x0 + x1) / 2.0, y: (y0 + y1) / 2.0 })
}

/// Rect re-normalises its corners and Triangle re-orders its vertices (counter-clockwise) whenever it
/// is rebuilt from mapped coordinates, so their traversal is only comparable coordinate by coordinate
/// under maps that keep axis directions and orientation.
fn has_renormalising_member(a: &IG) -> bool {
    match a {
        IG::Rect(..) | IG::Triangle(..) => true,
        IG::Collection(v) => v.iter().any(has_renormalising_member),
        _ => false,
    }
}
/// a Triangle stored clockwise: MapCoords rebuilds a Triangle with Triangle::new, which re-orders such a triple (the
/// recorded C19 finding triangle_map_coords_reorders_vertices), so the ORDER of its images is not judged here
fn has_cw_triangle(a: &IG) -> bool {
    match a {
        IG::Triangle(p, q, s) => orient_i(*p, *q, *s) < 0,
        IG::Collection(v) => v.iter().any(has_cw_triangle),
        _ => false,
    }
}
/// coordinates in traversal order, the three of every Triangle sorted (by bit pattern): equal exactly when the
/// geometries are equal up to the vertex order of their triangles
fn coords_norm(g: &Geometry<f64>) -> Vec<(u64, u64)> {
    fn walk(g: &Geometry<f64>, out: &mut Vec<(u64, u64)>) {
        match g {
            Geometry::Triangle(t) => {
                let mut v: Vec<(u64, u64)> = t.to_array().iter().map(|c| (c.x.to_bits(), c.y.to_bits())).collect();
                v.sort();
                out.extend(v);
            }
            Geometry::GeometryCollection(gc) => {
                for m in &gc.0 {
                    walk(m, out);
                }
            }
            o => out.extend(o.coords_iter().map(|c| (c.x.to_bits(), c.y.to_bits()))),
        }
    }
    let mut out = vec![];
    walk(g, &mut out);
    out
}
fn trait_case(sh: &mut Shard, a: &IG, lat: &Lat, op: &TOp, verbose: bool) {
    let g = a.to_geo(lat);
    let cs = coords_of(&g);
    let fc = |o: (i64, i64)| Coord { x: o.0 as f64, y: o.1 as f64 };
    // documented origin
    let (doc, name): (Option<Doc>, &str) = match op {
        TOp::Rotate(d, o) => (Some(doc_rotate(*d, fc(*o))), "rotate_around_point"),
        TOp::RotateCentroid(d) => (g.centroid().map(|p| doc_rotate(*d, p.0)), "rotate_around_centroid"),
        TOp::RotateCenter(d) => (bbox_center(&cs).map(|c| doc_rotate(*d, c)), "rotate_around_center"),
        TOp::Scale(f) => (bbox_center(&cs).map(|c| doc_scale(*f, *f, c)), "scale"),
        TOp::ScaleXY(fx, fy) => (bbox_center(&cs).map(|c| doc_scale(*fx, *fy, c)), "scale_xy"),
        TOp::ScaleAround(fx, fy, o) => (Some(doc_scale(*fx, *fy, fc(*o))), "scale_around_point"),
        TOp::Skew(s) => (bbox_center(&cs).map(|c| doc_skew(*s, *s, c)), "skew"),
        TOp::SkewXY(x, y) => (bbox_center(&cs).map(|c| doc_skew(*x, *y, c)), "skew_xy"),
        TOp::SkewAround(x, y, o) => (Some(doc_skew(*x, *y, fc(*o))), "skew_around_point"),
        TOp::Translate(x, y) => (Some(doc_translate(*x, *y)), "translate"),
    };
    // pure and in-place forms
    let pure = call(|| match op {
        TOp::Rotate(d, o) => g.rotate_around_point(*d, Point(fc(*o))),
        TOp::RotateCentroid(d) => g.rotate_around_centroid(*d),
        TOp::RotateCenter(d) => g.rotate_around_center(*d),
        TOp::Scale(f) => g.scale(*f),
        TOp::ScaleXY(x, y) => g.scale_xy(*x, *y),
        TOp::ScaleAround(x, y, o) => g.scale_around_point(*x, *y, fc(*o)),
        TOp::Skew(s) => g.skew(*s),
        TOp::SkewXY(x, y) => g.skew_xy(*x, *y),
        TOp::SkewAround(x, y, o) => g.skew_around_point(*x, *y, fc(*o)),
        TOp::Translate(x, y) => g.translate(*x, *y),
    });
    let inplace = call(|| {
        let mut h = g.clone();
        match op {
            TOp::Rotate(d, o) => h.rotate_around_point_mut(*d, Point(fc(*o))),
            TOp::RotateCentroid(d) => h.rotate_around_centroid_mut(*d),
            TOp::RotateCenter(d) => h.rotate_around_center_mut(*d),
            TOp::Scale(f) => h.scale_mut(*f),
            TOp::ScaleXY(x, y) => h.scale_xy_mut(*x, *y),
            TOp::ScaleAround(x, y, o) => h.scale_around_point_mut(*x, *y, fc(*o)),
            TOp::Skew(s) => h.skew_mut(*s),
            TOp::SkewXY(x, y) => h.skew_xy_mut(*x, *y),
            TOp::SkewAround(x, y, o) => h.skew_around_point_mut(*x, *y, fc(*o)),
            TOp::Translate(x, y) => h.translate_mut(*x, *y),
        }
        h
    });
    let det = |check: &str, exp: String, got: String| json!({"property": "C13", "check": check, "kind": "trait", "a": a.json(), "lat": lat.json(), "op": top_json(op), "expected": exp, "got": got, "a_geo": format!("{:?}", g)});
    let site = format!("{}:{}", name, a.kind());
    let (pure, inplace) = match (pure, inplace) {
        (Ok(p), Ok(i)) => (p, i),
        (p, i) => {
            sh.violation(&format!("trait.panic|{site}|-"), det("trait.panic", "no panic".into(), format!("{:?} / {:?}", p.err(), i.err())));
            return;
        }
    };
    sh.eval(1);
    if pure != inplace {
        sh.violation(&format!("trait.inplace_eq_pure|{site}|-"), det("trait.inplace_eq_pure", format!("{:?}", pure), format!("{:?}", inplace)));
    }
    let out = coords_of(&pure);
    sh.eval(1);
    match doc {
        None => {
            // empty geometry: documented no-op
            if pure != g {
                sh.violation(&format!("trait.empty_noop|{site}|-"), det("trait.empty_noop", format!("{:?}", g), format!("{:?}", pure)));
            }
            sh.class("trait:empty_geometry");
        }
        Some(doc) => {
            let order_safe = match op {
                TOp::Translate(..) => true,
                TOp::Scale(f) => *f > 0.0,
                TOp::ScaleXY(x, y) | TOp::ScaleAround(x, y, _) => *x > 0.0 && *y > 0.0,
                _ => false,
            } && !has_cw_triangle(a);
            if has_renormalising_member(a) && !matches!(a, IG::Rect(..)) && !order_safe {
                // observe-only: no panic, same number of coordinates
                if out.len() != cs.len() {
                    sh.violation(&format!("trait.shape|{site}|-"), det("trait.shape", format!("{} coords", cs.len()), format!("{} coords", out.len())));
                }
                sh.class("trait:renormalising_member_observe_only");
            } else if matches!(a, IG::Rect(..)) {
                // Rect re-normalises its corners after mapping them: judge min/max of the mapped min/max corners
                let (mn, mx) = match &g {
                    Geometry::Rect(r) => (r.min(), r.max()),
                    _ => unreachable!(),
                };
                let (p, s1) = doc.apply(mn);
                let (q, s2) = doc.apply(mx);
                let tol = 8.0 * U * s1.max(s2);
                let (emn, emx) = (Coord { x: p.x.min(q.x), y: p.y.min(q.y) }, Coord { x: p.x.max(q.x), y: p.y.max(q.y) });
                if let Geometry::Rect(r) = &pure {
                    let err = (r.min().x - emn.x).abs().max((r.min().y - emn.y).abs()).max((r.max().x - emx.x).abs()).max((r.max().y - emx.y).abs());
                    if err > tol {
                        sh.violation(&format!("trait.documented_matrix|{site}|-"), det("trait.documented_matrix", format!("{:?} {:?}", emn, emx), format!("{:?}", r)));
                    }
                } else {
                    sh.violation(&format!("trait.shape|{site}|-"), det("trait.shape", "Rect".into(), format!("{:?}", pure)));
                }
                sh.class("trait:rect_renormalised");
            } else if out.len() != cs.len() {
                sh.violation(&format!("trait.shape|{site}|-"), det("trait.shape", format!("{} coords", cs.len()), format!("{} coords", out.len())));
            } else {
                for (i, c) in cs.iter().enumerate() {
                    let (e, s) = doc.apply(*c);
                    // each output coordinate is a sum of three products/terms; entries carry <= 2u relative error
                    // (sin/cos/tan within 1 ulp, one rounding in the offset), geo may associate differently: 8u·S
                    let tol = 8.0 * U * s;
                    let err = (out[i].x - e.x).abs().max((out[i].y - e.y).abs());
                    sh.maximum("trait.err_over_tol", if tol > 0.0 { err / tol } else { 0.0 });
                    if verbose {
                        println!("{name} coord {i}: {:?} -> expected {:?} got {:?} (tol {:e})", c, e, out[i], tol);
                    }
                    if !(err <= tol) {
                        sh.violation(&format!("trait.documented_matrix|{site}|-"), det("trait.documented_matrix", format!("coord {i}: {:?}", e), format!("{:?}", out[i])));
                        break;
                    }
                }
            }
        }
    }
    sh.class(&format!("trait:{name}"));
    let mut h = Fnv::new();
    a.digest(&mut h);
    h.str(&top_json(op).to_string());
    if !cs.is_empty() {
        sh.nontrivial(h.0);
    }
    sh.sample(|| json!({"kind": "trait", "geometry": format!("{:?}", g), "op": top_json(op)}));
}

// ---------------------------------------------------------------- Part B: exact maps commute with the algorithms
/// integer orthogonal part (signed permutation matrix) + integer translation, then lattice offset/scale
#[derive(Clone, Copy, Debug)]
struct Exact {
    m: M,       // a,b,d,e in {0,±1}, signed permutation; x,y small integer translation
    ox: i64,    // further integer translation (large)
    oy: i64,
    sh: i32,    // power-of-two scaling applied last
}
fn rand_exact(r: &mut Rng) -> Exact {
    let lin: [(i128, i128, i128, i128); 8] = [(1, 0, 0, 1), (0, -1, 1, 0), (-1, 0, 0, -1), (0, 1, -1, 0), (0, 1, 1, 0), (-1, 0, 0, 1), (1, 0, 0, -1), (0, -1, -1, 0)];
    let l = *r.pick(&lin);
    let small = |r: &mut Rng| if r.chance(1, 2) { 0 } else { r.range(-7, 7) as i128 };
    let big = |r: &mut Rng| *r.pick(&[0i64, 0, 1000, -1000, 100_000_000, -100_000_000, 1 << 40]);
    Exact { m: M { a: l.0, b: l.1, x: small(r), d: l.2, e: l.3, y: small(r) }, ox: big(r), oy: big(r), sh: if r.chance(1, 2) { 0 } else { r.range(-40, 40) as i32 } }
}
impl Exact {
    fn map_ig(&self, a: &IG) -> IG {
        let m = self.m;
        a.map(&|p| {
            let q = m.apply((p.0 as i128, p.1 as i128));
            (q.0 as i64, q.1 as i64)
        })
    }
    fn lat(&self) -> Lat {
        Lat { ox: self.ox, oy: self.oy, sh: self.sh, shear: 0 }
    }
    /// the same map as an AffineTransform<f64> with exactly representable entries
    fn transform(&self) -> AffineTransform<f64> {
        let s = crate::q::pow2(self.sh);
        let m = self.m;
        AffineTransform::new(m.a as f64 * s, m.b as f64 * s, (m.x as f64 + self.ox as f64) * s, m.d as f64 * s, m.e as f64 * s, (m.y as f64 + self.oy as f64) * s)
    }
    fn json(&self) -> Value {
        json!({"m": self.m.json(), "ox": self.ox, "oy": self.oy, "sh": self.sh})
    }
    fn from_json(v: &Value) -> Exact {
        Exact { m: M::from_json(&v["m"]), ox: v["ox"].as_i64().unwrap(), oy: v["oy"].as_i64().unwrap(), sh: v["sh"].as_i64().unwrap() as i32 }
    }
    fn orientation_reversing(&self) -> bool {
        self.m.det() < 0
    }
}
fn rel_close(a: f64, b: f64, ulps: f64) -> bool {
    a == b || (a - b).abs() <= ulps * U * 2.0 * a.abs().max(b.abs())
}

fn commute_case(sh: &mut Shard, a: &IG, b: &IG, q: IP, ex: &Exact, verbose: bool) {
    let (ga, gb) = (a.to_geo(&Lat::ID), b.to_geo(&Lat::ID));
    let (a2, b2) = (ex.map_ig(a), ex.map_ig(b));
    let lat = ex.lat();
    let (ha, hb) = (a2.to_geo(&lat), b2.to_geo(&lat));
    let det = |check: &str, exp: String, got: String| json!({"property": "C13", "check": check, "kind": "commute", "a": a.json(), "b": b.json(), "q": [q.0, q.1], "map": ex.json(), "expected": exp, "got": got,
        "a_geo": format!("{:?}", ga), "b_geo": format!("{:?}", gb), "a_mapped": format!("{:?}", ha), "b_mapped": format!("{:?}", hb)});
    let pair = format!("{}x{}", a.kind(), b.kind());
    // 1. geo's own affine_transform with the exact matrix produces exactly the mapped geometry
    let t = ex.transform();
    for (g, h, ig) in [(&ga, &ha, a), (&gb, &hb, b)] {
        sh.eval(1);
        match call(|| g.affine_transform(&t)) {
            Ok(tg) => {
                // (-0.0 and 0.0 are one coordinate; a clockwise Triangle comes back re-ordered: see has_cw_triangle)
                let same = if let (Geometry::Rect(r1), Geometry::Rect(r2)) = (&tg, h) { r1 == r2 } else if has_cw_triangle(ig) || has_cw_triangle(&ex.map_ig(ig)) { use geo::MapCoords; let z = |c: Coord<f64>| Coord { x: c.x + 0.0, y: c.y + 0.0 }; coords_norm(&tg.map_coords(z)) == coords_norm(&h.map_coords(z)) } else { coords_of(&tg) == coords_of(h) };
                if !same {
                    sh.violation(&format!("exact.affine_transform|{}|-", ig.kind()), det("exact.affine_transform", format!("{:?}", h), format!("{:?}", tg)));
                }
            }
            Err(p) => sh.violation(&format!("exact.affine_transform.panic|{}|-", ig.kind()), det("exact.affine_transform", "no panic".into(), p)),
        }
    }
    // 2. predicates and matrices unchanged
    macro_rules! same {
        ($name:expr, $e1:expr, $e2:expr) => {{
            sh.eval(1);
            let (r1, r2) = (call(|| $e1), call(|| $e2));
            if verbose {
                println!("{}: original {:?} mapped {:?}", $name, r1, r2);
            }
            match (r1, r2) {
                (Ok(x), Ok(y)) => {
                    if x != y {
                        sh.violation(&format!("commute.{}|{pair}|-", $name), det(&format!("commute.{}", $name), format!("{:?}", x), format!("{:?}", y)));
                    }
                }
                (x, y) => {
                    if x.is_err() != y.is_err() {
                        sh.violation(&format!("commute.{}.panic|{pair}|-", $name), det(&format!("commute.{}", $name), format!("{:?}", x.err()), format!("{:?}", y.err())));
                    }
                }
            }
        }};
    }
    same!("relate", im_string(&ga.relate(&gb)), im_string(&ha.relate(&hb)));
    same!("intersects", ga.intersects(&gb), ha.intersects(&hb));
    same!("contains", ga.contains(&gb), ha.contains(&hb));
    same!("contains_rev", gb.contains(&ga), hb.contains(&ha));
    let qc = Lat::ID.c(q);
    let q2 = ex.map_ig(&IG::Point(q));
    let qc2 = match q2 {
        IG::Point(p) => lat.c(p),
        _ => unreachable!(),
    };
    same!("coordinate_position", format!("{:?}", ga.coordinate_position(&qc)), format!("{:?}", ha.coordinate_position(&qc2)));
    same!("intersects_coord", ga.intersects(&qc), ha.intersects(&qc2));
    same!("is_valid", ga.is_valid(), ha.is_valid());
    same!("validation_error_count", ga.validation_errors().len(), ha.validation_errors().len());
    // 3. measures scale by exactly the factor (power of two => exact; signed permutations only reorder/negate terms)
    let f = crate::q::pow2(ex.sh);
    // Without a large translation every coordinate and every product of two coordinate differences is
    // an exactly representable small dyadic, so the measure must scale by exactly the factor (a few ulps
    // for the reordering caused by axis swaps). A large translation makes products of absolute
    // coordinates inexact for the algorithms that do not shift to a local origin (Triangle/Line
    // determinants, Rect width*height is exact): there the clause is judged relative to the
    // coordinate magnitude M of the mapped operands: 16·u·M² for areas, 16·u·M for lengths.
    let big = ex.ox != 0 || ex.oy != 0;
    let mag = coords_of(&ha).iter().chain(coords_of(&hb).iter()).fold(0.0f64, |m, c| m.max(c.x.abs()).max(c.y.abs()));
    macro_rules! scaled {
        ($name:expr, $e1:expr, $e2:expr, $fac:expr, $ulps:expr, $abs:expr) => {{
            sh.eval(1);
            let (r1, r2) = (call(|| $e1), call(|| $e2));
            match (r1, r2) {
                (Ok(x), Ok(y)) => {
                    let exp = x * $fac;
                    if verbose {
                        println!("{}: original {:e} * factor = {:e}; mapped {:e}", $name, x, exp, y);
                    }
                    let ok = if big { (exp - y).abs() <= $abs } else { rel_close(exp, y, $ulps) };
                    if !ok && !(x.is_nan() && y.is_nan()) {
                        sh.violation(&format!("commute.{}|{pair}|-", $name), det(&format!("commute.{}", $name), format!("{:e}", exp), format!("{:e}", y)));
                    }
                }
                (x, y) => {
                    if x.is_err() != y.is_err() {
                        sh.violation(&format!("commute.{}.panic|{pair}|-", $name), det(&format!("commute.{}", $name), format!("{:?}", x.err()), format!("{:?}", y.err())));
                    }
                }
            }
        }};
    }
    // area: shoelace terms are exact small integers on this lattice after geo's shift; allow 4 ulps for reordering
    let (ta, tl) = (16.0 * U * mag * mag, 16.0 * U * mag);
    scaled!("unsigned_area", ga.unsigned_area(), ha.unsigned_area(), f * f, 4.0, ta);
    // the sign of signed_area follows ring orientation for polygons only (Rect has none, Triangle::new
    // re-orders its vertices counter-clockwise), so it is compared under orientation-preserving maps
    if !ex.orientation_reversing() {
        scaled!("signed_area", ga.signed_area(), ha.signed_area(), f * f, 4.0, ta);
    } else if !has_renormalising_member(a) {
        scaled!("signed_area", ga.signed_area(), ha.signed_area(), -f * f, 4.0, ta);
    }
    if !a.is_empty() && !b.is_empty() {
        scaled!("euclidean_distance", Euclidean.distance(&ga, &gb), Euclidean.distance(&ha, &hb), f, 4.0, tl);
    }
    if let (Geometry::LineString(l1), Geometry::LineString(l2)) = (&ga, &ha) {
        scaled!("length", Euclidean.length(l1), Euclidean.length(l2), f, 4.0, tl * l1.0.len() as f64);
        if let (Geometry::LineString(m1), Geometry::LineString(m2)) = (&gb, &hb) {
            if !l1.0.is_empty() && !m1.0.is_empty() {
                scaled!("hausdorff", l1.hausdorff_distance(m1), l2.hausdorff_distance(m2), f, 4.0, tl);
            }
        }
    }
    // 3b. centroid commutes with the map: exactly when the map has no translation (scaling by a power of two,
    // negation and swapping of axes commute with every rounding of +, -, *, / and sqrt), otherwise within
    // 32·u·(coordinate magnitude of the mapped operand)
    sh.eval(1);
    if let (Ok(c1), Ok(c2)) = (call(|| ga.centroid()), call(|| ha.centroid())) {
        match (c1, c2) {
            (None, None) => {}
            (Some(p1), Some(p2)) => {
                let e = t.apply(p1.0);
                let no_translation = ex.ox == 0 && ex.oy == 0 && ex.m.x == 0 && ex.m.y == 0;
                let ma = coords_of(&ha).iter().fold(0.0f64, |m, c| m.max(c.x.abs()).max(c.y.abs()));
                let tol = if no_translation { 0.0 } else { 32.0 * U * ma };
                let err = (e.x - p2.x()).abs().max((e.y - p2.y()).abs());
                if !(err <= tol) {
                    sh.violation(&format!("commute.centroid|{}|-", a.kind()), det("commute.centroid", format!("{:?}", e), format!("{:?}", p2.0)));
                }
            }
            (x, y) => sh.violation(&format!("commute.centroid|{}|-", a.kind()), det("commute.centroid", format!("{:?}", x), format!("{:?}", y))),
        }
    }
    // 4. convex hull vertex set and bounding rectangle commute exactly
    sh.eval(1);
    if let (Ok(h1), Ok(h2)) = (call(|| ga.convex_hull()), call(|| ha.convex_hull())) {
        let mut v1: Vec<(u64, u64)> = h1.exterior().coords().map(|c| { let m = t.apply(*c); (m.x.to_bits(), m.y.to_bits()) }).collect();
        let mut v2: Vec<(u64, u64)> = h2.exterior().coords().map(|c| (c.x.to_bits(), c.y.to_bits())).collect();
        v1.sort();
        v1.dedup();
        v2.sort();
        v2.dedup();
        if v1 != v2 {
            sh.violation(&format!("commute.convex_hull_vertices|{}|-", a.kind()), det("commute.convex_hull_vertices", format!("{:?}", h1), format!("{:?}", h2)));
        }
    }
    sh.eval(1);
    if let (Ok(r1), Ok(r2)) = (call(|| ga.bounding_rect()), call(|| ha.bounding_rect())) {
        let e = r1.map(|r| {
            let (p, q) = (t.apply(r.min()), t.apply(r.max()));
            (p.x.min(q.x), p.y.min(q.y), p.x.max(q.x), p.y.max(q.y))
        });
        let g2 = r2.map(|r| (r.min().x, r.min().y, r.max().x, r.max().y));
        if e != g2 {
            sh.violation(&format!("commute.bounding_rect|{}|-", a.kind()), det("commute.bounding_rect", format!("{:?}", e), format!("{:?}", g2)));
        }
    }
    sh.class(&format!("map:lin{}{}{}{}", ex.m.a, ex.m.b, ex.m.d, ex.m.e));
    if ex.sh != 0 {
        sh.class("map:pow2_scaled");
    }
    if ex.ox != 0 || ex.oy != 0 {
        sh.class("map:large_translation");
    }
    sh.class(&format!("commute:{pair}"));
    let mut h = Fnv::new();
    a.digest(&mut h);
    b.digest(&mut h);
    for v in m_arr(&ex.m) {
        h.i64(v as i64);
    }
    sh.nontrivial(h.0);
    sh.sample(|| json!({"kind": "commute", "a": format!("{:?}", ga), "b": format!("{:?}", gb), "map": ex.json()}));
}

pub fn run(ctx: &Ctx, sh: &mut Shard) {
    for k in ctx.case_indices() {
        if sh.cases >= ctx.budget {
            break;
        }
        ctx.mark_case(k);
        let mut r = Rng::derive(ctx.seed, ctx.shard, k);
        sh.cases += 1;
        match k % 4 {
            0 => {
                let n = r.range(1, 8) as usize;
                let chain: Vec<M> = (0..n).map(|_| rand_m(&mut r)).collect();
                let pts: Vec<(i64, i64)> = (0..4).map(|_| (r.range(-50, 50), r.range(-50, 50))).collect();
                algebra_case(sh, &chain, &pts, false);
            }
            1 => {
                let g = *r.pick(&[3i64, 4, 6, 8]);
                let a = gen_any(&mut r, g);
                // one geometry in three re-spelt (other type, permuted members, an EMPTY member somewhere, ...): the documented
                // origin (centre of the bounding box of all coordinates, centroid) does not move
                let a = if r.chance(1, 3) {
                    let alts = respellings(&mut r, &a);
                    if alts.is_empty() {
                        a
                    } else {
                        let i = r.below(alts.len() as u64) as usize;
                        sh.class(&format!("trait:spelling:{}", alts[i].0));
                        alts[i].1.clone()
                    }
                } else {
                    a
                };
                let lat = if r.chance(1, 2) { Lat::ID } else { Lat { ox: r.range(-50, 50), oy: r.range(-50, 50), sh: r.range(-3, 3) as i32, shear: 0 } };
                let op = rand_top(&mut r);
                trait_case(sh, &a, &lat, &op, false);
            }
            _ => {
                let g = *r.pick(&[3i64, 4, 4, 5, 6]);
                let a = gen_any(&mut r, g);
                let b = partner(&mut r, &a, g);
                let q = interesting_point(&mut r, &a, g);
                let ex = rand_exact(&mut r);
                commute_case(sh, &a, &b, q, &ex, false);
            }
        }
    }
}

pub fn replay(v: &Value, sh: &mut Shard) {
    match v["kind"].as_str().unwrap_or("") {
        "algebra" => {
            let chain: Vec<M> = v["chain"].as_array().unwrap().iter().map(M::from_json).collect();
            let pts: Vec<(i64, i64)> = v["pts"].as_array().unwrap().iter().map(|p| (p[0].as_i64().unwrap(), p[1].as_i64().unwrap())).collect();
            algebra_case(sh, &chain, &pts, true);
        }
        "trait" => {
            let a = IG::from_json(&v["a"]).unwrap();
            let lat = Lat::from_json(&v["lat"]);
            let op = top_from_json(&v["op"]);
            println!("geometry {:?} op {:?}", a.to_geo(&lat), op);
            trait_case(sh, &a, &lat, &op, true);
        }
        _ => {
            let a = IG::from_json(&v["a"]).unwrap();
            let b = IG::from_json(&v["b"]).unwrap();
            let q = (v["q"][0].as_i64().unwrap(), v["q"][1].as_i64().unwrap());
            let ex = Exact::from_json(&v["map"]);
            commute_case(sh, &a, &b, q, &ex, true);
        }
    }
}
