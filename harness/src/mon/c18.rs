//! C18 — structural invariants of the geometry types survive every API history.
//!
//! One case = one recorded history of public geo-types calls on one or two objects. The harness keeps
//! a SHADOW MODEL (plain vectors of coordinates / four numbers of a rectangle) to which it applies the
//! same edits with its own code and the closing rule exactly as documented ("if the first and last
//! coordinate have different values, a copy of the first is appended"). After EVERY call the real
//! objects are read back through the public API and judged against the invariant (every ring closed,
//! min <= max) and against the shadow (bit-exact contents). Conversion clauses are judged on single
//! inputs. Everything needed to re-execute a case is in the violation detail (`replay`).
use crate::report::*;
use crate::rng::{Fnv, Rng};
use geo_types::{coord, line_string, point, polygon};
use geo_types::{Coord, CoordNum, Geometry, GeometryCollection, Line, LineString, MultiLineString, MultiPoint, MultiPolygon, Point, Polygon, Rect, Triangle};
use serde_json::{json, Value};
use std::collections::BTreeMap;
use std::convert::TryFrom;

// ---------------------------------------------------------------------------------------------
// numeric types
// ---------------------------------------------------------------------------------------------
pub trait Num: CoordNum + 'static {
    const NAME: &'static str;
    fn of(v: f64) -> Self;
    fn bits(self) -> u64;
    fn nan(self) -> bool;
    /// integer coordinates below this magnitude have an exactly computed cross product in T
    const EXACT_LIM: f64;
}
impl Num for f64 {
    const NAME: &'static str = "f64";
    const EXACT_LIM: f64 = 3.0e7; // 2^25: differences < 2^26, products < 2^52, exact in f64
    fn of(v: f64) -> f64 {
        v
    }
    fn bits(self) -> u64 {
        self.to_bits()
    }
    fn nan(self) -> bool {
        self.is_nan()
    }
}
impl Num for i32 {
    const NAME: &'static str = "i32";
    const EXACT_LIM: f64 = 16000.0; // products < 2^30, no i32 overflow
    fn of(v: f64) -> i32 {
        v as i32
    }
    fn bits(self) -> u64 {
        self as i64 as u64
    }
    fn nan(self) -> bool {
        false
    }
}
impl Num for i64 {
    const NAME: &'static str = "i64";
    const EXACT_LIM: f64 = 1.0e9;
    fn of(v: f64) -> i64 {
        v as i64
    }
    fn bits(self) -> u64 {
        self as u64
    }
    fn nan(self) -> bool {
        false
    }
}
const NUM_NAMES: [&str; 3] = ["f64", "i32", "i64"];

/// a coordinate as recorded in a history (every numeric type is fed from these f64 values)
type C = [f64; 2];
fn cc<T: Num>(c: C) -> Coord<T> {
    Coord { x: T::of(c[0]), y: T::of(c[1]) }
}
fn cj(c: C) -> Value {
    json!([hexf(c[0]), hexf(c[1])])
}
fn unhex(v: &Value) -> f64 {
    f64::from_bits(u64::from_str_radix(v.as_str().expect("hex string"), 16).expect("hex"))
}
fn cparse(v: &Value) -> C {
    [unhex(&v[0]), unhex(&v[1])]
}
fn rj(r: &[C]) -> Value {
    Value::Array(r.iter().map(|&c| cj(c)).collect())
}
fn rparse(v: &Value) -> Vec<C> {
    v.as_array().map(|a| a.iter().map(cparse).collect()).unwrap_or_default()
}
fn ctext(c: C) -> String {
    format!("({:?},{:?})", c[0], c[1])
}
fn rtext_c(r: &[C]) -> String {
    format!("[{}]", r.iter().map(|&c| ctext(c)).collect::<Vec<_>>().join(","))
}
fn rtext<T: Num>(r: &[Coord<T>]) -> String {
    format!("[{}]", r.iter().map(|c| format!("({:?},{:?})", c.x, c.y)).collect::<Vec<_>>().join(","))
}
fn ceq_bits<T: Num>(a: &Coord<T>, b: &Coord<T>) -> bool {
    a.x.bits() == b.x.bits() && a.y.bits() == b.y.bits()
}
/// value equality of two coordinates, by the harness (field by field)
fn ceq_val<T: Num>(a: &Coord<T>, b: &Coord<T>) -> bool {
    a.x == b.x && a.y == b.y
}

/// record a violation; the (expensive) detail is only built while the signature still keeps details
fn viol(sh: &mut Shard, sig: &str, mk: impl FnOnce() -> Value) {
    let seen = sh.viol_sigs.get(sig).copied().unwrap_or(0);
    if seen < 3 {
        sh.violation(sig, mk());
    } else {
        sh.violation(sig, Value::Null);
    }
}

// ---------------------------------------------------------------------------------------------
// evidence counters (flushed into sh.class at the end of the shard)
// ---------------------------------------------------------------------------------------------
#[derive(Default)]
struct Stats {
    m: BTreeMap<&'static str, u64>,
    closure: BTreeMap<(u8, u8), u64>, // (method, coordinate-edit kind)
    slice: BTreeMap<(u8, u8), u64>,   // (method, slice-edit kind)
    exits: BTreeMap<(u8, u8), u64>,   // (method, exit)
}
impl Stats {
    #[inline]
    fn bump(&mut self, name: &'static str) {
        *self.m.entry(name).or_insert(0) += 1;
    }
    fn bump_n(&mut self, name: &'static str, n: u64) {
        *self.m.entry(name).or_insert(0) += n;
    }
    fn flush(&self, sh: &mut Shard) {
        for (k, n) in &self.m {
            sh.class_n(k, *n);
        }
        for ((m, e), n) in &self.closure {
            sh.class_n(&format!("closure:{}:{}", OP_NAMES[*m as usize], EDIT_NAMES[*e as usize]), *n);
        }
        for ((m, e), n) in &self.slice {
            sh.class_n(&format!("closure:{}:slice_{}", OP_NAMES[*m as usize], SLICE_NAMES[*e as usize]), *n);
        }
        for ((m, e), n) in &self.exits {
            sh.class_n(&format!("exit:{}:{}", OP_NAMES[*m as usize], EXIT_NAMES[*e as usize]), *n);
        }
    }
}

// ---------------------------------------------------------------------------------------------
// coordinate-level edits performed by user closures on one ring
// ---------------------------------------------------------------------------------------------
const E_PUSH: u8 = 0;
const E_POP: u8 = 1;
const E_CLEAR: u8 = 2;
const E_REPF: u8 = 3;
const E_REPL: u8 = 4;
const E_SWAP: u8 = 5;
const E_TRUNC: u8 = 6;
const E_INSF: u8 = 7;
const E_NOOP: u8 = 8;
const E_REMOVE: u8 = 9;
const E_REVERSE: u8 = 10;
const E_PUSHFIRST: u8 = 11;
const E_ROTATE: u8 = 12;
const NE: u8 = 13;
const EDIT_NAMES: [&str; 13] = ["push", "pop", "clear", "replace_first", "replace_last", "swap", "truncate", "insert_front", "noop", "remove", "reverse", "push_copy_of_first", "rotate_left"];

#[derive(Clone, Copy, Debug)]
struct Ed {
    k: u8,
    i: usize,
    j: usize,
    c: C,
}
/// the edit on a plain vector (shadow side, and the real side for the edits that have no special route)
fn edit_vec<T: Num>(v: &mut Vec<Coord<T>>, e: &Ed) {
    let n = v.len();
    match e.k {
        E_PUSH => v.push(cc(e.c)),
        E_POP => {
            v.pop();
        }
        E_CLEAR => v.clear(),
        E_REPF => {
            if n > 0 {
                v[0] = cc(e.c)
            }
        }
        E_REPL => {
            if n > 0 {
                v[n - 1] = cc(e.c)
            }
        }
        E_SWAP => {
            if n > 1 {
                v.swap(e.i % n, e.j % n)
            }
        }
        E_TRUNC => v.truncate(e.i),
        E_INSF => v.insert(0, cc(e.c)),
        E_REMOVE => {
            if n > 0 {
                v.remove(e.i % n);
            }
        }
        E_REVERSE => v.reverse(),
        E_PUSHFIRST => {
            if n > 0 {
                let f = v[0];
                v.push(f)
            }
        }
        E_ROTATE => {
            if n > 1 {
                v.rotate_left(1)
            }
        }
        _ => {}
    }
}
/// the same edit as user code would write it against a `LineString` (uses the IndexMut / coords_mut
/// / `&mut` iterator routes of the public API where they exist)
fn edit_ls<T: Num>(ls: &mut LineString<T>, e: &Ed) {
    let n = ls.0.len();
    match e.k {
        E_REPF if n > 0 => ls[0] = cc(e.c),
        E_REPL if n > 0 => {
            if let Some(l) = ls.coords_mut().next_back() {
                *l = cc(e.c)
            }
        }
        E_SWAP if n > 1 => {
            let (a, b) = (e.i % n, e.j % n);
            let (ca, cb) = (ls[a], ls[b]);
            for (idx, c) in (&mut *ls).into_iter().enumerate() {
                if idx == a {
                    *c = cb
                } else if idx == b {
                    *c = ca
                }
            }
        }
        _ => edit_vec(&mut ls.0, e),
    }
}
/// the closing operation as documented on `Polygon` ("LineString closing operation") and `LineString::close`
fn sclose<T: Num>(v: &mut Vec<Coord<T>>) {
    if let (Some(&f), Some(&l)) = (v.first(), v.last()) {
        if !ceq_val(&f, &l) {
            v.push(f)
        }
    }
}

trait RingLike<T: Num>: Sized {
    fn edit(&mut self, e: &Ed);
    fn make(v: Vec<Coord<T>>) -> Self;
}
impl<T: Num> RingLike<T> for LineString<T> {
    fn edit(&mut self, e: &Ed) {
        edit_ls(self, e)
    }
    fn make(v: Vec<Coord<T>>) -> Self {
        LineString::new(v)
    }
}
impl<T: Num> RingLike<T> for Vec<Coord<T>> {
    fn edit(&mut self, e: &Ed) {
        edit_vec(self, e)
    }
    fn make(v: Vec<Coord<T>>) -> Self {
        v
    }
}

// slice-level edits inside interiors_mut / try_interiors_mut closures (the closure gets `&mut [LineString]`,
// so it cannot add or remove rings; it can edit, swap, overwrite, empty and permute them)
const S_RING: u8 = 0;
const S_SWAP: u8 = 1;
const S_REPLACE: u8 = 2;
const S_REVERSE: u8 = 3;
const S_ALL: u8 = 4;
const S_NOOP: u8 = 5;
const S_TAKE: u8 = 6;
const S_ROTATE: u8 = 7;
const NS: u8 = 8;
const SLICE_NAMES: [&str; 8] = ["edit_ring", "swap_rings", "overwrite_ring", "reverse_rings", "edit_every_ring", "noop", "take_ring", "rotate_rings"];

fn slice_edit<T: Num, R: RingLike<T>>(rings: &mut [R], op: &Op) {
    let n = rings.len();
    match op.sk {
        S_RING => {
            if n > 0 {
                rings[op.i % n].edit(&op.ed())
            }
        }
        S_SWAP => {
            if n > 1 {
                rings.swap(op.i % n, op.j % n)
            }
        }
        S_REPLACE => {
            if n > 0 {
                rings[op.i % n] = R::make(op.ring.iter().map(|&c| cc(c)).collect())
            }
        }
        S_REVERSE => rings.reverse(),
        S_ALL => {
            for r in rings.iter_mut() {
                r.edit(&op.ed())
            }
        }
        S_TAKE => {
            if n > 0 {
                let _taken = std::mem::replace(&mut rings[op.i % n], R::make(vec![]));
            }
        }
        S_ROTATE => {
            if n > 1 {
                rings.rotate_left(1)
            }
        }
        _ => {}
    }
}

// tampering with the parts returned by into_inner before the polygon is rebuilt with Polygon::new
const T_NONE: u8 = 0;
const T_EXT: u8 = 1;
const T_INT: u8 = 2;
const T_PUSHRING: u8 = 3;
const T_REMOVE: u8 = 4;
const T_CLEAR: u8 = 5;
const T_SWAPEXT: u8 = 6;
const NT: u8 = 7;
const TAMPER_NAMES: [&str; 7] = ["untouched", "edit_exterior", "edit_interior", "push_ring", "remove_ring", "clear_interiors", "swap_exterior_with_interior"];

fn tamper<T: Num, R: RingLike<T>>(ext: &mut R, ints: &mut Vec<R>, op: &Op) {
    let n = ints.len();
    match op.sk {
        T_EXT => ext.edit(&op.ed()),
        T_INT => {
            if n > 0 {
                ints[op.i % n].edit(&op.ed())
            }
        }
        T_PUSHRING => ints.push(R::make(op.ring.iter().map(|&c| cc(c)).collect())),
        T_REMOVE => {
            if n > 0 {
                ints.remove(op.i % n);
            }
        }
        T_CLEAR => ints.clear(),
        T_SWAPEXT => {
            if n > 0 {
                std::mem::swap(ext, &mut ints[op.i % n])
            }
        }
        _ => {}
    }
}

// ---------------------------------------------------------------------------------------------
// the alphabet of a polygon history
// ---------------------------------------------------------------------------------------------
const K_NEW: u8 = 0;
const K_EXT: u8 = 1;
const K_TRYEXT: u8 = 2;
const K_INTS: u8 = 3;
const K_TRYINTS: u8 = 4;
const K_PUSH: u8 = 5;
const K_REBUILD: u8 = 6;
const K_CLONETO: u8 = 7;
const K_SWAPOBJ: u8 = 8;
const K_LSSET: u8 = 9;
const K_LSEDIT: u8 = 10;
const K_LSCLOSE: u8 = 11;
const K_LSFROMEXT: u8 = 12;
const K_LSFROMINT: u8 = 13;
const K_LSPUSHINT: u8 = 14;
const K_LSASEXT: u8 = 15;
const K_CONVERT: u8 = 16;
const NK: u8 = 17;
const OP_NAMES: [&str; 17] = [
    "Polygon::new",
    "exterior_mut",
    "try_exterior_mut",
    "interiors_mut",
    "try_interiors_mut",
    "interiors_push",
    "into_inner+Polygon::new",
    "clone_into_other",
    "swap_objects",
    "ls=LineString::from",
    "ls_direct_edit",
    "LineString::close",
    "ls=exterior().clone()",
    "ls=interiors()[i].clone()",
    "interiors_push(ls.clone())",
    "into_inner+Polygon::new(ls.clone(),ints)",
    "roundtrip_conversion",
];
fn is_mutator(k: u8) -> bool {
    matches!(k, K_NEW | K_EXT | K_TRYEXT | K_INTS | K_TRYINTS | K_PUSH | K_REBUILD | K_LSEDIT | K_LSCLOSE | K_LSPUSHINT | K_LSASEXT)
}
const X_OK: u8 = 0;
const X_BEFORE: u8 = 1;
const X_AFTER: u8 = 2;
const EXIT_NAMES: [&str; 3] = ["ok", "err_before", "err_after"];
const NEW_FORMS: [&str; 5] = ["LineString::new(Vec<Coord>)", "From<Vec<(T,T)>>", "From<Vec<[T;2]>>", "From<Vec<Point>>", "FromIterator<Coord>"];
const PUSH_FORMS: [&str; 7] = ["LineString", "Vec<(T,T)>", "Vec<[T;2]>", "Vec<Coord>", "Vec<Point>", "Line", "&Line"];
const CONVERT_NAMES: [&str; 5] = ["Geometry::from+try_from", "MultiPolygon::from(vec)+into_iter", "MultiPolygon::from(single)", "Geometry::into_polygon", "GeometryCollection::from(vec)+try_into"];
const HOST_NAMES: [&str; 5] = ["bare", "in_MultiPolygon", "in_Geometry::Polygon", "in_Geometry::MultiPolygon", "in_GeometryCollection"];

#[derive(Clone, Debug, Default)]
struct Op {
    k: u8,
    obj: u8,
    acc: u8,
    exit: u8,
    ek: u8,
    sk: u8,
    i: usize,
    j: usize,
    form: u8,
    c: C,
    ring: Vec<C>,
    rings: Vec<Vec<C>>,
}
impl Op {
    fn ed(&self) -> Ed {
        Ed { k: self.ek, i: self.i, j: self.j, c: self.c }
    }
    fn json(&self) -> Value {
        json!([self.k, self.obj, self.acc, self.exit, self.ek, self.sk, self.i, self.j, self.form, cj(self.c), rj(&self.ring), self.rings.iter().map(|r| rj(r)).collect::<Vec<_>>()])
    }
    fn from_json(v: &Value) -> Op {
        let u = |i: usize| v[i].as_u64().unwrap_or(0);
        Op {
            k: u(0) as u8,
            obj: u(1) as u8,
            acc: u(2) as u8,
            exit: u(3) as u8,
            ek: u(4) as u8,
            sk: u(5) as u8,
            i: u(6) as usize,
            j: u(7) as usize,
            form: u(8) as u8,
            c: cparse(&v[9]),
            ring: rparse(&v[10]),
            rings: v[11].as_array().map(|a| a.iter().map(rparse).collect()).unwrap_or_default(),
        }
    }
    fn digest(&self, h: &mut Fnv) {
        h.u64(u64::from_le_bytes([self.k, self.obj, self.acc, self.exit, self.ek, self.sk, self.form, 0]));
        h.u64(self.i as u64);
        h.u64(self.j as u64);
        h.f64(self.c[0]);
        h.f64(self.c[1]);
        h.u64(self.ring.len() as u64);
        for c in &self.ring {
            h.f64(c[0]);
            h.f64(c[1]);
        }
        h.u64(self.rings.len() as u64);
        for r in &self.rings {
            h.u64(r.len() as u64);
            for c in r {
                h.f64(c[0]);
                h.f64(c[1]);
            }
        }
    }
    fn edit_text(&self) -> String {
        let n = EDIT_NAMES[self.ek as usize % 13];
        match self.ek {
            E_PUSH | E_REPF | E_REPL | E_INSF => format!("{n}{}", ctext(self.c)),
            E_SWAP => format!("{n}({},{} mod len)", self.i, self.j),
            E_TRUNC => format!("{n}({})", self.i),
            E_REMOVE => format!("{n}({} mod len)", self.i),
            _ => n.to_string(),
        }
    }
    fn slice_text(&self) -> String {
        let n = SLICE_NAMES[self.sk as usize % 8];
        match self.sk {
            S_RING => format!("ring[{} mod n].{}", self.i, self.edit_text()),
            S_SWAP => format!("{n}({},{} mod n)", self.i, self.j),
            S_REPLACE => format!("ring[{} mod n]={}", self.i, rtext_c(&self.ring)),
            S_ALL => format!("every ring.{}", self.edit_text()),
            S_TAKE => format!("{n}({} mod n)", self.i),
            _ => n.to_string(),
        }
    }
    fn text(&self) -> String {
        let o = self.obj;
        let x = EXIT_NAMES[self.exit as usize % 3];
        match self.k {
            K_NEW => format!("p{o} = Polygon::new({}, [{}]) [rings built via {}]", rtext_c(&self.ring), self.rings.iter().map(|r| rtext_c(r)).collect::<Vec<_>>().join(", "), NEW_FORMS[self.form as usize % 5]),
            K_EXT => format!("p{o}.exterior_mut(|ls| {})", self.edit_text()),
            K_TRYEXT => format!("p{o}.try_exterior_mut(|ls| {}) closure exit: {x}", self.edit_text()),
            K_INTS => format!("p{o}.interiors_mut(|rings| {})", self.slice_text()),
            K_TRYINTS => format!("p{o}.try_interiors_mut(|rings| {}) closure exit: {x}", self.slice_text()),
            K_PUSH => format!("p{o}.interiors_push({} as {})", rtext_c(&self.ring), PUSH_FORMS[self.form as usize % 7]),
            K_REBUILD => format!(
                "(ext,ints) = p{o}.into_inner(); {} ; p{o} = Polygon::new(ext,ints)",
                match self.sk {
                    T_EXT => format!("ext.{}", self.edit_text()),
                    T_INT => format!("ints[{} mod n].{}", self.i, self.edit_text()),
                    T_PUSHRING => format!("ints.push({})", rtext_c(&self.ring)),
                    T_REMOVE => format!("ints.remove({} mod n)", self.i),
                    T_CLEAR => "ints.clear()".into(),
                    T_SWAPEXT => format!("swap(ext, ints[{} mod n])", self.i),
                    _ => "untouched".into(),
                }
            ),
            K_CLONETO => format!("p{o} = (the other polygon, or p{o} itself when there is only one).clone()"),
            K_SWAPOBJ => "swap(p0, p1) (by clone + assignment)".into(),
            K_LSSET => format!("ls = {} [via {}]", rtext_c(&self.ring), NEW_FORMS[self.form as usize % 5]),
            K_LSEDIT => format!("ls.{} (direct edit of a free LineString, no closing expected)", self.edit_text()),
            K_LSCLOSE => "ls.close()".into(),
            K_LSFROMEXT => format!("ls = p{o}.exterior().clone()"),
            K_LSFROMINT => format!("ls = p{o}.interiors()[{} mod n].clone()", self.i),
            K_LSPUSHINT => format!("p{o}.interiors_push(ls.clone())"),
            K_LSASEXT => format!("(_,ints) = p{o}.into_inner(); p{o} = Polygon::new(ls.clone(), ints)"),
            K_CONVERT => format!("p{o} = roundtrip(p{o}.clone()) via {}", CONVERT_NAMES[self.sk as usize % 5]),
            _ => "?".into(),
        }
    }
    /// call site for the violation signature
    fn site(&self) -> String {
        match self.k {
            K_TRYEXT | K_TRYINTS => format!("{}:{}", OP_NAMES[self.k as usize], EXIT_NAMES[self.exit as usize % 3]),
            k => OP_NAMES[k as usize % 17].to_string(),
        }
    }
}

fn mk_ls<T: Num>(r: &[C], form: u8) -> LineString<T> {
    match form % 5 {
        0 => LineString::new(r.iter().map(|&c| cc(c)).collect()),
        1 => LineString::from(r.iter().map(|&c| (T::of(c[0]), T::of(c[1]))).collect::<Vec<(T, T)>>()),
        2 => LineString::from(r.iter().map(|&c| [T::of(c[0]), T::of(c[1])]).collect::<Vec<[T; 2]>>()),
        3 => LineString::from(r.iter().map(|&c| Point::new(T::of(c[0]), T::of(c[1]))).collect::<Vec<Point<T>>>()),
        _ => r.iter().map(|&c| cc::<T>(c)).collect::<LineString<T>>(),
    }
}

// ---------------------------------------------------------------------------------------------
// where the polygons live (every place that hands out `&mut Polygon`)
// ---------------------------------------------------------------------------------------------
enum Host<T: Num> {
    Bare(Vec<Polygon<T>>),
    Multi(MultiPolygon<T>),
    GeomPoly(Vec<Geometry<T>>),
    GeomMulti(Geometry<T>),
    Coll(GeometryCollection<T>),
}
impl<T: Num> Host<T> {
    fn build(kind: u8, polys: Vec<Polygon<T>>) -> Host<T> {
        match kind % 5 {
            0 => Host::Bare(polys),
            1 => Host::Multi(MultiPolygon::new(polys)),
            2 => Host::GeomPoly(polys.into_iter().map(Geometry::Polygon).collect()),
            3 => Host::GeomMulti(Geometry::MultiPolygon(MultiPolygon::from(polys))),
            _ => Host::Coll(GeometryCollection::from(polys)),
        }
    }
    fn get(&self, i: usize) -> &Polygon<T> {
        match self {
            Host::Bare(v) => &v[i],
            Host::Multi(mp) => mp.iter().nth(i).expect("member"),
            Host::GeomPoly(v) => match &v[i] {
                Geometry::Polygon(p) => p,
                _ => unreachable!(),
            },
            Host::GeomMulti(g) => match g {
                Geometry::MultiPolygon(mp) => &mp.0[i],
                _ => unreachable!(),
            },
            Host::Coll(gc) => match &gc[i] {
                Geometry::Polygon(p) => p,
                _ => unreachable!(),
            },
        }
    }
    fn with_mut<R>(&mut self, i: usize, acc: u8, f: impl FnOnce(&mut Polygon<T>) -> R) -> R {
        match self {
            Host::Bare(v) => f(&mut v[i]),
            Host::Multi(mp) => match acc % 3 {
                0 => f(&mut mp.0[i]),
                1 => f(mp.iter_mut().nth(i).expect("member")),
                _ => f((&mut *mp).into_iter().nth(i).expect("member")),
            },
            Host::GeomPoly(v) => match &mut v[i] {
                Geometry::Polygon(p) => f(p),
                _ => unreachable!(),
            },
            Host::GeomMulti(g) => match g {
                Geometry::MultiPolygon(mp) => match acc % 2 {
                    0 => f(&mut mp.0[i]),
                    _ => f(mp.iter_mut().nth(i).expect("member")),
                },
                _ => unreachable!(),
            },
            Host::Coll(gc) => {
                let g = match acc % 3 {
                    0 => &mut gc[i],
                    1 => gc.iter_mut().nth(i).expect("member"),
                    _ => (&mut *gc).into_iter().nth(i).expect("member"),
                };
                match g {
                    Geometry::Polygon(p) => f(p),
                    _ => unreachable!(),
                }
            }
        }
    }
}

// ---------------------------------------------------------------------------------------------
// shadow model of a polygon history
// ---------------------------------------------------------------------------------------------
#[derive(Clone)]
struct SPoly<T: Num> {
    ext: Vec<Coord<T>>,
    ints: Vec<Vec<Coord<T>>>,
}
#[derive(Clone)]
struct SState<T: Num> {
    polys: Vec<SPoly<T>>,
    ls: Vec<Coord<T>>,
}
fn sring<T: Num>(r: &[C]) -> Vec<Coord<T>> {
    r.iter().map(|&c| cc(c)).collect()
}
fn snew<T: Num>(ext: &[C], ints: &[Vec<C>]) -> SPoly<T> {
    let mut p = SPoly { ext: sring(ext), ints: ints.iter().map(|r| sring(r)).collect() };
    sclose(&mut p.ext);
    for r in &mut p.ints {
        sclose(r)
    }
    p
}
/// what the documentation promises the state to be after `op` returned (for closures that mutate and
/// then return Err the alternative "rolled back" state is accepted as well, see run_poly)
fn shadow_op<T: Num>(s: &mut SState<T>, op: &Op) {
    let n = s.polys.len();
    let o = op.obj as usize % n;
    match op.k {
        K_NEW => s.polys[o] = snew(&op.ring, &op.rings),
        K_EXT | K_TRYEXT => {
            if op.k == K_EXT || op.exit != X_BEFORE {
                edit_vec(&mut s.polys[o].ext, &op.ed());
                sclose(&mut s.polys[o].ext);
            }
        }
        K_INTS | K_TRYINTS => {
            if op.k == K_INTS || op.exit != X_BEFORE {
                slice_edit(&mut s.polys[o].ints[..], op);
                for r in &mut s.polys[o].ints {
                    sclose(r)
                }
            }
        }
        K_PUSH => {
            let mut r = sring(&op.ring);
            sclose(&mut r);
            s.polys[o].ints.push(r);
        }
        K_REBUILD => {
            let p = &mut s.polys[o];
            tamper(&mut p.ext, &mut p.ints, op);
            sclose(&mut p.ext);
            for r in &mut p.ints {
                sclose(r)
            }
        }
        K_CLONETO => {
            let src = s.polys[(o + 1) % n].clone();
            s.polys[o] = src;
        }
        K_SWAPOBJ => {
            if n == 2 {
                s.polys.swap(0, 1)
            }
        }
        K_LSSET => s.ls = sring(&op.ring),
        K_LSEDIT => edit_vec(&mut s.ls, &op.ed()),
        K_LSCLOSE => sclose(&mut s.ls),
        K_LSFROMEXT => s.ls = s.polys[o].ext.clone(),
        K_LSFROMINT => {
            let m = s.polys[o].ints.len();
            if m > 0 {
                s.ls = s.polys[o].ints[op.i % m].clone()
            }
        }
        K_LSPUSHINT => {
            let mut r = s.ls.clone();
            sclose(&mut r);
            s.polys[o].ints.push(r);
        }
        K_LSASEXT => {
            let mut r = s.ls.clone();
            sclose(&mut r);
            s.polys[o].ext = r;
            for r in &mut s.polys[o].ints {
                sclose(r)
            }
        }
        _ => {}
    }
}

fn with_exit(exit: u8, code: u32, f: impl FnOnce()) -> Result<(), u32> {
    match exit {
        X_OK => {
            f();
            Ok(())
        }
        X_BEFORE => Err(code),
        _ => {
            f();
            Err(code)
        }
    }
}
fn err_code(op: &Op) -> u32 {
    1000 + (op.ek as u32) * 16 + op.sk as u32
}

/// execute one call on the real polygon; Some(result) for the fallible mutators
fn poly_op<T: Num>(p: &mut Polygon<T>, ls: &mut LineString<T>, op: &Op) -> Option<Result<(), u32>> {
    let ed = op.ed();
    match op.k {
        K_NEW => {
            *p = Polygon::new(mk_ls(&op.ring, op.form), op.rings.iter().map(|r| mk_ls(r, op.form)).collect());
            None
        }
        K_EXT => {
            p.exterior_mut(|l| edit_ls(l, &ed));
            None
        }
        K_TRYEXT => Some(p.try_exterior_mut(|l| with_exit(op.exit, err_code(op), || edit_ls(l, &ed)))),
        K_INTS => {
            p.interiors_mut(|rings| slice_edit(rings, op));
            None
        }
        K_TRYINTS => Some(p.try_interiors_mut(|rings| with_exit(op.exit, err_code(op), || slice_edit(rings, op)))),
        K_PUSH => {
            let r = &op.ring;
            let line = |r: &[C]| Line::new(cc::<T>(r[0]), cc::<T>(r[1]));
            match op.form % 7 {
                1 => p.interiors_push(r.iter().map(|&c| (T::of(c[0]), T::of(c[1]))).collect::<Vec<(T, T)>>()),
                2 => p.interiors_push(r.iter().map(|&c| [T::of(c[0]), T::of(c[1])]).collect::<Vec<[T; 2]>>()),
                3 => p.interiors_push(r.iter().map(|&c| cc::<T>(c)).collect::<Vec<Coord<T>>>()),
                4 => p.interiors_push(r.iter().map(|&c| Point::from(cc::<T>(c))).collect::<Vec<Point<T>>>()),
                5 if r.len() == 2 => p.interiors_push(line(r)),
                6 if r.len() == 2 => p.interiors_push(&line(r)),
                _ => p.interiors_push(mk_ls::<T>(r, 0)),
            }
            None
        }
        K_REBUILD => {
            let old = std::mem::replace(p, Polygon::new(LineString::new(vec![]), vec![]));
            let (mut ext, mut ints) = old.into_inner();
            tamper(&mut ext, &mut ints, op);
            *p = Polygon::new(ext, ints);
            None
        }
        K_LSPUSHINT => {
            p.interiors_push(ls.clone());
            None
        }
        K_LSASEXT => {
            let old = std::mem::replace(p, Polygon::new(LineString::new(vec![]), vec![]));
            let (_, ints) = old.into_inner();
            *p = Polygon::new(ls.clone(), ints);
            None
        }
        K_CONVERT => {
            let q: Polygon<T> = match op.sk % 5 {
                0 => Polygon::try_from(Geometry::from(p.clone())).expect("Geometry::Polygon -> Polygon"),
                1 => MultiPolygon::from(vec![p.clone()]).into_iter().next().expect("one member"),
                2 => MultiPolygon::from(p.clone()).0.pop().expect("one member"),
                3 => Geometry::from(p.clone()).into_polygon().expect("into_polygon"),
                _ => Polygon::try_from(GeometryCollection::from(vec![p.clone()]).into_iter().next().expect("one member")).expect("member is a polygon"),
            };
            *p = q;
            None
        }
        _ => None,
    }
}
fn real_op<T: Num>(host: &mut Host<T>, n: usize, ls: &mut LineString<T>, op: &Op) -> Option<Result<(), u32>> {
    let o = op.obj as usize % n;
    match op.k {
        K_CLONETO => {
            let src = host.get((o + 1) % n).clone();
            host.with_mut(o, op.acc, |p| *p = src);
            None
        }
        K_SWAPOBJ => {
            if n == 2 {
                let a = host.get(0).clone();
                let b = host.get(1).clone();
                host.with_mut(0, op.acc, |p| *p = b);
                host.with_mut(1, op.acc, |p| *p = a);
            }
            None
        }
        K_LSSET => {
            *ls = mk_ls(&op.ring, op.form);
            None
        }
        K_LSEDIT => {
            edit_ls(ls, &op.ed());
            None
        }
        K_LSCLOSE => {
            ls.close();
            None
        }
        K_LSFROMEXT => {
            *ls = host.get(o).exterior().clone();
            None
        }
        K_LSFROMINT => {
            let m = host.get(o).interiors().len();
            if m > 0 {
                *ls = host.get(o).interiors()[op.i % m].clone();
            }
            None
        }
        _ => host.with_mut(o, op.acc, |p| poly_op(p, ls, op)),
    }
}

struct Fail {
    check: &'static str,
    ring: String,
    expected: String,
    got: String,
}
/// the invariant itself: every ring closed (own comparison of first and last), and the API's
/// `is_closed()` agreeing with that
fn closed_fail<T: Num>(host: &Host<T>, n: usize, evals: &mut u64) -> Option<Fail> {
    for pi in 0..n {
        let p = host.get(pi);
        let nint = p.interiors().len();
        for ri in 0..=nint {
            let ring: &LineString<T> = if ri == 0 { p.exterior() } else { &p.interiors()[ri - 1] };
            *evals += 2;
            let own = match (ring.0.first(), ring.0.last()) {
                (Some(f), Some(l)) => ceq_val(f, l),
                _ => true,
            };
            let name = || if ri == 0 { format!("p{pi}.exterior") } else { format!("p{pi}.interiors[{}]", ri - 1) };
            if !own {
                return Some(Fail { check: "ring.closed", ring: name(), expected: "first coordinate == last coordinate".into(), got: rtext(&ring.0) });
            }
            if !ring.is_closed() {
                return Some(Fail { check: "is_closed.api", ring: name(), expected: "is_closed() == true for a ring whose first and last coordinates are equal".into(), got: format!("false for {}", rtext(&ring.0)) });
            }
        }
    }
    None
}
fn ring_same<T: Num>(real: &LineString<T>, s: &[Coord<T>]) -> bool {
    real.0.len() == s.len() && real.coords().zip(s.iter()).all(|(a, b)| ceq_bits(a, b))
}
/// first difference between the real objects and a shadow state
fn content_fail<T: Num>(host: &Host<T>, ls: &LineString<T>, s: &SState<T>, evals: &mut u64) -> Option<Fail> {
    for (pi, sp) in s.polys.iter().enumerate() {
        let p = host.get(pi);
        *evals += 2;
        if p.interiors().len() != sp.ints.len() || p.num_interior_rings() != sp.ints.len() || p.num_rings() != sp.ints.len() + 1 {
            return Some(Fail {
                check: "ring.count",
                ring: format!("p{pi}"),
                expected: format!("{} interior rings", sp.ints.len()),
                got: format!("interiors().len()={} num_interior_rings()={} num_rings()={}", p.interiors().len(), p.num_interior_rings(), p.num_rings()),
            });
        }
        if !ring_same(p.exterior(), &sp.ext) {
            return Some(Fail { check: "ring.contents", ring: format!("p{pi}.exterior"), expected: rtext(&sp.ext), got: rtext(&p.exterior().0) });
        }
        for (ri, sr) in sp.ints.iter().enumerate() {
            *evals += 1;
            if !ring_same(&p.interiors()[ri], sr) {
                return Some(Fail { check: "ring.contents", ring: format!("p{pi}.interiors[{ri}]"), expected: rtext(sr), got: rtext(&p.interiors()[ri].0) });
            }
        }
    }
    *evals += 1;
    if !ring_same(ls, &s.ls) {
        return Some(Fail { check: "ls.contents", ring: "ls".into(), expected: rtext(&s.ls), got: rtext(&ls.0) });
    }
    None
}

#[derive(Clone, Debug)]
struct PolyHist {
    num: u8,
    host: u8,
    init: Vec<(Vec<C>, Vec<Vec<C>>)>,
    ls: Vec<C>,
    ops: Vec<Op>,
    origin: &'static str,
    /// NaN coordinates in rings: executed for crash detection only, nothing is judged
    observe_only: bool,
}
impl PolyHist {
    fn json(&self) -> Value {
        json!({
            "kind": "poly", "num": NUM_NAMES[self.num as usize], "host": self.host, "host_name": HOST_NAMES[self.host as usize % 5], "origin": self.origin, "observe_only": self.observe_only,
            "init": self.init.iter().map(|(e, i)| json!([rj(e), i.iter().map(|r| rj(r)).collect::<Vec<_>>()])).collect::<Vec<_>>(),
            "ls": rj(&self.ls),
            "ops": self.ops.iter().map(|o| o.json()).collect::<Vec<_>>(),
            "history_text": self.text(),
        })
    }
    fn from_json(v: &Value) -> PolyHist {
        PolyHist {
            num: NUM_NAMES.iter().position(|n| Some(*n) == v["num"].as_str()).unwrap_or(0) as u8,
            host: v["host"].as_u64().unwrap_or(0) as u8,
            init: v["init"].as_array().expect("init").iter().map(|p| (rparse(&p[0]), p[1].as_array().map(|a| a.iter().map(rparse).collect()).unwrap_or_default())).collect(),
            ls: rparse(&v["ls"]),
            ops: v["ops"].as_array().expect("ops").iter().map(Op::from_json).collect(),
            origin: "replay",
            observe_only: v["observe_only"].as_bool().unwrap_or(false),
        }
    }
    fn text(&self) -> Vec<String> {
        let mut t: Vec<String> = self
            .init
            .iter()
            .enumerate()
            .map(|(i, (e, ints))| format!("init: p{i} = Polygon::new({}, [{}]) held {}", rtext_c(e), ints.iter().map(|r| rtext_c(r)).collect::<Vec<_>>().join(", "), HOST_NAMES[self.host as usize % 5]))
            .collect();
        t.push(format!("init: ls = {}", rtext_c(&self.ls)));
        for (i, o) in self.ops.iter().enumerate() {
            t.push(format!("call {i}: {}", o.text()));
        }
        t
    }
    fn digest(&self) -> u64 {
        let mut h = Fnv::new();
        h.u64(self.num as u64 * 16 + self.host as u64);
        for (e, ints) in &self.init {
            h.u64(e.len() as u64);
            for c in e {
                h.f64(c[0]);
                h.f64(c[1]);
            }
            h.u64(ints.len() as u64);
            for r in ints {
                h.u64(r.len() as u64);
                for c in r {
                    h.f64(c[0]);
                    h.f64(c[1]);
                }
            }
        }
        h.u64(self.ls.len() as u64);
        for c in &self.ls {
            h.f64(c[0]);
            h.f64(c[1]);
        }
        for o in &self.ops {
            o.digest(&mut h);
        }
        h.0
    }
}

fn state_text<T: Num>(host: &Host<T>, n: usize, ls: &LineString<T>) -> String {
    let mut s = String::new();
    for i in 0..n {
        let p = host.get(i);
        s += &format!("p{i}: ext {} ints [{}]; ", rtext(&p.exterior().0), p.interiors().iter().map(|r| rtext(&r.0)).collect::<Vec<_>>().join(", "));
    }
    s += &format!("ls {}", rtext(&ls.0));
    s
}

fn run_poly<T: Num>(sh: &mut Shard, st: &mut Stats, h: &PolyHist, verbose: bool) {
    let n = h.init.len();
    let mut evals = 0u64;
    let detail = |check: &str, at: i64, fail_ring: &str, exp: &str, got: &str, extra: Value| {
        let mut d = h.json();
        let m = d.as_object_mut().unwrap();
        m.insert("property".into(), json!("C18"));
        m.insert("check".into(), json!(check));
        m.insert("failed_at_call".into(), json!(at));
        m.insert("call".into(), json!(if at >= 0 { h.ops[at as usize].text() } else { "initial Polygon::new".into() }));
        m.insert("ring".into(), json!(fail_ring));
        m.insert("expected".into(), json!(exp));
        m.insert("got".into(), json!(got));
        m.insert("extra".into(), extra);
        d
    };
    // the initial constructor calls are calls of the history too
    let built = call(|| h.init.iter().map(|(e, ints)| Polygon::new(mk_ls::<T>(e, 0), ints.iter().map(|r| mk_ls::<T>(r, 0)).collect())).collect::<Vec<_>>());
    let polys = match built {
        Ok(p) => p,
        Err(e) => {
            viol(sh, "panic|Polygon::new|-", || detail("panic", -1, "", "no panic", &format!("panic: {e} at {}", last_panic_loc()), Value::Null));
            return;
        }
    };
    let mut host = Host::build(h.host, polys);
    let mut ls: LineString<T> = mk_ls(&h.ls, 0);
    if h.observe_only {
        // NaN in a ring makes first == last unattainable (NaN != NaN): outside the statement. The calls are
        // still made (a crash of the process would be noticed by the driver); nothing is judged.
        st.bump("poly_history:observe_only(NaN coordinate in the pool)");
        for op in &h.ops {
            if call(|| real_op(&mut host, n, &mut ls, op)).is_err() {
                st.bump("observe_only:panic(not judged)");
                break;
            }
        }
        if verbose {
            println!("observe-only history (NaN coordinates): executed, not judged; final state {}", state_text(&host, n, &ls));
        }
        return;
    }
    let mut s = SState { polys: h.init.iter().map(|(e, i)| snew::<T>(e, i)).collect(), ls: sring(&h.ls) };
    st.bump(HOST_NAMES[h.host as usize % 5]);
    st.bump(match T::NAME {
        "f64" => "poly_history:f64",
        _ => "poly_history:i32",
    });
    if verbose {
        for t in h.text().iter().take(n + 1) {
            println!("{t}");
        }
        println!("   state: {}", state_text(&host, n, &ls));
    }
    let mut failed: Option<(i64, String, Fail)> = closed_fail(&host, n, &mut evals).or_else(|| content_fail(&host, &ls, &s, &mut evals)).map(|f| (-1, "Polygon::new".to_string(), f));
    let mut executed = 0usize;
    if failed.is_none() {
        for (i, op) in h.ops.iter().enumerate() {
            // evidence of reach
            st.bump(OP_NAMES[op.k as usize]);
            match op.k {
                K_EXT | K_TRYEXT | K_LSEDIT => *st.closure.entry((op.k, op.ek)).or_insert(0) += 1,
                K_INTS | K_TRYINTS => {
                    *st.slice.entry((op.k, op.sk)).or_insert(0) += 1;
                    if op.sk == S_RING || op.sk == S_ALL {
                        *st.closure.entry((op.k, op.ek)).or_insert(0) += 1
                    }
                }
                K_REBUILD => st.bump(["rebuild:untouched", "rebuild:edit_exterior", "rebuild:edit_interior", "rebuild:push_ring", "rebuild:remove_ring", "rebuild:clear_interiors", "rebuild:swap_exterior_with_interior"][op.sk as usize % 7]),
                K_PUSH => st.bump(["push_form:LineString", "push_form:Vec<(T,T)>", "push_form:Vec<[T;2]>", "push_form:Vec<Coord>", "push_form:Vec<Point>", "push_form:Line", "push_form:&Line"][if op.ring.len() == 2 || op.form % 7 < 5 { op.form as usize % 7 } else { 0 }]),
                K_CONVERT => st.bump(["convert:Geometry", "convert:MultiPolygon_vec", "convert:MultiPolygon_single", "convert:into_polygon", "convert:GeometryCollection"][op.sk as usize % 5]),
                K_LSCLOSE => st.bump(if s.ls.is_empty() {
                    "ls_close:empty"
                } else if ceq_val(&s.ls[0], &s.ls[s.ls.len() - 1]) {
                    "ls_close:already_closed(idempotence)"
                } else {
                    "ls_close:open"
                }),
                _ => {}
            }
            if op.k == K_TRYEXT || op.k == K_TRYINTS {
                *st.exits.entry((op.k, op.exit)).or_insert(0) += 1;
            }
            let before = if (op.k == K_TRYEXT || op.k == K_TRYINTS) && op.exit == X_AFTER { Some(s.clone()) } else { None };
            let res = call(|| real_op(&mut host, n, &mut ls, op));
            executed = i + 1;
            if verbose {
                println!("call {i}: {}", op.text());
            }
            let ret = match res {
                Ok(r) => r,
                Err(e) => {
                    let msg = format!("panic: {e} at {}", last_panic_loc());
                    if verbose {
                        println!("   {msg}");
                    }
                    failed = Some((i as i64, op.site(), Fail { check: "panic", ring: String::new(), expected: "the call returns".into(), got: msg }));
                    break;
                }
            };
            if verbose {
                if let Some(r) = &ret {
                    println!("   returned {:?}", r);
                }
                println!("   state: {}", state_text(&host, n, &ls));
            }
            // the value returned by a fallible mutator is the closure's
            if op.k == K_TRYEXT || op.k == K_TRYINTS {
                evals += 1;
                let want: Result<(), u32> = if op.exit == X_OK { Ok(()) } else { Err(err_code(op)) };
                if ret != Some(want) {
                    failed = Some((i as i64, op.site(), Fail { check: "try.result", ring: String::new(), expected: format!("{:?}", want), got: format!("{:?}", ret) }));
                    break;
                }
            }
            shadow_op(&mut s, op);
            if let Some(f) = closed_fail(&host, n, &mut evals) {
                failed = Some((i as i64, op.site(), f));
                break;
            }
            if op.k == K_LSCLOSE {
                evals += 1;
                let own = match (ls.0.first(), ls.0.last()) {
                    (Some(f), Some(l)) => ceq_val(f, l),
                    _ => true,
                };
                if !own || !ls.is_closed() {
                    failed = Some((i as i64, op.site(), Fail { check: "ls.closed", ring: "ls".into(), expected: "closed after close()".into(), got: format!("{} is_closed()={}", rtext(&ls.0), ls.is_closed()) }));
                    break;
                }
            }
            match content_fail(&host, &ls, &s, &mut evals) {
                None => {}
                Some(f) => {
                    // a closure that mutated and then returned Err: the documentation does not say whether
                    // the edit is kept (and re-closed) or rolled back; both keep the invariant, both accepted
                    let rolled_back = match &before {
                        Some(b) => content_fail(&host, &ls, b, &mut evals).is_none(),
                        None => false,
                    };
                    if rolled_back {
                        st.bump("err_after:edit_rolled_back");
                        s = before.unwrap();
                    } else {
                        failed = Some((i as i64, op.site(), f));
                        break;
                    }
                }
            }
        }
    }
    sh.eval(evals);
    st.bump_n("poly_calls_executed", executed as u64);
    let len_class = match h.ops.len() {
        0..=1 => "history_len:1",
        2..=4 => "history_len:2-4",
        5..=16 => "history_len:5-16",
        17..=40 => "history_len:17-40",
        _ => "history_len:41-64",
    };
    st.bump(len_class);
    if let Some((at, site, f)) = failed {
        st.bump("history_cut_by_violation");
        let sig = format!("{}|{}|-", f.check, site);
        if verbose {
            println!("   VIOLATION {sig}: {} expected {} got {}", f.ring, f.expected, f.got);
        }
        viol(sh, &sig, || detail(f.check, at, &f.ring, &f.expected, &f.got, json!({"num": T::NAME})));
    }
    if h.origin == "exhaustive" && h.ops.len() >= 4 {
        st.bump("exhaustive_len4_history(not in distinct_nontrivial)");
    } else if h.ops.len() >= 2 && h.ops.iter().any(|o| is_mutator(o.k)) {
        sh.nontrivial(h.digest());
    }
    if h.origin == "random" {
        sh.sample(|| json!({"kind": "poly", "num": T::NAME, "host": HOST_NAMES[h.host as usize % 5], "history": h.text()}));
    }
}

// ---------------------------------------------------------------------------------------------
// Rect histories
// ---------------------------------------------------------------------------------------------
const R_NEW: u8 = 0;
const R_TRYNEW: u8 = 1;
const R_SETMIN: u8 = 2;
const R_SETMAX: u8 = 3;
const ROP_NAMES: [&str; 4] = ["Rect::new", "Rect::try_new", "set_min", "set_max"];

#[derive(Clone, Copy, Debug)]
struct ROp {
    k: u8,
    a: C,
    b: C,
}
impl ROp {
    fn text(&self) -> String {
        match self.k {
            R_NEW => format!("r = Rect::new({}, {})", ctext(self.a), ctext(self.b)),
            R_TRYNEW => format!("r = Rect::try_new({}, {})", ctext(self.a), ctext(self.b)),
            R_SETMIN => format!("r.set_min({})", ctext(self.a)),
            _ => format!("r.set_max({})", ctext(self.a)),
        }
    }
}
#[derive(Clone, Debug)]
struct RectHist {
    num: u8,
    via_geom: bool,
    ops: Vec<ROp>,
    origin: &'static str,
}
impl RectHist {
    fn json(&self) -> Value {
        json!({"kind": "rect", "num": NUM_NAMES[self.num as usize], "via_geom": self.via_geom, "origin": self.origin,
               "ops": self.ops.iter().map(|o| json!([o.k, cj(o.a), cj(o.b)])).collect::<Vec<_>>(),
               "history_text": self.ops.iter().enumerate().map(|(i, o)| format!("call {i}: {}", o.text())).collect::<Vec<_>>()})
    }
    fn from_json(v: &Value) -> RectHist {
        RectHist {
            num: NUM_NAMES.iter().position(|n| Some(*n) == v["num"].as_str()).unwrap_or(0) as u8,
            via_geom: v["via_geom"].as_bool().unwrap_or(false),
            ops: v["ops"].as_array().expect("ops").iter().map(|o| ROp { k: o[0].as_u64().unwrap_or(0) as u8, a: cparse(&o[1]), b: cparse(&o[2]) }).collect(),
            origin: "replay",
        }
    }
    fn digest(&self) -> u64 {
        let mut h = Fnv::new();
        h.u64(0x5ec7 + self.num as u64 * 2 + self.via_geom as u64);
        for o in &self.ops {
            h.u64(o.k as u64);
            h.f64(o.a[0]);
            h.f64(o.a[1]);
            if o.k <= R_TRYNEW {
                h.f64(o.b[0]);
                h.f64(o.b[1]);
            }
        }
        h.0
    }
}
enum RHost<T: Num> {
    Bare(Rect<T>),
    Geom(Geometry<T>),
}
impl<T: Num> RHost<T> {
    fn get(&self) -> Rect<T> {
        match self {
            RHost::Bare(r) => *r,
            RHost::Geom(Geometry::Rect(r)) => *r,
            _ => unreachable!(),
        }
    }
    fn with_mut(&mut self, f: impl FnOnce(&mut Rect<T>)) {
        match self {
            RHost::Bare(r) => f(r),
            RHost::Geom(Geometry::Rect(r)) => f(r),
            _ => unreachable!(),
        }
    }
}
/// `ring4` is a cyclic rotation of the four corners in counter-clockwise order (bit-exact)
fn ccw_rotation<T: Num>(ring4: &[Coord<T>], corners: &[Coord<T>; 4]) -> bool {
    ring4.len() == 4 && (0..4).any(|s| (0..4).all(|k| ceq_bits(&ring4[k], &corners[(s + k) % 4])))
}
/// judge every conversion of a rectangle against its corners (min, max as observed and already judged)
fn rect_conversions<T: Num>(r: Rect<T>, mn: Coord<T>, mx: Coord<T>, evals: &mut u64) -> Option<Fail> {
    let corners = [mn, Coord { x: mx.x, y: mn.y }, mx, Coord { x: mn.x, y: mx.y }];
    let want = || format!("closed ring of 5 coordinates visiting {} counter-clockwise from any start, no interiors", rtext(&corners));
    for (name, p) in [("rect.to_polygon", r.to_polygon()), ("rect.polygon_from_rect", Polygon::from(r))] {
        *evals += 1;
        let e = &p.exterior().0;
        let ok = e.len() == 5 && ceq_bits(&e[0], &e[4]) && ccw_rotation(&e[..4], &corners) && p.interiors().is_empty();
        if !ok {
            return Some(Fail { check: name, ring: String::new(), expected: want(), got: format!("exterior {} with {} interiors", rtext(e), p.interiors().len()) });
        }
    }
    *evals += 1;
    let lines = r.to_lines();
    let starts: Vec<Coord<T>> = lines.iter().map(|l| l.start).collect();
    let chained = (0..4).all(|k| ceq_bits(&lines[k].end, &lines[(k + 1) % 4].start));
    if !(ccw_rotation(&starts, &corners) && chained) {
        return Some(Fail { check: "rect.to_lines", ring: String::new(), expected: format!("4 chained edges through {} counter-clockwise", rtext(&corners)), got: format!("{:?}", lines.iter().map(|l| format!("{}->{}", rtext(&[l.start]), rtext(&[l.end]))).collect::<Vec<_>>()) });
    }
    *evals += 2;
    let g = Geometry::from(r);
    let back = Rect::try_from(g.clone());
    let ok = matches!(&g, Geometry::Rect(_)) && matches!(&back, Ok(b) if ceq_bits(&b.min(), &mn) && ceq_bits(&b.max(), &mx));
    if !ok {
        return Some(Fail { check: "rect.geometry_roundtrip", ring: String::new(), expected: format!("Ok(Rect {} {})", rtext(&[mn]), rtext(&[mx])), got: format!("{:?}", back.map(|b| (b.min().x.bits(), b.min().y.bits(), b.max().x.bits(), b.max().y.bits()))) });
    }
    if Polygon::try_from(g).is_ok() {
        return Some(Fail { check: "geometry.wrong_target", ring: String::new(), expected: "Err for Polygon::try_from(Geometry::Rect)".into(), got: "Ok".into() });
    }
    // Rects built from a Rect: the halves of split_x / split_y satisfy min <= max again, keep the outer bounds and meet in
    // one cut inside them (finite bounds only: with an infinite side there is no middle)
    let fin = |v: T| v == v && v - v == T::zero();
    if [mn.x, mn.y, mx.x, mx.y, r.width(), r.height()].iter().all(|v| fin(*v)) {
        for (name, halves, on_x) in [("rect.split_x", r.split_x(), true), ("rect.split_y", r.split_y(), false)] {
            *evals += 1;
            let [h1, h2] = halves;
            let ordered = [h1, h2].iter().all(|h| h.min().x <= h.max().x && h.min().y <= h.max().y);
            let outer = h1.min() == mn && h2.max() == mx;
            let (c1, c2, lo, hi) = if on_x { (h1.max().x, h2.min().x, mn.x, mx.x) } else { (h1.max().y, h2.min().y, mn.y, mx.y) };
            let across = if on_x { h1.max().y == mx.y && h2.min().y == mn.y } else { h1.max().x == mx.x && h2.min().x == mn.x };
            if !(ordered && outer && across && c1 == c2 && lo <= c1 && c1 <= hi) {
                return Some(Fail { check: name, ring: String::new(), expected: format!("two Rects with min <= max that share one cut inside [{lo:?}, {hi:?}] and keep the bounds {} {}", rtext(&[mn]), rtext(&[mx])), got: format!("[{} {}] and [{} {}]", rtext(&[h1.min()]), rtext(&[h1.max()]), rtext(&[h2.min()]), rtext(&[h2.max()])) });
            }
        }
    }
    None
}

fn run_rect<T: Num>(sh: &mut Shard, st: &mut Stats, h: &RectHist, verbose: bool) {
    let mut evals = 0u64;
    let mut host: Option<RHost<T>> = None;
    // shadow: the four numbers
    let mut smin: Coord<T> = cc([0.0, 0.0]);
    let mut smax: Coord<T> = cc([0.0, 0.0]);
    let mut failed: Option<(usize, Fail)> = None;
    let mut executed = 0usize;
    st.bump(match (T::NAME, h.via_geom) {
        ("f64", false) => "rect_history:f64:bare",
        ("f64", true) => "rect_history:f64:in_Geometry::Rect",
        (_, false) => "rect_history:i64:bare",
        _ => "rect_history:i64:in_Geometry::Rect",
    });
    for (i, op) in h.ops.iter().enumerate() {
        let a: Coord<T> = cc(op.a);
        let b: Coord<T> = cc(op.b);
        let has_nan = a.x.nan() || a.y.nan() || (op.k <= R_TRYNEW && (b.x.nan() || b.y.nan()));
        if host.is_none() && op.k > R_TRYNEW {
            continue;
        }
        executed = i + 1;
        if verbose {
            println!("call {i}: {}", op.text());
        }
        if has_nan {
            // NaN corners: observe only (crash detection), no verdict, history ends
            st.bump("rect.observe_only:nan_operand");
            let _ = call(|| match op.k {
                R_NEW => {
                    let r = Rect::new(a, b);
                    let _ = (r.min(), r.max(), r.width(), r.height(), r.to_polygon(), r.to_lines());
                }
                R_TRYNEW => {
                    let _ = Rect::try_new(a, b);
                }
                R_SETMIN => host.as_mut().unwrap().with_mut(|r| r.set_min(a)),
                _ => host.as_mut().unwrap().with_mut(|r| r.set_max(a)),
            });
            if verbose {
                println!("   NaN operand: observed only, history ends");
            }
            break;
        }
        st.bump(["rect_op:Rect::new", "rect_op:Rect::try_new", "rect_op:set_min", "rect_op:set_max"][op.k as usize % 4]);
        match op.k {
            R_NEW | R_TRYNEW => {
                let res = call(|| if op.k == R_NEW { Ok(Rect::new(a, b)) } else { Rect::try_new(a, b).map_err(|_| ()) });
                let r = match res {
                    Ok(Ok(r)) => r,
                    Ok(Err(())) => {
                        failed = Some((i, Fail { check: "rect.try_new", ring: String::new(), expected: "Ok".into(), got: "Err".into() }));
                        break;
                    }
                    Err(e) => {
                        failed = Some((i, Fail { check: "panic", ring: String::new(), expected: "the call returns".into(), got: format!("panic: {e} at {}", last_panic_loc()) }));
                        break;
                    }
                };
                // componentwise: {min, max} is exactly the pair of inputs (bit patterns) and min <= max
                evals += 2;
                let (gmin, gmax) = (r.min(), r.max());
                let comp_ok = |gm: T, gx: T, p: T, q: T| ((gm.bits() == p.bits() && gx.bits() == q.bits()) || (gm.bits() == q.bits() && gx.bits() == p.bits())) && gm <= gx;
                if !(comp_ok(gmin.x, gmax.x, a.x, b.x) && comp_ok(gmin.y, gmax.y, a.y, b.y)) {
                    let emin = Coord { x: if a.x < b.x { a.x } else { b.x }, y: if a.y < b.y { a.y } else { b.y } };
                    let emax = Coord { x: if a.x < b.x { b.x } else { a.x }, y: if a.y < b.y { b.y } else { a.y } };
                    failed = Some((i, Fail { check: "rect.new_normalises", ring: String::new(), expected: format!("min {} max {}", rtext(&[emin]), rtext(&[emax])), got: format!("min {} max {}", rtext(&[gmin]), rtext(&[gmax])) }));
                    break;
                }
                st.bump(match (a.x < b.x, a.y < b.y, a.x == b.x || a.y == b.y) {
                    (_, _, true) => "rect_new:degenerate(equal x or y)",
                    (true, true, _) => "rect_new:corner_order(min,max)",
                    (false, false, _) => "rect_new:corner_order(max,min)",
                    (true, false, _) => "rect_new:corner_order(top-left,bottom-right)",
                    (false, true, _) => "rect_new:corner_order(bottom-right,top-left)",
                });
                smin = gmin;
                smax = gmax;
                host = Some(if h.via_geom { RHost::Geom(Geometry::Rect(r)) } else { RHost::Bare(r) });
            }
            _ => {
                let is_min = op.k == R_SETMIN;
                let valid = if is_min { a.x <= smax.x && a.y <= smax.y } else { smin.x <= a.x && smin.y <= a.y };
                let hst = host.as_mut().unwrap();
                let res = call(|| hst.with_mut(|r| if is_min { r.set_min(a) } else { r.set_max(a) }));
                evals += 1;
                match (valid, res) {
                    (true, Ok(())) => {
                        st.bump(if is_min { "set_min:valid" } else { "set_max:valid" });
                        if is_min {
                            smin = a
                        } else {
                            smax = a
                        }
                    }
                    (true, Err(e)) => {
                        failed = Some((i, Fail { check: "panic", ring: String::new(), expected: "the call returns (new bound keeps min <= max)".into(), got: format!("panic: {e} at {}", last_panic_loc()) }));
                        break;
                    }
                    (false, Err(_)) => {
                        // documented panic. A Rect that is still reachable afterwards (the call was made through `&mut`, the
                        // panic caught) is part of "any sequence of public mutator calls": it must still satisfy min <= max
                        // (finite operands only: with a NaN bound no order holds or fails)
                        st.bump(if is_min { "set_min:invalid_panics(as documented)" } else { "set_max:invalid_panics(as documented)" });
                        let r = host.as_ref().unwrap().get();
                        let finite = [r.min().x, r.min().y, r.max().x, r.max().y].iter().all(|v| *v == *v);
                        let bad = finite && !(r.min().x <= r.max().x && r.min().y <= r.max().y);
                        evals += 1;
                        st.bump(if bad { "rect.after_caught_panic:min>max" } else { "rect.after_caught_panic:state_valid" });
                        if verbose {
                            println!("   documented panic; state after the caught panic: min {} max {}; history ends", rtext(&[r.min()]), rtext(&[r.max()]));
                        }
                        if bad {
                            failed = Some((i, Fail { check: "rect.min_le_max_after_caught_panic", ring: String::new(), expected: "min <= max in both components (the rejected bound is not kept)".into(), got: format!("min {} max {}", rtext(&[r.min()]), rtext(&[r.max()])) }));
                        }
                        break;
                    }
                    (false, Ok(())) => {
                        let r = host.as_ref().unwrap().get();
                        failed = Some((i, Fail { check: "rect.set_rejects_invalid", ring: String::new(), expected: format!("panic (documented) because the new {} would violate min <= max against {}", if is_min { "min" } else { "max" }, if is_min { rtext(&[smax]) } else { rtext(&[smin]) }), got: format!("accepted silently: min {} max {}", rtext(&[r.min()]), rtext(&[r.max()])) }));
                        break;
                    }
                }
            }
        }
        // invariants through the public API after every call
        let r = host.as_ref().unwrap().get();
        evals += 3;
        if verbose {
            println!("   state: min {} max {} width {:?} height {:?}", rtext(&[r.min()]), rtext(&[r.max()]), r.width(), r.height());
        }
        if !(r.min().x <= r.max().x && r.min().y <= r.max().y) {
            failed = Some((i, Fail { check: "rect.min_le_max", ring: String::new(), expected: "min <= max in both components".into(), got: format!("min {} max {}", rtext(&[r.min()]), rtext(&[r.max()])) }));
            break;
        }
        if !(ceq_bits(&r.min(), &smin) && ceq_bits(&r.max(), &smax)) {
            failed = Some((i, Fail { check: "rect.state", ring: String::new(), expected: format!("min {} max {}", rtext(&[smin]), rtext(&[smax])), got: format!("min {} max {}", rtext(&[r.min()]), rtext(&[r.max()])) }));
            break;
        }
        if !(r.width() >= T::zero() && r.height() >= T::zero()) {
            failed = Some((i, Fail { check: "rect.width_height_nonneg", ring: String::new(), expected: "width() >= 0 and height() >= 0".into(), got: format!("width {:?} height {:?}", r.width(), r.height()) }));
            break;
        }
        match call(|| rect_conversions(r, smin, smax, &mut evals)) {
            Ok(None) => {}
            Ok(Some(f)) => {
                failed = Some((i, f));
                break;
            }
            Err(e) => {
                failed = Some((i, Fail { check: "panic", ring: String::new(), expected: "conversions return".into(), got: format!("panic: {e} at {}", last_panic_loc()) }));
                break;
            }
        }
    }
    sh.eval(evals);
    st.bump_n("rect_calls_executed", executed as u64);
    if let Some((at, f)) = failed {
        let site = ROP_NAMES[h.ops[at].k as usize % 4];
        let sig = format!("{}|{}|-", f.check, site);
        if verbose {
            println!("   VIOLATION {sig}: expected {} got {}", f.expected, f.got);
        }
        viol(sh, &sig, || {
            let mut d = h.json();
            let m = d.as_object_mut().unwrap();
            m.insert("property".into(), json!("C18"));
            m.insert("check".into(), json!(f.check));
            m.insert("failed_at_call".into(), json!(at));
            m.insert("call".into(), json!(h.ops[at].text()));
            m.insert("expected".into(), json!(f.expected));
            m.insert("got".into(), json!(f.got));
            d
        });
    }
    if h.ops.len() >= 2 {
        sh.nontrivial(h.digest());
    }
    if h.origin == "random" {
        sh.sample(|| json!({"kind": "rect", "num": T::NAME, "history": h.ops.iter().map(|o| o.text()).collect::<Vec<_>>()}));
    }
}

// ---------------------------------------------------------------------------------------------
// conversion clauses (single inputs): bit-exact, order preserving
// ---------------------------------------------------------------------------------------------
/// own traversal of a geometry into a flat list of tags, counts and coordinate bit patterns
trait Fp {
    fn fp(&self, o: &mut Vec<u64>);
}
fn fpv<X: Fp>(x: &X) -> Vec<u64> {
    let mut o = vec![];
    x.fp(&mut o);
    o
}
impl<T: Num> Fp for Coord<T> {
    fn fp(&self, o: &mut Vec<u64>) {
        o.push(self.x.bits());
        o.push(self.y.bits());
    }
}
impl<T: Num> Fp for Point<T> {
    fn fp(&self, o: &mut Vec<u64>) {
        o.push(1);
        self.0.fp(o);
    }
}
impl<T: Num> Fp for Line<T> {
    fn fp(&self, o: &mut Vec<u64>) {
        o.push(2);
        self.start.fp(o);
        self.end.fp(o);
    }
}
impl<T: Num> Fp for LineString<T> {
    fn fp(&self, o: &mut Vec<u64>) {
        o.push(3);
        o.push(self.0.len() as u64);
        for c in &self.0 {
            c.fp(o)
        }
    }
}
impl<T: Num> Fp for Polygon<T> {
    fn fp(&self, o: &mut Vec<u64>) {
        o.push(4);
        self.exterior().fp(o);
        o.push(self.interiors().len() as u64);
        for r in self.interiors() {
            r.fp(o)
        }
    }
}
impl<T: Num> Fp for MultiPoint<T> {
    fn fp(&self, o: &mut Vec<u64>) {
        o.push(5);
        o.push(self.0.len() as u64);
        for p in &self.0 {
            p.fp(o)
        }
    }
}
impl<T: Num> Fp for MultiLineString<T> {
    fn fp(&self, o: &mut Vec<u64>) {
        o.push(6);
        o.push(self.0.len() as u64);
        for p in &self.0 {
            p.fp(o)
        }
    }
}
impl<T: Num> Fp for MultiPolygon<T> {
    fn fp(&self, o: &mut Vec<u64>) {
        o.push(7);
        o.push(self.0.len() as u64);
        for p in &self.0 {
            p.fp(o)
        }
    }
}
impl<T: Num> Fp for GeometryCollection<T> {
    fn fp(&self, o: &mut Vec<u64>) {
        o.push(8);
        o.push(self.0.len() as u64);
        for p in &self.0 {
            p.fp(o)
        }
    }
}
impl<T: Num> Fp for Rect<T> {
    fn fp(&self, o: &mut Vec<u64>) {
        o.push(9);
        self.min().fp(o);
        self.max().fp(o);
    }
}
impl<T: Num> Fp for Triangle<T> {
    fn fp(&self, o: &mut Vec<u64>) {
        o.push(10);
        self.0.fp(o);
        self.1.fp(o);
        self.2.fp(o);
    }
}
impl<T: Num> Fp for Geometry<T> {
    fn fp(&self, o: &mut Vec<u64>) {
        match self {
            Geometry::Point(x) => x.fp(o),
            Geometry::Line(x) => x.fp(o),
            Geometry::LineString(x) => x.fp(o),
            Geometry::Polygon(x) => x.fp(o),
            Geometry::MultiPoint(x) => x.fp(o),
            Geometry::MultiLineString(x) => x.fp(o),
            Geometry::MultiPolygon(x) => x.fp(o),
            Geometry::GeometryCollection(x) => x.fp(o),
            Geometry::Rect(x) => x.fp(o),
            Geometry::Triangle(x) => x.fp(o),
        }
    }
}
fn variant_name<T: Num>(g: &Geometry<T>) -> &'static str {
    match g {
        Geometry::Point(_) => "Point",
        Geometry::Line(_) => "Line",
        Geometry::LineString(_) => "LineString",
        Geometry::Polygon(_) => "Polygon",
        Geometry::MultiPoint(_) => "MultiPoint",
        Geometry::MultiLineString(_) => "MultiLineString",
        Geometry::MultiPolygon(_) => "MultiPolygon",
        Geometry::GeometryCollection(_) => "GeometryCollection",
        Geometry::Rect(_) => "Rect",
        Geometry::Triangle(_) => "Triangle",
    }
}
/// last path segment of a type name, generic arguments removed ("a::b::Polygon<f64>" -> "Polygon")
fn short(s: &str) -> &str {
    let s = s.split('<').next().unwrap_or(s);
    s.rsplit("::").next().unwrap_or(s)
}

#[derive(Clone, Debug)]
struct ConvCase {
    num: u8,
    coords: Vec<C>, // at least 12
    parts: Vec<usize>,
    origin: &'static str,
}
impl ConvCase {
    fn json(&self) -> Value {
        json!({"kind": "conv", "num": NUM_NAMES[self.num as usize], "coords": rj(&self.coords), "parts": self.parts, "coords_text": rtext_c(&self.coords)})
    }
    fn from_json(v: &Value) -> ConvCase {
        ConvCase {
            num: NUM_NAMES.iter().position(|n| Some(*n) == v["num"].as_str()).unwrap_or(0) as u8,
            coords: rparse(&v["coords"]),
            parts: v["parts"].as_array().map(|a| a.iter().map(|x| x.as_u64().unwrap_or(1) as usize).collect()).unwrap_or_default(),
            origin: "replay",
        }
    }
}
struct Ck<'a> {
    sh: &'a mut Shard,
    case: &'a ConvCase,
    verbose: bool,
    num: &'static str,
}
impl<'a> Ck<'a> {
    fn ck(&mut self, check: &str, site: &str, ok: bool, exp: impl FnOnce() -> String, got: impl FnOnce() -> String) {
        self.sh.eval(1);
        if self.verbose {
            println!("  {check} @ {site}: {}", if ok { "ok" } else { "VIOLATION" });
        }
        if !ok {
            let (e, g) = (exp(), got());
            if self.verbose {
                println!("     expected {e}\n     got      {g}");
            }
            let case = self.case;
            let num = self.num;
            viol(self.sh, &format!("{check}|{site}|-"), || {
                let mut d = case.json();
                let m = d.as_object_mut().unwrap();
                m.insert("property".into(), json!("C18"));
                m.insert("check".into(), json!(check));
                m.insert("site".into(), json!(site));
                m.insert("expected".into(), json!(e));
                m.insert("got".into(), json!(g));
                m.insert("extra".into(), json!({ "num": num }));
                d
            });
        }
    }
    fn same<X: Fp>(&mut self, check: &str, site: &str, got: &X, want: &[u64]) {
        let g = fpv(got);
        self.ck(check, site, g == want, || format!("{:x?}", want), || format!("{:x?}", g));
    }
}

fn tf_one<T: Num, Y>(ck: &mut Ck, g: &Geometry<T>, tgt: &'static str, fp0: &[u64])
where
    Y: TryFrom<Geometry<T>, Error = geo_types::Error> + Fp,
{
    let src = variant_name(g);
    let r = Y::try_from(g.clone());
    if src == tgt {
        let got = r.as_ref().ok().map(|y| fpv(y));
        ck.ck("geometry.roundtrip", tgt, got.as_deref() == Some(fp0), || format!("Ok with {:x?}", fp0), || format!("{:x?}", got));
    } else {
        match r {
            Ok(_) => ck.ck("geometry.wrong_target", &format!("{src}->{tgt}"), false, || "Err(MismatchedGeometry)".into(), || "Ok".into()),
            Err(geo_types::Error::MismatchedGeometry { expected, found }) => {
                ck.ck("geometry.wrong_target", &format!("{src}->{tgt}"), true, String::new, String::new);
                ck.ck("geometry.error_names", &format!("{src}->{tgt}"), short(expected) == tgt && short(found) == src, || format!("expected a {tgt}, found a {src}"), || format!("expected: {expected}, found: {found}"));
            }
        }
    }
}
fn tf_all<T: Num>(ck: &mut Ck, g: &Geometry<T>, fp0: &[u64]) {
    tf_one::<T, Point<T>>(ck, g, "Point", fp0);
    tf_one::<T, Line<T>>(ck, g, "Line", fp0);
    tf_one::<T, LineString<T>>(ck, g, "LineString", fp0);
    tf_one::<T, Polygon<T>>(ck, g, "Polygon", fp0);
    tf_one::<T, MultiPoint<T>>(ck, g, "MultiPoint", fp0);
    tf_one::<T, MultiLineString<T>>(ck, g, "MultiLineString", fp0);
    tf_one::<T, MultiPolygon<T>>(ck, g, "MultiPolygon", fp0);
    tf_one::<T, Rect<T>>(ck, g, "Rect", fp0);
    tf_one::<T, Triangle<T>>(ck, g, "Triangle", fp0);
    // the deprecated Option-returning accessors
    let src = variant_name(g);
    let mut opt = |name: &'static str, got: Option<Vec<u64>>| {
        let want = if src == name { Some(fp0.to_vec()) } else { None };
        ck.ck("geometry.into_x", name, got == want, || format!("{:x?}", want), || format!("{:x?}", got));
    };
    opt("Point", g.clone().into_point().map(|x| fpv(&x)));
    opt("Line", g.clone().into_line().map(|x| fpv(&x)));
    opt("LineString", g.clone().into_line_string().map(|x| fpv(&x)));
    opt("Polygon", g.clone().into_polygon().map(|x| fpv(&x)));
    opt("MultiPoint", g.clone().into_multi_point().map(|x| fpv(&x)));
    opt("MultiLineString", g.clone().into_multi_line_string().map(|x| fpv(&x)));
    opt("MultiPolygon", g.clone().into_multi_polygon().map(|x| fpv(&x)));
}
/// Geometry::from(x) keeps variant and contents, and the way back gives exactly x
fn roundtrip<T: Num, X: Fp + Clone + Into<Geometry<T>>>(ck: &mut Ck, x: &X, name: &'static str) {
    let fp0 = fpv(x);
    let g: Geometry<T> = x.clone().into();
    ck.ck("geometry.from", name, variant_name(&g) == name && fpv(&g) == fp0, || format!("Geometry::{name} with {:x?}", fp0), || format!("Geometry::{} with {:x?}", variant_name(&g), fpv(&g)));
    tf_all(ck, &g, &fp0);
}
fn seq_fp<X: Fp>(xs: &[X]) -> Vec<u64> {
    let mut o = vec![xs.len() as u64];
    for x in xs {
        x.fp(&mut o)
    }
    o
}
fn seq_fp_ref<'x, X: Fp + 'x>(xs: impl Iterator<Item = &'x X>) -> Vec<u64> {
    let v: Vec<&X> = xs.collect();
    let mut o = vec![v.len() as u64];
    for x in v {
        x.fp(&mut o)
    }
    o
}
/// exact integer cross product when all six numbers are integers small enough that geo's own
/// (documented non-robust) cross product in T is exact as well
fn exact_cross<T: Num>(a: Coord<T>, b: Coord<T>, c: Coord<T>, back: &dyn Fn(T) -> f64) -> Option<i128> {
    let f = |t: T| -> Option<i128> {
        let v = back(t);
        if v.is_finite() && v.fract() == 0.0 && v.abs() < T::EXACT_LIM {
            Some(v as i128)
        } else {
            None
        }
    };
    let (ax, ay, bx, by, cx, cy) = (f(a.x)?, f(a.y)?, f(b.x)?, f(b.y)?, f(c.x)?, f(c.y)?);
    Some((bx - ax) * (cy - ay) - (by - ay) * (cx - ax))
}

fn run_conv<T: Num>(sh: &mut Shard, st: &mut Stats, case: &ConvCase, verbose: bool)
where
    T: Into<f64>,
{
    let cs: Vec<Coord<T>> = case.coords.iter().map(|&c| cc(c)).collect();
    assert!(cs.len() >= 12);
    st.bump(if T::NAME == "f64" { "conversion_case:f64" } else { "conversion_case:i32" });
    let mut ck = Ck { sh, case, verbose, num: T::NAME };
    let back = |t: T| -> f64 { t.into() };

    // --- Line -> LineString = [start, end]
    let (a, b, c) = (cs[0], cs[1], cs[2]);
    let line = Line::new(a, b);
    ck.ck("line.new", "Line", ceq_bits(&line.start, &a) && ceq_bits(&line.end, &b), || rtext(&[a, b]), || rtext(&[line.start, line.end]));
    let want_line_ls = {
        let mut o = vec![3, 2];
        a.fp(&mut o);
        b.fp(&mut o);
        o
    };
    ck.same("line.to_linestring", "From<Line>", &LineString::from(line), &want_line_ls);
    ck.same("line.to_linestring", "From<&Line>", &LineString::from(&line), &want_line_ls);
    let l2 = Line::from([(a.x, a.y), (b.x, b.y)]);
    ck.ck("line.from_array", "From<[(T,T);2]>", ceq_bits(&l2.start, &a) && ceq_bits(&l2.end, &b), || rtext(&[a, b]), || rtext(&[l2.start, l2.end]));
    let (sp, ep) = line.points();
    ck.ck("line.points", "Line", ceq_bits(&sp.0, &a) && ceq_bits(&ep.0, &b) && ceq_bits(&line.start_point().0, &a) && ceq_bits(&line.end_point().0, &b), || rtext(&[a, b]), || rtext(&[sp.0, ep.0]));

    // --- Triangle
    let tn = Triangle::new(a, b, c);
    let stored = tn.to_array();
    let perm_ok = {
        let mut w = vec![(a.x.bits(), a.y.bits()), (b.x.bits(), b.y.bits()), (c.x.bits(), c.y.bits())];
        let mut g = vec![(stored[0].x.bits(), stored[0].y.bits()), (stored[1].x.bits(), stored[1].y.bits()), (stored[2].x.bits(), stored[2].y.bits())];
        w.sort();
        g.sort();
        w == g
    };
    ck.ck("triangle.new.same_vertices", "Triangle::new", perm_ok, || rtext(&[a, b, c]), || rtext(&stored));
    match exact_cross(a, b, c, &back) {
        Some(0) => {
            st.bump("triangle_new:collinear(order unchanged)");
            ck.ck("triangle.new.order", "Triangle::new:collinear", ceq_bits(&stored[0], &a) && ceq_bits(&stored[1], &b) && ceq_bits(&stored[2], &c), || rtext(&[a, b, c]), || rtext(&stored));
        }
        Some(x) => {
            st.bump(if x > 0 { "triangle_new:input_ccw" } else { "triangle_new:input_cw(reordered)" });
            let sx = exact_cross(stored[0], stored[1], stored[2], &back);
            ck.ck("triangle.new.order", "Triangle::new", matches!(sx, Some(v) if v > 0), || "stored order counter-clockwise".into(), || format!("{} (cross {:?})", rtext(&stored), sx));
        }
        None => st.bump("triangle_new:orientation_not_judged(non-integer or huge coordinates)"),
    }
    ck.ck("triangle.to_array", "Triangle", ceq_bits(&stored[0], &tn.0) && ceq_bits(&stored[1], &tn.1) && ceq_bits(&stored[2], &tn.2), || rtext(&[tn.0, tn.1, tn.2]), || rtext(&stored));
    // tuple construction and From<[_;3]> keep the given order; conversions follow the STORED order
    for (site, t) in [("Triangle(a,b,c)", Triangle(a, b, c)), ("Triangle::from([a,b,c])", Triangle::from([a, b, c])), ("Triangle::from([(x,y);3])", Triangle::from([(a.x, a.y), (b.x, b.y), (c.x, c.y)])), ("Triangle::new", tn)] {
        if site != "Triangle::new" {
            ck.ck("triangle.construct_keeps_order", site, ceq_bits(&t.0, &a) && ceq_bits(&t.1, &b) && ceq_bits(&t.2, &c), || rtext(&[a, b, c]), || rtext(&[t.0, t.1, t.2]));
        }
        let s = [t.0, t.1, t.2];
        let mut want = vec![4, 3, 4];
        for v in [s[0], s[1], s[2], s[0]] {
            v.fp(&mut want)
        }
        want.push(0);
        ck.same("triangle.to_polygon", site, &t.to_polygon(), &want);
        ck.same("triangle.polygon_from", site, &Polygon::from(t), &want);
        let ls = t.to_lines();
        let ok = (0..3).all(|k| ceq_bits(&ls[k].start, &s[k]) && ceq_bits(&ls[k].end, &s[(k + 1) % 3]));
        ck.ck("triangle.to_lines", site, ok, || format!("edges of {}", rtext(&s)), || format!("{:?}", ls.iter().map(|l| rtext(&[l.start, l.end])).collect::<Vec<_>>()));
        let arr = t.to_array();
        ck.ck("triangle.to_array", site, (0..3).all(|k| ceq_bits(&arr[k], &s[k])), || rtext(&s), || rtext(&arr));
    }

    // --- coordinate conversions
    {
        let tup: (T, T) = a.into();
        let arr: [T; 2] = a.into();
        let ok = tup.0.bits() == a.x.bits() && tup.1.bits() == a.y.bits() && arr[0].bits() == a.x.bits() && arr[1].bits() == a.y.bits();
        ck.ck("coord.into_tuple_array", "Coord", ok, || rtext(&[a]), || format!("{:?} {:?}", tup, arr));
        let c1 = Coord::from((a.x, a.y));
        let c2 = Coord::from([a.x, a.y]);
        let c3 = Coord::from(Point::new(a.x, a.y));
        let c4 = coord! { x: a.x, y: a.y };
        let (xx, yy) = a.x_y();
        ck.ck("coord.from", "Coord", ceq_bits(&c1, &a) && ceq_bits(&c2, &a) && ceq_bits(&c3, &a) && ceq_bits(&c4, &a) && xx.bits() == a.x.bits() && yy.bits() == a.y.bits(), || rtext(&[a]), || rtext(&[c1, c2, c3, c4]));
        let p1 = Point::from(a);
        let p2 = Point::from((a.x, a.y));
        let p3 = Point::from([a.x, a.y]);
        let p4 = point! { x: a.x, y: a.y };
        let p5 = point!(a);
        let pt: (T, T) = p1.into();
        let pa: [T; 2] = p1.into();
        let ok = [p1, p2, p3, p4, p5].iter().all(|p| ceq_bits(&p.0, &a) && p.x().bits() == a.x.bits() && p.y().bits() == a.y.bits()) && pt.0.bits() == a.x.bits() && pt.1.bits() == a.y.bits() && pa[0].bits() == a.x.bits() && pa[1].bits() == a.y.bits() && p1.x_y().0.bits() == a.x.bits() && p1.x_y().1.bits() == a.y.bits();
        ck.ck("point.from", "Point", ok, || rtext(&[a]), || rtext(&[p1.0, p2.0, p3.0, p4.0, p5.0]));
    }
    let m = 3 + case.parts.first().copied().unwrap_or(3) % (cs.len() - 3);
    let seq = &cs[..m];
    let want_ls = {
        let mut o = vec![3, seq.len() as u64];
        for c in seq {
            c.fp(&mut o)
        }
        o
    };
    ck.same("linestring.from", "LineString::new", &LineString::new(seq.to_vec()), &want_ls);
    ck.same("linestring.from", "From<Vec<(T,T)>>", &LineString::from(seq.iter().map(|c| (c.x, c.y)).collect::<Vec<_>>()), &want_ls);
    ck.same("linestring.from", "From<Vec<[T;2]>>", &LineString::from(seq.iter().map(|c| [c.x, c.y]).collect::<Vec<_>>()), &want_ls);
    ck.same("linestring.from", "From<Vec<Coord>>", &LineString::from(seq.to_vec()), &want_ls);
    ck.same("linestring.from", "From<Vec<Point>>", &LineString::from(seq.iter().map(|&c| Point::from(c)).collect::<Vec<_>>()), &want_ls);
    ck.same("linestring.from", "FromIterator<(T,T)>", &seq.iter().map(|c| (c.x, c.y)).collect::<LineString<T>>(), &want_ls);
    let ls0 = LineString::new(seq.to_vec());
    let coords_want = seq_fp(seq);
    ck.ck("linestring.iter_order", "into_inner", seq_fp(&ls0.clone().into_inner()) == coords_want, String::new, String::new);
    ck.ck("linestring.iter_order", "into_iter", seq_fp(&ls0.clone().into_iter().collect::<Vec<_>>()) == coords_want, String::new, String::new);
    ck.ck("linestring.iter_order", "coords()", seq_fp_ref(ls0.coords()) == coords_want, String::new, String::new);
    ck.ck("linestring.iter_order", "&ls into_iter", seq_fp_ref((&ls0).into_iter()) == coords_want, String::new, String::new);
    ck.ck("linestring.iter_order", "points()", seq_fp(&ls0.points().map(|p| p.0).collect::<Vec<_>>()) == coords_want, String::new, String::new);
    ck.ck("linestring.iter_order", "into_points", seq_fp(&ls0.clone().into_points().iter().map(|p| p.0).collect::<Vec<_>>()) == coords_want, String::new, String::new);
    ck.ck("linestring.iter_order", "points().rev()", { let mut v = ls0.points().rev().map(|p| p.0).collect::<Vec<_>>(); v.reverse(); seq_fp(&v) == coords_want }, String::new, String::new);
    let lines_ok = ls0.lines().len() == seq.len() - 1 && ls0.lines().enumerate().all(|(k, l)| ceq_bits(&l.start, &seq[k]) && ceq_bits(&l.end, &seq[k + 1]));
    ck.ck("linestring.lines", "lines()", lines_ok, String::new, String::new);
    let rl: Vec<Line<T>> = ls0.rev_lines().collect();
    let rev_ok = rl.len() == seq.len() - 1 && rl.iter().enumerate().all(|(k, l)| ceq_bits(&l.start, &seq[seq.len() - 1 - k]) && ceq_bits(&l.end, &seq[seq.len() - 2 - k]));
    ck.ck("linestring.lines", "rev_lines()", rev_ok, String::new, String::new);

    // --- macros (fixed arity)
    {
        let (c0, c1, c2, d0, d1, d2) = (cs[3], cs[4], cs[5], cs[6], cs[7], cs[8]);
        let closed = |r: &[Coord<T>]| {
            let mut v = r.to_vec();
            sclose(&mut v);
            v
        };
        let pfp = |ext: &[Coord<T>], ints: &[Vec<Coord<T>>]| {
            let mut o = vec![4, 3, ext.len() as u64];
            for c in ext {
                c.fp(&mut o)
            }
            o.push(ints.len() as u64);
            for r in ints {
                o.push(3);
                o.push(r.len() as u64);
                for c in r {
                    c.fp(&mut o)
                }
            }
            o
        };
        let e = closed(&[c0, c1, c2]);
        let i = closed(&[d0, d1, d2]);
        let i2 = closed(&[d2, d1, d0, d2]);
        ck.same("macro.polygon", "polygon![c,c,c]", &polygon![c0, c1, c2], &pfp(&e, &[]));
        ck.same("macro.polygon", "polygon![(x:,y:),..]", &polygon![(x: c0.x, y: c0.y), (x: c1.x, y: c1.y), (x: c2.x, y: c2.y)], &pfp(&e, &[]));
        ck.same("macro.polygon", "polygon!(exterior,interiors)", &polygon!(exterior: [c0, c1, c2], interiors: [[d0, d1, d2], [d2, d1, d0, d2]]), &pfp(&e, &[i.clone(), i2.clone()]));
        ck.same("macro.polygon", "polygon!(exterior(x:,y:),interiors(x:,y:))", &polygon!(exterior: [(x: c0.x, y: c0.y), (x: c1.x, y: c1.y), (x: c2.x, y: c2.y)], interiors: [[(x: d0.x, y: d0.y), (x: d1.x, y: d1.y), (x: d2.x, y: d2.y)]]), &pfp(&e, &[i.clone()]));
        let empty: Polygon<T> = polygon![];
        ck.same("macro.polygon", "polygon![]", &empty, &pfp(&[], &[]));
        let lfp = |r: &[Coord<T>]| {
            let mut o = vec![3, r.len() as u64];
            for c in r {
                c.fp(&mut o)
            }
            o
        };
        ck.same("macro.line_string", "line_string![c,c,c]", &line_string![c0, c1, c2], &lfp(&[c0, c1, c2]));
        ck.same("macro.line_string", "line_string![(x:,y:),..]", &line_string![(x: c0.x, y: c0.y), (x: c1.x, y: c1.y)], &lfp(&[c0, c1]));
        let el: LineString<T> = line_string![];
        ck.same("macro.line_string", "line_string![]", &el, &lfp(&[]));
    }

    // --- build one geometry of each type from the coordinate list
    let parts: Vec<usize> = case.parts.iter().map(|&p| 1 + p % 4).collect();
    let chunks: Vec<Vec<Coord<T>>> = {
        let mut v = vec![];
        let mut at = 0;
        for &p in &parts {
            if at >= cs.len() {
                break;
            }
            let e = (at + p).min(cs.len());
            v.push(cs[at..e].to_vec());
            at = e;
        }
        v
    };
    let lss: Vec<LineString<T>> = chunks.iter().map(|c| LineString::new(c.clone())).collect();
    let polys: Vec<Polygon<T>> = chunks.iter().enumerate().map(|(k, c)| Polygon::new(LineString::new(c.clone()), if k % 2 == 0 { vec![] } else { vec![LineString::new(chunks[k - 1].clone())] })).collect();
    let pts: Vec<Point<T>> = cs.iter().map(|&c| Point::from(c)).collect();
    let rect = Rect::new(a, b);
    let tri = Triangle(a, b, c);
    let poly0 = Polygon::new(LineString::new(cs[..m].to_vec()), vec![LineString::new(cs[m..].to_vec())]);

    roundtrip::<T, _>(&mut ck, &pts[0], "Point");
    roundtrip::<T, _>(&mut ck, &line, "Line");
    roundtrip::<T, _>(&mut ck, &ls0, "LineString");
    roundtrip::<T, _>(&mut ck, &poly0, "Polygon");
    roundtrip::<T, _>(&mut ck, &MultiPoint::new(pts.clone()), "MultiPoint");
    roundtrip::<T, _>(&mut ck, &MultiLineString::new(lss.clone()), "MultiLineString");
    roundtrip::<T, _>(&mut ck, &MultiPolygon::new(polys.clone()), "MultiPolygon");
    roundtrip::<T, _>(&mut ck, &rect, "Rect");
    roundtrip::<T, _>(&mut ck, &tri, "Triangle");
    // GeometryCollection has no From/TryFrom with Geometry on this tree (disabled): variant constructor only
    let members: Vec<Geometry<T>> = vec![pts[0].into(), line.into(), ls0.clone().into(), poly0.clone().into(), rect.into(), tri.into(), Geometry::GeometryCollection(GeometryCollection::new_from(vec![pts[1].into()])), MultiPoint::new(pts.clone()).into()];
    let members_fp = seq_fp(&members);
    let gc = GeometryCollection::new_from(members.clone());
    let gcg = Geometry::GeometryCollection(gc.clone());
    let gc_fp = fpv(&gc);
    ck.ck("geometry.from", "GeometryCollection", fpv(&gcg) == gc_fp, String::new, String::new);
    tf_all(&mut ck, &gcg, &gc_fp);

    // --- member order of the multi types and the collection
    let pts_fp = seq_fp(&pts);
    ck.ck("multi.order", "MultiPoint::new.0", seq_fp(&MultiPoint::new(pts.clone()).0) == pts_fp, String::new, String::new);
    ck.ck("multi.order", "MultiPoint::from(Vec<Point>)", seq_fp(&MultiPoint::from(pts.clone()).0) == pts_fp, String::new, String::new);
    ck.ck("multi.order", "MultiPoint::from(Vec<(T,T)>)", seq_fp(&MultiPoint::from(cs.iter().map(|c| (c.x, c.y)).collect::<Vec<_>>()).0) == pts_fp, String::new, String::new);
    ck.ck("multi.order", "MultiPoint::from(Vec<Coord>)", seq_fp(&MultiPoint::from(cs.clone()).0) == pts_fp, String::new, String::new);
    ck.ck("multi.order", "MultiPoint: FromIterator", seq_fp(&pts.iter().cloned().collect::<MultiPoint<T>>().0) == pts_fp, String::new, String::new);
    ck.ck("multi.order", "MultiPoint::from(single)", seq_fp(&MultiPoint::from(pts[0]).0) == seq_fp(&pts[..1]), String::new, String::new);
    let mp = MultiPoint::new(pts.clone());
    ck.ck("multi.order", "MultiPoint::into_iter", seq_fp(&mp.clone().into_iter().collect::<Vec<_>>()) == pts_fp, String::new, String::new);
    ck.ck("multi.order", "MultiPoint::iter", seq_fp_ref(mp.iter()) == pts_fp && seq_fp_ref((&mp).into_iter()) == pts_fp && mp.len() == pts.len() && !mp.is_empty(), String::new, String::new);
    let mut mpm = mp.clone();
    ck.ck("multi.order", "MultiPoint::iter_mut", seq_fp(&mpm.iter_mut().map(|p| *p).collect::<Vec<_>>()) == pts_fp && seq_fp(&(&mut mpm).into_iter().map(|p| *p).collect::<Vec<_>>()) == pts_fp, String::new, String::new);

    let lss_fp = seq_fp(&lss);
    let mls = MultiLineString::new(lss.clone());
    ck.ck("multi.order", "MultiLineString::new.0", seq_fp(&mls.0) == lss_fp, String::new, String::new);
    ck.ck("multi.order", "MultiLineString: FromIterator<Vec<(T,T)>>", seq_fp(&chunks.iter().map(|c| c.iter().map(|c| (c.x, c.y)).collect::<Vec<_>>()).collect::<MultiLineString<T>>().0) == lss_fp, String::new, String::new);
    ck.ck("multi.order", "MultiLineString: FromIterator<LineString>", seq_fp(&lss.iter().cloned().collect::<MultiLineString<T>>().0) == lss_fp, String::new, String::new);
    ck.ck("multi.order", "MultiLineString::from(single)", seq_fp(&MultiLineString::from(lss[0].clone()).0) == seq_fp(&lss[..1]), String::new, String::new);
    ck.ck("multi.order", "MultiLineString::into_iter", seq_fp(&mls.clone().into_iter().collect::<Vec<_>>()) == lss_fp, String::new, String::new);
    ck.ck("multi.order", "MultiLineString::iter", seq_fp_ref(mls.iter()) == lss_fp && seq_fp_ref((&mls).into_iter()) == lss_fp, String::new, String::new);
    let mut mlsm = mls.clone();
    ck.ck("multi.order", "MultiLineString::iter_mut", seq_fp(&mlsm.iter_mut().map(|p| p.clone()).collect::<Vec<_>>()) == lss_fp && seq_fp(&(&mut mlsm).into_iter().map(|p| p.clone()).collect::<Vec<_>>()) == lss_fp, String::new, String::new);

    let polys_fp = seq_fp(&polys);
    let mpoly = MultiPolygon::new(polys.clone());
    ck.ck("multi.order", "MultiPolygon::new.0", seq_fp(&mpoly.0) == polys_fp, String::new, String::new);
    ck.ck("multi.order", "MultiPolygon::from(Vec<Polygon>)", seq_fp(&MultiPolygon::from(polys.clone()).0) == polys_fp, String::new, String::new);
    ck.ck("multi.order", "MultiPolygon: FromIterator", seq_fp(&polys.iter().cloned().collect::<MultiPolygon<T>>().0) == polys_fp, String::new, String::new);
    ck.ck("multi.order", "MultiPolygon::from(single)", seq_fp(&MultiPolygon::from(polys[0].clone()).0) == seq_fp(&polys[..1]), String::new, String::new);
    ck.ck("multi.order", "MultiPolygon::into_iter", seq_fp(&mpoly.clone().into_iter().collect::<Vec<_>>()) == polys_fp, String::new, String::new);
    ck.ck("multi.order", "MultiPolygon::iter", seq_fp_ref(mpoly.iter()) == polys_fp && seq_fp_ref((&mpoly).into_iter()) == polys_fp, String::new, String::new);
    let mut mpolym = mpoly.clone();
    ck.ck("multi.order", "MultiPolygon::iter_mut", seq_fp(&mpolym.iter_mut().map(|p| p.clone()).collect::<Vec<_>>()) == polys_fp && seq_fp(&(&mut mpolym).into_iter().map(|p| p.clone()).collect::<Vec<_>>()) == polys_fp, String::new, String::new);
    // Into<Polygon> members: rectangles and triangles become their polygons, in order
    let rects = vec![Rect::new(cs[0], cs[1]), Rect::new(cs[2], cs[3]), Rect::new(cs[4], cs[5])];
    let tris = vec![Triangle(cs[0], cs[1], cs[2]), Triangle(cs[3], cs[4], cs[5])];
    ck.ck("multi.order", "MultiPolygon::from(Vec<Rect>)", seq_fp(&MultiPolygon::from(rects.clone()).0) == seq_fp(&rects.iter().map(|&r| Polygon::from(r)).collect::<Vec<_>>()), String::new, String::new);
    ck.ck("multi.order", "MultiPolygon::from(Vec<Triangle>)", seq_fp(&MultiPolygon::from(tris.clone()).0) == seq_fp(&tris.iter().map(|&r| Polygon::from(r)).collect::<Vec<_>>()), String::new, String::new);

    ck.ck("multi.order", "GeometryCollection::new_from.0", seq_fp(&gc.0) == members_fp && gc.len() == members.len() && !gc.is_empty(), String::new, String::new);
    ck.ck("multi.order", "GeometryCollection::from(Vec<Geometry>)", seq_fp(&GeometryCollection::from(members.clone()).0) == members_fp, String::new, String::new);
    ck.ck("multi.order", "GeometryCollection: FromIterator", seq_fp(&members.iter().cloned().collect::<GeometryCollection<T>>().0) == members_fp, String::new, String::new);
    ck.ck("multi.order", "GeometryCollection::into_iter", seq_fp(&gc.clone().into_iter().collect::<Vec<_>>()) == members_fp, String::new, String::new);
    ck.ck("multi.order", "GeometryCollection::iter", seq_fp_ref(gc.iter()) == members_fp && seq_fp_ref((&gc).into_iter()) == members_fp, String::new, String::new);
    ck.ck("multi.order", "GeometryCollection::index", (0..members.len()).all(|k| fpv(&gc[k]) == fpv(&members[k])), String::new, String::new);
    let mut gcm = gc.clone();
    ck.ck("multi.order", "GeometryCollection::iter_mut", seq_fp(&gcm.iter_mut().map(|p| p.clone()).collect::<Vec<_>>()) == members_fp && seq_fp(&(&mut gcm).into_iter().map(|p| p.clone()).collect::<Vec<_>>()) == members_fp, String::new, String::new);
    ck.ck("multi.order", "GeometryCollection::from(Vec<Polygon>)", seq_fp(&GeometryCollection::from(polys.clone()).0) == seq_fp(&polys.iter().cloned().map(Geometry::Polygon).collect::<Vec<_>>()), String::new, String::new);
    let _ = st;
}

/// `LineString::close` on every ring of length <= 6 over three coordinates (two of them share x with
/// the first, one shares y): closed afterwards, idempotent, empty stays empty, nothing else changes
fn run_lsclose<T: Num>(sh: &mut Shard, st: &mut Stats, only: Option<&[C]>, verbose: bool) {
    let alpha: [C; 3] = [[0.0, 0.0], [0.0, 1.0], [1.0, 0.0]];
    let mut rings: Vec<Vec<C>> = vec![];
    match only {
        Some(r) => rings.push(r.to_vec()),
        None => {
            for len in 0..=6u32 {
                for code in 0..3u32.pow(len) {
                    let mut x = code;
                    rings.push((0..len).map(|_| { let d = x % 3; x /= 3; alpha[d as usize] }).collect());
                }
            }
        }
    }
    for r in &rings {
        let mut ls: LineString<T> = mk_ls(r, 0);
        let mut want: Vec<Coord<T>> = sring(r);
        sclose(&mut want);
        ls.close();
        let once = ls.clone();
        ls.close();
        sh.eval(3);
        st.bump("lsclose_exhaustive_ring");
        let closed_own = match (once.0.first(), once.0.last()) { (Some(f), Some(l)) => ceq_val(f, l), _ => true };
        let fail = if !ring_same(&once, &want) {
            Some(("ls.close.contents", rtext(&want), rtext(&once.0)))
        } else if !closed_own || !once.is_closed() {
            Some(("ls.closed", "closed".to_string(), format!("{} is_closed()={}", rtext(&once.0), once.is_closed())))
        } else if !ring_same(&ls, &want) {
            Some(("ls.close.idempotent", rtext(&want), rtext(&ls.0)))
        } else {
            None
        };
        if verbose {
            println!("close({}) -> {} ; again -> {}", rtext_c(r), rtext(&once.0), rtext(&ls.0));
        }
        if let Some((check, e, g)) = fail {
            viol(sh, &format!("{check}|LineString::close|-"), || json!({"property": "C18", "kind": "lsclose", "num": T::NAME, "check": check, "ring": rj(r), "ring_text": rtext_c(r), "expected": e, "got": g}));
        }
    }
}

// ---------------------------------------------------------------------------------------------
// workload: exhaustive part
// ---------------------------------------------------------------------------------------------
const SQ: [C; 4] = [[0.0, 0.0], [4.0, 0.0], [4.0, 4.0], [0.0, 4.0]];
const H1: [C; 3] = [[1.0, 1.0], [2.0, 1.0], [1.0, 2.0]];
const H2: [C; 4] = [[2.0, 2.0], [3.0, 2.0], [3.0, 3.0], [2.0, 2.0]];
/// the coordinate written by the reduced alphabet: same x as the first corner of SQ and of nothing else
const EC: C = [0.0, 1.0];

fn exh_inits() -> Vec<(Vec<C>, Vec<Vec<C>>)> {
    vec![(vec![], vec![]), (SQ.to_vec(), vec![]), (SQ.to_vec(), vec![H1.to_vec(), H2.to_vec()])]
}
/// reduced alphabet for the exhaustive enumeration (one bare Polygon<f64>)
fn reduced_alphabet() -> Vec<Op> {
    let mut a: Vec<Op> = vec![];
    let edits: [(u8, usize, usize); 9] = [(E_PUSH, 0, 0), (E_POP, 0, 0), (E_CLEAR, 0, 0), (E_REPF, 0, 0), (E_REPL, 0, 0), (E_SWAP, 0, 1), (E_TRUNC, 2, 0), (E_INSF, 0, 0), (E_NOOP, 0, 0)];
    let open3: Vec<C> = vec![[1.0, 3.0], [2.0, 3.0], [1.0, 2.5]];
    let closed4: Vec<C> = vec![[3.0, 1.0], [3.5, 1.0], [3.0, 1.5], [3.0, 1.0]];
    let base = Op { c: EC, ..Op::default() };
    for &(ek, i, j) in &edits {
        a.push(Op { k: K_EXT, ek, i, j, ..base.clone() });
    }
    for &(ek, i, j) in &edits {
        for exit in [X_OK, X_AFTER] {
            a.push(Op { k: K_TRYEXT, ek, i, j, exit, ..base.clone() });
        }
    }
    a.push(Op { k: K_TRYEXT, ek: E_PUSH, exit: X_BEFORE, ..base.clone() });
    for &(ek, i, j) in &edits {
        // the edit's indices live in i/j; ring 0 is addressed (i mod n with i = 0 or 2 -> ring 0 of 1 or 2 rings)
        a.push(Op { k: K_INTS, sk: S_RING, ek, i: if ek == E_TRUNC { 2 } else { 0 }, j, ..base.clone() });
        let _ = i;
    }
    a.push(Op { k: K_INTS, sk: S_SWAP, i: 0, j: 1, ..base.clone() });
    a.push(Op { k: K_INTS, sk: S_REPLACE, i: 1, ring: open3.clone(), ..base.clone() });
    a.push(Op { k: K_INTS, sk: S_ALL, ek: E_PUSH, ..base.clone() });
    a.push(Op { k: K_INTS, sk: S_REVERSE, ..base.clone() });
    for ek in [E_PUSH, E_POP, E_REPF, E_CLEAR] {
        for exit in [X_OK, X_AFTER] {
            a.push(Op { k: K_TRYINTS, sk: S_RING, ek, i: 0, exit, ..base.clone() });
        }
    }
    a.push(Op { k: K_TRYINTS, sk: S_RING, ek: E_PUSH, exit: X_BEFORE, ..base.clone() });
    a.push(Op { k: K_TRYINTS, sk: S_REPLACE, i: 0, ring: open3.clone(), exit: X_AFTER, ..base.clone() });
    for ring in [open3.clone(), closed4.clone(), vec![], vec![[1.0, 1.0]], vec![[1.0, 1.0], [2.0, 2.0]]] {
        a.push(Op { k: K_PUSH, ring, form: 1, ..base.clone() });
    }
    for (ring, rings) in [(SQ[..3].to_vec(), vec![]), (vec![], vec![]), (SQ[..3].to_vec(), vec![open3.clone()]), (vec![], vec![open3.clone()])] {
        a.push(Op { k: K_NEW, ring, rings, ..base.clone() });
    }
    a.push(Op { k: K_REBUILD, sk: T_NONE, ..base.clone() });
    a.push(Op { k: K_REBUILD, sk: T_EXT, ek: E_POP, ..base.clone() });
    a.push(Op { k: K_REBUILD, sk: T_REMOVE, i: 0, ..base.clone() });
    a.push(Op { k: K_REBUILD, sk: T_PUSHRING, ring: open3, ..base.clone() });
    a
}
struct ExhPlan {
    alpha: Vec<Op>,
    inits: Vec<(Vec<C>, Vec<Vec<C>>)>,
    lmax: u32,
    per_init: u64,  // sum over L = 1..=3 of n^L
    extra_l4: u64,  // n^4 histories on the last init (thorough)
    poly_total: u64,
    rect_lmax: u32,
    rect_per_first: u64,
    rect_total: u64,
}
const RECT_GRID: [f64; 3] = [0.0, 1.0, 2.0];
fn rect_alphabet() -> Vec<ROp> {
    let mut a = vec![];
    for k in [R_SETMIN, R_SETMAX] {
        for x in RECT_GRID {
            for y in RECT_GRID {
                a.push(ROp { k, a: [x, y], b: [0.0, 0.0] });
            }
        }
    }
    a.push(ROp { k: R_NEW, a: [2.0, 0.0], b: [0.0, 2.0] });
    a.push(ROp { k: R_NEW, a: [1.0, 1.0], b: [1.0, 1.0] });
    a.push(ROp { k: R_TRYNEW, a: [2.0, 2.0], b: [0.0, 1.0] });
    a.push(ROp { k: R_TRYNEW, a: [0.0, 1.0], b: [2.0, 1.0] });
    a
}
fn exh_plan(tier: &str) -> ExhPlan {
    let alpha = reduced_alphabet();
    let n = alpha.len() as u64;
    let inits = exh_inits();
    let per_init = n + n * n + n * n * n;
    let extra_l4 = if tier == "thorough" { n * n * n * n * inits.len() as u64 } else { 0 };
    let ra = rect_alphabet().len() as u64;
    let rect_lmax = if tier == "thorough" { 3 } else { 2 };
    let rect_per_first: u64 = (0..=rect_lmax).map(|l| ra.pow(l)).sum();
    ExhPlan { poly_total: per_init * inits.len() as u64 + extra_l4, lmax: if extra_l4 > 0 { 4 } else { 3 }, alpha, inits, per_init, extra_l4, rect_lmax, rect_per_first, rect_total: 81 * rect_per_first }
}
fn exh_poly(plan: &ExhPlan, e: u64) -> PolyHist {
    let n = plan.alpha.len() as u64;
    let base_total = plan.per_init * plan.inits.len() as u64;
    let (init, len, mut code) = if e >= base_total {
        let n4 = n * n * n * n;
        (((e - base_total) / n4) as usize, 4u32, (e - base_total) % n4)
    } else {
        let init = (e / plan.per_init) as usize;
        let mut rem = e % plan.per_init;
        let mut len = 1u32;
        loop {
            let block = n.pow(len);
            if rem < block {
                break;
            }
            rem -= block;
            len += 1;
        }
        (init, len, rem)
    };
    let mut ops = Vec::with_capacity(len as usize);
    for _ in 0..len {
        ops.push(plan.alpha[(code % n) as usize].clone());
        code /= n;
    }
    PolyHist { num: 0, host: 0, init: vec![plan.inits[init].clone()], ls: vec![], ops, origin: "exhaustive", observe_only: false }
}
fn exh_rect(plan: &ExhPlan, ra: &[ROp], e: u64) -> RectHist {
    let first = e / plan.rect_per_first;
    let mut rem = e % plan.rect_per_first;
    let g = |d: u64| RECT_GRID[d as usize];
    let mut ops = vec![ROp { k: R_NEW, a: [g(first % 3), g(first / 3 % 3)], b: [g(first / 9 % 3), g(first / 27 % 3)] }];
    let n = ra.len() as u64;
    let mut len = 0u32;
    loop {
        let block = n.pow(len);
        if rem < block {
            break;
        }
        rem -= block;
        len += 1;
    }
    for _ in 0..len {
        ops.push(ra[(rem % n) as usize]);
        rem /= n;
    }
    RectHist { num: if e % 2 == 0 { 0 } else { 2 }, via_geom: false, ops, origin: "exhaustive" }
}
fn gcd(a: u64, b: u64) -> u64 {
    if b == 0 {
        a
    } else {
        gcd(b, a % b)
    }
}
/// bijection of [0,total): spreads every shard's arithmetic progression over all symbols and lengths
/// (without it shard s would only ever see first symbols congruent to s modulo gcd(nshards, alphabet))
fn scramble(j: u64, total: u64) -> u64 {
    let mut p = 1_000_003u64;
    while gcd(p, total) != 1 {
        p += 2;
    }
    ((j as u128 * p as u128) % total as u128) as u64
}
/// shard s owns the block [s*B, (s+1)*B) of scrambled indices, B = ceil(total / nshards)
fn block(total: u64, nshards: u64) -> u64 {
    (total + nshards - 1) / nshards
}
fn share(total: u64, shard: u64, nshards: u64) -> u64 {
    let b = block(total, nshards);
    (total.min((shard + 1) * b)).saturating_sub(shard * b)
}

// ---------------------------------------------------------------------------------------------
// workload: random part
// ---------------------------------------------------------------------------------------------
fn gen_pool(r: &mut Rng, num: u8) -> Vec<C> {
    let n = r.range(3, 6) as usize;
    let special_f: [f64; 10] = [0.5, -2.5, 0.1, 1e15 + 1.0, 9007199254740992.0, -1e300, 1e300, 5e-324, 1.0 + f64::EPSILON, 123456.789];
    let special_i: [f64; 4] = [1073741824.0, -1073741824.0, 2147483647.0, -2147483648.0];
    let style = r.below(10);
    let mut pool: Vec<C> = (0..n)
        .map(|_| {
            let mut v = [r.range(0, 4) as f64, r.range(0, 4) as f64];
            if style >= 7 {
                for t in 0..2 {
                    if r.chance(1, 2) {
                        v[t] = if num == 0 { *r.pick(&special_f) } else { *r.pick(&special_i) };
                    } else if r.chance(1, 3) {
                        v[t] = r.range(-3, 6) as f64;
                    }
                }
            }
            v
        })
        .collect();
    // coordinates that agree in exactly one component with pool[0] (a close() that compares one component only must be seen)
    if r.chance(1, 2) {
        let p0 = pool[0];
        pool.push([p0[0], p0[1] + 1.0]);
        pool.push([p0[0] + 1.0, p0[1]]);
    }
    pool
}
fn gen_ring(r: &mut Rng, pool: &[C]) -> Vec<C> {
    let len = *r.pick(&[0usize, 1, 2, 3, 3, 3, 4, 4, 5, 6]);
    let mut v: Vec<C> = if len > 0 && r.chance(1, 12) { vec![*r.pick(pool); len] } else { (0..len).map(|_| *r.pick(pool)).collect() };
    if len > 0 && r.chance(2, 5) {
        v.push(v[0]);
    }
    v
}
fn gen_edit(r: &mut Rng, pool: &[C], op: &mut Op) {
    op.ek = *r.pick(&[E_PUSH, E_PUSH, E_PUSH, E_PUSH, E_POP, E_POP, E_POP, E_CLEAR, E_REPF, E_REPF, E_REPF, E_REPL, E_REPL, E_REPL, E_SWAP, E_SWAP, E_TRUNC, E_TRUNC, E_INSF, E_INSF, E_NOOP, E_REMOVE, E_REMOVE, E_REVERSE, E_PUSHFIRST, E_ROTATE]);
    op.i = r.below(8) as usize;
    op.j = r.below(8) as usize;
    op.c = *r.pick(pool);
}
fn gen_exit(r: &mut Rng, no_err_after: bool) -> u8 {
    let x = r.below(10);
    if no_err_after {
        if x < 6 {
            X_OK
        } else {
            X_BEFORE
        }
    } else if x < 4 {
        X_OK
    } else if x < 6 {
        X_BEFORE
    } else {
        X_AFTER
    }
}
fn gen_op(r: &mut Rng, pool: &[C], nobj: usize, no_err_after: bool) -> Op {
    let mut op = Op { obj: r.below(nobj as u64) as u8, acc: r.below(6) as u8, c: *r.pick(pool), ..Op::default() };
    let w = r.below(54);
    op.k = match w {
        0..=1 => K_NEW,
        2..=9 => K_EXT,
        10..=17 => K_TRYEXT,
        18..=25 => K_INTS,
        26..=33 => K_TRYINTS,
        34..=38 => K_PUSH,
        39..=41 => K_REBUILD,
        42 => K_CLONETO,
        43 => K_SWAPOBJ,
        44 => K_LSSET,
        45..=46 => K_LSEDIT,
        47..=48 => K_LSCLOSE,
        49 => K_LSFROMEXT,
        50 => K_LSFROMINT,
        51 => K_LSPUSHINT,
        52 => K_LSASEXT,
        _ => K_CONVERT,
    };
    match op.k {
        K_NEW => {
            op.ring = gen_ring(r, pool);
            op.rings = (0..r.below(4)).map(|_| gen_ring(r, pool)).collect();
            op.form = r.below(5) as u8;
        }
        K_EXT | K_LSEDIT => gen_edit(r, pool, &mut op),
        K_TRYEXT => {
            gen_edit(r, pool, &mut op);
            op.exit = gen_exit(r, no_err_after);
        }
        K_INTS | K_TRYINTS => {
            gen_edit(r, pool, &mut op);
            op.sk = *r.pick(&[S_RING, S_RING, S_RING, S_RING, S_RING, S_SWAP, S_REPLACE, S_REPLACE, S_REVERSE, S_ALL, S_ALL, S_NOOP, S_TAKE, S_ROTATE]);
            if op.sk == S_REPLACE {
                op.ring = gen_ring(r, pool);
            }
            if op.k == K_TRYINTS {
                op.exit = gen_exit(r, no_err_after);
            }
        }
        K_PUSH => {
            op.ring = if r.chance(1, 4) { vec![*r.pick(pool), *r.pick(pool)] } else { gen_ring(r, pool) };
            op.form = if op.ring.len() == 2 { r.below(7) as u8 } else { r.below(5) as u8 };
        }
        K_REBUILD => {
            gen_edit(r, pool, &mut op);
            op.sk = r.below(NT as u64) as u8;
            if op.sk == T_PUSHRING {
                op.ring = gen_ring(r, pool);
            }
        }
        K_LSSET => {
            op.ring = gen_ring(r, pool);
            op.form = r.below(5) as u8;
        }
        K_LSFROMINT => op.i = r.below(4) as usize,
        K_CONVERT => op.sk = r.below(5) as u8,
        _ => {}
    }
    op
}
fn gen_len(r: &mut Rng) -> usize {
    match r.below(10) {
        0..=4 => r.range(2, 8) as usize,
        5..=7 => r.range(9, 24) as usize,
        _ => r.range(25, 64) as usize,
    }
}
fn gen_poly_hist(r: &mut Rng) -> PolyHist {
    let num = if r.chance(3, 10) { 1 } else { 0 };
    let mut pool = gen_pool(r, num);
    let observe_only = num == 0 && r.chance(1, 40);
    if observe_only {
        let k = r.below(pool.len() as u64) as usize;
        pool[k][r.below(2) as usize] = f64::NAN;
    }
    let host = r.below(5) as u8;
    let nobj = match host {
        0 | 2 => 1 + r.below(2) as usize,
        _ => 2,
    };
    let init = (0..nobj).map(|_| (gen_ring(r, &pool), (0..r.below(3)).map(|_| gen_ring(r, &pool)).collect())).collect();
    let ls = gen_ring(r, &pool);
    let no_err_after = r.chance(1, 3);
    let len = gen_len(r);
    let ops = (0..len).map(|_| gen_op(r, &pool, nobj, no_err_after)).collect();
    PolyHist { num, host, init, ls, ops, origin: "random", observe_only }
}
fn gen_rect_hist(r: &mut Rng) -> RectHist {
    let num = if r.chance(3, 10) { 2 } else { 0 };
    let special: [f64; 8] = [-0.0, 0.5, -2.5, 1e300, -1e300, 5e-324, 1e15 + 1.0, f64::NAN];
    let rich = num == 0 && r.chance(3, 10);
    let nan_ok = rich && r.chance(1, 4);
    let mut val = |r: &mut Rng| -> f64 {
        if rich && r.chance(1, 3) {
            let v = *r.pick(&special);
            if v.is_nan() && !nan_ok {
                0.0
            } else {
                v
            }
        } else {
            r.range(-2, 5) as f64
        }
    };
    let len = gen_len(r);
    let mut ops = vec![];
    // generator-side tracking of the bounds only steers how often a set_* is valid; the verdicts are the runner's
    let (mut lo, mut hi) = ([0.0f64; 2], [0.0f64; 2]);
    for i in 0..len {
        let k = if i == 0 { *r.pick(&[R_NEW, R_NEW, R_TRYNEW]) } else { *r.pick(&[R_NEW, R_TRYNEW, R_SETMIN, R_SETMIN, R_SETMIN, R_SETMIN, R_SETMAX, R_SETMAX, R_SETMAX, R_SETMAX]) };
        if k <= R_TRYNEW {
            let a = [val(r), val(r)];
            let b = if r.chance(1, 6) { a } else { [val(r), val(r)] };
            let b = if r.chance(1, 8) { [a[0], b[1]] } else if r.chance(1, 8) { [b[0], a[1]] } else { b };
            lo = [a[0].min(b[0]), a[1].min(b[1])];
            hi = [a[0].max(b[0]), a[1].max(b[1])];
            ops.push(ROp { k, a, b });
        } else {
            let mut c = [val(r), val(r)];
            if r.chance(4, 5) {
                // make it valid: clamp against the opposite bound
                for t in 0..2 {
                    if k == R_SETMIN && !(c[t] <= hi[t]) {
                        c[t] = if r.chance(1, 3) { hi[t] } else { hi[t] - r.range(0, 2) as f64 };
                    }
                    if k == R_SETMAX && !(lo[t] <= c[t]) {
                        c[t] = if r.chance(1, 3) { lo[t] } else { lo[t] + r.range(0, 2) as f64 };
                    }
                }
                if k == R_SETMIN {
                    lo = c
                } else {
                    hi = c
                }
            }
            ops.push(ROp { k, a: c, b: [0.0, 0.0] });
        }
    }
    RectHist { num, via_geom: r.chance(1, 3), ops, origin: "random" }
}
fn gen_conv(r: &mut Rng) -> ConvCase {
    let num = if r.chance(3, 10) { 1 } else { 0 };
    let pool = gen_pool(r, num);
    let n = r.range(12, 20) as usize;
    let coords: Vec<C> = (0..n).map(|_| if r.chance(1, 5) { [r.range(-1000, 1000) as f64, r.range(-1000, 1000) as f64] } else { *r.pick(&pool) }).collect();
    let parts = (0..r.range(3, 8)).map(|_| r.below(16) as usize).collect();
    ConvCase { num, coords, parts, origin: "random" }
}

fn dispatch_poly(sh: &mut Shard, st: &mut Stats, h: &PolyHist, verbose: bool) {
    match h.num {
        1 => run_poly::<i32>(sh, st, h, verbose),
        _ => run_poly::<f64>(sh, st, h, verbose),
    }
}
fn dispatch_rect(sh: &mut Shard, st: &mut Stats, h: &RectHist, verbose: bool) {
    match h.num {
        2 => run_rect::<i64>(sh, st, h, verbose),
        _ => run_rect::<f64>(sh, st, h, verbose),
    }
}
fn dispatch_conv(sh: &mut Shard, st: &mut Stats, c: &ConvCase, verbose: bool) {
    let res = call(|| match c.num {
        1 => run_conv::<i32>(sh, st, c, verbose),
        _ => run_conv::<f64>(sh, st, c, verbose),
    });
    if let Err(e) = res {
        let msg = format!("panic: {e} at {}", last_panic_loc());
        viol(sh, "panic|conversions|-", || {
            let mut d = c.json();
            let m = d.as_object_mut().unwrap();
            m.insert("property".into(), json!("C18"));
            m.insert("check".into(), json!("panic"));
            m.insert("expected".into(), json!("conversions return"));
            m.insert("got".into(), json!(msg));
            d
        });
    }
}

/// Rings of realistic length (n open coordinates, n = 17..1024), held in a Vec that is exactly full (collect, clone) or
/// has spare capacity (push), go through every closing entry point: Polygon::new (exterior and interior), exterior_mut,
/// try_exterior_mut (Ok / Err after assigning), interiors_mut, interiors_push, LineString::close. Every ring must come
/// out closed: the n coordinates as given followed by a copy of the first.
fn run_long_rings(sh: &mut Shard, st: &mut Stats, n: usize, spare: bool, verbose: bool) {
    let open: Vec<Coord<f64>> = (0..n).map(|i| { let a = i as f64; Coord { x: (a * 0.37).cos() * (10.0 + (i % 7) as f64), y: (a * 0.37).sin() * (10.0 + (i % 5) as f64) + a } }).collect();
    let mk = |spare: bool| -> Vec<Coord<f64>> {
        if spare {
            let mut v = Vec::with_capacity(n + 7);
            for c in &open {
                v.push(*c);
            }
            v
        } else {
            open.clone()
        }
    };
    let mut want = open.clone();
    want.push(open[0]);
    let small = || LineString::new(vec![Coord { x: 0.0, y: 0.0 }, Coord { x: 1.0, y: 0.0 }, Coord { x: 0.0, y: 1.0 }, Coord { x: 0.0, y: 0.0 }]);
    let sites: Vec<(&str, Result<LineString<f64>, String>)> = vec![
        ("Polygon::new(exterior)", call(|| Polygon::new(LineString::new(mk(spare)), vec![]).exterior().clone())),
        ("Polygon::new(interior)", call(|| Polygon::new(small(), vec![LineString::new(mk(spare))]).interiors()[0].clone())),
        ("exterior_mut", call(|| { let mut p = Polygon::new(small(), vec![]); p.exterior_mut(|e| *e = LineString::new(mk(spare))); p.exterior().clone() })),
        ("try_exterior_mut:Ok", call(|| { let mut p = Polygon::new(small(), vec![]); let _ = p.try_exterior_mut(|e| -> Result<(), ()> { *e = LineString::new(mk(spare)); Ok(()) }); p.exterior().clone() })),
        ("try_exterior_mut:Err", call(|| { let mut p = Polygon::new(small(), vec![]); let _ = p.try_exterior_mut(|e| -> Result<(), ()> { *e = LineString::new(mk(spare)); Err(()) }); p.exterior().clone() })),
        ("interiors_mut", call(|| { let mut p = Polygon::new(small(), vec![small()]); p.interiors_mut(|rs| rs[0] = LineString::new(mk(spare))); p.interiors()[0].clone() })),
        ("interiors_push", call(|| { let mut p = Polygon::new(small(), vec![]); p.interiors_push(LineString::new(mk(spare))); p.interiors()[0].clone() })),
        ("interiors_push(Vec<Coord>)", call(|| { let mut p = Polygon::new(small(), vec![]); p.interiors_push(mk(spare)); p.interiors()[0].clone() })),
        ("LineString::close", call(|| { let mut l = LineString::new(mk(spare)); l.close(); l })),
        ("clone().close", call(|| { let l = LineString::new(mk(true)); let mut c = l.clone(); c.close(); c })),
    ];
    for (site, got) in sites {
        sh.eval(1);
        st.bump("long_ring:closing_entry_point");
        let bad = match &got {
            Ok(l) => l.0.len() != want.len() || !l.0.iter().zip(want.iter()).all(|(a, b)| a.x.to_bits() == b.x.to_bits() && a.y.to_bits() == b.y.to_bits()),
            Err(_) => true,
        };
        if verbose {
            println!("{site}: n = {n}, spare capacity {spare}: {}", if bad { "NOT the closed ring" } else { "closed" });
        }
        if bad {
            let gotd = match &got {
                Ok(l) => format!("{} coordinates, first {:?} last {:?}", l.0.len(), l.0.first(), l.0.last()),
                Err(e) => format!("panic: {e}"),
            };
            viol(sh, &format!("ring.closed.long|{site}|-"), || json!({"property": "C18", "check": "ring.closed.long", "kind": "long_rings", "n": n, "spare": spare, "site": site, "expected": format!("{} coordinates: the {} given and a copy of the first", n + 1, n), "got": gotd}));
        }
    }
}

pub fn run(ctx: &Ctx, sh: &mut Shard) {
    let plan = exh_plan(&ctx.tier);
    let ra = rect_alphabet();
    let n_pe = share(plan.poly_total, ctx.shard, ctx.nshards);
    let n_re = share(plan.rect_total, ctx.shard, ctx.nshards);
    let mut st = Stats::default();
    let mut last_k = 0u64;
    for k in ctx.case_indices() {
        if sh.cases >= ctx.budget {
            break;
        }
        ctx.mark_case(k);
        sh.cases += 1;
        last_k = k;
        if k < n_pe {
            let h = exh_poly(&plan, scramble(ctx.shard * block(plan.poly_total, ctx.nshards) + k, plan.poly_total));
            st.bump("case:exhaustive_polygon_history");
            dispatch_poly(sh, &mut st, &h, false);
        } else if k < n_pe + n_re {
            let h = exh_rect(&plan, &ra, scramble(ctx.shard * block(plan.rect_total, ctx.nshards) + (k - n_pe), plan.rect_total));
            st.bump("case:exhaustive_rect_history");
            dispatch_rect(sh, &mut st, &h, false);
        } else if k == n_pe + n_re {
            st.bump("case:exhaustive_LineString::close");
            run_lsclose::<f64>(sh, &mut st, None, false);
            run_lsclose::<i32>(sh, &mut st, None, false);
        } else {
            let mut r = Rng::derive(ctx.seed, ctx.shard, k);
            if k % 500 == 3 {
                st.bump("case:long_rings");
                let n = crate::gen::long_count(&mut r);
                run_long_rings(sh, &mut st, n, r.chance(1, 3), false);
                continue;
            }
            match r.below(20) {
                0..=10 => {
                    st.bump("case:random_polygon_history");
                    dispatch_poly(sh, &mut st, &gen_poly_hist(&mut r), false)
                }
                11..=14 => {
                    st.bump("case:random_rect_history");
                    dispatch_rect(sh, &mut st, &gen_rect_hist(&mut r), false)
                }
                _ => {
                    st.bump("case:random_conversion_case");
                    dispatch_conv(sh, &mut st, &gen_conv(&mut r), false)
                }
            }
        }
    }
    st.flush(sh);
    let done = ctx.only.is_none() && last_k >= n_pe + n_re;
    sh.notes.insert(
        "exhaustive".into(),
        json!({
            "polygon": {"alphabet_size": plan.alpha.len(), "initial_states": plan.inits.len(), "max_length": plan.lmax,
                         "histories_total_all_shards": plan.poly_total, "histories_this_shard": n_pe,
                         "note": if plan.extra_l4 > 0 { "lengths 1..4 on every initial state (the length-4 histories are counted in classes, their digests are not added to distinct_nontrivial to keep the digest files small)" } else { "lengths 1..3 on every initial state" }},
            "rect": {"first_call": "Rect::new over all 81 corner pairs of the grid {0,1,2}^2", "alphabet_size": ra.len(), "max_following_calls": plan.rect_lmax,
                      "histories_total_all_shards": plan.rect_total, "histories_this_shard": n_re},
            "linestring_close": "all 1093 rings of length <= 6 over {(0,0),(0,1),(1,0)}, f64 and i32, every shard",
            "completed_in_this_shard": done,
        }),
    );
    if !done && ctx.only.is_none() {
        sh.inconclusive("budget smaller than this shard's share of the exhaustive enumeration");
    }
}

pub fn replay(v: &Value, sh: &mut Shard) {
    let mut st = Stats::default();
    match v["kind"].as_str().unwrap_or("") {
        "poly" => {
            let h = PolyHist::from_json(v);
            dispatch_poly(sh, &mut st, &h, true)
        }
        "rect" => {
            let h = RectHist::from_json(v);
            dispatch_rect(sh, &mut st, &h, true)
        }
        "conv" => {
            let c = ConvCase::from_json(v);
            println!("coordinates: {}", rtext_c(&c.coords));
            dispatch_conv(sh, &mut st, &c, true)
        }
        "lsclose" => {
            let ring = rparse(&v["ring"]);
            if v["num"].as_str() == Some("i32") {
                run_lsclose::<i32>(sh, &mut st, Some(&ring), true)
            } else {
                run_lsclose::<f64>(sh, &mut st, Some(&ring), true)
            }
        }
        "long_rings" => run_long_rings(sh, &mut st, v["n"].as_u64().unwrap_or(300) as usize, v["spare"].as_bool().unwrap_or(false), true),
        k => {
            eprintln!("C18 replay: unknown kind {k:?}");
            std::process::exit(2);
        }
    }
}
