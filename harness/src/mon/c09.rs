//! C09 — Simplification keeps a vertex subsequence within the tolerance.
//!
//! Observed API: `Simplify::simplify`, `SimplifyIdx::simplify_idx`, `SimplifyVw::simplify_vw`,
//! `SimplifyVwIdx::simplify_vw_idx`, `SimplifyVwPreserve::simplify_vw_preserve` on LineString,
//! MultiLineString, Polygon and MultiPolygon (the idx variants exist for LineString only).
//!
//! The oracle judges POSTCONDITIONS of the observed result (no re-implementation of RDP / VW):
//! every quantity (point–segment distance, triangle area) is recomputed from the integer lattice
//! preimage of the input in i128 and compared with the f64 tolerance handed to geo.
//!
//! Lattice: x = (ox + i)·2^sh. Coordinate differences of lattice points are exact in f64, so geo's
//! point–segment distance works on exact small integers times 2^sh; its triangle area
//! (`Triangle::unsigned_area`) multiplies the *absolute* coordinates, which is exact only when
//! |ox+i|, |oy+j| < 2^25 (the "exact regime" below).
use crate::gen::gen_polygon;
use crate::ig::*;
use crate::q::{pi, seg_x, SegX};
use crate::report::*;
use crate::rng::{Fnv, Rng};
use geo::{Coord, Geometry, Simplify, SimplifyIdx, SimplifyVw, SimplifyVwIdx, SimplifyVwPreserve};
use serde_json::{json, Value};

/// unit roundoff of f64
const U: f64 = 1.1102230246251565e-16; // 2^-53

/// RDP distance allowance, relative: a dropped vertex farther than eps·(1 + K_DIST·u) violates.
/// Derivation (lattice input, |Δ| < 2^22 so that products/sums of differences are exact integers):
/// geo computes d̃ = |fl(cross/d2)|·hypot(dx,dy) (1 division rounding, hypot ≤ 1 ulp = 2u, 1 product
/// rounding) or hypot(px,py) (≤ 2u) ⇒ d̃ = d(1+δ), |δ| ≤ 4u; the region tests r ≤ 0, r ≥ 1 are exact
/// (exact integer numerator, d2 < 2^53). The harness value fl(sqrt(fl(N)/D)) has |δ'| ≤ 2u.
/// geo culls when d̃ ≤ eps ⇒ harness sees at most eps·(1+6u+…). Bound 8u, safety ×16 ⇒ 128u.
const K_DIST: f64 = 128.0;
/// VW area allowance outside the exact regime, absolute: K_AREA·u·Mx·My with Mx, My the largest
/// absolute coordinates of the triangle. Derivation: twice the area is the sum of three determinants
/// x_a·y_b − y_a·x_b of *unshifted* coordinates: 6 products (≤ u·M each), 3 subtractions (≤ 2u·M each,
/// |det| ≤ 2M), 2 additions (≤ 4u·M, 6u·M) ⇒ ≤ 22u·M for the sum, 11u·M for the area. Safety ×6 ⇒ 64.
const K_AREA: f64 = 64.0;
/// What a translation-invariant (shifted) area formula would be allowed: 16u relative to eps.
const K_AREA_TIGHT: f64 = 16.0;
/// exact regime bound for absolute lattice coordinates (products < 2^50, sums of six < 2^53)
const EXACT_ABS: i64 = 1 << 25;

#[derive(Clone, Copy, PartialEq, Debug)]
enum Fam {
    Rdp,
    Vw,
    Vwp,
}
impl Fam {
    fn name(self) -> &'static str {
        match self {
            Fam::Rdp => "rdp",
            Fam::Vw => "vw",
            Fam::Vwp => "vwp",
        }
    }
    fn op(self) -> &'static str {
        match self {
            Fam::Rdp => "simplify",
            Fam::Vw => "simplify_vw",
            Fam::Vwp => "simplify_vw_preserve",
        }
    }
}

// ------------------------------------------------------------------------------------------------
// exact geometry on the integer preimage (written from the definitions, nothing shared with geo)

/// squared distance from p to the closed segment ab as an exact fraction (num, den)
fn d2_seg(p: IP, a: IP, b: IP) -> (i128, i128) {
    let (dx, dy) = ((b.0 - a.0) as i128, (b.1 - a.1) as i128);
    let (px, py) = ((p.0 - a.0) as i128, (p.1 - a.1) as i128);
    let l2 = dx * dx + dy * dy;
    if l2 == 0 {
        return (px * px + py * py, 1);
    }
    let t = px * dx + py * dy;
    if t <= 0 {
        return (px * px + py * py, 1);
    }
    if t >= l2 {
        let (qx, qy) = ((p.0 - b.0) as i128, (p.1 - b.1) as i128);
        return (qx * qx + qy * qy, 1);
    }
    let c = dx * py - dy * px;
    (c * c, l2)
}
/// distance in lattice units, relative error ≤ 2u (N ≤ 2^90 converted with one rounding, D < 2^53 exact)
#[inline]
fn dist_lat(p: IP, a: IP, b: IP) -> f64 {
    let (n, d) = d2_seg(p, a, b);
    ((n as f64) / (d as f64)).sqrt()
}
/// twice the unsigned triangle area, exact
#[inline]
fn area2(a: IP, b: IP, c: IP) -> i128 {
    orient_i(a, b, c).abs()
}
#[inline]
fn same(a: Coord<f64>, b: Coord<f64>) -> bool {
    a.x.to_bits() == b.x.to_bits() && a.y.to_bits() == b.y.to_bits()
}
fn step(x: f64, ulps: i64) -> f64 {
    if !(x.is_finite() && x > 0.0) {
        return x;
    }
    let b = x.to_bits() as i64 + ulps;
    if b <= 0 {
        return 0.0;
    }
    let y = f64::from_bits(b as u64);
    if y.is_finite() {
        y
    } else {
        x
    }
}

// ------------------------------------------------------------------------------------------------
// flattening of inputs and outputs into parts (line strings / rings)

struct Flat {
    parts: Vec<Vec<IP>>,
    /// rings per polygon (polygonal) or [number of members] (lineal)
    shape: Vec<usize>,
    ring: bool,
    /// polygon index of every part (0 for lineal)
    poly_of: Vec<usize>,
}
fn flatten(ig: &IG) -> Option<Flat> {
    Some(match ig {
        IG::LineString(v) => Flat { parts: vec![v.clone()], shape: vec![1], ring: false, poly_of: vec![0] },
        IG::MultiLineString(ms) => Flat { parts: ms.clone(), shape: vec![ms.len()], ring: false, poly_of: vec![0; ms.len()] },
        IG::Polygon(rs) => Flat { parts: rs.clone(), shape: vec![rs.len()], ring: true, poly_of: vec![0; rs.len()] },
        IG::MultiPolygon(ps) => {
            let mut parts = vec![];
            let mut poly_of = vec![];
            for (i, p) in ps.iter().enumerate() {
                for r in p {
                    parts.push(r.clone());
                    poly_of.push(i);
                }
            }
            Flat { parts, shape: ps.iter().map(|p| p.len()).collect(), ring: true, poly_of }
        }
        _ => return None,
    })
}
fn flat_out(g: &Geometry<f64>) -> (Vec<Vec<Coord<f64>>>, Vec<usize>) {
    match g {
        Geometry::LineString(l) => (vec![l.0.clone()], vec![1]),
        Geometry::MultiLineString(m) => (m.0.iter().map(|l| l.0.clone()).collect(), vec![m.0.len()]),
        Geometry::Polygon(p) => {
            let mut v = vec![p.exterior().0.clone()];
            v.extend(p.interiors().iter().map(|l| l.0.clone()));
            let n = v.len();
            (v, vec![n])
        }
        Geometry::MultiPolygon(mp) => {
            let mut v = vec![];
            let mut shape = vec![];
            for p in &mp.0 {
                v.push(p.exterior().0.clone());
                v.extend(p.interiors().iter().map(|l| l.0.clone()));
                shape.push(1 + p.interiors().len());
            }
            (v, shape)
        }
        _ => (vec![], vec![]),
    }
}
fn apply(f: Fam, g: &Geometry<f64>, e: f64) -> Geometry<f64> {
    match g {
        Geometry::LineString(x) => Geometry::LineString(match f {
            Fam::Rdp => x.simplify(e),
            Fam::Vw => x.simplify_vw(e),
            Fam::Vwp => x.simplify_vw_preserve(e),
        }),
        Geometry::MultiLineString(x) => Geometry::MultiLineString(match f {
            Fam::Rdp => x.simplify(e),
            Fam::Vw => x.simplify_vw(e),
            Fam::Vwp => x.simplify_vw_preserve(e),
        }),
        Geometry::Polygon(x) => Geometry::Polygon(match f {
            Fam::Rdp => x.simplify(e),
            Fam::Vw => x.simplify_vw(e),
            Fam::Vwp => x.simplify_vw_preserve(e),
        }),
        Geometry::MultiPolygon(x) => Geometry::MultiPolygon(match f {
            Fam::Rdp => x.simplify(e),
            Fam::Vw => x.simplify_vw(e),
            Fam::Vwp => x.simplify_vw_preserve(e),
        }),
        _ => unreachable!(),
    }
}

// ------------------------------------------------------------------------------------------------
// context of one (geometry, eps) evaluation

struct Cx<'a> {
    ig: &'a IG,
    lat: &'a Lat,
    eps: f64,
    site: &'static str,
    verbose: bool,
    total: usize,
    scale: f64,
}
impl<'a> Cx<'a> {
    fn detail(&self, check: &str, op: &str, part: usize, expected: String, got: String, extra: Value) -> Value {
        let dbg = if self.total <= 120 { format!("{:?}", self.ig.to_geo(self.lat)) } else { format!("({} coordinates)", self.total) };
        json!({"property": "C09", "check": check, "op": op, "part": part, "g": self.ig.json(), "lat": self.lat.json(),
               "eps": hexf(self.eps), "eps_dec": format!("{:e}", self.eps), "expected": expected, "got": got, "extra": extra, "g_geo": dbg})
    }
    fn fail(&self, sh: &mut Shard, check: &str, op: &str, part: usize, expected: String, got: String, extra: Value) {
        if self.verbose {
            println!("  VIOLATION {check} ({op}, part {part}): expected {expected}; got {got}; {extra}");
        }
        sh.violation(&format!("{check}|{}|-", self.site), self.detail(check, op, part, expected, got, extra));
    }
}

#[derive(PartialEq, Clone, Copy)]
enum EC {
    Identity,
    Observe,
    Pos,
}
fn eclass(e: f64) -> EC {
    if e.is_nan() || e == f64::INFINITY {
        EC::Observe
    } else if e <= 0.0 {
        EC::Identity
    } else {
        EC::Pos
    }
}

/// greedy embedding of `out` into `inf` with first→0 and last→n−1 (complete for existence)
fn embed(inf: &[Coord<f64>], out: &[Coord<f64>]) -> Result<Vec<usize>, String> {
    let (n, m) = (inf.len(), out.len());
    if n == 0 {
        return if m == 0 { Ok(vec![]) } else { Err(format!("empty input produced {m} coordinates")) };
    }
    if n == 1 {
        return if m == 1 && same(out[0], inf[0]) { Ok(vec![0]) } else { Err(format!("1-vertex input produced {m} coordinates {:?}", out)) };
    }
    if m < 2 {
        return Err(format!("{n}-vertex input produced {m} coordinates (first and last must be kept)"));
    }
    if !same(out[0], inf[0]) {
        return Err(format!("first vertex not kept: {:?}", out[0]));
    }
    if !same(out[m - 1], inf[n - 1]) {
        return Err(format!("last vertex not kept: {:?}", out[m - 1]));
    }
    let mut emb = Vec::with_capacity(m);
    emb.push(0);
    let mut i = 1;
    for j in 1..m - 1 {
        while i < n - 1 && !same(inf[i], out[j]) {
            i += 1;
        }
        if i >= n - 1 {
            return Err(format!("output coordinate #{j} {:?} does not occur (in order) among the interior input vertices", out[j]));
        }
        emb.push(i);
        i += 1;
    }
    emb.push(n - 1);
    Ok(emb)
}

/// worst dropped vertex under an embedding: (k, i, j, d_geo) with the largest d/eps; plus calibration
fn rdp_eps_scan(pts: &[IP], emb: &[usize], eps: f64, scale: f64, sh: &mut Shard, calib: bool) -> Option<(usize, usize, usize, f64)> {
    let lim = eps * (1.0 + K_DIST * U);
    let mut worst: Option<(usize, usize, usize, f64)> = None;
    let mut n_eval = 0u64;
    for w in emb.windows(2) {
        let (i, j) = (w[0], w[1]);
        for k in i + 1..j {
            n_eval += 1;
            let d = dist_lat(pts[k], pts[i], pts[j]) * scale;
            if d > eps {
                if d > lim {
                    if worst.map_or(true, |x| d > x.3) {
                        worst = Some((k, i, j, d));
                    }
                } else if calib {
                    sh.maximum("rdp.eps.excess_over_u", (d / eps - 1.0) / U);
                }
            }
        }
    }
    sh.eval(n_eval);
    worst
}
/// is there ANY embedding (strictly increasing, ends pinned, equal coordinates) under which every
/// dropped vertex is within eps·(1+K·u) of its replacing segment?  Needed only with repeated coordinates.
fn rdp_eps_dp(pts: &[IP], o: &[IP], eps: f64, scale: f64) -> Option<bool> {
    let (n, m) = (pts.len(), o.len());
    let lim = eps * (1.0 + K_DIST * U);
    let mut cur = vec![false; n];
    if pts[0] != o[0] {
        return Some(false);
    }
    cur[0] = true;
    let mut work = 0u64;
    for j in 0..m - 1 {
        let (a, b) = (o[j], o[j + 1]);
        let mut next = vec![false; n];
        let mut any = false;
        // a scan started at i runs to the first vertex farther than the limit from a–b; a start inside an already
        // scanned stretch would stop at the same place and mark a subset, so it is skipped
        let mut scanned_to = 0usize;
        for i in 0..n {
            if !cur[i] || i < scanned_to {
                continue;
            }
            let mut k = i + 1;
            while k < n {
                if pts[k] == b {
                    next[k] = true;
                    any = true;
                }
                work += 1;
                if dist_lat(pts[k], a, b) * scale > lim {
                    break;
                }
                k += 1;
            }
            scanned_to = k;
            if work > 20_000_000 {
                return None;
            }
        }
        if !any {
            return Some(false);
        }
        cur = next;
    }
    Some(cur[n - 1])
}

struct Feat {
    dup: bool,
    collinear: bool,
    backtrack: bool,
}
fn features(pts: &[IP]) -> Feat {
    let mut f = Feat { dup: false, collinear: false, backtrack: false };
    if pts.len() <= 64 {
        let mut s: Vec<IP> = pts.to_vec();
        if s.len() >= 2 && s[0] == s[s.len() - 1] {
            s.pop();
        }
        s.sort();
        f.dup = s.windows(2).any(|w| w[0] == w[1]);
    } else {
        f.dup = pts.windows(2).any(|w| w[0] == w[1]);
    }
    for w in pts.windows(3) {
        if orient_i(w[0], w[1], w[2]) == 0 {
            f.collinear = true;
            let dot = (w[1].0 - w[0].0) as i128 * (w[2].0 - w[1].0) as i128 + (w[1].1 - w[0].1) as i128 * (w[2].1 - w[1].1) as i128;
            if dot < 0 {
                f.backtrack = true;
            }
        }
    }
    f
}
/// strictly convex chain that is the graph of a function (x or y strictly monotone, all turns strictly the same way)
fn convex_chain(pts: &[IP]) -> bool {
    let n = pts.len();
    if n < 4 {
        return false;
    }
    let mono = |f: &dyn Fn(&IP) -> i64| pts.windows(2).all(|w| f(&w[0]) < f(&w[1])) || pts.windows(2).all(|w| f(&w[0]) > f(&w[1]));
    if !(mono(&|p| p.0) || mono(&|p| p.1)) {
        return false;
    }
    let s = orient_i(pts[0], pts[1], pts[2]).signum();
    s != 0 && pts.windows(3).all(|w| orient_i(w[0], w[1], w[2]).signum() == s)
}
/// closed ring whose vertices are in strictly convex position (simple, all turns strictly the same way)
fn convex_ring(pts: &[IP]) -> bool {
    let n = pts.len();
    if n < 5 || n > 40 || pts[0] != pts[n - 1] {
        return false;
    }
    let m = n - 1;
    let s = orient_i(pts[0], pts[1], pts[2]).signum();
    if s == 0 {
        return false;
    }
    for i in 0..m {
        if orient_i(pts[i], pts[(i + 1) % m], pts[(i + 2) % m]).signum() != s {
            return false;
        }
    }
    simple_ring(pts)
}

fn abs_max(lat: &Lat, pts: &[IP]) -> (i64, i64) {
    let mut mx = 0i64;
    let mut my = 0i64;
    for p in pts {
        mx = mx.max((lat.ox + p.0).abs());
        my = my.max((lat.oy + p.1).abs());
    }
    (mx, my)
}

// ------------------------------------------------------------------------------------------------
// judging one part of one result

#[allow(clippy::too_many_arguments)]
fn judge_part(sh: &mut Shard, cx: &Cx, fam: Fam, op: &str, part: usize, pts: &[IP], inf: &[Coord<f64>], out: &[Coord<f64>], idx: Option<&[usize]>, ring: bool, lone_ring: bool) -> Option<Vec<usize>> {
    let (n, m) = (pts.len(), out.len());
    let f = fam.name();
    let ec = eclass(cx.eps);
    // ---- eps <= 0 is the identity
    if ec == EC::Identity {
        sh.eval(1);
        if m != n || !inf.iter().zip(out).all(|(a, b)| same(*a, *b)) {
            cx.fail(sh, &format!("{f}.identity"), op, part, format!("the {n} input coordinates unchanged"), format!("{m} coordinates: {:?}", &out[..m.min(12)]), json!({}));
        }
        return None;
    }
    if ec == EC::Observe {
        sh.class("observe_only:eps_nan_or_inf");
        return None;
    }
    // ---- subsequence, first and last kept
    sh.eval(1);
    let emb = match embed(inf, out) {
        Ok(e) => e,
        Err(why) => {
            // narrow signature for the 1-vertex line string defect of the pinned tree (see REPORT.md, D2)
            let chk = if n == 1 && m == 2 && same(out[0], inf[0]) && same(out[1], inf[0]) { format!("{f}.subseq.single_vertex_doubled") } else { format!("{f}.subseq") };
            cx.fail(sh, &chk, op, part, "a subsequence of the input vertices that keeps the first and the last".into(), why, json!({"n_in": n, "n_out": m}));
            return None;
        }
    };
    // the embedding used for position-dependent clauses: the reported indices when they are available and consistent
    let emb_used: Vec<usize> = match idx {
        Some(ix) if ix.len() == m && ix.iter().zip(out).all(|(&i, c)| i < n && same(inf[i], *c)) && ix.windows(2).all(|w| w[0] < w[1]) => ix.to_vec(),
        _ => emb.clone(),
    };
    // ---- rings stay closed; RDP and VW-preserve never shrink a ring with >= 4 coordinates below 4
    if ring {
        sh.eval(1);
        if m > 0 && !same(out[0], out[m - 1]) {
            cx.fail(sh, &format!("{f}.ring_closed"), op, part, "closed ring".into(), format!("first {:?} last {:?}", out[0], out[m - 1]), json!({}));
        }
        if fam != Fam::Vw && n >= 4 {
            sh.eval(1);
            if m < 4 {
                cx.fail(sh, &format!("{f}.ring_min4"), op, part, format!(">= 4 coordinates (input ring has {n})"), format!("{m} coordinates"), json!({}));
            }
            if m == 4 && n > 4 {
                sh.class(&format!("{f}:ring_reduced_to_4"));
            }
        }
    }
    if m < n {
        sh.class(&format!("{f}:dropped_some"));
        if m == 2 || (ring && m <= 4) {
            sh.class(&format!("{f}:dropped_to_minimum"));
        }
    } else {
        sh.class(&format!("{f}:dropped_none"));
    }
    let eps = cx.eps;
    let scale = cx.scale;
    match fam {
        Fam::Rdp => {
            // ---- every dropped vertex within eps of the retained segment replacing it
            if m < n {
                if let Some((k, i, j, d)) = rdp_eps_scan(pts, &emb_used, eps, scale, sh, true) {
                    // with repeated coordinates and no reported indices another embedding may be the true one
                    let o: Vec<IP> = emb_used.iter().map(|&i| pts[i]).collect();
                    let rescued = if idx.is_none() { rdp_eps_dp(pts, &o, eps, scale) } else { Some(false) };
                    if rescued == Some(true) {
                        sh.class("rdp:eps_clause_needed_alternative_embedding");
                    } else if rescued.is_none() {
                        sh.inconclusive("rdp.eps:embedding ambiguous (repeated coordinates) and search budget exceeded");
                    } else {
                        cx.fail(sh, "rdp.eps", op, part, format!("dropped vertex within eps = {:e} (allowance {}u) of the retained segment replacing it", eps, K_DIST),
                            format!("input vertex #{k} {:?} dropped; distance to retained segment #{i}–#{j} is {:e} = eps·(1+{:e})", inf[k], d, d / eps - 1.0),
                            json!({"k": k, "i": i, "j": j, "d": d, "kept": emb_used.len()}));
                    }
                }
            }
            if n >= 3 {
                // ---- algorithm-definition clauses (RDP): top-level split / cull, every kept vertex justified
                let (a, b) = (pts[0], pts[n - 1]);
                let mut dmax = 0.0f64;
                let ds: Vec<f64> = (1..n - 1).map(|k| dist_lat(pts[k], a, b) * scale).collect();
                for &d in &ds {
                    if d > dmax {
                        dmax = d;
                    }
                }
                sh.eval(1);
                if dmax > eps * (1.0 + K_DIST * U) {
                    sh.class("rdp:top_split");
                    // one of the farthest vertices must be retained
                    let need = dmax * (1.0 - K_DIST * U);
                    let kept_far = (1..m.saturating_sub(1)).any(|j| dist_lat(pts[emb_used[j]], a, b) * scale >= need);
                    if !kept_far {
                        let kf = ds.iter().position(|&d| d == dmax).unwrap() + 1;
                        cx.fail(sh, "rdp.farthest_kept", op, part, format!("the vertex farthest from the chord first–last (#{kf}, distance {:e} > eps) is retained", dmax),
                            format!("no retained interior vertex is that far; kept positions {:?}", &emb_used[..m.min(20)]), json!({"dmax": dmax}));
                    }
                } else if dmax < eps * (1.0 - K_DIST * U) {
                    sh.class("rdp:top_cull");
                    if !ring && m != 2 {
                        cx.fail(sh, "rdp.culls", op, part, format!("only first and last kept (every interior vertex is within {:e} < eps of the chord first–last)", dmax), format!("{m} coordinates kept"), json!({"dmax": dmax}));
                    }
                } else {
                    sh.class("rdp:top_tie_zone(no verdict on split)");
                    // exact tie dmax == eps where every floating formula is exact: axis-parallel chord of power-of-two
                    // length, all interior vertices projecting strictly inside it. RDP ("if dmax > eps split, else
                    // keep only the end points") culls.
                    let (dx, dy) = (b.0 - a.0, b.1 - a.1);
                    let l = dx.abs().max(dy.abs());
                    if !ring && (dx == 0) != (dy == 0) && l.count_ones() == 1 {
                        let inside = (1..n - 1).all(|k| {
                            let t = (pts[k].0 - a.0) * dx.signum() + (pts[k].1 - a.1) * dy.signum();
                            t > 0 && t < l
                        });
                        let hmax = (1..n - 1).map(|k| if dx == 0 { (pts[k].0 - a.0).abs() } else { (pts[k].1 - a.1).abs() }).max().unwrap();
                        if inside && hmax > 0 && (hmax as f64) * scale == eps {
                            sh.class("rdp:exact_tie_dmax_eq_eps");
                            sh.eval(1);
                            if m != 2 {
                                cx.fail(sh, "rdp.tie_culls", op, part, format!("only first and last kept: the farthest interior vertex is at distance exactly eps = {:e} (exactly representable, exact in any formula) and RDP splits only when dmax > eps", eps), format!("{m} coordinates kept"), json!({"hmax": hmax}));
                            }
                        }
                    }
                }
                if !ring && m > 2 {
                    // every retained interior vertex was the farthest of some range whose end points are retained,
                    // at distance > eps: there are retained a < v < b with d(v, seg(a,b)) > eps
                    let lo = eps * (1.0 - K_DIST * U);
                    for j in 1..m - 1 {
                        let v = pts[emb_used[j]];
                        sh.eval(1);
                        if dist_lat(v, pts[emb_used[j - 1]], pts[emb_used[j + 1]]) * scale > lo {
                            continue;
                        }
                        if m > 64 {
                            sh.class("rdp:justified_not_searched(large)");
                            continue;
                        }
                        let mut ok = false;
                        'o: for a in 0..j {
                            for b in j + 1..m {
                                if dist_lat(v, pts[emb_used[a]], pts[emb_used[b]]) * scale > lo {
                                    ok = true;
                                    break 'o;
                                }
                            }
                        }
                        if ok {
                            sh.class("rdp:justified_by_wider_chord");
                        } else {
                            cx.fail(sh, "rdp.justified", op, part, format!("retained interior vertex is farther than eps from some chord between retained vertices around it"),
                                format!("vertex #{} {:?} is within eps of every such chord", emb_used[j], inf[emb_used[j]]), json!({"kept": emb_used}));
                        }
                    }
                }
            }
        }
        Fam::Vw | Fam::Vwp => {
            let (mx, my) = abs_max(cx.lat, pts);
            let exact = mx < EXACT_ABS && my < EXACT_ABS;
            let judged = match fam {
                Fam::Vw => true,
                // the topology-preserving variant promises the area rule only where no removal can ever intersect
                // anything: vertices in strictly convex position (and, for rings, above the 4-coordinate floor)
                _ => exact && ((!ring && convex_chain(pts)) || (ring && lone_ring && m > 4 && convex_ring(pts))),
            };
            if fam == Fam::Vwp && judged {
                sh.class("vwp:convex_position_area_rule_judged");
            }
            // ---- algorithm-definition clauses (VW): a vertex is only ever removed as the apex of a triangle of
            // area <= eps formed with two other vertices i < k < j (its neighbours at that time); the first removal
            // uses a triangle of consecutive vertices. Allowance outside the exact regime: K_AREA·u·Mx·My of the part.
            if n >= 3 {
                let s2 = scale * scale;
                let tol = if exact { 0.0 } else { K_AREA * U * (mx as f64) * (my as f64) * s2 };
                let amin = pts.windows(3).map(|w| area2(w[0], w[1], w[2])).min().unwrap() as f64 * 0.5 * s2;
                sh.eval(1);
                if amin > eps + tol {
                    sh.class(&format!("{f}:all_initial_triangles_above_eps"));
                    if m != n {
                        cx.fail(sh, &format!("{f}.untouched"), op, part, format!("all {n} vertices kept: the smallest triangle of consecutive vertices has area {:e} > eps = {:e}", amin, eps), format!("{m} coordinates kept"), json!({"amin": amin}));
                    }
                }
                let unique_embedding = idx.is_some() || !features(pts).dup;
                if fam == Fam::Vw && m < n && n <= 32 && unique_embedding {
                    let mut kept = vec![false; n];
                    for &i in &emb_used {
                        kept[i] = true;
                    }
                    for k in 1..n - 1 {
                        if kept[k] {
                            continue;
                        }
                        sh.eval(1);
                        let mut best = i128::MAX;
                        for i in 0..k {
                            for j in k + 1..n {
                                best = best.min(area2(pts[i], pts[k], pts[j]));
                            }
                        }
                        let b = best as f64 * 0.5 * s2;
                        if !exact && b > eps * (1.0 + K_AREA_TIGHT * U) && b <= eps + tol {
                            // dropped although no triangle it can span is small enough — inside the rounding error of
                            // the unshifted area formula only (same defect as on the survivor side)
                            cx.fail(sh, "vw.area.cancellation", op, part, format!("a dropped vertex is the apex of some triangle (i < k < j) of area <= eps = {:e} (allowance {}u·eps of a translation-invariant area formula)", eps, K_AREA_TIGHT),
                                format!("vertex #{k} {:?} was dropped but every triangle it spans with an earlier and a later vertex has exact area >= {:e} = eps·{:e}", inf[k], b, b / eps), json!({"k": k, "min_area": b, "side": "dropped"}));
                            break;
                        }
                        if b > eps + tol {
                            cx.fail(sh, "vw.dropped_justified", op, part, format!("a dropped vertex is the apex of some triangle (i < k < j) of area <= eps = {:e}", eps),
                                format!("vertex #{k} {:?} was dropped but every triangle it spans with an earlier and a later vertex has area >= {:e}", inf[k], b), json!({"k": k, "min_area": b}));
                            break;
                        }
                    }
                }
            }
            if judged && m > 2 {
                let s2 = scale * scale;
                for j in 1..m - 1 {
                    let (a, b, c) = (pts[emb_used[j - 1]], pts[emb_used[j]], pts[emb_used[j + 1]]);
                    let ar = (area2(a, b, c) as f64) * 0.5 * s2;
                    sh.eval(1);
                    if ar > eps {
                        continue;
                    }
                    let check = if fam == Fam::Vw { "vw.area" } else { "vwp.area.convex" };
                    if exact {
                        cx.fail(sh, check, op, part, format!("every remaining interior vertex spans a triangle of area > eps = {:e} with its retained neighbours (exact regime, no allowance)", eps),
                            format!("vertex #{} {:?} survives with triangle area {:e} (neighbours #{} #{})", emb_used[j], inf[emb_used[j]], ar, emb_used[j - 1], emb_used[j + 1]), json!({"area": ar, "kept": emb_used.len()}));
                        break;
                    }
                    // unshifted determinant formula: absolute error up to 11·u·Mx·My
                    let (tx, ty) = abs_max(cx.lat, &[a, b, c]);
                    let mag = tx as f64 * ty as f64 * s2;
                    let slack = eps - ar;
                    if slack > K_AREA * U * mag {
                        cx.fail(sh, check, op, part, format!("every remaining interior vertex spans a triangle of area > eps = {:e} (allowance {}·u·|x|max·|y|max = {:e})", eps, K_AREA, K_AREA * U * mag),
                            format!("vertex #{} {:?} survives with triangle area {:e}", emb_used[j], inf[emb_used[j]], ar), json!({"area": ar, "slack": slack}));
                        break;
                    }
                    sh.maximum("vw.area.slack_over_u_MxMy", slack / (U * mag));
                    if slack > K_AREA_TIGHT * U * eps {
                        // inside the rounding error of the unshifted formula, far outside that of a shifted one
                        cx.fail(sh, "vw.area.cancellation", op, part, format!("every remaining interior vertex spans a triangle of area > eps = {:e} (allowance {}u·eps of a translation-invariant area formula)", eps, K_AREA_TIGHT),
                            format!("vertex #{} {:?} survives with exact triangle area {:e} = eps·{:e}; |x|max·|y|max·u = {:e}", emb_used[j], inf[emb_used[j]], ar, ar / eps, U * mag), json!({"area": ar, "slack": slack, "u_MxMy": U * mag}));
                        break;
                    }
                }
            }
        }
    }
    Some(emb_used)
}

/// doc rule of SimplifyVwPreserve for polygons: with only 5 coordinates left a removal that would create an
/// intersection is refused and the process ends; otherwise the smallest triangle (<= eps) is removed and the
/// 4-coordinate floor stops everything else. Judged for a 5-coordinate exterior with a unique smallest triangle.
fn vwp_min_points_rule(sh: &mut Shard, cx: &Cx, part0: usize, rings: &[Vec<IP>], inf: &[Coord<f64>], out: &[Coord<f64>]) {
    let e = &rings[0];
    if e.len() != 5 || eclass(cx.eps) != EC::Pos {
        return;
    }
    let all: Vec<IP> = rings.iter().flatten().cloned().collect();
    let (mx, my) = abs_max(cx.lat, &all);
    if !(mx < EXACT_ABS && my < EXACT_ABS) {
        return;
    }
    let a2: Vec<i128> = (1..4).map(|k| area2(e[k - 1], e[k], e[k + 1])).collect();
    let kmin = (0..3).min_by_key(|&i| a2[i]).unwrap();
    if (0..3).any(|i| i != kmin && a2[i] == a2[kmin]) {
        sh.class("vwp:rule5_tie(no verdict)");
        return;
    }
    let ks = kmin + 1;
    let ar = a2[kmin] as f64 * 0.5 * cx.scale * cx.scale;
    let unchanged = |o: &[Coord<f64>]| o.len() == 5 && o.iter().zip(inf).all(|(a, b)| same(*a, *b));
    sh.eval(1);
    if ar > cx.eps {
        sh.class("vwp:rule5_all_areas_above_eps");
        if !unchanged(out) {
            cx.fail(sh, "vwp.min_points_rule", "simplify_vw_preserve", part0, "exterior unchanged (every triangle area > eps)".into(), format!("{:?}", out), json!({"min_area": ar}));
        }
        return;
    }
    let (s0, s1) = (e[ks - 1], e[ks + 1]);
    let (mut cross, mut touch) = (false, false);
    for r in rings {
        for w in r.windows(2) {
            let (c0, c1) = (w[0], w[1]);
            if c0 == s0 || c0 == s1 || c1 == s0 || c1 == s1 {
                continue;
            }
            match seg_x(pi(s0.0, s0.1), pi(s1.0, s1.1), pi(c0.0, c0.1), pi(c1.0, c1.1)) {
                SegX::None => {}
                SegX::Overlap(..) => cross = true,
                SegX::Point(p) => {
                    if p != pi(c0.0, c0.1) && p != pi(c1.0, c1.1) && p != pi(s0.0, s0.1) && p != pi(s1.0, s1.1) {
                        cross = true
                    } else {
                        touch = true
                    }
                }
            }
        }
    }
    if cross {
        sh.class("vwp:rule5_removal_would_cross");
        if !unchanged(out) {
            cx.fail(sh, "vwp.min_points_rule", "simplify_vw_preserve", part0, format!("exterior unchanged: removing vertex #{ks} (smallest triangle, area {:e} <= eps) would cross another segment and only 5 coordinates remain", ar), format!("{:?}", out), json!({"k": ks}));
        }
    } else if touch {
        sh.class("vwp:rule5_touch_only(no verdict)");
    } else {
        sh.class("vwp:rule5_removal_free");
        let ok = out.len() == 4 && (0..4).all(|j| same(out[j], inf[if j < ks { j } else { j + 1 }]));
        if !ok {
            cx.fail(sh, "vwp.min_points_rule", "simplify_vw_preserve", part0, format!("exactly vertex #{ks} removed (smallest triangle, area {:e} <= eps, removal intersects nothing), then the 4-coordinate floor stops", ar), format!("{:?}", out), json!({"k": ks}));
        }
    }
}

/// does the closed segment s0–s1 properly cross (or overlap) / merely touch any of the segments that share no end
/// point coordinate with it?
fn hits(segs: &[(IP, IP)], s0: IP, s1: IP) -> (bool, bool) {
    let (mut cross, mut touch) = (false, false);
    for &(c0, c1) in segs {
        if c0 == s0 || c0 == s1 || c1 == s0 || c1 == s1 {
            continue;
        }
        match seg_x(pi(s0.0, s0.1), pi(s1.0, s1.1), pi(c0.0, c0.1), pi(c1.0, c1.1)) {
            SegX::None => {}
            SegX::Overlap(..) => cross = true,
            SegX::Point(p) => {
                if p != pi(c0.0, c0.1) && p != pi(c1.0, c1.1) && p != pi(s0.0, s0.1) && p != pi(s1.0, s1.1) {
                    cross = true
                } else {
                    touch = true
                }
            }
        }
    }
    (cross, touch)
}
/// doc rule of SimplifyVwPreserve: "If intersections are found, the previous point (i.e. the left component of the
/// current triangle) is also removed". Judged for a 6-coordinate exterior (one above the n+1 = 5 limit) whose unique
/// smallest triangle (<= eps) is at vertex k >= 2 and whose removal properly crosses another segment: k is removed,
/// then k−1 is removed unless that removal would itself cross something (5 coordinates left ⇒ process ends);
/// afterwards the 4-coordinate floor stops everything.
fn vwp_previous_point_rule(sh: &mut Shard, cx: &Cx, part0: usize, rings: &[Vec<IP>], inf: &[Coord<f64>], out: &[Coord<f64>]) {
    let e = &rings[0];
    if e.len() != 6 || eclass(cx.eps) != EC::Pos {
        return;
    }
    let all: Vec<IP> = rings.iter().flatten().cloned().collect();
    let (mx, my) = abs_max(cx.lat, &all);
    if !(mx < EXACT_ABS && my < EXACT_ABS) {
        return;
    }
    let a2: Vec<i128> = (1..5).map(|k| area2(e[k - 1], e[k], e[k + 1])).collect();
    let kmin = (0..4).min_by_key(|&i| a2[i]).unwrap();
    if (0..4).any(|i| i != kmin && a2[i] == a2[kmin]) {
        return;
    }
    let ks = kmin + 1;
    let ar = a2[kmin] as f64 * 0.5 * cx.scale * cx.scale;
    if ar > cx.eps || ks < 2 {
        return;
    }
    let segs1: Vec<(IP, IP)> = rings.iter().flat_map(|r| r.windows(2).map(|w| (w[0], w[1]))).collect();
    let (c1, _) = hits(&segs1, e[ks - 1], e[ks + 1]);
    if !c1 {
        return;
    }
    let e1: Vec<IP> = (0..6).filter(|&i| i != ks).map(|i| e[i]).collect();
    let mut segs2: Vec<(IP, IP)> = e1.windows(2).map(|w| (w[0], w[1])).collect();
    segs2.extend(rings[1..].iter().flat_map(|r| r.windows(2).map(|w| (w[0], w[1]))));
    let (c2, t2) = hits(&segs2, e[ks - 2], e[ks + 1]);
    let is = |skip: &[usize]| -> bool {
        let keep: Vec<usize> = (0..6).filter(|i| !skip.contains(i)).collect();
        keep.len() == out.len() && keep.iter().zip(out).all(|(&i, c)| same(inf[i], *c))
    };
    sh.eval(1);
    let only_k = is(&[ks]);
    let both = is(&[ks, ks - 1]);
    let (ok, exp) = if c2 {
        sh.class("vwp:rule6_previous_point_refused(crossing at 5)");
        (only_k, format!("exterior minus vertex #{ks} only (removing the previous point #{} as well would cross a segment with 5 coordinates left)", ks - 1))
    } else if t2 {
        sh.class("vwp:rule6_touch(either)");
        (only_k || both, format!("exterior minus #{ks}, or minus #{ks} and #{}", ks - 1))
    } else {
        sh.class("vwp:rule6_previous_point_removed");
        (both, format!("exterior minus vertex #{ks} (smallest triangle, area {:e} <= eps, removal crosses a segment) and minus the previous point #{}", ar, ks - 1))
    };
    if !ok {
        cx.fail(sh, "vwp.previous_point_rule", "simplify_vw_preserve", part0, exp, format!("{:?}", out), json!({"k": ks}));
    }
}

fn check_idx(sh: &mut Shard, cx: &Cx, name: &str, op: &str, n: usize, inf: &[Coord<f64>], coords: &[Coord<f64>], idx: &[usize]) {
    let ec = eclass(cx.eps);
    if ec == EC::Observe {
        return;
    }
    sh.eval(2);
    if ec == EC::Identity {
        if idx.len() != n || idx.iter().enumerate().any(|(i, &x)| i != x) {
            // narrow signature for the eps == 0 defect of simplify_vw_idx on the pinned tree (see REPORT.md, D3)
            let name = if cx.eps == 0.0 { format!("{name}.eps_zero") } else { name.to_string() };
            cx.fail(sh, &format!("{name}.identity"), op, 0, format!("0..{n}"), format!("{:?}", &idx[..idx.len().min(20)]), json!({}));
        }
        return;
    }
    let ok_struct = if n == 0 {
        idx.is_empty()
    } else if n == 1 {
        idx == [0]
    } else {
        idx.len() >= 2 && idx[0] == 0 && idx[idx.len() - 1] == n - 1 && idx.windows(2).all(|w| w[0] < w[1])
    };
    if !ok_struct {
        let name = if n == 1 && idx == [0, 0] { format!("{name}.single_vertex_doubled") } else { name.to_string() };
        cx.fail(sh, &format!("{name}.structure"), op, 0, format!("strictly increasing positions from 0 to {}", n as i64 - 1), format!("{:?}", &idx[..idx.len().min(20)]), json!({"n": n}));
        return;
    }
    let ok_coords = idx.len() == coords.len() && idx.iter().zip(coords).all(|(&i, c)| same(inf[i], *c));
    if !ok_coords {
        cx.fail(sh, &format!("{name}.coords"), op, 0, "the coordinate-returning variant keeps exactly input[idx]".into(), format!("idx {:?} vs {} coordinates {:?}", &idx[..idx.len().min(20)], coords.len(), &coords[..coords.len().min(8)]), json!({}));
    }
}

/// all judgments for one (geometry, eps)
pub fn check_geom(sh: &mut Shard, ig: &IG, lat: &Lat, eps: f64, verbose: bool) {
    let fl = match flatten(ig) {
        Some(f) => f,
        None => return,
    };
    let g = ig.to_geo(lat);
    let total: usize = fl.parts.iter().map(|p| p.len()).sum();
    let cx = Cx { ig, lat, eps, site: ig.kind(), verbose, total, scale: lat.scale() };
    let inf: Vec<Vec<Coord<f64>>> = fl.parts.iter().map(|p| p.iter().map(|&q| lat.c(q)).collect()).collect();
    {
        let (gin, shape) = flat_out(&g);
        if shape != fl.shape || gin.len() != inf.len() || gin.iter().zip(&inf).any(|(a, b)| a.len() != b.len() || a.iter().zip(b).any(|(x, y)| !same(*x, *y))) {
            sh.inconclusive("harness:input_not_as_described(ring not closed explicitly?)");
            return;
        }
    }
    let ec = eclass(eps);
    sh.class(match ec {
        EC::Identity => "eps:<=0",
        EC::Observe => "eps:nan_or_inf(observe)",
        EC::Pos => "eps:>0",
    });
    if verbose {
        println!("eps = {:e} ({})  lattice {:?}", eps, hexf(eps), lat);
    }
    let mut outs: Vec<Option<Vec<Vec<Coord<f64>>>>> = vec![];
    for fam in [Fam::Rdp, Fam::Vw, Fam::Vwp] {
        let f = fam.name();
        let res = call(|| apply(fam, &g, eps));
        let og = match res {
            Ok(o) => o,
            Err(p) => {
                if ec == EC::Observe {
                    sh.class(&format!("observe_only:{f}.panic_on_nan_or_inf"));
                } else {
                    cx.fail(sh, &format!("{f}.panic"), fam.op(), 0, "a result".into(), format!("panic: {p}"), json!({"at": last_panic_loc()}));
                }
                outs.push(None);
                continue;
            }
        };
        let (op_parts, shape) = flat_out(&og);
        if verbose {
            println!("{}: {:?}", fam.op(), og);
        }
        sh.eval(1);
        if shape != fl.shape {
            cx.fail(sh, &format!("{f}.structure"), fam.op(), 0, format!("members/rings {:?}", fl.shape), format!("{:?}", shape), json!({}));
            outs.push(None);
            continue;
        }
        let mut idx: Option<Vec<usize>> = None;
        if let (Geometry::LineString(l), true) = (&g, fam != Fam::Vwp) {
            let (nm, opn) = if fam == Fam::Rdp { ("rdp_idx", "simplify_idx") } else { ("vw_idx", "simplify_vw_idx") };
            match call(|| if fam == Fam::Rdp { l.simplify_idx(eps) } else { l.simplify_vw_idx(eps) }) {
                Ok(ix) => {
                    if verbose {
                        println!("{opn}: {:?}", ix);
                    }
                    check_idx(sh, &cx, nm, opn, fl.parts[0].len(), &inf[0], &op_parts[0], &ix);
                    idx = Some(ix);
                }
                Err(p) => {
                    if ec != EC::Observe {
                        cx.fail(sh, &format!("{nm}.panic"), opn, 0, "indices".into(), format!("panic: {p}"), json!({"at": last_panic_loc()}));
                    }
                }
            }
        }
        let mut any_drop = false;
        let mut any_kept_interior = false;
        for (pi_, pts) in fl.parts.iter().enumerate() {
            let lone = fl.ring && fl.shape[fl.poly_of[pi_]] == 1;
            let e = judge_part(sh, &cx, fam, fam.op(), pi_, pts, &inf[pi_], &op_parts[pi_], idx.as_deref(), fl.ring, lone);
            if let Some(e) = e {
                any_drop |= e.len() < pts.len();
                any_kept_interior |= e.len() > 2;
            }
        }
        if fam == Fam::Vwp && fl.ring {
            // doc rule on 5-coordinate exteriors, per polygon
            let mut start = 0;
            for &nr in &fl.shape {
                if nr >= 1 {
                    vwp_min_points_rule(sh, &cx, start, &fl.parts[start..start + nr], &inf[start], &op_parts[start]);
                    vwp_previous_point_rule(sh, &cx, start, &fl.parts[start..start + nr], &inf[start], &op_parts[start]);
                }
                start += nr;
            }
        }
        if ec == EC::Pos && any_drop && any_kept_interior {
            let mut h = Fnv::new();
            h.str(f);
            ig.digest(&mut h);
            h.i64(lat.ox);
            h.i64(lat.oy);
            h.i64(lat.sh as i64);
            h.f64(eps);
            sh.nontrivial(h.0);
        }
        outs.push(Some(op_parts));
    }
    // observe only: did simplification introduce a self-intersection into simple linework? (no promise in the docs)
    if ec == EC::Pos && total <= 40 {
        for (pi_, pts) in fl.parts.iter().enumerate() {
            if pts.len() >= 4 && simple_linestring(pts) {
                sh.class("observe:simple_input_part");
                for (fi, f) in ["rdp", "vw", "vwp"].iter().enumerate() {
                    if let Some(o) = &outs[fi] {
                        if let Ok(e) = embed(&inf[pi_], &o[pi_]) {
                            let q: Vec<IP> = e.iter().map(|&i| pts[i]).collect();
                            if q.len() >= 2 && !simple_linestring(&q) {
                                sh.class(&format!("observe:{f}_output_part_not_simple"));
                            }
                        }
                    }
                }
            }
        }
        if let (Some(a), Some(b)) = (&outs[1], &outs[2]) {
            if a != b {
                sh.class("observe:vwp_differs_from_vw");
            }
        }
    }
    sh.sample(|| json!({"g": format!("{:?}", if total <= 40 { Some(&g) } else { None }), "n": total, "eps": eps,
        "simplify": outs[0].as_ref().map(|o| o.iter().map(|p| p.len()).collect::<Vec<_>>()),
        "simplify_vw": outs[1].as_ref().map(|o| o.iter().map(|p| p.len()).collect::<Vec<_>>()),
        "simplify_vw_preserve": outs[2].as_ref().map(|o| o.iter().map(|p| p.len()).collect::<Vec<_>>())}));
}

// ------------------------------------------------------------------------------------------------
// workload

fn clampi(x: i64, lo: i64, hi: i64) -> i64 {
    x.max(lo).min(hi)
}
/// a vertex sequence of about n vertices and the name of its stratum
fn gen_seq(r: &mut Rng, n: usize) -> (Vec<IP>, &'static str) {
    if n == 0 {
        return (vec![], "empty");
    }
    let kind = r.below(13);
    let (mut v, name): (Vec<IP>, &'static str) = match kind {
        0 | 1 => {
            // random walk on a small grid: repeats, collinear runs, back-tracking
            let g = *r.pick(&[2i64, 3, 4, 6, 10]);
            let mut p = (r.range(0, g), r.range(0, g));
            let mut v = vec![p];
            for _ in 1..n {
                p = (clampi(p.0 + r.range(-2, 2), 0, g), clampi(p.1 + r.range(-2, 2), 0, g));
                v.push(p);
            }
            (v, "walk_small_grid")
        }
        2 => {
            let g = *r.pick(&[1i64, 2, 4, 16, 256, 65536, 1 << 20]);
            ((0..n).map(|_| (r.range(0, g), r.range(0, g))).collect(), "uniform")
        }
        3 => {
            // points of one line in random (back-tracking) or monotone order, possibly one or two bumps
            let (dx, dy) = *r.pick(&[(1i64, 0i64), (0, 1), (1, 1), (2, 1), (1, 3), (3, -2), (5, 4)]);
            let t_max = *r.pick(&[3i64, 8, 40]);
            let mono = r.chance(1, 3);
            let mut ts: Vec<i64> = (0..n).map(|_| r.range(0, t_max)).collect();
            if mono {
                ts.sort();
            }
            let mut v: Vec<IP> = ts.iter().map(|&t| (100 + t * dx, 100 + t * dy)).collect();
            for _ in 0..r.below(3) {
                let i = r.below(n as u64) as usize;
                let h = r.range(-2, 2);
                v[i] = (v[i].0 - h * dy, v[i].1 + h * dx);
            }
            (v, "collinear_backtracking")
        }
        4 => {
            // zig-zag with equal amplitudes: distance ties and area ties everywhere
            let s = r.range(1, 4);
            let h = r.range(1, 5);
            let h2 = if r.chance(1, 3) { h + r.range(0, 1) } else { h };
            let mut v: Vec<IP> = (0..n as i64).map(|k| (k * s, if k % 2 == 1 { if k % 4 == 1 { h } else { h2 } } else { 0 })).collect();
            if r.chance(1, 3) {
                for p in v.iter_mut() {
                    if r.chance(1, 6) {
                        p.1 = -p.1;
                    }
                }
            }
            (v, "zigzag_ties")
        }
        5 => {
            // strictly convex chain (graph of a convex function), optionally mirrored / transposed
            let mut y = 0i64;
            let mut slope = r.range(-20, 0);
            let mut v = vec![];
            for k in 0..n as i64 {
                v.push((k, y));
                slope += r.range(1, 3);
                y += slope;
            }
            if r.chance(1, 2) {
                for p in v.iter_mut() {
                    p.1 = -p.1;
                }
            }
            if r.chance(1, 3) {
                for p in v.iter_mut() {
                    *p = (p.1, p.0);
                }
            }
            if r.chance(1, 2) {
                v.reverse();
            }
            (v, "convex_chain")
        }
        6 => {
            // spikes: out and back along the same segment
            let base = (r.range(0, 6), r.range(0, 6));
            let mut v = vec![base];
            while v.len() < n {
                let tip = (r.range(0, 6), r.range(0, 6));
                v.push(tip);
                if v.len() < n {
                    v.push(if r.chance(3, 4) { base } else { (r.range(0, 6), r.range(0, 6)) });
                }
            }
            (v, "spikes")
        }
        7 => {
            // lattice points near a circle in angular order (convex-ish arc or full turn)
            let rad = *r.pick(&[3.0f64, 5.0, 12.0, 100.0, 5000.0]);
            let turn = if r.chance(1, 2) { 1.0 } else { r.f01() * 2.0 };
            let v: Vec<IP> = (0..n)
                .map(|k| {
                    let t = turn * std::f64::consts::TAU * (k as f64) / (n.max(2) - 1) as f64;
                    ((rad * t.cos()).round() as i64 + rad as i64 + 1, (rad * t.sin()).round() as i64 + rad as i64 + 1)
                })
                .collect();
            (v, "circle_lattice")
        }
        8 => {
            // x monotone, small noise: long almost-straight lines
            let amp = *r.pick(&[0i64, 1, 2, 5, 50]);
            let mut y = 0;
            let drift = r.chance(1, 2);
            let v: Vec<IP> = (0..n as i64)
                .map(|k| {
                    if drift {
                        y += r.range(-amp, amp);
                        (k, y)
                    } else {
                        (k, r.range(-amp, amp))
                    }
                })
                .collect();
            (v, "monotone_noise")
        }
        9 => {
            // decaying spikes: the farthest vertex is always near one end (unbalanced recursion)
            let hgt = 3 * n as i64 + 7;
            let v: Vec<IP> = (0..n as i64).map(|k| (k, if k % 2 == 1 { hgt - 3 * k } else { 0 })).collect();
            (v, "decaying_spikes")
        }
        10 => {
            // staircase / rectilinear
            let mut p = (0i64, 0i64);
            let mut v = vec![p];
            for k in 1..n {
                if k % 2 == 1 {
                    p.0 += r.range(0, 3)
                } else {
                    p.1 += r.range(-1, 3)
                }
                v.push(p);
            }
            (v, "staircase")
        }
        11 if n >= 3 => {
            // axis-parallel chord of power-of-two length, interior vertices strictly above/below its interior:
            // every perpendicular distance is an integer and exact in any floating formula (exact ties d == eps)
            let l = 1i64 << r.range(1, 6);
            let h = r.range(1, 6);
            let mut v = vec![(0i64, 0i64)];
            for _ in 0..n - 2 {
                v.push((r.range(1, l - 1), r.range(-h, h)));
            }
            let i = 1 + r.below(n as u64 - 2) as usize;
            v[i].1 = if r.chance(1, 2) { h } else { -h };
            v.push((l, 0));
            if r.chance(1, 2) {
                for p in v.iter_mut() {
                    *p = (p.1, p.0);
                }
            }
            (v, "pow2_chord_exact_ties")
        }
        _ => {
            // few distinct coordinates, heavily repeated
            let pool: Vec<IP> = (0..r.range(1, 4)).map(|_| (r.range(0, 3), r.range(0, 3))).collect();
            ((0..n).map(|_| *r.pick(&pool)).collect(), "few_distinct")
        }
    };
    // shift to non-negative
    let (mnx, mny) = v.iter().fold((0i64, 0i64), |m, p| (m.0.min(p.0), m.1.min(p.1)));
    for p in v.iter_mut() {
        *p = (p.0 - mnx, p.1 - mny);
    }
    // repeated vertices
    if r.chance(1, 5) && v.len() >= 2 {
        let mut w = vec![];
        for p in &v {
            w.push(*p);
            while r.chance(1, 4) {
                w.push(*p);
            }
        }
        w.truncate(n.max(2));
        // keep the intended last vertex
        return (w, name);
    }
    (v, name)
}
fn close(mut v: Vec<IP>) -> Vec<IP> {
    if v.len() >= 2 && v[0] != v[v.len() - 1] {
        let f = v[0];
        v.push(f);
    }
    v
}
fn pick_n(r: &mut Rng, thorough: bool) -> usize {
    let x = r.below(1000);
    if x < 120 {
        r.below(4) as usize // 0..3
    } else if x < 700 {
        r.range(4, 12) as usize
    } else if x < 990 {
        r.range(13, 50) as usize
    } else if x < 997 {
        r.range(51, 300) as usize
    } else if thorough {
        // 10^3 .. 10^4
        *r.pick(&[1000usize, 2000, 5000, 10000])
    } else {
        1000
    }
}
fn gen_ring(r: &mut Rng, thorough: bool) -> (Vec<IP>, &'static str) {
    let x = r.below(100);
    if x < 35 {
        // at the size limit: 4, 5, 6 coordinates (after closing), tiny grid ⇒ degenerate shapes are common
        let k = r.range(3, 5) as usize;
        let g = *r.pick(&[1i64, 2, 3, 8]);
        let v: Vec<IP> = (0..k).map(|_| (r.range(0, g), r.range(0, g))).collect();
        let mut v = v;
        let f = v[0];
        v.push(f); // explicit closing coordinate even when v[k-1] == v[0]
        (v, "ring_size_limit")
    } else if x < 45 {
        // degenerate rings of 0..3 coordinates (as Polygon::new leaves them)
        let k = r.below(3) as usize;
        let v: Vec<IP> = (0..k).map(|_| (r.range(0, 3), r.range(0, 3))).collect();
        (close(v), "ring_tiny")
    } else if x < 65 {
        match crate::gen::simple_ring_in(r, 0, 12, 0, 12, 10) {
            Some(v) => (v, "ring_simple"),
            None => (vec![(0, 0), (4, 0), (0, 4), (0, 0)], "ring_simple"),
        }
    } else {
        let n = pick_n(r, thorough).min(if thorough { 2000 } else { 300 }).max(3);
        let (v, _) = gen_seq(r, n);
        (close(v), "ring_from_sequence")
    }
}
fn gen_lat(r: &mut Rng) -> Lat {
    if r.chance(3, 5) {
        // exact regime for the area formula
        let offs = [0i64, 0, 0, 1000, -1000, 30_000_000, -17];
        Lat { ox: *r.pick(&offs), oy: *r.pick(&offs), sh: if r.chance(1, 2) { 0 } else { r.range(-30, 30) as i32 }, shear: 0 }
    } else {
        Lat::random(r)
    }
}
pub fn gen_case(r: &mut Rng, thorough: bool) -> (IG, Lat, String) {
    let lat = gen_lat(r);
    let t = r.below(100);
    let (ig, stratum) = if t < 45 {
        let n = pick_n(r, thorough);
        let (v, name) = gen_seq(r, n);
        let v = if r.chance(1, 8) { close(v) } else { v };
        (IG::LineString(v), format!("LineString/{name}"))
    } else if t < 60 {
        let k = r.range(0, 3) as usize;
        let ms: Vec<Vec<IP>> = (0..k)
            .map(|_| {
                let n = pick_n(r, false).min(40);
                gen_seq(r, n).0
            })
            .collect();
        (IG::MultiLineString(ms), "MultiLineString".to_string())
    } else if t < 85 {
        let m = r.below(10);
        if m < 2 {
            let h = r.range(0, 2) as usize;
            let gg = *r.pick(&[6i64, 10, 16]);
            let tang = r.chance(1, 2);
            match gen_polygon(r, gg, h, tang) {
                Some(p) => (p, "Polygon/valid_with_holes".to_string()),
                None => (IG::Polygon(vec![vec![(0, 0), (4, 0), (0, 4), (0, 0)]]), "Polygon/valid_with_holes".to_string()),
            }
        } else if m < 5 {
            // 5-coordinate exterior with a small hole near a diagonal (VW-preserve minimum-points rule)
            let g = 8;
            let ne = if r.chance(1, 2) { 4 } else { 5 };
            let e: Vec<IP> = (0..ne).map(|_| (r.range(0, g), r.range(0, g))).collect();
            let mut rings = vec![close(e.clone())];
            if rings[0].len() != ne + 1 {
                rings[0] = vec![(0, 0), (8, 0), (8, 8), (0, 8), (0, 0)];
            }
            for _ in 0..r.range(0, 2) {
                let c = (r.range(1, g - 1), r.range(1, g - 1));
                let h: Vec<IP> = (0..3).map(|_| (clampi(c.0 + r.range(-2, 2), 0, g), clampi(c.1 + r.range(-2, 2), 0, g))).collect();
                let h = close(h);
                if h.len() >= 2 {
                    rings.push(h);
                }
            }
            (IG::Polygon(rings), "Polygon/quad_with_hole".to_string())
        } else {
            let (e, name) = gen_ring(r, thorough);
            let mut rings = vec![e];
            for _ in 0..r.below(3) {
                if r.chance(1, 2) {
                    rings.push(gen_ring(r, false).0);
                }
            }
            (IG::Polygon(rings), format!("Polygon/{name}"))
        }
    } else {
        let k = r.range(0, 3) as usize;
        let mut ps = vec![];
        for _ in 0..k {
            let mut rings = vec![gen_ring(r, false).0];
            if r.chance(1, 3) {
                rings.push(gen_ring(r, false).0);
            }
            ps.push(rings);
        }
        (IG::MultiPolygon(ps), "MultiPolygon".to_string())
    };
    (ig, lat, stratum)
}

/// tolerances derived from the input: vertex-to-chord distances and triangle areas that occur in it, ± a few ulps,
/// plus the general ones (0, negative, tiny, huge, larger than the geometry, NaN/inf observe-only)
pub fn gen_eps(r: &mut Rng, ig: &IG, lat: &Lat) -> Vec<f64> {
    let fl = flatten(ig).unwrap();
    let s = lat.scale();
    let big: Vec<&Vec<IP>> = fl.parts.iter().filter(|p| p.len() >= 3).collect();
    let mut out = vec![];
    let ulps = |r: &mut Rng| *r.pick(&[0i64, 0, 1, -1, 1, -1, 2, -2]);
    // extent
    let all: Vec<IP> = fl.parts.iter().flatten().cloned().collect();
    let diag = if all.is_empty() {
        1.0
    } else {
        let (x0, x1, y0, y1) = all.iter().fold((i64::MAX, i64::MIN, i64::MAX, i64::MIN), |m, p| (m.0.min(p.0), m.1.max(p.0), m.2.min(p.1), m.3.max(p.1)));
        (((x1 - x0) as f64).hypot((y1 - y0) as f64)).max(1.0)
    };
    let triple = |r: &mut Rng, p: &Vec<IP>| -> (usize, usize, usize) {
        let n = p.len();
        match r.below(4) {
            0 => {
                // top-level chord, farthest vertex
                let mut best = (1, -1.0);
                for k in 1..n - 1 {
                    let d = dist_lat(p[k], p[0], p[n - 1]);
                    if d >= best.1 {
                        best = (k, d);
                    }
                }
                (0, best.0, n - 1)
            }
            1 => (0, r.range(1, n as i64 - 2) as usize, n - 1),
            2 => {
                let k = r.range(1, n as i64 - 2) as usize;
                (k - 1, k, k + 1)
            }
            _ => {
                let k = r.range(1, n as i64 - 2) as usize;
                (r.range(0, k as i64 - 1) as usize, k, r.range(k as i64 + 1, n as i64 - 1) as usize)
            }
        }
    };
    for slot in 0..5 {
        let e = if big.is_empty() || (slot == 4 && r.chance(2, 3)) || r.chance(1, 12) {
            match r.below(16) {
                0 => 0.0,
                1 => -0.0,
                2 => -1.0 * s,
                3 => f64::NEG_INFINITY,
                4 => f64::MIN_POSITIVE,
                5 => 5e-324,
                6 => 1e-300,
                7 => 1e300,
                8 => f64::MAX,
                9 => 2.0 * diag * s,
                10 => 2.0 * diag * diag * s * s,
                11 => f64::INFINITY,
                12 => f64::NAN,
                13 => 0.5 * r.range(1, 8) as f64 * s,
                14 => 0.5 * r.range(1, 8) as f64 * s * s,
                _ => -(r.f01()) * s,
            }
        } else {
            let p = *r.pick(&big);
            let (i, k, j) = triple(r, p);
            if slot % 2 == 0 {
                let d = dist_lat(p[k], p[i], p[j]) * s;
                step(d, ulps(r))
            } else {
                let a = area2(p[i], p[k], p[j]) as f64 * 0.5 * s * s;
                step(a, ulps(r))
            }
        };
        // a derived distance or area of 0 is the identity case; nudge half of those to the smallest positive values
        let e = if e == 0.0 && r.chance(1, 2) { *r.pick(&[5e-324, f64::MIN_POSITIVE, 1e-12 * s * s]) } else { e };
        out.push(e);
    }
    out
}

/// (case index, start time in ms since run start) of the case being executed — read by the watchdog
static CUR_CASE: std::sync::atomic::AtomicU64 = std::sync::atomic::AtomicU64::new(u64::MAX);
static CUR_START_MS: std::sync::atomic::AtomicU64 = std::sync::atomic::AtomicU64::new(0);
/// A broken heap loop in the code under test does not return and grows without bound. The watchdog turns that
/// into a prompt abort (non-zero exit ⇒ the driver reports the shard as crashed and re-runs it with case tracing).
fn start_watchdog(seed: u64, shard: u64) {
    use std::sync::atomic::Ordering::Relaxed;
    std::thread::spawn(move || loop {
        std::thread::sleep(std::time::Duration::from_millis(500));
        let k = CUR_CASE.load(Relaxed);
        if k == u64::MAX {
            continue;
        }
        // CPU time burnt since the case started (not wall-clock: a starved shard must not look like a hang)
        let running = crate::report::cpu_ms().saturating_sub(CUR_START_MS.load(Relaxed));
        let rss_mb = std::fs::read_to_string("/proc/self/statm").ok().and_then(|s| s.split_whitespace().nth(1).and_then(|x| x.parse::<u64>().ok())).map(|p| p * 4096 / (1 << 20)).unwrap_or(0);
        if CUR_CASE.load(Relaxed) == k && (running > 30_000 || rss_mb > 3_000) {
            eprintln!("C09 watchdog: case k={k} (seed {seed}, shard {shard}) has burnt {running} ms of CPU, RSS {rss_mb} MB — a simplification call does not terminate / grows without bound; aborting");
            std::process::abort();
        }
    });
}

// ------------------------------------------------------------------------------------------
// three-point lines with MIXED magnitudes: a long axis-parallel chord (length m*2^e, e up to 27) and a middle
// vertex a tiny distance off it (m'*2^e', e' down to -60). The exact distance of the middle vertex from the
// chord is |off| and its triangle has area chord*|off|/2 (one rounding): with eps a factor 2 above or below,
// "drop" and "keep" are not a matter of tolerance. Nothing absolute (an epsilon, a snap) may enter the decision.
// ------------------------------------------------------------------------------------------
pub fn check_mixed3(sh: &mut Shard, xs: [(i64, i32); 3], off: (i64, i32), vertical: bool, verbose: bool) {
    use geo::LineString;
    let f = |(m, e): (i64, i32)| m as f64 * crate::q::pow2(e);
    let (x0, x1, x2, o) = (f(xs[0]), f(xs[1]), f(xs[2]), f(off));
    if !(x0 < x1 && x1 < x2) || o == 0.0 {
        return;
    }
    let c = |x: f64, y: f64| if vertical { Coord { x: y, y: x } } else { Coord { x, y } };
    let pts = vec![c(x0, 0.0), c(x1, o), c(x2, 0.0)];
    let ls = LineString::new(pts.clone());
    let area = (x2 - x0) * o.abs() * 0.5;
    let det = |check: &str, op: &str, eps: f64, exp: &str, got: String| json!({"property": "C09", "check": check, "kind": "mixed3", "xs": xs, "off": [off.0, off.1], "vertical": vertical,
        "op": op, "eps": eps, "line": format!("{:?}", pts), "expected": exp, "got": got});
    let all: Vec<usize> = vec![0, 1, 2];
    let ends: Vec<usize> = vec![0, 2];
    let mut judge = |sh: &mut Shard, check: &str, op: &str, eps: f64, keep: bool, got: Result<Vec<usize>, String>| {
        sh.eval(1);
        let want = if keep { &all } else { &ends };
        match got {
            Ok(g) if &g == want => {}
            Ok(g) => {
                if verbose {
                    println!("{op}({eps:e}): expected {:?} got {:?}", want, g);
                }
                sh.violation(&format!("{check}|{op}|-"), det(check, op, eps, &format!("vertices {:?} kept (middle vertex is {:e} off the chord, its triangle has area {:e})", want, o.abs(), area), format!("{:?}", g)))
            }
            Err(m) => sh.violation(&format!("panic|{op}|-"), det("panic", op, eps, "no panic", m)),
        }
    };
    let pos = |out: &LineString<f64>| -> Vec<usize> { out.0.iter().filter_map(|q| pts.iter().position(|p| p.x.to_bits() == q.x.to_bits() && p.y.to_bits() == q.y.to_bits())).collect() };
    for (eps, keep) in [(o.abs() * 0.5, true), (o.abs() * 2.0, false)] {
        judge(sh, "rdp.mixed_magnitude", "simplify", eps, keep, call(|| pos(&ls.simplify(eps))));
        judge(sh, "rdp.mixed_magnitude", "simplify_idx", eps, keep, call(|| ls.simplify_idx(eps)));
    }
    for (eps, keep) in [(area * 0.5, true), (area * 2.0, false)] {
        judge(sh, "vw.mixed_magnitude", "simplify_vw", eps, keep, call(|| pos(&ls.simplify_vw(eps))));
        judge(sh, "vw.mixed_magnitude", "simplify_vw_idx", eps, keep, call(|| ls.simplify_vw_idx(eps)));
        judge(sh, "vw.mixed_magnitude", "simplify_vw_preserve", eps, keep, call(|| pos(&ls.simplify_vw_preserve(eps))));
    }
    sh.class("stratum:mixed_magnitude_3_point_line");
}

pub fn run(ctx: &Ctx, sh: &mut Shard) {
    let thorough = ctx.tier == "thorough";
    start_watchdog(ctx.seed, ctx.shard);
    sh.notes.insert("tolerances".into(), json!({
        "rdp.eps": format!("dropped vertex violates when exact distance > eps·(1+{}u); exact ties and everything inside the allowance get no verdict", K_DIST),
        "vw.area (exact regime |ox+i|,|oy+j| < 2^25)": "no allowance: area <= eps of a survivor violates (all of geo's arithmetic is exact there)",
        "vw.area (large offsets)": format!("allowance {}·u·|x|max·|y|max (rounding of the unshifted determinant formula); between {}u·eps and that allowance the signature vw.area.cancellation fires", K_AREA, K_AREA_TIGHT),
        "calibration": "maxima rdp.eps.excess_over_u and vw.area.slack_over_u_MxMy are the largest observed excursions inside the allowance, in units of u and u·Mx·My"
    }));
    sh.notes.insert("nontrivial_rule".into(), json!("(family, geometry, lattice, eps) with eps > 0 finite for which at least one vertex was dropped and at least one interior vertex was kept"));
    for k in ctx.case_indices() {
        if sh.cases >= ctx.budget {
            break;
        }
        ctx.mark_case(k);
        CUR_START_MS.store(crate::report::cpu_ms(), std::sync::atomic::Ordering::Relaxed);
        CUR_CASE.store(k, std::sync::atomic::Ordering::Relaxed);
        let mut r = Rng::derive(ctx.seed, ctx.shard, k);
        sh.cases += 1;
        if k % 32 == 7 {
            let e = r.range(0, 27) as i32;
            let mut m: Vec<i64> = (0..3).map(|_| r.range(-4096, 4096)).collect();
            m.sort();
            let off = (r.range(1, 4096) * if r.chance(1, 2) { 1 } else { -1 }, r.range(-60, -20) as i32);
            check_mixed3(sh, [(m[0], e), (m[1], e), (m[2], e)], off, r.chance(1, 2), false);
            continue;
        }
        let (ig, lat, stratum) = gen_case(&mut r, thorough);
        let eps = gen_eps(&mut r, &ig, &lat);
        // evidence of reach
        sh.class(&format!("stratum:{stratum}"));
        let fl = flatten(&ig).unwrap();
        let (mx, my) = abs_max(&lat, &fl.parts.iter().flatten().cloned().collect::<Vec<_>>());
        sh.class(if mx < EXACT_ABS && my < EXACT_ABS { "lattice:exact_area_regime" } else { "lattice:large_offset" });
        if fl.parts.is_empty() {
            sh.class("parts:none");
        }
        for p in &fl.parts {
            let n = p.len();
            sh.class(match n {
                0 => "part_size:0",
                1 => "part_size:1",
                2 => "part_size:2",
                3 => "part_size:3",
                4 => "part_size:4",
                5 => "part_size:5",
                6 => "part_size:6",
                7..=50 => "part_size:7-50",
                51..=999 => "part_size:51-999",
                _ => "part_size:>=1000",
            });
            if n <= 400 {
                let f = features(p);
                if f.dup {
                    sh.class("input:repeated_coordinates");
                }
                if f.collinear {
                    sh.class("input:collinear_triple");
                }
                if f.backtrack {
                    sh.class("input:back_tracking");
                }
            }
            if n >= 3 && p[0] == p[n - 1] {
                sh.class(if fl.ring { "input:ring" } else { "input:closed_linestring" });
            }
        }
        for e in eps {
            check_geom(sh, &ig, &lat, e, false);
        }
    }
    // no case is running any more (writing the shard result is not a simplification call)
    CUR_CASE.store(u64::MAX, std::sync::atomic::Ordering::Relaxed);
}

pub fn replay(v: &Value, sh: &mut Shard) {
    if v["kind"].as_str() == Some("mixed3") {
        let g = |x: &Value| (x[0].as_i64().unwrap(), x[1].as_i64().unwrap() as i32);
        check_mixed3(sh, [g(&v["xs"][0]), g(&v["xs"][1]), g(&v["xs"][2])], g(&v["off"]), v["vertical"].as_bool().unwrap(), true);
        return;
    }
    let ig = IG::from_json(&v["g"]).expect("g");
    let lat = Lat::from_json(&v["lat"]);
    let eps = f64::from_bits(u64::from_str_radix(v["eps"].as_str().expect("eps hex"), 16).expect("eps hex"));
    let n: usize = flatten(&ig).map(|f| f.parts.iter().map(|p| p.len()).sum()).unwrap_or(0);
    if n <= 120 {
        println!("input = {:?}", ig.to_geo(&lat));
    } else {
        println!("input with {n} coordinates");
    }
    check_geom(sh, &ig, &lat, eps, true);
}
