//! C17 — PreparedGeometry answers exactly like the plain geometry, over reuse histories.
//! Sequential model: plain `relate` on the underlying geometries (a pure function, itself judged
//! against the exact oracle by C01). Every response in a recorded history must equal the model's
//! response and the response the same request got earlier in the history.
use crate::gen::*;
use crate::ig::*;
use crate::report::*;
use crate::rng::{Fnv, Rng};
use crate::with_geom;
use geo::{Geometry, PreparedGeometry, Relate};
use serde_json::{json, Value};
use std::collections::HashMap;

use super::c01::im_string;

#[derive(Clone, Copy, Debug)]
pub struct Op {
    partner: usize, // index into pool; usize::MAX-1 => the second prepared geometry P2; usize::MAX => P itself
    p_first: bool,
    form: u8,   // 0 plain enum, 1 plain concrete, 2 prepared owned (fresh), 3 prepared borrowed (fresh), 4 prepared from concrete
    clone: bool, // use a fresh clone() of the prepared geometry for this call
}

const SELF: usize = usize::MAX;

fn run_history(sh: &mut Shard, p: &IG, pool: &[IG], ops: &[Op], lat: &Lat, verbose: bool) {
    let gp = p.to_geo(lat);
    let gpool: Vec<Geometry<f64>> = pool.iter().map(|x| x.to_geo(lat)).collect();
    // the object whose cache is reused across the whole history
    let prepared: PreparedGeometry<'static, Geometry<f64>, f64> = PreparedGeometry::from(gp.clone());
    let mut prepared_clone = prepared.clone();
    let mut earlier: HashMap<(usize, bool), String> = HashMap::new();
    let mut n_nontrivial = 0;
    for (i, op) in ops.iter().enumerate() {
        let gx: &Geometry<f64> = if op.partner == SELF { &gp } else { &gpool[op.partner] };
        let xk = if op.partner == SELF { p.kind() } else { pool[op.partner].kind() };
        // sequential model
        let model = call(|| if op.p_first { im_string(&gp.relate(gx)) } else { im_string(&gx.relate(&gp)) });
        if op.clone {
            prepared_clone = prepared.clone();
        }
        let pr: &PreparedGeometry<'static, Geometry<f64>, f64> = if op.clone { &prepared_clone } else { &prepared };
        let got = call(|| match op.form {
            0 => {
                if op.p_first {
                    im_string(&pr.relate(gx))
                } else {
                    im_string(&gx.relate(pr))
                }
            }
            1 => with_geom!(gx, y => if op.p_first { im_string(&pr.relate(y)) } else { im_string(&y.relate(pr)) }),
            // the prepared geometry against ITSELF: the very same object in both operand positions, or its clone (which
            // shares the cached index)
            2 if op.partner == SELF => {
                if op.p_first {
                    im_string(&pr.relate(pr))
                } else {
                    let c = pr.clone();
                    if i % 2 == 0 {
                        im_string(&pr.relate(&c))
                    } else {
                        im_string(&c.relate(pr))
                    }
                }
            }
            2 => {
                let px = PreparedGeometry::from(gx.clone());
                if op.p_first {
                    im_string(&pr.relate(&px))
                } else {
                    im_string(&px.relate(pr))
                }
            }
            3 => {
                let px = PreparedGeometry::from(gx);
                if op.p_first {
                    im_string(&pr.relate(&px))
                } else {
                    im_string(&px.relate(pr))
                }
            }
            _ => with_geom!(gx, y => {
                let px = PreparedGeometry::from(y);
                if op.p_first { im_string(&pr.relate(&px)) } else { im_string(&px.relate(pr)) }
            }),
        });
        sh.eval(1);
        if verbose {
            println!("call {i}: partner={} ({xk}) p_first={} form={} clone={} -> model {:?} prepared {:?}", op.partner as isize, op.p_first, op.form, op.clone, model, got);
        }
        let det = |check: &str, exp: &str, g: &str| {
            json!({"property": "C17", "check": check, "p": p.json(), "pool": pool.iter().map(|x| x.json()).collect::<Vec<_>>(), "lat": lat.json(),
                   "ops": ops.iter().map(|o| json!([if o.partner == SELF { -1 } else { o.partner as i64 }, o.p_first, o.form, o.clone])).collect::<Vec<_>>(),
                   "failed_at_call": i, "expected": exp, "got": g, "p_geo": format!("{:?}", gp), "partner_geo": format!("{:?}", gx)})
        };
        let site = format!("{}:{}:form{}", p.kind(), xk, op.form);
        match (&model, &got) {
            (Ok(m), Ok(g)) => {
                if m != g {
                    sh.violation(&format!("prepared.vs_plain|{site}|-"), det("prepared.vs_plain", m, g));
                }
                if let Some(prev) = earlier.get(&(op.partner, op.p_first)) {
                    sh.eval(1);
                    if prev != g {
                        sh.violation(&format!("prepared.repeat|{site}|-"), det("prepared.repeat", prev, g));
                    }
                    sh.class("repeated_request");
                }
                earlier.insert((op.partner, op.p_first), g.clone());
                let b = g.as_bytes();
                if b[0] != b'F' || b[1] != b'F' || b[3] != b'F' || b[4] != b'F' {
                    n_nontrivial += 1;
                }
            }
            (Ok(m), Err(e)) => sh.violation(&format!("prepared.panic|{site}|-"), det("prepared.panic", m, &format!("panic: {e} at {}", last_panic_loc()))),
            (Err(_), _) => sh.inconclusive("plain relate panicked (judged by C01)"),
        }
        sh.class(&format!("form{}:{}", op.form, if op.p_first { "P_first" } else { "P_second" }));
        if op.clone {
            sh.class("cloned_prepared");
        }
    }
    // after the whole history the prepared object still holds the geometry it was given, coordinate for coordinate
    // (the cache is derived state; no call may touch the geometry)
    sh.eval(1);
    let kept = call(|| (format!("{:?}", prepared.geometry()), format!("{:?}", prepared_clone.geometry()), format!("{:?}", prepared.clone().into_geometry())));
    let want = format!("{:?}", gp);
    match kept {
        Ok((a, b, c)) => {
            if a != want || b != want || c != want {
                let got = if a != want { a } else if b != want { b } else { c };
                sh.violation(&format!("prepared.geometry_kept|{}|-", p.kind()), json!({"property": "C17", "check": "prepared.geometry_kept", "p": p.json(), "pool": pool.iter().map(|x| x.json()).collect::<Vec<_>>(), "lat": lat.json(),
                    "ops": ops.iter().map(|o| json!([if o.partner == SELF { -1 } else { o.partner as i64 }, o.p_first, o.form, o.clone])).collect::<Vec<_>>(), "expected": want, "got": got}));
            }
        }
        Err(e) => sh.violation(&format!("prepared.geometry_kept.panic|{}|-", p.kind()), json!({"property": "C17", "check": "prepared.geometry_kept.panic", "p": p.json(), "pool": pool.iter().map(|x| x.json()).collect::<Vec<_>>(), "lat": lat.json(),
                    "ops": ops.iter().map(|o| json!([if o.partner == SELF { -1 } else { o.partner as i64 }, o.p_first, o.form, o.clone])).collect::<Vec<_>>(), "expected": "no panic", "got": e})),
    }
    sh.class(&format!("prepared:{}", p.kind()));
    if n_nontrivial >= 2 {
        let mut h = Fnv::new();
        p.digest(&mut h);
        for x in pool {
            x.digest(&mut h);
        }
        h.u64(ops.len() as u64);
        sh.nontrivial(h.0);
    }
    sh.class_n("history_len_total", ops.len() as u64);
    sh.sample(|| json!({"prepared": format!("{:?}", gp), "pool_size": pool.len(), "calls": ops.len(), "first_partner": format!("{:?}", gpool.get(0))}));
}

pub fn run(ctx: &Ctx, sh: &mut Shard) {
    for k in ctx.case_indices() {
        if sh.cases >= ctx.budget {
            break;
        }
        ctx.mark_case(k);
        let mut r = Rng::derive(ctx.seed, ctx.shard, k);
        sh.cases += 1;
        let g = *r.pick(&[3i64, 4, 4, 5, 6, 8]);
        // The sequential model is plain relate itself, so the workload need not stay inside C01's domain:
        // one history in four prepares a MIXED-dimension collection (areal + lineal + puntal members, possibly
        // far apart, possibly overlapping), and partners may be such collections too.
        let mixed = |r: &mut Rng| -> IG {
            let n = r.range(2, 4);
            IG::Collection((0..n).map(|_| { let m = gen_any(r, g); let d = if r.chance(1, 2) { 0 } else { r.range(-2 * g, 2 * g) }; m.translate(d, r.range(-g, g)) }).collect())
        };
        let p = if k % 4 == 3 { mixed(&mut r) } else { gen_any(&mut r, g) };
        // one prepared operand in five re-spelt (other type, permuted members, an EMPTY member somewhere, ...)
        let p = if k % 5 == 2 {
            let alts = respellings(&mut r, &p);
            if alts.is_empty() {
                p
            } else {
                let i = r.below(alts.len() as u64) as usize;
                sh.class(&format!("prepared:spelling:{}", alts[i].0));
                alts[i].1.clone()
            }
        } else {
            p
        };
        // one history in 25: a prepared geometry of realistic size or with a node of high degree (a deep R-tree, many
        // edge ends at one node), partners derived from it
        let large = k % 25 == 7;
        let p = if large {
            let (x, cls) = gen_large(&mut r);
            if x.valid() {
                sh.class(&format!("prepared:{cls}"));
                x
            } else {
                p
            }
        } else {
            p
        };
        let npool = r.range(2, 8) as usize;
        let pool: Vec<IG> = (0..npool)
            .map(|_| {
                if large && r.chance(2, 3) {
                    large_partner(&mut r, &p)
                } else if r.chance(1, 8) {
                    mixed(&mut r)
                } else if r.chance(1, 6) {
                    // a partner that meets P only near one of its coordinates, wherever that is
                    let q = interesting_point(&mut r, &p, g);
                    match r.below(3) {
                        0 => IG::Point(q),
                        1 => IG::LineString(vec![(q.0 - 2, q.1), (q.0 + 2, q.1)]),
                        _ => IG::Line((q.0, q.1 - 1), (q.0, q.1 + 1)),
                    }
                } else {
                    partner(&mut r, &p, g)
                }
            })
            .collect();
        if k % 4 == 3 {
            sh.class("prepared:mixed_dimension_collection");
        }
        // one history in five on the sheared lattice (long, nearly parallel edges: every envelope overlaps every other)
        let lat = if k % 5 == 0 { sh.class("lattice:sheared"); Lat::random_sheared(&mut r) } else { Lat::random(&mut r) };
        let nops = if ctx.tier == "thorough" && r.chance(1, 10) { r.range(100, 300) } else { r.range(10, 60) } as usize;
        let ops: Vec<Op> = (0..nops)
            .map(|_| Op {
                partner: if r.chance(1, 12) { SELF } else { r.below(npool as u64) as usize },
                p_first: r.chance(1, 2),
                form: r.below(5) as u8,
                clone: r.chance(1, 6),
            })
            .collect();
        run_history(sh, &p, &pool, &ops, &lat, false);
    }
}

pub fn replay(v: &Value, sh: &mut Shard) {
    let p = IG::from_json(&v["p"]).expect("p");
    let pool: Vec<IG> = v["pool"].as_array().unwrap().iter().map(|x| IG::from_json(x).unwrap()).collect();
    let lat = Lat::from_json(&v["lat"]);
    let ops: Vec<Op> = v["ops"]
        .as_array()
        .unwrap()
        .iter()
        .map(|o| Op {
            partner: if o[0].as_i64().unwrap() < 0 { SELF } else { o[0].as_u64().unwrap() as usize },
            p_first: o[1].as_bool().unwrap(),
            form: o[2].as_u64().unwrap() as u8,
            clone: o[3].as_bool().unwrap(),
        })
        .collect();
    println!("P = {:?}", p.to_geo(&lat));
    run_history(sh, &p, &pool, &ops, &lat, true);
}
