//! C02 — Intersects / Contains / Within / coordinate_position agree with the true DE-9IM matrix.
use crate::gen::*;
use crate::ig::*;
use crate::model::{self, mask_contains, mask_intersects, mask_within, mstr, transpose, Classes, Loc};
use crate::q::pi;
use crate::report::*;
use crate::rng::{Fnv, Rng};
use crate::{with_geom, with_geom_in};
use geo::coordinate_position::{CoordPos, CoordinatePosition};
use geo::{Contains, Coord, Geometry, Intersects, Point, Relate, Within};
use serde_json::{json, Value};

fn detail(check: &str, a: &IG, b: &IG, lat: &Lat, expected: &str, got: &str, extra: Value) -> Value {
    json!({"property": "C02", "check": check, "a": a.json(), "b": b.json(), "lat": lat.json(), "expected": expected, "got": got, "extra": extra,
           "a_geo": format!("{:?}", a.to_geo(lat)), "b_geo": format!("{:?}", b.to_geo(lat))})
}
fn detail_q(check: &str, a: &IG, q: IP, lat: &Lat, expected: &str, got: &str) -> Value {
    json!({"property": "C02", "check": check, "a": a.json(), "q": [q.0, q.1], "lat": lat.json(), "expected": expected, "got": got,
           "a_geo": format!("{:?}", a.to_geo(lat)), "q_geo": format!("{:?}", lat.c(q))})
}

/// is `q` an end point of an even number (>= 2) of open members of one MultiLineString inside `a`?
pub fn mls_even_endpoint(a: &IG, q: IP) -> bool {
    match a {
        IG::MultiLineString(ms) => {
            let n: usize = ms.iter().filter(|m| m.len() >= 2 && m[0] != m[m.len() - 1]).map(|m| (m[0] == q) as usize + (m[m.len() - 1] == q) as usize).sum();
            n >= 2 && n % 2 == 0
        }
        IG::Collection(v) => v.iter().any(|g| mls_even_endpoint(g, q)),
        _ => false,
    }
}
/// Defect emulation for the known findings (known_findings.json): a violation is attributed to a
/// finding only if the observed answer is exactly what the recorded defect produces on an input
/// of the recorded class; any other wrong answer at the same call site stays a VIOLATION.
pub fn known_class(check: &str, a: &IG, b: &IG, expected: &str, got: &str) -> &'static str {
    if check.starts_with("coordinate_position") && expected == "Inside" && got == "Outside" {
        if let IG::Point(q) = b {
            if mls_even_endpoint(a, *q) {
                return "mls_coordpos_even_endpoint";
            }
        }
    }
    "-"
}

fn judge(sh: &mut Shard, check: &str, a: &IG, b: &IG, lat: &Lat, exp: bool, got: Result<bool, String>, m: &str, verbose: bool) {
    sh.eval(1);
    let pair = format!("{}x{}", a.kind(), b.kind());
    if verbose {
        println!("{check} {pair}: expected {exp} got {got:?} (true matrix {m})");
    }
    match got {
        Ok(g) if g == exp => {}
        Ok(g) => sh.violation(&format!("{check}|{pair}|{}", known_class(check, a, b, &exp.to_string(), &g.to_string())), detail(check, a, b, lat, &exp.to_string(), &g.to_string(), json!({"true_matrix": m}))),
        Err(p) => sh.violation(&format!("{check}.panic|{pair}|-"), detail(check, a, b, lat, &exp.to_string(), &p, json!({"true_matrix": m, "at": last_panic_loc()}))),
    }
}

pub fn check_pair(sh: &mut Shard, a: &IG, b: &IG, lat: &Lat, verbose: bool) {
    sh.cases += 1;
    let (ma, mb) = (a.to_model(), b.to_model());
    let orc = match guard(|| model::relate(&ma, &mb)) {
        Ok(o) => o,
        Err(Caught::Panic(s)) => panic!("oracle bug: {s}"),
        Err(e) => {
            sh.inconclusive(&format!("oracle:{e:?}"));
            return;
        }
    };
    if lat.shear != 0 {
        sh.class("lattice:sheared");
        if orc.classes.0 & Classes::PROPER_CROSSING != 0 {
            // nearly parallel long edges crossing properly: the node is a computed point and relate's matrix can be
            // wrong there (known finding relate_ill_conditioned_crossing, judged by C01); the predicates are
            // judged on the sheared pairs whose boundaries meet only at input vertices
            sh.class("lattice:sheared:proper_crossing_left_to_C01");
            return;
        }
    }
    let m = mstr(&orc.m);
    let mt = transpose(&orc.m);
    let (ga, gb) = (a.to_geo(lat), b.to_geo(lat));
    let (ei, ec, ew) = (mask_intersects(&orc.m), mask_contains(&orc.m), mask_within(&orc.m));
    // through the Geometry enum
    judge(sh, "intersects.enum", a, b, lat, ei, call(|| ga.intersects(&gb)), &m, verbose);
    judge(sh, "intersects.enum", b, a, lat, ei, call(|| gb.intersects(&ga)), &m, verbose);
    judge(sh, "contains.enum", a, b, lat, ec, call(|| ga.contains(&gb)), &m, verbose);
    judge(sh, "contains.enum", b, a, lat, mask_contains(&mt), call(|| gb.contains(&ga)), &m, verbose);
    judge(sh, "within.enum", a, b, lat, ew, call(|| ga.is_within(&gb)), &m, verbose);
    // concrete impls
    judge(sh, "intersects", a, b, lat, ei, call(|| with_geom!(&ga, x => with_geom!(&gb, y => x.intersects(y)))), &m, verbose);
    judge(sh, "intersects", b, a, lat, ei, call(|| with_geom!(&gb, x => with_geom!(&ga, y => x.intersects(y)))), &m, verbose);
    judge(sh, "contains", a, b, lat, ec, call(|| with_geom!(&ga, x => with_geom!(&gb, y => x.contains(y)))), &m, verbose);
    judge(sh, "contains", b, a, lat, mask_contains(&mt), call(|| with_geom!(&gb, x => with_geom!(&ga, y => x.contains(y)))), &m, verbose);
    judge(sh, "within", a, b, lat, ew, call(|| with_geom!(&ga, x => with_geom!(&gb, y => x.is_within(y)))), &m, verbose);
    judge(sh, "within", b, a, lat, mask_within(&mt), call(|| with_geom!(&gb, x => with_geom!(&ga, y => x.is_within(y)))), &m, verbose);
    // one operand of its concrete type, the other wrapped in the enum (dispatch paths of their own), both sides
    judge(sh, "intersects.concrete_x_enum", a, b, lat, ei, call(|| with_geom!(&ga, x => x.intersects(&gb))), &m, verbose);
    judge(sh, "intersects.enum_x_concrete", a, b, lat, ei, call(|| with_geom!(&gb, y => ga.intersects(y))), &m, verbose);
    // (MultiPoint and MultiPolygon have no Contains<Geometry>)
    if let Some(res) = call(|| with_geom_in!(&ga, [Point, Line, LineString, Polygon, MultiLineString, Rect, Triangle, GeometryCollection], x => x.contains(&gb))).transpose() {
        judge(sh, "contains.concrete_x_enum", a, b, lat, ec, res, &m, verbose);
    }
    judge(sh, "contains.enum_x_concrete", a, b, lat, ec, call(|| with_geom!(&gb, y => ga.contains(y))), &m, verbose);
    if let Some(res) = call(|| with_geom_in!(&gb, [Point, Line, LineString, Polygon, MultiLineString, Rect, Triangle, GeometryCollection], x => x.contains(&ga))).transpose() {
        judge(sh, "contains.concrete_x_enum", b, a, lat, mask_contains(&mt), res, &m, verbose);
    }
    judge(sh, "contains.enum_x_concrete", b, a, lat, mask_contains(&mt), call(|| with_geom!(&ga, y => gb.contains(y))), &m, verbose);
    judge(sh, "within.concrete_x_enum", a, b, lat, ew, call(|| with_geom!(&ga, x => x.is_within(&gb))), &m, verbose);
    if let Some(res) = call(|| with_geom_in!(&gb, [Point, Line, LineString, Polygon, MultiLineString, Rect, Triangle, GeometryCollection], y => ga.is_within(y))).transpose() {
        judge(sh, "within.enum_x_concrete", a, b, lat, ew, res, &m, verbose);
    }
    // the named predicates of the IntersectionMatrix follow the documented masks (on geo's own matrix)
    if let Ok(im) = call(|| ga.relate(&gb)) {
        sh.eval(1);
        let s = super::c01::im_string(&im);
        let f = |i: usize| s.as_bytes()[i] != b'F';
        let (xi, xc, xw) = (f(0) || f(1) || f(3) || f(4), f(0) && !f(6) && !f(7), f(0) && !f(2) && !f(5));
        if im.is_intersects() != xi || im.is_disjoint() == xi || im.is_contains() != xc || im.is_within() != xw {
            sh.violation(&format!("matrix.named_predicates|{}x{}|-", a.kind(), b.kind()), detail("matrix.named_predicates", a, b, lat, &format!("{xi},{xc},{xw}"), &format!("{},{},{} on {s}", im.is_intersects(), im.is_contains(), im.is_within()), json!({})));
        }
    }
    sh.class(&format!("pair:{}x{}", a.kind(), b.kind()));
    for n in orc.classes.names() {
        sh.class(&format!("class:{n}"));
    }
    sh.class(&format!("truth:i{}c{}w{}", ei as u8, ec as u8, ew as u8));
    if ei || orc.classes.0 & !(Classes::BBOX_DISJOINT) != 0 {
        let mut h = Fnv::new();
        a.digest(&mut h);
        b.digest(&mut h);
        sh.nontrivial(h.0);
    }
    sh.sample(|| json!({"a": format!("{:?}", ga), "b": format!("{:?}", gb), "true_matrix": m, "intersects": ei, "contains": ec, "within": ew}));
}

fn pos_name(l: Loc) -> &'static str {
    match l {
        Loc::I => "Inside",
        Loc::B => "OnBoundary",
        Loc::E => "Outside",
    }
}
fn cp_name(c: CoordPos) -> &'static str {
    match c {
        CoordPos::Inside => "Inside",
        CoordPos::OnBoundary => "OnBoundary",
        CoordPos::Outside => "Outside",
    }
}

pub fn check_coord(sh: &mut Shard, a: &IG, q: IP, lat: &Lat, verbose: bool) {
    let ma = a.to_model();
    let l = match guard(|| ma.loc(pi(q.0, q.1))) {
        Ok(l) => l,
        Err(_) => {
            sh.inconclusive("oracle:loc");
            return;
        }
    };
    let ga = a.to_geo(lat);
    let c: Coord<f64> = lat.c(q);
    let p = Point(c);
    let k = a.kind();
    let mut put = |sh: &mut Shard, check: &str, exp: String, got: Result<String, String>| {
        sh.eval(1);
        if verbose {
            println!("{check} {k}: expected {exp} got {got:?}");
        }
        match got {
            Ok(g) if g == exp => {}
            Ok(g) => sh.violation(&format!("{check}|{k}|{}", known_class(check, a, &IG::Point(q), &exp, &g)), detail_q(check, a, q, lat, &exp, &g)),
            Err(pn) => sh.violation(&format!("{check}.panic|{k}|-"), detail_q(check, a, q, lat, &exp, &format!("panic: {pn} at {}", last_panic_loc()))),
        }
    };
    put(sh, "coordinate_position", pos_name(l).into(), call(|| cp_name(with_geom!(&ga, x => x.coordinate_position(&c))).to_string()));
    put(sh, "coordinate_position.enum", pos_name(l).into(), call(|| cp_name(ga.coordinate_position(&c)).to_string()));
    let hit = l != Loc::E;
    put(sh, "intersects.coord", hit.to_string(), call(|| with_geom!(&ga, x => x.intersects(&c)).to_string()));
    if let Some(res) = call(|| with_geom_in!(&ga, [Point, Line, LineString, Polygon, MultiPoint, Rect, Triangle, GeometryCollection], x => c.intersects(x).to_string())).transpose() {
        put(sh, "intersects.coord.rev", hit.to_string(), res);
    }
    put(sh, "intersects.coord.enum", hit.to_string(), call(|| ga.intersects(&c).to_string()));
    put(sh, "intersects.point", hit.to_string(), call(|| with_geom!(&ga, x => x.intersects(&p)).to_string()));
    put(sh, "intersects.point.rev", hit.to_string(), call(|| with_geom!(&ga, x => p.intersects(x)).to_string()));
    // a contains {q}  <=>  q in interior(a)
    let inside = l == Loc::I;
    if let Some(res) = call(|| with_geom_in!(&ga, [Point, Line, LineString, Polygon, MultiPoint, MultiPolygon, Rect, Triangle, GeometryCollection], x => x.contains(&c).to_string())).transpose() {
        put(sh, "contains.coord", inside.to_string(), res);
    }
    put(sh, "contains.coord.enum", inside.to_string(), call(|| ga.contains(&c).to_string()));
    put(sh, "contains.point", inside.to_string(), call(|| with_geom!(&ga, x => x.contains(&p)).to_string()));
    put(sh, "within.point", inside.to_string(), call(|| with_geom!(&ga, x => p.is_within(x)).to_string()));
    sh.class(&format!("coord:{}:{}", k, pos_name(l)));
    if l != Loc::E {
        let mut h = Fnv::new();
        a.digest(&mut h);
        h.i64(q.0);
        h.i64(q.1);
        sh.nontrivial(h.0);
    }
}

pub fn run(ctx: &Ctx, sh: &mut Shard) {
    for k in ctx.case_indices() {
        if sh.cases >= ctx.budget {
            break;
        }
        ctx.mark_case(k);
        let mut r = Rng::derive(ctx.seed, ctx.shard, k);
        let (a, b, lat) = super::c01::gen_case(&mut r);
        if a.n_segments() + b.n_segments() > 700 {
            continue;
        }
        // one case in nine: a closed line string with one side cut into 3-5 collinear segments, written from a vertex in the
        // MIDDLE of that run, against a line / line string lying along the side (contains / within walk the run across
        // the start of the ring)
        let (a, b) = if k % 9 == 4 {
            let (w, h) = (r.range(4, 9), r.range(1, 5));
            let mut cuts: Vec<i64> = (1..w).collect();
            r.shuffle(&mut cuts);
            cuts.truncate(r.range(2, 4) as usize);
            cuts.sort();
            // ring: (0,0) -> cuts along the bottom -> (w,0) -> (w,h) -> (0,h) -> back
            let mut ring: Vec<IP> = vec![(0, 0)];
            ring.extend(cuts.iter().map(|&x| (x, 0)));
            ring.extend([(w, 0), (w, h), (0, h)]);
            let start = 1 + r.below(cuts.len() as u64) as usize; // one of the cut vertices
            ring.rotate_left(start);
            if r.chance(1, 2) {
                ring.reverse();
            }
            let f = ring[0];
            ring.push(f);
            let (x0, x1) = (r.range(0, w - 1), 0);
            let x1 = r.range(x0 + 1, w) + x1;
            let b = if r.chance(1, 2) { IG::Line((x0, 0), (x1, 0)) } else { IG::LineString(vec![(x1, 0), ((x0 + x1) / 2, 0), (x0, 0)].into_iter().collect::<Vec<_>>()) };
            sh.class("stratum:closed_linestring_started_inside_a_collinear_run");
            let b = if b.valid() { b } else { IG::Line((x0, 0), (x1, 0)) };
            (IG::LineString(ring), b)
        } else {
            (a, b)
        };
        // one case in three: an operand re-spelt (same point set: other type, permuted members, an EMPTY member
        // somewhere in a Multi* / collection, ...)
        let (a, b) = if k % 3 == 1 {
            let alts = respellings(&mut r, &a);
            if alts.is_empty() {
                (a, b)
            } else {
                let i = r.below(alts.len() as u64) as usize;
                sh.class(&format!("spelling:{}", alts[i].0));
                (alts[i].1.clone(), b)
            }
        } else {
            (a, b)
        };
        // one case in five on the sheared lattice (all edges nearly parallel, products beyond 2^53)
        let lat = if k % 5 == 0 { Lat::random_sheared(&mut r) } else { lat };
        check_pair(sh, &a, &b, &lat, false);
        let g = 6;
        for _ in 0..3 {
            let q = interesting_point(&mut r, &a, g);
            check_coord(sh, &a, q, &lat, false);
            let q = interesting_point(&mut r, &b, g);
            check_coord(sh, &b, q, &lat, false);
        }
        // an operand of realistic size: the middle of EVERY segment and every vertex is queried once (on the doubled
        // lattice, where every midpoint is a lattice point), so that no stretch of a long component goes unvisited
        for x in [&a, &b] {
            if x.n_segments() > 30 && x.n_segments() <= 400 {
                let x2 = x.map(&|p| (2 * p.0, 2 * p.1));
                sh.class("coord_queries:every_segment_of_a_long_operand");
                for (p, q) in all_segments_pub(&x2) {
                    check_coord(sh, &x2, ((p.0 + q.0) / 2, (p.1 + q.1) / 2), &lat, false);
                }
                for v in x2.coords() {
                    check_coord(sh, &x2, v, &lat, false);
                }
            }
        }
    }
}

pub fn replay(v: &Value, sh: &mut Shard) {
    let a = IG::from_json(&v["a"]).expect("a");
    let lat = Lat::from_json(&v["lat"]);
    if let Some(b) = IG::from_json(&v["b"]) {
        println!("A = {:?}\nB = {:?}", a.to_geo(&lat), b.to_geo(&lat));
        check_pair(sh, &a, &b, &lat, true);
    } else {
        let q = (v["q"][0].as_i64().unwrap(), v["q"][1].as_i64().unwrap());
        println!("A = {:?}\nq = {:?}", a.to_geo(&lat), lat.c(q));
        check_coord(sh, &a, q, &lat, true);
    }
}
