//! C03 — Orientation and point-location predicates are exact for all f64 input (and for the integer
//! coordinate types whenever the intermediate products fit the type).
//!
//! Oracle: pure integer arithmetic. Every float coordinate of a case is read from its bit pattern as
//! m * 2^e; all coordinates of the case are multiplied by one common power of two so that they become
//! integers below 2^60, and every determinant / comparison is evaluated in i128 (differences < 2^61,
//! products < 2^122). Nothing of geo, `robust` or the shared Q module is used to form an expectation.
//! The generator keeps every case within 58 bits after common scaling (so the oracle never overflows)
//! and inside binary exponents [-400, +461] (no product can under- or overflow in f64).
use crate::gen;
use crate::ig::IG;
use crate::report::*;
use crate::rng::{Fnv, Rng};
use geo::coordinate_position::{coord_pos_relative_to_ring, CoordPos, CoordinatePosition};
use geo::kernels::{Kernel, Orientation, RobustKernel, SimpleKernel};
use geo::line_intersection::{line_intersection, LineIntersection};
use geo::winding_order::{triangle_winding_order, Winding, WindingOrder};
use geo::{Contains, Coord, GeoFloat, GeoNum, Geometry, Intersects, Line, LineString, Point, Polygon, Triangle};
use serde_json::{json, Value};
use std::collections::HashMap;

// ------------------------------------------------------------------------------------------------
// exact side
// ------------------------------------------------------------------------------------------------

/// exact point: the case's coordinates times one common power of two
type XP = (i128, i128);
/// the generator keeps the bit span of a case (highest set bit .. lowest set bit over all coordinates) below this
const GEN_BITS: i32 = 58;
/// the oracle refuses (inconclusive) beyond this: |v| < 2^60 => differences < 2^61, products < 2^122, sums of two < 2^123
const ORC_BITS: i32 = 60;

/// v = m * 2^e with m odd (or m = 0); None for non-finite
fn decomp(v: f64) -> Option<(i128, i32)> {
    if !v.is_finite() {
        return None;
    }
    let b = v.to_bits();
    let neg = (b >> 63) != 0;
    let ef = ((b >> 52) & 0x7ff) as i32;
    let fr = b & ((1u64 << 52) - 1);
    let (mut m, mut e) = if ef == 0 { (fr, -1074) } else { (fr | (1u64 << 52), ef - 1075) };
    if m == 0 {
        return Some((0, 0));
    }
    let tz = m.trailing_zeros() as i32;
    m >>= tz;
    e += tz;
    Some((if neg { -(m as i128) } else { m as i128 }, e))
}
fn bitlen(m: i128) -> i32 {
    (128 - m.unsigned_abs().leading_zeros()) as i32
}
/// (lowest exponent of a set bit, one past the highest exponent of a set bit) over all nonzero values
fn span(vals: &[f64]) -> Option<(i32, i32)> {
    let (mut lo, mut hi) = (i32::MAX, i32::MIN);
    for &v in vals {
        let (m, e) = decomp(v)?;
        if m != 0 {
            lo = lo.min(e);
            hi = hi.max(e + bitlen(m));
        }
    }
    if lo == i32::MAX {
        Some((0, 0))
    } else {
        Some((lo, hi))
    }
}
fn span_bits(vals: &[f64]) -> Option<i32> {
    span(vals).map(|(lo, hi)| hi - lo)
}
/// all values times 2^-lo as exact integers; None if they do not fit `limit` bits
fn scale_vals(vals: &[f64], limit: i32) -> Option<(Vec<i128>, i32)> {
    let (lo, hi) = span(vals)?;
    if hi - lo > limit {
        return None;
    }
    let mut out = Vec::with_capacity(vals.len());
    for &v in vals {
        let (m, e) = decomp(v)?;
        out.push(if m == 0 { 0 } else { m << ((e - lo) as u32) });
    }
    Some((out, lo))
}

#[inline]
fn x_det(a: XP, b: XP, c: XP) -> i128 {
    (b.0 - a.0) * (c.1 - a.1) - (b.1 - a.1) * (c.0 - a.0)
}
#[inline]
fn x_orient(a: XP, b: XP, c: XP) -> i32 {
    x_det(a, b, c).signum() as i32
}
#[inline]
fn x_between(v: i128, p: i128, q: i128) -> bool {
    (p <= v && v <= q) || (q <= v && v <= p)
}
/// p lies on the closed segment ab (a == b: p == a)
#[inline]
fn x_on_seg(p: XP, a: XP, b: XP) -> bool {
    x_orient(a, b, p) == 0 && x_between(p.0, a.0, b.0) && x_between(p.1, a.1, b.1)
}
/// 0 = exactly collinear, 1 = below the reach of a static f64 filter (|det| * 2^48 <= |left| + |right|), 2 = well conditioned
fn x_cond(a: XP, b: XP, c: XP) -> u8 {
    let l = (b.0 - a.0) * (c.1 - a.1);
    let r = (b.1 - a.1) * (c.0 - a.0);
    let d = l - r;
    if d == 0 {
        0
    } else if d.abs() <= ((l.abs() + r.abs()) >> 48) {
        1
    } else {
        2
    }
}

#[derive(Clone, Copy, PartialEq, Eq, Debug)]
enum SegK {
    None,
    Proper,
    Touch,
    Overlap,
}
impl SegK {
    fn name(self) -> &'static str {
        match self {
            SegK::None => "None",
            SegK::Proper => "SinglePoint{proper}",
            SegK::Touch => "SinglePoint{improper}",
            SegK::Overlap => "Collinear",
        }
    }
}
/// exact classification of the intersection of the closed segments ab and cd
fn x_segseg(a: XP, b: XP, c: XP, d: XP) -> SegK {
    let k = if a == b {
        if x_on_seg(a, c, d) {
            SegK::Touch
        } else {
            SegK::None
        }
    } else if c == d {
        if x_on_seg(c, a, b) {
            SegK::Touch
        } else {
            SegK::None
        }
    } else {
        let (o1, o2, o3, o4) = (x_orient(a, b, c), x_orient(a, b, d), x_orient(c, d, a), x_orient(c, d, b));
        if o1 == 0 && o2 == 0 {
            // all four on one line: compare the parameter intervals along the dominant axis
            let ax = |p: XP| if a.0 != b.0 { p.0 } else { p.1 };
            let (l1, h1) = (ax(a).min(ax(b)), ax(a).max(ax(b)));
            let (l2, h2) = (ax(c).min(ax(d)), ax(c).max(ax(d)));
            let (lo, hi) = (l1.max(l2), h1.min(h2));
            if lo > hi {
                SegK::None
            } else if lo == hi {
                SegK::Touch
            } else {
                SegK::Overlap
            }
        } else if o1 * o2 < 0 && o3 * o4 < 0 {
            SegK::Proper
        } else if o1 * o2 <= 0 && o3 * o4 <= 0 {
            SegK::Touch
        } else {
            SegK::None
        }
    };
    // second formulation (self-check of the reference): proper crossing or an end point on the other segment
    let alt = (a != b && c != d && x_orient(a, b, c) * x_orient(a, b, d) < 0 && x_orient(c, d, a) * x_orient(c, d, b) < 0)
        || x_on_seg(c, a, b)
        || x_on_seg(d, a, b)
        || x_on_seg(a, c, d)
        || x_on_seg(b, c, d);
    if alt != (k != SegK::None) {
        panic!("oracle bug: segseg formulations disagree");
    }
    k
}

#[derive(Clone, Copy, PartialEq, Eq, Debug)]
enum Loc3 {
    I,
    B,
    E,
}
impl Loc3 {
    fn name(self) -> &'static str {
        match self {
            Loc3::I => "Inside",
            Loc3::B => "OnBoundary",
            Loc3::E => "Outside",
        }
    }
}
/// location of q relative to a simple closed ring (first == last): even-odd crossing parity, evaluated
/// with a horizontal and, independently, a vertical ray (they must agree for a simple ring)
fn x_ring_loc(ring: &[XP], q: XP) -> Loc3 {
    for w in ring.windows(2) {
        if x_on_seg(q, w[0], w[1]) {
            return Loc3::B;
        }
    }
    let (mut right, mut up) = (0u32, 0u32);
    for w in ring.windows(2) {
        let (p, s) = (w[0], w[1]);
        if (p.1 > q.1) != (s.1 > q.1) {
            // the edge crosses the horizontal line through q; it passes right of q iff q is on its left when it goes up
            let o = x_orient(p, s, q);
            if (o > 0) == (s.1 > p.1) {
                right += 1;
            }
        }
        if (p.0 > q.0) != (s.0 > q.0) {
            // crosses the vertical line through q; above q iff q is on its right when the edge goes in +x
            let o = x_orient(p, s, q);
            if (o < 0) == (s.0 > p.0) {
                up += 1;
            }
        }
    }
    if right % 2 != up % 2 {
        panic!("oracle bug: ray parities disagree (ring not simple?)");
    }
    if right % 2 == 1 {
        Loc3::I
    } else {
        Loc3::E
    }
}
fn x_poly_loc(rings: &[Vec<XP>], q: XP) -> Loc3 {
    let mut inside = true;
    for (i, r) in rings.iter().enumerate() {
        match x_ring_loc(r, q) {
            Loc3::B => return Loc3::B,
            Loc3::I => {
                if i > 0 {
                    inside = false
                }
            }
            Loc3::E => {
                if i == 0 {
                    inside = false
                }
            }
        }
    }
    if inside {
        Loc3::I
    } else {
        Loc3::E
    }
}
/// location relative to a non-degenerate triangle (signs of the three edge tests; no ray casting)
fn x_tri_loc(a: XP, b: XP, c: XP, q: XP) -> Loc3 {
    if x_on_seg(q, a, b) || x_on_seg(q, b, c) || x_on_seg(q, c, a) {
        return Loc3::B;
    }
    let (o1, o2, o3) = (x_orient(a, b, q), x_orient(b, c, q), x_orient(c, a, q));
    if o1 == o2 && o2 == o3 && o1 != 0 {
        Loc3::I
    } else {
        Loc3::E
    }
}
/// sign of the signed area of a closed ring (shoelace relative to vertex 0, checked arithmetic)
fn x_area_sign(ring: &[XP]) -> Option<i32> {
    let o = ring[0];
    let mut s: i128 = 0;
    for w in ring.windows(2) {
        let t = (w[0].0 - o.0).checked_mul(w[1].1 - o.1)?.checked_sub((w[0].1 - o.1).checked_mul(w[1].0 - o.0)?)?;
        s = s.checked_add(t)?;
    }
    Some(s.signum() as i32)
}
/// closed ring is simple: >= 3 edges, no zero-length edge, adjacent edges meet only in their shared vertex,
/// non-adjacent edges are disjoint
fn x_simple_ring(ring: &[XP]) -> bool {
    let n = ring.len() - 1;
    if ring.len() < 4 || ring[0] != ring[n] {
        return false;
    }
    for i in 0..n {
        if ring[i] == ring[i + 1] {
            return false;
        }
    }
    for i in 0..n {
        for j in (i + 1)..n {
            let (a, b, c, d) = (ring[i], ring[i + 1], ring[j], ring[j + 1]);
            let adjacent = j == i + 1 || (i == 0 && j == n - 1);
            if adjacent {
                // shared vertex: b == c (j == i+1) or a == d (wrap)
                let (sh, p, q) = if j == i + 1 { (b, a, d) } else { (a, b, c) };
                if n == 3 {
                    // triangle: every pair is adjacent on both sides; simple iff non-degenerate
                    if x_orient(ring[0], ring[1], ring[2]) == 0 {
                        return false;
                    }
                    continue;
                }
                if x_on_seg(p, sh, q) || x_on_seg(q, sh, p) {
                    return false;
                }
            } else if x_segseg(a, b, c, d) != SegK::None {
                return false;
            }
        }
    }
    true
}
/// strict validity used after ulp perturbation: simple rings, no contact between rings, holes inside the
/// shell and outside each other
fn x_poly_strict_valid(rings: &[Vec<XP>]) -> bool {
    for r in rings {
        if !x_simple_ring(r) {
            return false;
        }
    }
    for i in 0..rings.len() {
        for j in (i + 1)..rings.len() {
            for u in rings[i].windows(2) {
                for v in rings[j].windows(2) {
                    if x_segseg(u[0], u[1], v[0], v[1]) != SegK::None {
                        return false;
                    }
                }
            }
            if i == 0 {
                if x_ring_loc(&rings[0], rings[j][0]) != Loc3::I {
                    return false;
                }
            } else if x_ring_loc(&rings[i], rings[j][0]) != Loc3::E || x_ring_loc(&rings[j], rings[i][0]) != Loc3::E {
                return false;
            }
        }
    }
    true
}

// ------------------------------------------------------------------------------------------------
// cases
// ------------------------------------------------------------------------------------------------

#[derive(Clone, Copy, PartialEq, Eq, Debug)]
pub enum Ty {
    F64,
    F32,
    I16,
    I32,
    I64,
}
impl Ty {
    fn name(self) -> &'static str {
        match self {
            Ty::F64 => "f64",
            Ty::F32 => "f32",
            Ty::I16 => "i16",
            Ty::I32 => "i32",
            Ty::I64 => "i64",
        }
    }
    fn from_name(s: &str) -> Option<Ty> {
        [Ty::F64, Ty::F32, Ty::I16, Ty::I32, Ty::I64].into_iter().find(|t| t.name() == s)
    }
    fn is_float(self) -> bool {
        matches!(self, Ty::F64 | Ty::F32)
    }
    /// largest value of the integer type
    fn int_max(self) -> i128 {
        match self {
            Ty::I16 => i16::MAX as i128,
            Ty::I32 => i32::MAX as i128,
            Ty::I64 => i64::MAX as i128,
            _ => 0,
        }
    }
    /// mantissa bits of the float type
    fn mb(self) -> i32 {
        if self == Ty::F32 {
            24
        } else {
            53
        }
    }
}

#[derive(Clone, Copy, PartialEq, Eq, Debug)]
pub enum Shape {
    /// a, b, c
    Triple,
    /// a, b, c: c is enumerated over its 5x5 ulp (unit) neighbourhood
    Grid5,
    /// u, v (vectors)
    Dot,
    /// a, b, c, d: segments ab and cd
    SegSeg,
    /// a, b, c, q
    TriPt,
    /// rings (open vertex lists, lengths in `rings`) followed by q
    PolyPt,
}
impl Shape {
    fn name(self) -> &'static str {
        match self {
            Shape::Triple => "triple",
            Shape::Grid5 => "grid5",
            Shape::Dot => "dot",
            Shape::SegSeg => "segseg",
            Shape::TriPt => "tripoint",
            Shape::PolyPt => "polypoint",
        }
    }
    fn from_name(s: &str) -> Option<Shape> {
        [Shape::Triple, Shape::Grid5, Shape::Dot, Shape::SegSeg, Shape::TriPt, Shape::PolyPt].into_iter().find(|t| t.name() == s)
    }
}

#[derive(Clone, Debug)]
pub struct Case {
    ty: Ty,
    shape: Shape,
    stratum: &'static str,
    /// float types: the coordinates (an f32 case holds values that are exactly f32)
    f: Vec<(f64, f64)>,
    /// integer types
    i: Vec<(i64, i64)>,
    /// PolyPt: number of vertices of each ring (rings are stored open and closed on use)
    rings: Vec<usize>,
}
impl Case {
    fn npts(&self) -> usize {
        if self.ty.is_float() {
            self.f.len()
        } else {
            self.i.len()
        }
    }
    fn flat(&self) -> Vec<f64> {
        self.f.iter().flat_map(|p| [p.0, p.1]).collect()
    }
    /// exact integer image of the coordinates (None: does not fit the oracle)
    fn exact(&self) -> Option<Vec<XP>> {
        if self.ty.is_float() {
            let (v, _) = scale_vals(&self.flat(), ORC_BITS)?;
            Some(v.chunks(2).map(|c| (c[0], c[1])).collect())
        } else {
            Some(self.i.iter().map(|p| (p.0 as i128, p.1 as i128)).collect())
        }
    }
    fn json(&self) -> Value {
        let pts: Value = if self.ty.is_float() {
            json!(self.f.iter().map(|p| json!([hexf(p.0), hexf(p.1)])).collect::<Vec<_>>())
        } else {
            json!(self.i.iter().map(|p| json!([p.0.to_string(), p.1.to_string()])).collect::<Vec<_>>())
        };
        let shown = if self.ty.is_float() { format!("{:?}", self.f) } else { format!("{:?}", self.i) };
        json!({"ty": self.ty.name(), "shape": self.shape.name(), "stratum": self.stratum, "pts": pts, "rings": self.rings, "shown": shown})
    }
    fn from_json(v: &Value) -> Option<Case> {
        let ty = Ty::from_name(v["ty"].as_str()?)?;
        let shape = Shape::from_name(v["shape"].as_str()?)?;
        let (mut f, mut i) = (vec![], vec![]);
        for p in v["pts"].as_array()? {
            let (a, b) = (p[0].as_str()?, p[1].as_str()?);
            if ty.is_float() {
                f.push((f64::from_bits(u64::from_str_radix(a, 16).ok()?), f64::from_bits(u64::from_str_radix(b, 16).ok()?)));
            } else {
                i.push((a.parse().ok()?, b.parse().ok()?));
            }
        }
        let rings = v["rings"].as_array().map(|a| a.iter().filter_map(|x| x.as_u64().map(|u| u as usize)).collect()).unwrap_or_default();
        Some(Case { ty, shape, stratum: "replay", f, i, rings })
    }
    fn digest(&self) -> u64 {
        let mut h = Fnv::new();
        h.str(self.ty.name());
        h.str(self.shape.name());
        for p in &self.f {
            h.f64(p.0);
            h.f64(p.1);
        }
        for p in &self.i {
            h.i64(p.0);
            h.i64(p.1);
        }
        for n in &self.rings {
            h.u64(*n as u64);
        }
        h.0
    }
    fn detail(&self, check: &str, expected: &str, got: &str) -> Value {
        json!({"property": "C03", "check": check, "expected": expected, "got": got, "case": self.json()})
    }
    /// the rings of a PolyPt case as closed index lists into the point array, and the query index
    fn ring_index(&self) -> (Vec<Vec<usize>>, usize) {
        let mut out = vec![];
        let mut at = 0;
        for &n in &self.rings {
            let mut r: Vec<usize> = (at..at + n).collect();
            r.push(at);
            out.push(r);
            at += n;
        }
        (out, at)
    }
    fn well_formed(&self) -> bool {
        let n = self.npts();
        match self.shape {
            Shape::Triple | Shape::Grid5 => n == 3,
            Shape::Dot => n == 2,
            Shape::SegSeg | Shape::TriPt => n == 4,
            Shape::PolyPt => !self.rings.is_empty() && self.rings.iter().all(|&k| k >= 3) && self.rings.iter().sum::<usize>() + 1 == n,
        }
    }
}

/// scalar types under test
pub trait Sc: GeoNum + std::fmt::Debug + 'static {
    fn ff(v: f64) -> Self;
    fn fi(v: i64) -> Self;
}
impl Sc for f64 {
    fn ff(v: f64) -> f64 {
        v
    }
    fn fi(v: i64) -> f64 {
        v as f64
    }
}
impl Sc for f32 {
    fn ff(v: f64) -> f32 {
        v as f32
    }
    fn fi(v: i64) -> f32 {
        v as f32
    }
}
impl Sc for i16 {
    fn ff(_: f64) -> i16 {
        unreachable!()
    }
    fn fi(v: i64) -> i16 {
        v as i16
    }
}
impl Sc for i32 {
    fn ff(_: f64) -> i32 {
        unreachable!()
    }
    fn fi(v: i64) -> i32 {
        v as i32
    }
}
impl Sc for i64 {
    fn ff(_: f64) -> i64 {
        unreachable!()
    }
    fn fi(v: i64) -> i64 {
        v
    }
}
fn coords<T: Sc>(c: &Case) -> Vec<Coord<T>> {
    if c.ty.is_float() {
        c.f.iter().map(|p| Coord { x: T::ff(p.0), y: T::ff(p.1) }).collect()
    } else {
        c.i.iter().map(|p| Coord { x: T::fi(p.0), y: T::fi(p.1) }).collect()
    }
}

// ------------------------------------------------------------------------------------------------
// judging
// ------------------------------------------------------------------------------------------------

#[derive(Default)]
pub struct Stats {
    m: HashMap<String, u64>,
}
impl Stats {
    fn add(&mut self, k: &str) {
        self.add_n(k, 1)
    }
    fn add_n(&mut self, k: &str, n: u64) {
        if let Some(v) = self.m.get_mut(k) {
            *v += n;
        } else {
            self.m.insert(k.to_string(), n);
        }
    }
    fn flush(&mut self, sh: &mut Shard) {
        for (k, v) in self.m.drain() {
            sh.class_n(&k, v);
        }
    }
}

struct Out<'a> {
    sh: &'a mut Shard,
    st: &'a mut Stats,
    verbose: bool,
}

fn judge(o: &mut Out, case: &Case, check: &'static str, site: &'static str, exp: &'static str, got: Result<&'static str, String>) {
    o.sh.eval(1);
    if o.verbose {
        println!("  {check:<28} {site:<34} expected {exp:<22} got {got:?}");
    }
    match got {
        Ok(g) if g == exp => {}
        Ok(g) => o.sh.violation(&format!("{check}|{site}<{}>|-", case.ty.name()), case.detail(check, exp, g)),
        Err(p) => {
            let mut d = case.detail(check, exp, &format!("panic: {p}"));
            d["at"] = json!(last_panic_loc());
            o.sh.violation(&format!("{check}.panic|{site}<{}>|-", case.ty.name()), d)
        }
    }
}

fn sgn_name(s: i32) -> &'static str {
    match s {
        1 => "CounterClockwise",
        -1 => "Clockwise",
        _ => "Collinear",
    }
}
fn ori_name(o: Orientation) -> &'static str {
    match o {
        Orientation::CounterClockwise => "CounterClockwise",
        Orientation::Clockwise => "Clockwise",
        Orientation::Collinear => "Collinear",
    }
}
fn pos_name(c: CoordPos) -> &'static str {
    match c {
        CoordPos::Inside => "Inside",
        CoordPos::OnBoundary => "OnBoundary",
        CoordPos::Outside => "Outside",
    }
}
fn wo_name(w: Option<WindingOrder>) -> &'static str {
    match w {
        Some(WindingOrder::CounterClockwise) => "Some(CounterClockwise)",
        Some(WindingOrder::Clockwise) => "Some(Clockwise)",
        None => "None",
    }
}
fn bname(b: bool) -> &'static str {
    if b {
        "true"
    } else {
        "false"
    }
}
fn cond_name(c: u8) -> &'static str {
    match c {
        0 => "exactly_collinear",
        1 => "near_degenerate",
        _ => "well_conditioned",
    }
}

// ------------------------------------------------------------------------------------------------
// the checks (generic over the scalar type)
// ------------------------------------------------------------------------------------------------

/// signs the two textbook f64/f32 determinants would give (what a non-robust kernel computes)
fn naive_signs(case: &Case, i: usize, j: usize, k: usize) -> (i32, i32) {
    let (a, b, c) = (case.f[i], case.f[j], case.f[k]);
    let sg = |d: f64| if d > 0.0 { 1 } else if d < 0.0 { -1 } else { 0 };
    if case.ty == Ty::F32 {
        let (ax, ay, bx, by, cx, cy) = (a.0 as f32, a.1 as f32, b.0 as f32, b.1 as f32, c.0 as f32, c.1 as f32);
        let n1 = (bx - ax) * (cy - ay) - (by - ay) * (cx - ax);
        let n2 = (bx - ax) * (cy - by) - (by - ay) * (cx - bx);
        (sg(n1 as f64), sg(n2 as f64))
    } else {
        let n1 = (b.0 - a.0) * (c.1 - a.1) - (b.1 - a.1) * (c.0 - a.0);
        let n2 = (b.0 - a.0) * (c.1 - b.1) - (b.1 - a.1) * (c.0 - b.0);
        (sg(n1), sg(n2))
    }
}

/// bookkeeping for one orientation decision that the code under test has to take
fn note_decision(o: &mut Out, case: &Case, ex: &[XP], i: usize, j: usize, k: usize, worst: &mut u8) {
    let c = x_cond(ex[i], ex[j], ex[k]);
    let degenerate = ex[i] == ex[j] || ex[i] == ex[k] || ex[j] == ex[k];
    if !degenerate {
        *worst = (*worst).min(c);
    }
    if case.ty.is_float() {
        let s = x_orient(ex[i], ex[j], ex[k]);
        let (n1, n2) = naive_signs(case, i, j, k);
        o.st.add("naive_evaluated");
        o.st.add(&format!("naive_evaluated:{}:{}", case.ty.name(), case.stratum));
        if n1 != s {
            o.st.add("naive_would_fail");
        }
        if n2 != s {
            o.st.add("kernel_default_formula_would_fail");
        }
        if n1 != s || n2 != s {
            o.st.add(&format!("naive_would_fail:{}:{}", case.ty.name(), case.stratum));
        }
    }
}

const PERMS: [([usize; 3], i32); 6] = [([0, 1, 2], 1), ([0, 2, 1], -1), ([1, 2, 0], 1), ([2, 1, 0], -1), ([2, 0, 1], 1), ([1, 0, 2], -1)];

fn check_triple<T: Sc>(o: &mut Out, case: &Case, p: &[Coord<T>], ex: &[XP], light: bool, worst: &mut u8) {
    let s = x_orient(ex[0], ex[1], ex[2]);
    note_decision(o, case, ex, 0, 1, 2, worst);
    o.st.add(match s {
        1 => "orient:CounterClockwise",
        -1 => "orient:Clockwise",
        _ => "orient:Collinear",
    });
    for (n, (pm, sg)) in PERMS.iter().enumerate() {
        if light && n >= 2 {
            break;
        }
        let (a, b, c) = (p[pm[0]], p[pm[1]], p[pm[2]]);
        judge(o, case, if n == 0 { "orient2d" } else { "orient2d.perm" }, "GeoNum::Ker", sgn_name(s * sg), call(|| ori_name(T::Ker::orient2d(a, b, c))));
    }
    if !case.ty.is_float() {
        judge(o, case, "orient2d", "SimpleKernel", sgn_name(s), call(|| ori_name(<SimpleKernel as Kernel<T>>::orient2d(p[0], p[1], p[2]))));
    }
    // point on segment: the third point against the segment of the other two
    for rot in 0..(if light { 1 } else { 3 }) {
        let (i, j, k) = (rot % 3, (rot + 1) % 3, (rot + 2) % 3);
        let on = x_on_seg(ex[k], ex[i], ex[j]);
        let (l, lr, q) = (Line::new(p[i], p[j]), Line::new(p[j], p[i]), p[k]);
        judge(o, case, "line_intersects_coord", "Line.intersects(Coord)", bname(on), call(|| bname(l.intersects(&q))));
        judge(o, case, "line_intersects_coord", "Line(reversed).intersects(Coord)", bname(on), call(|| bname(lr.intersects(&q))));
        if !light {
            judge(o, case, "line_intersects_coord", "Coord.intersects(Line)", bname(on), call(|| bname(q.intersects(&l))));
            judge(o, case, "line_intersects_coord", "Line.intersects(Point)", bname(on), call(|| bname(l.intersects(&Point(q)))));
            let pos = if ex[i] == ex[j] {
                o.st.add("path:degenerate_line");
                if ex[k] == ex[i] {
                    Loc3::I
                } else {
                    Loc3::E
                }
            } else if ex[k] == ex[i] || ex[k] == ex[j] {
                Loc3::B
            } else if on {
                Loc3::I
            } else {
                Loc3::E
            };
            judge(o, case, "line_coordinate_position", "Line.coordinate_position", pos.name(), call(|| pos_name(l.coordinate_position(&q))));
        }
        if rot == 0 {
            o.st.add(if on {
                "seg_pt:on_segment"
            } else if s == 0 {
                "seg_pt:collinear_beyond_end"
            } else {
                "seg_pt:off_line"
            });
        }
    }
    if !light && s != 0 {
        // a non-degenerate triangle is a simple ring
        let ring = LineString::new(vec![p[0], p[1], p[2], p[0]]);
        let exp = if s > 0 { "Some(CounterClockwise)" } else { "Some(Clockwise)" };
        judge(o, case, "winding_order", "LineString(3-ring)", exp, call(|| wo_name(ring.winding_order())));
        // the open line string through the same coordinates has no winding order: neither clockwise nor counter-clockwise
        let open = LineString::new(vec![p[0], p[1], p[2]]);
        judge(o, case, "winding_order", "LineString(open)", "None/false/false", call(|| if open.winding_order().is_none() && !open.is_cw() && !open.is_ccw() { "None/false/false" } else { "a winding order, is_cw or is_ccw" }));
    }
    if !light && s == 0 && (p[0] != p[1] || p[1] != p[2]) {
        // an exactly collinear triple closed into a ring encloses nothing: no winding order, neither cw nor ccw
        let ring = LineString::new(vec![p[0], p[1], p[2], p[0]]);
        judge(o, case, "winding_order", "LineString(flat 3-ring)", "None/false/false", call(|| if ring.winding_order().is_none() && !ring.is_cw() && !ring.is_ccw() { "None/false/false" } else { "a winding order, is_cw or is_ccw" }));
    }
}

fn check_triple_float<T: Sc + GeoFloat>(o: &mut Out, case: &Case, p: &[Coord<T>], ex: &[XP], light: bool) {
    let s = x_orient(ex[0], ex[1], ex[2]);
    judge(o, case, "orient2d", "RobustKernel", sgn_name(s), call(|| ori_name(RobustKernel::orient2d(p[0], p[1], p[2]))));
    if !light && s != 0 {
        let t = Triangle(p[0], p[1], p[2]); // tuple constructor: Triangle::new would reorder the vertices
        let exp = if s > 0 { "Some(CounterClockwise)" } else { "Some(Clockwise)" };
        judge(o, case, "triangle_winding_order", "triangle_winding_order", exp, call(|| wo_name(triangle_winding_order(&t))));
    }
}

fn check_dot<T: Sc>(o: &mut Out, case: &Case, p: &[Coord<T>], ex: &[XP]) {
    let d = ex[0].0 * ex[1].0 + ex[0].1 * ex[1].1;
    let s = d.signum() as i32;
    o.st.add(match s {
        0 => "dot:zero",
        1 => "dot:positive",
        _ => "dot:negative",
    });
    judge(o, case, "dot_product_sign", "GeoNum::Ker", sgn_name(s), call(|| ori_name(T::Ker::dot_product_sign(p[0], p[1]))));
    judge(o, case, "dot_product_sign", "GeoNum::Ker(swapped)", sgn_name(s), call(|| ori_name(T::Ker::dot_product_sign(p[1], p[0]))));
}

fn check_segseg<T: Sc>(o: &mut Out, case: &Case, p: &[Coord<T>], ex: &[XP], worst: &mut u8) -> SegK {
    let k = x_segseg(ex[0], ex[1], ex[2], ex[3]);
    let hit = bname(k != SegK::None);
    for (i, j, q) in [(0, 1, 2), (0, 1, 3), (2, 3, 0), (2, 3, 1)] {
        note_decision(o, case, ex, i, j, q, worst);
    }
    o.st.add(match k {
        SegK::None => "segseg:disjoint",
        SegK::Proper => "segseg:proper_crossing",
        SegK::Touch => "segseg:touch",
        SegK::Overlap => "segseg:collinear_overlap",
    });
    if ex[0] == ex[1] || ex[2] == ex[3] {
        o.st.add("path:degenerate_line");
    }
    if x_orient(ex[0], ex[1], ex[2]) == 0 && x_orient(ex[0], ex[1], ex[3]) == 0 && ex[0] != ex[1] {
        o.st.add("path:segseg_collinear_branch");
    }
    let (l1, l2) = (Line::new(p[0], p[1]), Line::new(p[2], p[3]));
    let (l1r, l2r) = (Line::new(p[1], p[0]), Line::new(p[3], p[2]));
    judge(o, case, "line_intersects_line", "Line.intersects(Line)", hit, call(|| bname(l1.intersects(&l2))));
    judge(o, case, "line_intersects_line", "Line.intersects(Line)/swapped", hit, call(|| bname(l2.intersects(&l1))));
    judge(o, case, "line_intersects_line", "Line.intersects(Line)/reversed", hit, call(|| bname(l1r.intersects(&l2))));
    judge(o, case, "line_intersects_line", "Line.intersects(Line)/swapped+reversed", hit, call(|| bname(l2r.intersects(&l1r))));
    let (g1, g2) = (Geometry::Line(l1), Geometry::Line(l2));
    judge(o, case, "line_intersects_line", "Geometry::Line.intersects(Geometry::Line)", hit, call(|| bname(g1.intersects(&g2))));
    k
}

fn li_name<T: GeoFloat>(r: Option<LineIntersection<T>>) -> &'static str {
    match r {
        None => "None",
        Some(LineIntersection::SinglePoint { is_proper: true, .. }) => "SinglePoint{proper}",
        Some(LineIntersection::SinglePoint { is_proper: false, .. }) => "SinglePoint{improper}",
        Some(LineIntersection::Collinear { .. }) => "Collinear",
    }
}
fn check_segseg_float<T: Sc + GeoFloat>(o: &mut Out, case: &Case, p: &[Coord<T>], ex: &[XP], k: SegK) {
    let (l1, l2) = (Line::new(p[0], p[1]), Line::new(p[2], p[3]));
    if ex[0] == ex[1] || ex[2] == ex[3] {
        // a point-like segment: only "is there an intersection" is judged here (its classification belongs to C11)
        let hit = bname(k != SegK::None);
        judge(o, case, "line_intersection.is_some", "line_intersection", hit, call(|| bname(line_intersection(l1, l2).is_some())));
        judge(o, case, "line_intersection.is_some", "line_intersection/swapped", hit, call(|| bname(line_intersection(l2, l1).is_some())));
    } else {
        judge(o, case, "line_intersection.kind", "line_intersection", k.name(), call(|| li_name(line_intersection(l1, l2))));
        judge(o, case, "line_intersection.kind", "line_intersection/swapped", k.name(), call(|| li_name(line_intersection(l2, l1))));
    }
}

fn check_tripoint<T: Sc>(o: &mut Out, case: &Case, p: &[Coord<T>], ex: &[XP], worst: &mut u8) {
    let q = p[3];
    if x_orient(ex[0], ex[1], ex[2]) == 0 {
        // a degenerate triangle has no agreed interior: observe only (crash detection), no verdict
        o.st.add("observe_only:degenerate_triangle");
        let t = Triangle(p[0], p[1], p[2]);
        if let Err(e) = call(|| (t.coordinate_position(&q), t.contains(&q), t.intersects(&q))) {
            o.sh.violation(&format!("triangle.panic|Triangle<{}>|-", case.ty.name()), case.detail("triangle.panic", "no panic", &e));
        }
        return;
    }
    let loc = x_tri_loc(ex[0], ex[1], ex[2], ex[3]);
    let ring_x = [ex[0], ex[1], ex[2], ex[0]];
    if x_ring_loc(&ring_x, ex[3]) != loc {
        panic!("oracle bug: triangle location by signs and by ray parity disagree");
    }
    for (i, j) in [(0, 1), (1, 2), (2, 0)] {
        note_decision(o, case, ex, i, j, 3, worst);
    }
    o.st.add(match loc {
        Loc3::I => "tri:Inside",
        Loc3::B => "tri:OnBoundary",
        Loc3::E => "tri:Outside",
    });
    if ex[3] == ex[0] || ex[3] == ex[1] || ex[3] == ex[2] {
        o.st.add("tri:query_is_vertex");
    }
    let (inside, hit) = (bname(loc == Loc3::I), bname(loc != Loc3::E));
    for (n, ord) in [[0usize, 1, 2], [1, 2, 0], [2, 1, 0]].iter().enumerate() {
        // tuple constructor keeps the vertex order (Triangle::new reorders to counter-clockwise with a naive test)
        let t = Triangle(p[ord[0]], p[ord[1]], p[ord[2]]);
        let site = ["Triangle", "Triangle/rotated", "Triangle/reversed"][n];
        judge(o, case, "triangle_coordinate_position", site, loc.name(), call(|| pos_name(t.coordinate_position(&q))));
        judge(o, case, "triangle_contains_coord", site, inside, call(|| bname(t.contains(&q))));
        judge(o, case, "triangle_intersects_coord", site, hit, call(|| bname(t.intersects(&q))));
    }
    // Triangle x Triangle: second triangles built from the query point and coordinates of the first
    // (mixing existing x and y values keeps the exact images available), both operand orders
    let mk = |x: usize, y: usize| (Coord { x: p[x].x, y: p[y].y }, (ex[x].0, ex[y].1));
    let seconds: [[(Coord<T>, XP); 3]; 3] = [[mk(3, 3), mk(3, 0), mk(1, 3)], [mk(3, 3), mk(0, 0), mk(2, 3)], [mk(3, 3), mk(0, 1), mk(2, 0)]];
    for (n, s2) in seconds.iter().enumerate() {
        let (u, v, w) = (s2[0].1, s2[1].1, s2[2].1);
        if x_orient(u, v, w) == 0 {
            o.st.add("observe_only:degenerate_second_triangle");
            continue;
        }
        let (t1x, t2x) = ([ex[0], ex[1], ex[2]], [u, v, w]);
        let mut meet = t2x.iter().any(|&z| x_tri_loc(ex[0], ex[1], ex[2], z) != Loc3::E) || t1x.iter().any(|&z| x_tri_loc(u, v, w, z) != Loc3::E);
        for i in 0..3 {
            for j in 0..3 {
                meet |= x_segseg(t1x[i], t1x[(i + 1) % 3], t2x[j], t2x[(j + 1) % 3]) != SegK::None;
            }
        }
        o.st.add(if meet { "tritri:intersecting" } else { "tritri:disjoint" });
        let (lo1, hi1) = (t1x.iter().map(|z| z.1).min().unwrap(), t1x.iter().map(|z| z.1).max().unwrap());
        let (lo2, hi2) = (t2x.iter().map(|z| z.1).min().unwrap(), t2x.iter().map(|z| z.1).max().unwrap());
        let (xlo1, xhi1) = (t1x.iter().map(|z| z.0).min().unwrap(), t1x.iter().map(|z| z.0).max().unwrap());
        let (xlo2, xhi2) = (t2x.iter().map(|z| z.0).min().unwrap(), t2x.iter().map(|z| z.0).max().unwrap());
        if meet && (hi1 == lo2 || hi2 == lo1 || xhi1 == xlo2 || xhi2 == xlo1) {
            o.st.add("tritri:envelopes_touch_only");
        }
        let t1 = Triangle(p[0], p[1], p[2]);
        let t2 = Triangle(s2[0].0, s2[1].0, s2[2].0);
        let site = ["Triangle x Triangle(q,qx.ay,bx.qy)", "Triangle x Triangle(q,a,cx.qy)", "Triangle x Triangle(q,ax.by,cx.ay)"][n];
        let siter = ["Triangle(q,qx.ay,bx.qy) x Triangle", "Triangle(q,a,cx.qy) x Triangle", "Triangle(q,ax.by,cx.ay) x Triangle"][n];
        judge(o, case, "triangle_intersects_triangle", site, bname(meet), call(|| bname(t1.intersects(&t2))));
        judge(o, case, "triangle_intersects_triangle", siter, bname(meet), call(|| bname(t2.intersects(&t1))));
    }
    let t = Triangle::new(p[0], p[1], p[2]);
    judge(o, case, "triangle_coordinate_position", "Triangle::new", loc.name(), call(|| pos_name(t.coordinate_position(&q))));
    judge(o, case, "triangle_contains_coord", "Triangle.contains(Point)", inside, call(|| bname(t.contains(&Point(q)))));
    judge(o, case, "triangle_intersects_coord", "Coord.intersects(Triangle)", hit, call(|| bname(q.intersects(&t))));
    judge(o, case, "triangle_intersects_coord", "Triangle.intersects(Point)", hit, call(|| bname(t.intersects(&Point(q)))));
    let g = Geometry::Triangle(t);
    judge(o, case, "triangle_coordinate_position", "Geometry::Triangle", loc.name(), call(|| pos_name(g.coordinate_position(&q))));
    let ring = LineString::new(vec![p[0], p[1], p[2], p[0]]);
    judge(o, case, "ring_coord_pos", "coord_pos_relative_to_ring(3-ring)", loc.name(), call(|| pos_name(coord_pos_relative_to_ring(q, &ring))));
    let poly = Polygon::new(ring, vec![]);
    judge(o, case, "polygon_coordinate_position", "Polygon(3-ring)", loc.name(), call(|| pos_name(poly.coordinate_position(&q))));
}

fn check_polypoint<T: Sc>(o: &mut Out, case: &Case, p: &[Coord<T>], ex: &[XP], worst: &mut u8) {
    let (ridx, qi) = case.ring_index();
    let q = p[qi];
    let xr: Vec<Vec<XP>> = ridx.iter().map(|r| r.iter().map(|&i| ex[i]).collect()).collect();
    let gr: Vec<LineString<T>> = ridx.iter().map(|r| LineString::new(r.iter().map(|&i| p[i]).collect())).collect();
    // decisions the code under test has to take: every edge whose y-range contains q.y
    let mut level = false;
    for r in &ridx {
        for w in r.windows(2) {
            let (a, b) = (ex[w[0]], ex[w[1]]);
            if x_between(ex[qi].1, a.1, b.1) {
                note_decision(o, case, ex, w[0], w[1], qi, worst);
            }
            if a.1 == ex[qi].1 && a != ex[qi] {
                level = true;
            }
        }
    }
    if level {
        o.st.add("path:ray_through_vertex_level");
    }
    let loc = x_poly_loc(&xr, ex[qi]);
    o.st.add(match loc {
        Loc3::I => "poly:Inside",
        Loc3::B => "poly:OnBoundary",
        Loc3::E => "poly:Outside",
    });
    o.st.add(match xr.len() {
        1 => "poly:holes=0",
        2 => "poly:holes=1",
        _ => "poly:holes>=2",
    });
    for (n, (x, g)) in xr.iter().zip(gr.iter()).enumerate() {
        let rl = x_ring_loc(x, ex[qi]);
        if n > 0 {
            o.st.add(match rl {
                Loc3::I => "poly:query_in_hole",
                Loc3::B => "poly:query_on_hole_boundary",
                Loc3::E => "poly:query_outside_hole",
            });
        }
        judge(o, case, "ring_coord_pos", "coord_pos_relative_to_ring", rl.name(), call(|| pos_name(coord_pos_relative_to_ring(q, g))));
        let mut rv = g.clone();
        rv.0.reverse();
        judge(o, case, "ring_coord_pos", "coord_pos_relative_to_ring/reversed", rl.name(), call(|| pos_name(coord_pos_relative_to_ring(q, &rv))));
        let mut rot = g.0[..g.0.len() - 1].to_vec();
        rot.rotate_left(1);
        rot.push(rot[0]);
        let rot = LineString::new(rot);
        judge(o, case, "ring_coord_pos", "coord_pos_relative_to_ring/rotated", rl.name(), call(|| pos_name(coord_pos_relative_to_ring(q, &rot))));
        judge(o, case, "linestring_intersects_coord", "LineString(ring).intersects(Coord)", bname(rl == Loc3::B), call(|| bname(g.intersects(&q))));
        match x_area_sign(x) {
            Some(sg) if sg != 0 => {
                let (e1, e2) = if sg > 0 { ("Some(CounterClockwise)", "Some(Clockwise)") } else { ("Some(Clockwise)", "Some(CounterClockwise)") };
                judge(o, case, "winding_order", "LineString(ring)", e1, call(|| wo_name(g.winding_order())));
                judge(o, case, "winding_order", "LineString(ring)/reversed", e2, call(|| wo_name(rv.winding_order())));
                judge(o, case, "winding_order", "LineString(ring)/rotated", e1, call(|| wo_name(rot.winding_order())));
                // the same ring written from its lexicographically least vertex (the pivot of winding_order) with the closing
                // coordinate repeated: the extra copies add no point and no area
                {
                    let open = &g.0[..g.0.len() - 1];
                    let li = (0..open.len()).min_by(|&a, &b| (open[a].x, open[a].y).partial_cmp(&(open[b].x, open[b].y)).unwrap()).unwrap();
                    let mut lf = open.to_vec();
                    lf.rotate_left(li);
                    let f = lf[0];
                    let mut v1 = lf.clone();
                    v1.extend([f, f]);
                    let mut v2 = vec![f];
                    v2.extend(lf.iter().cloned());
                    v2.extend([f, f, f]);
                    let (r1, r2) = (LineString::new(v1), LineString::new(v2));
                    judge(o, case, "winding_order", "LineString(ring)/least_first_closing_repeated", e1, call(|| wo_name(r1.winding_order())));
                    judge(o, case, "winding_order", "LineString(ring)/least_first_repeated_at_both_ends", e1, call(|| wo_name(r2.winding_order())));
                }
                judge(o, case, "winding_order", "LineString(ring).is_ccw", bname(sg > 0), call(|| bname(g.is_ccw())));
                judge(o, case, "winding_order", "LineString(ring).is_cw", bname(sg < 0), call(|| bname(g.is_cw())));
                o.st.add(if sg > 0 { "ring:ccw" } else { "ring:cw" });
            }
            Some(_) => panic!("oracle bug: simple ring with zero area"),
            None => o.sh.inconclusive("area_overflow"),
        }
    }
    let poly = Polygon::new(gr[0].clone(), gr[1..].to_vec());
    judge(o, case, "polygon_coordinate_position", "Polygon", loc.name(), call(|| pos_name(poly.coordinate_position(&q))));
    judge(o, case, "polygon_coordinate_position", "Polygon.intersects(Coord)", bname(loc != Loc3::E), call(|| bname(poly.intersects(&q))));
    judge(o, case, "polygon_coordinate_position", "Polygon.contains(Coord)", bname(loc == Loc3::I), call(|| bname(poly.contains(&q))));
    judge(o, case, "polygon_coordinate_position", "Polygon.contains(Point)", bname(loc == Loc3::I), call(|| bname(poly.contains(&Point(q)))));
    let g = Geometry::Polygon(poly);
    judge(o, case, "polygon_coordinate_position", "Geometry::Polygon", loc.name(), call(|| pos_name(g.coordinate_position(&q))));
}

// ------------------------------------------------------------------------------------------------
// one case
// ------------------------------------------------------------------------------------------------

/// the statement's integer domain: "whenever the intermediate products fit the type". Input-defined rule:
/// with D the largest coordinate difference in the case (x and y pooled separately), every difference is
/// <= D, every product <= D^2 and every sum of two products <= 2 D^2; demand 2 D^2 <= MAX. For the dot
/// product the operands are the components and sums of two components (D = 2 max|component|).
fn int_in_domain(case: &Case) -> bool {
    let max = case.ty.int_max();
    if case.i.iter().any(|p| (p.0 as i128).abs() > max || (p.1 as i128).abs() > max) {
        return false;
    }
    let d: i128 = if case.shape == Shape::Dot {
        2 * case.i.iter().map(|p| (p.0 as i128).abs().max((p.1 as i128).abs())).max().unwrap_or(0)
    } else {
        let xs = case.i.iter().map(|p| p.0 as i128);
        let ys = case.i.iter().map(|p| p.1 as i128);
        let dx = xs.clone().max().unwrap_or(0) - xs.min().unwrap_or(0);
        let dy = ys.clone().max().unwrap_or(0) - ys.min().unwrap_or(0);
        dx.max(dy)
    };
    2 * d * d <= max
}
/// float domain: finite, and every set bit of every coordinate within binary exponents [-400, 462) so that no
/// product or error term of the adaptive predicate can underflow or overflow
fn float_in_domain(case: &Case) -> bool {
    match span(&case.flat()) {
        Some((lo, hi)) => (lo >= -400 && hi <= 462) || (lo == 0 && hi == 0),
        None => false,
    }
}

fn checks_for<T: Sc>(o: &mut Out, case: &Case, ex: &[XP], worst: &mut u8) -> Option<SegK> {
    let p: Vec<Coord<T>> = coords(case);
    match case.shape {
        Shape::Triple => check_triple(o, case, &p, ex, false, worst),
        Shape::Dot => check_dot(o, case, &p, ex),
        Shape::SegSeg => return Some(check_segseg(o, case, &p, ex, worst)),
        Shape::TriPt => check_tripoint(o, case, &p, ex, worst),
        Shape::PolyPt => check_polypoint(o, case, &p, ex, worst),
        Shape::Grid5 => unreachable!(),
    }
    None
}
fn float_checks_for<T: Sc + GeoFloat>(o: &mut Out, case: &Case, ex: &[XP], k: Option<SegK>) {
    let p: Vec<Coord<T>> = coords(case);
    match case.shape {
        Shape::Triple => check_triple_float(o, case, &p, ex, false),
        Shape::SegSeg => check_segseg_float(o, case, &p, ex, k.unwrap()),
        _ => {}
    }
}
fn light_for<T: Sc>(o: &mut Out, case: &Case, ex: &[XP], worst: &mut u8) {
    let p: Vec<Coord<T>> = coords(case);
    check_triple(o, case, &p, ex, true, worst);
}
fn light_float_for<T: Sc + GeoFloat>(o: &mut Out, case: &Case, ex: &[XP]) {
    let p: Vec<Coord<T>> = coords(case);
    check_triple_float(o, case, &p, ex, true);
}

/// the 25 members of the 5x5 ulp (unit) neighbourhood of the third point
fn grid5_members(case: &Case) -> Vec<Case> {
    let mut out = vec![];
    for dx in -2..=2 {
        for dy in -2..=2 {
            let mut c = case.clone();
            c.shape = Shape::Triple;
            if case.ty.is_float() {
                c.f[2] = (ustep(case.ty, case.f[2].0, dx), ustep(case.ty, case.f[2].1, dy));
            } else {
                c.i[2] = (case.i[2].0 + dx as i64, case.i[2].1 + dy as i64);
            }
            out.push(c);
        }
    }
    out
}

fn run_case(o: &mut Out, case: &Case) {
    if !case.well_formed() {
        panic!("harness bug: malformed case {:?}", case);
    }
    if case.shape == Shape::Grid5 {
        let mut any = false;
        for m in grid5_members(case) {
            let in_dom = if m.ty.is_float() { float_in_domain(&m) && span_bits(&m.flat()).map_or(false, |b| b <= ORC_BITS) } else { int_in_domain(&m) };
            if !in_dom {
                o.st.add("grid5_member_skipped_out_of_domain");
                continue;
            }
            let ex = m.exact().unwrap();
            let mut worst = 2u8;
            match m.ty {
                Ty::F64 => {
                    light_for::<f64>(o, &m, &ex, &mut worst);
                    light_float_for::<f64>(o, &m, &ex)
                }
                Ty::F32 => {
                    light_for::<f32>(o, &m, &ex, &mut worst);
                    light_float_for::<f32>(o, &m, &ex)
                }
                Ty::I16 => light_for::<i16>(o, &m, &ex, &mut worst),
                Ty::I32 => light_for::<i32>(o, &m, &ex, &mut worst),
                Ty::I64 => light_for::<i64>(o, &m, &ex, &mut worst),
            }
            any = true;
            o.st.add("grid5_members");
        }
        if any {
            o.st.add("cond:exhaustive_5x5_neighbourhood");
            o.sh.nontrivial(case.digest());
        }
        return;
    }
    let in_dom = if case.ty.is_float() { float_in_domain(case) } else { int_in_domain(case) };
    if !in_dom {
        // outside the stated domain: no verdict
        o.st.add("observe_only:out_of_domain");
        return;
    }
    let ex = match case.exact() {
        Some(e) => e,
        None => {
            o.sh.inconclusive("oracle:coordinates_exceed_60_bits_after_common_scaling");
            return;
        }
    };
    let mut worst = 2u8;
    match case.ty {
        Ty::F64 => {
            let k = checks_for::<f64>(o, case, &ex, &mut worst);
            float_checks_for::<f64>(o, case, &ex, k)
        }
        Ty::F32 => {
            let k = checks_for::<f32>(o, case, &ex, &mut worst);
            float_checks_for::<f32>(o, case, &ex, k)
        }
        Ty::I16 => {
            checks_for::<i16>(o, case, &ex, &mut worst);
        }
        Ty::I32 => {
            checks_for::<i32>(o, case, &ex, &mut worst);
        }
        Ty::I64 => {
            checks_for::<i64>(o, case, &ex, &mut worst);
        }
    }
    if case.shape == Shape::Dot {
        let d = ex[0].0 * ex[1].0 + ex[0].1 * ex[1].1;
        let m = (ex[0].0 * ex[1].0).abs() + (ex[0].1 * ex[1].1).abs();
        worst = if d == 0 { 0 } else if d.abs() <= (m >> 48) { 1 } else { 2 };
    }
    o.st.add(&format!("cond:{}", cond_name(worst)));
    if worst < 2 {
        o.sh.nontrivial(case.digest());
    }
}

/// The recorded deviation of the pinned tree (known finding `orient2d_underflow`): all products underflow.
fn underflow_witness(sh: &mut Shard, verbose: bool) {
    let pts = [(0.0f64, 0.0f64), (1e-200, 1e-200), (1e-200, 1.0000001e-200)];
    let case = Case { ty: Ty::F64, shape: Shape::Triple, stratum: "underflow_witness", f: pts.to_vec(), i: vec![], rings: vec![] };
    let ex = case.exact().expect("witness fits the oracle");
    let exp = sgn_name(x_orient(ex[0], ex[1], ex[2]));
    let c = |p: (f64, f64)| Coord { x: p.0, y: p.1 };
    let got = call(|| ori_name(RobustKernel::orient2d(c(pts[0]), c(pts[1]), c(pts[2]))));
    sh.eval(1);
    sh.class("underflow_witness_replayed");
    if verbose {
        println!("  orient2d.underflow_witness: expected {exp} got {got:?}");
    }
    match got {
        Ok(g) if g == exp => sh.class("underflow_witness_now_correct"),
        Ok(g) => {
            let class = if g == "Collinear" { "orient2d_underflow" } else { "-" };
            let mut d = case.detail("orient2d.underflow_witness", exp, g);
            d["witness"] = json!(true);
            sh.violation(&format!("orient2d.underflow_witness|RobustKernel|{class}"), d)
        }
        Err(e) => sh.violation("orient2d.underflow_witness.panic|RobustKernel|-", case.detail("orient2d.underflow_witness", exp, &e)),
    }
}

// ------------------------------------------------------------------------------------------------
// generator helpers
// ------------------------------------------------------------------------------------------------

fn step64(v: f64, k: i32) -> f64 {
    if v == 0.0 || !v.is_finite() || k == 0 {
        return v;
    }
    let b = v.to_bits();
    let mag = (b & 0x7fff_ffff_ffff_ffff) as i64;
    let neg = (b >> 63) != 0;
    let m2 = if neg { mag - k as i64 } else { mag + k as i64 };
    if m2 <= 0 || m2 >= 0x7ff0_0000_0000_0000 {
        return v;
    }
    f64::from_bits((m2 as u64) | if neg { 1u64 << 63 } else { 0 })
}
fn step32(v: f32, k: i32) -> f32 {
    if v == 0.0 || !v.is_finite() || k == 0 {
        return v;
    }
    let b = v.to_bits();
    let mag = (b & 0x7fff_ffff) as i64;
    let neg = (b >> 31) != 0;
    let m2 = if neg { mag - k as i64 } else { mag + k as i64 };
    if m2 <= 0 || m2 >= 0x7f80_0000 {
        return v;
    }
    f32::from_bits((m2 as u32) | if neg { 1u32 << 31 } else { 0 })
}
/// move v by k units in the last place of its float type (towards +inf for k > 0); zero stays zero
fn ustep(ty: Ty, v: f64, k: i32) -> f64 {
    if ty == Ty::F32 {
        step32(v as f32, k) as f64
    } else {
        step64(v, k)
    }
}
/// round to the float type of the case
fn rnd(ty: Ty, v: f64) -> f64 {
    if ty == Ty::F32 {
        v as f32 as f64
    } else {
        v
    }
}
fn pow2(e: i32) -> f64 {
    debug_assert!((-1022..=1023).contains(&e));
    f64::from_bits(((1023 + e) as u64) << 52)
}
fn flat_of(f: &[(f64, f64)]) -> Vec<f64> {
    f.iter().flat_map(|p| [p.0, p.1]).collect()
}
fn fits(f: &[(f64, f64)]) -> bool {
    span_bits(&flat_of(f)).map_or(false, |b| b <= GEN_BITS)
}
fn get(f: &[(f64, f64)], idx: usize, axis: usize) -> f64 {
    if axis == 0 {
        f[idx].0
    } else {
        f[idx].1
    }
}
fn set(f: &mut [(f64, f64)], idx: usize, axis: usize, v: f64) {
    if axis == 0 {
        f[idx].0 = v
    } else {
        f[idx].1 = v
    }
}
/// perturb one coordinate by k ulps; if that would exceed the oracle's bit budget (coordinate much smaller than
/// the others), by k units of the coarsest admissible power of two instead; give up (no change) if neither fits
fn perturb_fit(ty: Ty, f: &mut [(f64, f64)], idx: usize, axis: usize, k: i32) -> bool {
    let orig = get(f, idx, axis);
    let cand = ustep(ty, orig, k);
    set(f, idx, axis, cand);
    if cand != orig && fits(f) {
        return true;
    }
    set(f, idx, axis, orig);
    if let Some((lo, hi)) = span(&flat_of(f)) {
        let floor = lo.max(hi - GEN_BITS + 1);
        if (-1000..1000).contains(&floor) {
            let cand = rnd(ty, orig + k as f64 * pow2(floor));
            set(f, idx, axis, cand);
            if cand != orig && cand.is_finite() && fits(f) {
                return true;
            }
        }
    }
    set(f, idx, axis, orig);
    false
}
/// round every coordinate to a multiple of 2^(top-56) so that the case fits the oracle
fn force_fit(ty: Ty, f: &mut [(f64, f64)]) {
    if fits(f) {
        return;
    }
    if let Some((_, hi)) = span(&flat_of(f)) {
        let u = pow2(hi - 56);
        for p in f.iter_mut() {
            p.0 = rnd(ty, (p.0 / u).round() * u);
            p.1 = rnd(ty, (p.1 / u).round() * u);
        }
    }
}
/// multiply by 2^e (exact: the generator keeps everything far from the exponent limits)
fn scale_pow2(f: &mut [(f64, f64)], e: i32) {
    let s = pow2(e);
    for p in f.iter_mut() {
        p.0 *= s;
        p.1 *= s;
    }
}

fn ilog2(h: i64) -> u32 {
    63 - (h.max(1) as u64).leading_zeros()
}
/// uniform in (-2^bits, 2^bits)
fn rs(r: &mut Rng, bits: u32) -> i64 {
    if bits == 0 {
        return 0;
    }
    let m = (r.next() >> (64 - bits.min(62))) as i64;
    if r.chance(1, 2) {
        -m
    } else {
        m
    }
}
/// a small nonzero offset
fn small(r: &mut Rng, k: i64) -> i64 {
    let v = r.range(1, k);
    if r.chance(1, 2) {
        -v
    } else {
        v
    }
}

/// a family of exactly collinear lattice points a + t d, |t| < 2^tb, all coordinates below 2^hb in magnitude
struct Fam {
    a: (i64, i64),
    d: (i64, i64),
    tb: u32,
}
impl Fam {
    fn new(r: &mut Rng, hb: u32) -> Fam {
        let h = r.range(1, (hb as i64 - 2).max(1)) as u32;
        let (mut dx, mut dy) = (rs(r, h), rs(r, h));
        match r.below(10) {
            0 => dx = 0,
            1 => dy = 0,
            2 => dy = dx,
            _ => {}
        }
        if dx == 0 && dy == 0 {
            dx = 1;
        }
        Fam { a: (rs(r, hb - 1), rs(r, hb - 1)), d: (dx, dy), tb: (hb - 1).saturating_sub(h) }
    }
    fn pt(&self, t: i64) -> (i64, i64) {
        (self.a.0 + t * self.d.0, self.a.1 + t * self.d.1)
    }
    fn t(&self, r: &mut Rng) -> i64 {
        rs(r, self.tb)
    }
    fn tmax(&self) -> i64 {
        (1i64 << self.tb) - 1
    }
    /// a parameter chosen relative to the segment [t0, t1]: an end, strictly between, just beyond, anywhere
    fn t_rel(&self, r: &mut Rng, t0: i64, t1: i64) -> i64 {
        let (lo, hi) = (t0.min(t1), t0.max(t1));
        let m = self.tmax();
        let t = match r.below(10) {
            0 => t0,
            1 => t1,
            2..=5 => r.range(lo, hi),
            6 => lo - 1,
            7 => hi + 1,
            _ => self.t(r),
        };
        t.clamp(-m, m)
    }
}
fn within(p: (i64, i64), h: i64) -> bool {
    p.0.abs() <= h && p.1.abs() <= h
}
/// magnitude (in bits) of the integer cores of a float case: mostly the largest exactly representable one
fn pick_hb(r: &mut Rng, ty: Ty) -> u32 {
    let top = if ty == Ty::F32 { 24 } else { 52 };
    if r.chance(2, 3) {
        top
    } else {
        r.range(8, top as i64) as u32
    }
}
/// half-range of the integer types such that 2 (2H+8)^2 <= MAX
fn int_h(ty: Ty) -> i64 {
    match ty {
        Ty::I16 => 59,
        Ty::I32 => (1 << 14) - 8,
        _ => (1i64 << 30) - 8,
    }
}

// ------------------------------------------------------------------------------------------------
// integer cores (shared by the float and the integer scalar types)
// ------------------------------------------------------------------------------------------------

struct Core {
    shape: Shape,
    stratum: &'static str,
    pts: Vec<(i64, i64)>,
    rings: Vec<usize>,
    /// indices of the points that may be perturbed by ulps / units afterwards
    pert: Vec<usize>,
    /// how many coordinate perturbations to apply
    npert: usize,
}

fn npert_pick(r: &mut Rng) -> usize {
    match r.below(20) {
        0..=1 => 0,
        2..=10 => 1,
        11..=16 => 2,
        _ => 3,
    }
}

fn core_triple(r: &mut Rng, hb: u32) -> Core {
    let f = Fam::new(r, hb);
    let (t0, t1) = (f.t(r), f.t(r));
    let t2 = f.t_rel(r, t0, t1);
    let mut pts = vec![f.pt(t0), f.pt(t1), f.pt(t2)];
    let h = 1i64 << hb;
    let (stratum, npert, shape) = match r.below(20) {
        0..=1 => ("collinear_exact", 0, Shape::Triple),
        2..=11 => ("collinear_ulp", npert_pick(r).max(1), Shape::Triple),
        12..=14 => {
            // off the line by a few lattice units (exact integers, tiny determinant against huge products)
            let c = (pts[2].0 + r.range(-2, 2), pts[2].1 + r.range(-2, 2));
            if within(c, h) {
                pts[2] = c;
            }
            ("near_collinear_units", if r.chance(1, 2) { 1 } else { 0 }, Shape::Triple)
        }
        15..=16 => ("grid5_around_collinear", 0, Shape::Grid5),
        17 => {
            // coincident points
            match r.below(3) {
                0 => pts[1] = pts[0],
                1 => pts[2] = pts[0],
                _ => {
                    pts[1] = pts[0];
                    pts[2] = pts[0]
                }
            }
            ("coincident_points", if r.chance(1, 2) { 1 } else { 0 }, Shape::Triple)
        }
        _ => {
            pts = vec![(rs(r, hb), rs(r, hb)), (rs(r, hb), rs(r, hb)), (rs(r, hb), rs(r, hb))];
            ("random_control", 0, Shape::Triple)
        }
    };
    r.shuffle(&mut pts);
    Core { shape, stratum, pts, rings: vec![], pert: vec![0, 1, 2], npert }
}

fn core_dot(r: &mut Rng, hb: u32) -> Core {
    // u = s (p, q), v = t (-q, p): exactly perpendicular
    let h = r.range(1, (hb as i64 - 2).max(1)) as u32;
    let (p, q) = (rs(r, h), rs(r, h));
    let tb = (hb - 1).saturating_sub(h);
    let (s, t) = (rs(r, tb).max(1), rs(r, tb).max(1));
    let mut pts = vec![(s * p, s * q), (-t * q, t * p)];
    let (stratum, npert) = match r.below(10) {
        0..=1 => ("dot_perpendicular_exact", 0),
        2..=7 => ("dot_perpendicular_ulp", npert_pick(r).max(1)),
        8 => {
            pts[1] = (pts[1].0 + r.range(-2, 2), pts[1].1 + r.range(-2, 2));
            ("dot_near_perpendicular_units", 0)
        }
        _ => {
            pts = vec![(rs(r, hb - 1), rs(r, hb - 1)), (rs(r, hb - 1), rs(r, hb - 1))];
            ("dot_random_control", 0)
        }
    };
    Core { shape: Shape::Dot, stratum, pts, rings: vec![], pert: vec![0, 1], npert }
}

fn core_segseg(r: &mut Rng, hb: u32) -> Core {
    let f = Fam::new(r, hb);
    let h = 1i64 << hb;
    let (t0, t1) = (f.t(r), f.t(r));
    let (a, b) = (f.pt(t0), f.pt(t1));
    let rp = |r: &mut Rng| (rs(r, hb), rs(r, hb));
    let (stratum, c, d, pert, npert): (&'static str, (i64, i64), (i64, i64), Vec<usize>, usize) = match r.below(16) {
        0..=3 => {
            // four points on one line: overlap / touch / disjoint decided by coordinate comparisons
            let (t2, t3) = (f.t_rel(r, t0, t1), f.t_rel(r, t0, t1));
            ("segseg_collinear", f.pt(t2), f.pt(t3), vec![0, 1, 2, 3], if r.chance(1, 2) { 0 } else { 1 })
        }
        4..=6 => {
            // an end point of cd on (or an ulp beside) ab
            let c = f.pt(f.t_rel(r, t0, t1));
            ("segseg_endpoint_touch", c, rp(r), vec![2, 2, 0, 1], if r.chance(1, 3) { 0 } else { 1 })
        }
        7..=9 => {
            // nearly parallel, nearly coincident
            let (mut c, mut d) = (f.pt(f.t_rel(r, t0, t1)), f.pt(f.t_rel(r, t0, t1)));
            let (c2, d2) = ((c.0 + r.range(-2, 2), c.1 + r.range(-2, 2)), (d.0 + r.range(-2, 2), d.1 + r.range(-2, 2)));
            if within(c2, h) && within(d2, h) {
                c = c2;
                d = d2;
            }
            ("segseg_near_parallel", c, d, vec![0, 1, 2, 3], npert_pick(r))
        }
        10..=12 => {
            // cd passes through (or an ulp beside) a point m of line ab that is at / next to an end of ab
            let m = f.pt(f.t_rel(r, t0, t1));
            let wb = r.range(1, hb as i64 - 2) as u32;
            let w = (rs(r, wb), rs(r, wb));
            let (k1, k2) = (r.range(0, 3), r.range(0, 3));
            let (c, d) = ((m.0 + k1 * w.0, m.1 + k1 * w.1), (m.0 - k2 * w.0, m.1 - k2 * w.1));
            if within(c, h) && within(d, h) {
                ("segseg_cross_at_end", c, d, vec![2, 3, 0, 1], npert_pick(r))
            } else {
                ("segseg_cross_at_end", m, rp(r), vec![2, 3, 0, 1], npert_pick(r))
            }
        }
        13 => {
            // point-like second segment on / beside ab
            let c = f.pt(f.t_rel(r, t0, t1));
            ("segseg_point_like", c, c, vec![0, 1], if r.chance(1, 2) { 0 } else { 1 })
        }
        _ => ("segseg_random_control", rp(r), rp(r), vec![], 0),
    };
    let mut pts = vec![a, b, c, d];
    if r.chance(1, 2) {
        pts.swap(0, 2);
        pts.swap(1, 3);
    }
    Core { shape: Shape::SegSeg, stratum, pts, rings: vec![], pert, npert }
}

fn core_tripoint(r: &mut Rng, hb: u32) -> Core {
    let f = Fam::new(r, hb);
    let h = 1i64 << hb;
    let (t0, t1) = (f.t(r), f.t(r));
    let (a, b) = (f.pt(t0), f.pt(t1));
    let sliver = r.chance(1, 2);
    let c = if sliver {
        let m = f.pt(f.t_rel(r, t0, t1));
        let c = (m.0 + small(r, 3), m.1 + small(r, 3));
        if within(c, h) {
            c
        } else {
            m
        }
    } else {
        (rs(r, hb), rs(r, hb))
    };
    let (q, stratum, npert): ((i64, i64), &'static str, usize) = match r.below(12) {
        0..=4 => (f.pt(f.t_rel(r, t0, t1)), if sliver { "tri_sliver_query_on_edge_line" } else { "tri_query_on_edge_line" }, r.below(3) as usize),
        5..=6 => (*r.pick(&[a, b, c]), "tri_query_at_vertex", r.below(2) as usize),
        7..=8 => {
            // near the edge from c: lattice point closest to c + s (x - c)
            let x = if r.chance(1, 2) { a } else { b };
            let s = r.f01();
            let q = (c.0 + ((x.0 - c.0) as f64 * s).round() as i64, c.1 + ((x.1 - c.1) as f64 * s).round() as i64);
            (q, "tri_query_near_other_edge", r.below(2) as usize)
        }
        9 => {
            let g = ((a.0 as i128 + b.0 as i128 + c.0 as i128) / 3, (a.1 as i128 + b.1 as i128 + c.1 as i128) / 3);
            ((g.0 as i64, g.1 as i64), "tri_query_centroid", 0)
        }
        _ => ((rs(r, hb), rs(r, hb)), "tri_query_random", 0),
    };
    let mut v = vec![a, b, c];
    r.shuffle(&mut v);
    v.push(q);
    Core { shape: Shape::TriPt, stratum, pts: v, rings: vec![], pert: vec![3, 3, 0, 1, 2], npert }
}

/// a valid small-lattice polygon mapped by an exact integer affine map to coordinates of up to hb bits
fn core_polypoint(r: &mut Rng, hb: u32) -> Option<Core> {
    let g = r.range(3, 8);
    let holes = *r.pick(&[0usize, 0, 0, 1, 1, 2]);
    let ig = gen::gen_polygon(r, g, holes, false)?;
    let rings = match &ig {
        IG::Polygon(rings) => rings.clone(),
        _ => return None,
    };
    // the affine map (i, j) -> (A i + B j + ox, C i + D j + oy), det != 0
    let (kind, m): (&'static str, [i64; 4]) = if hb < 10 {
        ("identity", [1, 0, 0, 1])
    } else {
        let cb = hb - 6;
        let mut pick = None;
        for _ in 0..8 {
            let (k, m) = match r.below(10) {
                0..=2 => ("general", [rs(r, cb), rs(r, cb), rs(r, cb), rs(r, cb)]),
                3..=5 => {
                    // nearly singular: the image is a sliver
                    let (a, b) = (rs(r, cb - 3), rs(r, cb - 3));
                    let k = small(r, 7);
                    ("near_singular", [a, b, a * k + r.range(-2, 2), b * k + r.range(-2, 2)])
                }
                6..=7 => ("axis_scaling", [rs(r, cb), 0, 0, rs(r, cb)]),
                _ => ("shear_keeps_horizontals", [rs(r, cb), rs(r, cb), 0, rs(r, cb)]),
            };
            if (m[0] as i128) * (m[3] as i128) - (m[1] as i128) * (m[2] as i128) != 0 {
                pick = Some((k, m));
                break;
            }
        }
        pick?
    };
    let (ox, oy) = if hb < 10 { (rs(r, hb - 1), rs(r, hb - 1)) } else { (rs(r, hb - 1), rs(r, hb - 1)) };
    let map = |p: (i64, i64)| (m[0] * p.0 + m[1] * p.1 + ox, m[2] * p.0 + m[3] * p.1 + oy);
    let mut pts = vec![];
    let mut lens = vec![];
    for ring in &rings {
        let open = &ring[..ring.len() - 1];
        lens.push(open.len());
        pts.extend(open.iter().map(|&p| map(p)));
    }
    let nv = pts.len();
    // the query
    let (q, qk): ((i64, i64), &'static str) = match r.below(10) {
        0..=5 => (map(gen::interesting_point(r, &ig, g)), "lattice_query"),
        6..=7 => {
            // a point next to a random edge: v_i + s (v_j - v_i) rounded to the lattice
            let ri = r.below(lens.len() as u64) as usize;
            let at: usize = lens[..ri].iter().sum();
            let i = r.below(lens[ri] as u64) as usize;
            let (u, v) = (pts[at + i], pts[at + (i + 1) % lens[ri]]);
            let s = r.f01();
            ((u.0 + ((v.0 - u.0) as f64 * s).round() as i64, u.1 + ((v.1 - u.1) as f64 * s).round() as i64), "edge_param_query")
        }
        8 => {
            // same y as a vertex, x elsewhere: the ray passes through a vertex
            let v = pts[r.below(nv as u64) as usize];
            let w = pts[r.below(nv as u64) as usize];
            ((w.0 + r.range(-1, 1), v.1), "vertex_level_query")
        }
        _ => (map((r.range(-1, g + 1), r.range(-1, g + 1))), "random_lattice_query"),
    };
    pts.push(q);
    let stratum: &'static str = match (kind, qk) {
        ("identity", _) => "poly_identity",
        ("general", "lattice_query") => "poly_general_lattice_query",
        ("general", _) => "poly_general_other_query",
        ("near_singular", "lattice_query") => "poly_sliver_lattice_query",
        ("near_singular", _) => "poly_sliver_other_query",
        ("axis_scaling", "lattice_query") => "poly_axis_lattice_query",
        ("axis_scaling", _) => "poly_axis_other_query",
        (_, "lattice_query") => "poly_shear_lattice_query",
        _ => "poly_shear_other_query",
    };
    // perturbation candidates: the query first (twice as likely), then vertices
    let mut pert = vec![nv, nv];
    if r.chance(1, 3) {
        pert.push(r.below(nv as u64) as usize);
        pert.push(r.below(nv as u64) as usize);
    }
    let npert = match r.below(10) {
        0..=3 => 0,
        4..=7 => 1,
        _ => 2,
    };
    Some(Core { shape: Shape::PolyPt, stratum, pts, rings: lens, pert, npert })
}

fn core_any(r: &mut Rng, hb: u32) -> Core {
    loop {
        let c = match r.below(20) {
            0..=6 => core_triple(r, hb),
            7 => core_dot(r, hb),
            8..=11 => core_segseg(r, hb),
            12..=15 => core_tripoint(r, hb),
            _ => match core_polypoint(r, hb) {
                Some(c) => c,
                None => continue,
            },
        };
        return c;
    }
}

// ------------------------------------------------------------------------------------------------
// float-native families
// ------------------------------------------------------------------------------------------------

/// a value with a full random mantissa of the float type, |v| in [2^e, 2^(e+1)), random sign
fn rand_full(r: &mut Rng, ty: Ty, e: i32) -> f64 {
    let mb = ty.mb();
    let m = (1u64 << (mb - 1)) | (r.next() >> (64 - (mb - 1)));
    let v = m as f64 * pow2(e - (mb - 1));
    if r.chance(1, 2) {
        -v
    } else {
        v
    }
}
fn rand_pt(r: &mut Rng, ty: Ty, e0: i32) -> (f64, f64) {
    let j = [0, 0, 0, 1, 2, 4];
    let (jx, jy) = (*r.pick(&j), *r.pick(&j));
    (rand_full(r, ty, e0 - jx), rand_full(r, ty, e0 - jy))
}
/// a + t (b - a) evaluated in the float type (every operation rounded)
fn lerp(ty: Ty, a: (f64, f64), b: (f64, f64), t: f64) -> (f64, f64) {
    let f = |a: f64, b: f64| rnd(ty, a + rnd(ty, t * rnd(ty, b - a)));
    (f(a.0, b.0), f(a.1, b.1))
}
fn rand_t(r: &mut Rng) -> f64 {
    match r.below(8) {
        0 => 0.0,
        1 => 1.0,
        2 => 0.5,
        3 => r.f01() * 1.5 - 0.25,
        _ => r.f01(),
    }
}
/// quantise point idx so that the whole case fits the oracle (used when a computed point is much smaller than the rest)
fn fit_point(ty: Ty, f: &mut [(f64, f64)], idx: usize) {
    if fits(f) {
        return;
    }
    let others: Vec<f64> = f.iter().enumerate().filter(|(i, _)| *i != idx).flat_map(|(_, p)| [p.0, p.1]).collect();
    if let Some((lo, hi)) = span(&others) {
        let u = pow2(lo.max(hi - GEN_BITS + 2));
        f[idx].0 = rnd(ty, (f[idx].0 / u).round() * u);
        f[idx].1 = rnd(ty, (f[idx].1 / u).round() * u);
    }
    if !fits(f) {
        force_fit(ty, f);
    }
}

fn native_case(r: &mut Rng, ty: Ty) -> Case {
    let mb = ty.mb();
    let e0 = if ty == Ty::F32 { r.range(-10, 20) as i32 } else { r.range(-30, 40) as i32 };
    let mut rings = vec![];
    let (shape, stratum, mut f): (Shape, &'static str, Vec<(f64, f64)>) = match r.below(20) {
        0..=3 => {
            // Shewchuk's classic pattern: points next to (0.5, 0.5) in steps of one ulp against far anchors on y = x
            let u = pow2(-mb);
            let nb = *r.pick(&[4u32, 6, 8]);
            let (i, j) = (r.below(1 << nb) as f64, r.below(1 << nb) as f64);
            let q = (0.5 + i * u, 0.5 + j * u);
            let (p, s) = if r.chance(1, 2) { (12.0, 24.0) } else { (r.range(1, 31) as f64, r.range(1, 31) as f64) };
            let mut v = vec![q, (p, p), (s, s)];
            r.shuffle(&mut v);
            (Shape::Triple, "shewchuk_half_plus_ulps", v)
        }
        4..=8 => {
            // a query point computed (with rounding) on a long segment with full mantissas, then moved by 0..2 ulps
            let (a, b) = (rand_pt(r, ty, e0), rand_pt(r, ty, e0));
            let c = lerp(ty, a, b, rand_t(r));
            let mut v = vec![a, b, c];
            fit_point(ty, &mut v, 2);
            for axis in 0..2 {
                let k = r.range(-2, 2) as i32;
                if k != 0 {
                    perturb_fit(ty, &mut v, 2, axis, k);
                }
            }
            let shape = if r.chance(1, 8) { Shape::Grid5 } else { Shape::Triple };
            let perm = r.below(3) as usize;
            v.rotate_left(if shape == Shape::Grid5 { 0 } else { perm });
            (shape, "point_rounded_onto_segment", v)
        }
        9..=11 => {
            // mixed exponents: short mantissas at widely different binary exponents, exactly collinear by construction
            let smax = (mb - 13).max(4) as i64;
            let w = if ty == Ty::F32 { 6 } else { 12 };
            let mk = |r: &mut Rng| (rs(r, w) as i128) << (r.range(0, smax) as u32);
            let (ax, ay, dx, dy) = (mk(r), mk(r), mk(r) >> 2, mk(r) >> 2);
            let (s, t) = (rs(r, 6) as i128, rs(r, 6) as i128);
            let trim = |v: i128| -> f64 {
                // keep the top `mb` significant bits (exact when the value already fits)
                let bl = bitlen(v);
                let v2 = if bl > mb { (v >> (bl - mb)) << (bl - mb) } else { v };
                v2 as f64
            };
            let v = vec![(trim(ax), trim(ay)), (trim(ax + s * dx), trim(ay + s * dy)), (trim(ax + t * dx), trim(ay + t * dy))];
            let mut v: Vec<(f64, f64)> = v.into_iter().map(|p| (rnd(ty, p.0), rnd(ty, p.1))).collect();
            force_fit(ty, &mut v);
            if r.chance(2, 3) {
                let (idx, axis, k) = (r.below(3) as usize, r.below(2) as usize, small(r, 2) as i32);
                perturb_fit(ty, &mut v, idx, axis, k);
            }
            r.shuffle(&mut v);
            (Shape::Triple, "mixed_exponents", v)
        }
        12..=14 => {
            // nearly parallel / nearly touching segments with full mantissas
            let (a, b) = (rand_pt(r, ty, e0), rand_pt(r, ty, e0));
            let c = lerp(ty, a, b, rand_t(r));
            let d = if r.chance(1, 2) { lerp(ty, a, b, rand_t(r)) } else { rand_pt(r, ty, e0) };
            let mut v = vec![a, b, c, d];
            fit_point(ty, &mut v, 2);
            fit_point(ty, &mut v, 3);
            for idx in 2..4 {
                for axis in 0..2 {
                    let k = r.range(-1, 1) as i32;
                    if k != 0 {
                        perturb_fit(ty, &mut v, idx, axis, k);
                    }
                }
            }
            if r.chance(1, 2) {
                v.swap(0, 2);
                v.swap(1, 3);
            }
            (Shape::SegSeg, "segseg_rounded_onto_segment", v)
        }
        15..=17 => {
            // triangle with full mantissas (fat, or a sliver whose apex was rounded onto the base), query rounded onto an edge
            let (a, b) = (rand_pt(r, ty, e0), rand_pt(r, ty, e0));
            let sliver = r.chance(1, 2);
            let c = if sliver { lerp(ty, a, b, r.f01()) } else { rand_pt(r, ty, e0) };
            let mut v = vec![a, b, c, (0.0, 0.0)];
            v[3] = v[0];
            fit_point(ty, &mut v, 2);
            if sliver {
                let (axis, k) = (r.below(2) as usize, small(r, 3) as i32);
                perturb_fit(ty, &mut v, 2, axis, k);
            }
            let e = r.below(3) as usize;
            let q = match r.below(8) {
                0 => v[e],
                1 => ((v[0].0 + v[1].0 + v[2].0) / 3.0, (v[0].1 + v[1].1 + v[2].1) / 3.0),
                _ => lerp(ty, v[e], v[(e + 1) % 3], rand_t(r)),
            };
            v[3] = (rnd(ty, q.0), rnd(ty, q.1));
            fit_point(ty, &mut v, 3);
            for axis in 0..2 {
                let k = r.range(-1, 1) as i32;
                if k != 0 {
                    perturb_fit(ty, &mut v, 3, axis, k);
                }
            }
            (Shape::TriPt, if sliver { "tri_sliver_rounded" } else { "tri_fat_rounded" }, v)
        }
        _ => {
            // a convex-position polygon with full mantissas: vertices on a circle-ish curve (simple by exact check), query rounded onto an edge
            let n = r.range(3, 7) as usize;
            let (cx, cy) = rand_pt(r, ty, e0);
            let rad = pow2(e0) * (0.25 + r.f01());
            let mut ang: Vec<f64> = (0..n).map(|_| r.f01() * std::f64::consts::TAU).collect();
            ang.sort_by(|a, b| a.partial_cmp(b).unwrap());
            let mut v: Vec<(f64, f64)> = ang.iter().map(|t| (rnd(ty, cx + rad * t.cos()), rnd(ty, cy + rad * t.sin()))).collect();
            if r.chance(1, 2) {
                v.reverse();
            }
            let e = r.below(n as u64) as usize;
            let q = lerp(ty, v[e], v[(e + 1) % n], rand_t(r));
            v.push(q);
            force_fit(ty, &mut v);
            for axis in 0..2 {
                let k = r.range(-1, 1) as i32;
                if k != 0 {
                    perturb_fit(ty, &mut v, n, axis, k);
                }
            }
            rings = vec![n];
            (Shape::PolyPt, "poly_convex_rounded", v)
        }
    };
    // shape validity by the exact reference; an invalid polygon falls back to a triple (still judged for orientation)
    let mut case = Case { ty, shape, stratum, f: vec![], i: vec![], rings };
    force_fit(ty, &mut f);
    case.f = f;
    if case.shape == Shape::PolyPt {
        let ok = case.exact().map_or(false, |ex| {
            let (ridx, _) = case.ring_index();
            let xr: Vec<Vec<XP>> = ridx.iter().map(|r| r.iter().map(|&i| ex[i]).collect()).collect();
            x_poly_strict_valid(&xr)
        });
        if !ok {
            let n = case.f.len();
            case.f = vec![case.f[0], case.f[1], case.f[n - 1]];
            case.rings = vec![];
            case.shape = Shape::Triple;
            case.stratum = "poly_convex_rounded_fallback_triple";
        }
    }
    case
}

// ------------------------------------------------------------------------------------------------
// finishing: cores -> float / integer cases
// ------------------------------------------------------------------------------------------------

fn poly_strict_ok(case: &Case) -> bool {
    case.exact().map_or(false, |ex| {
        let (ridx, _) = case.ring_index();
        let xr: Vec<Vec<XP>> = ridx.iter().map(|r| r.iter().map(|&i| ex[i]).collect()).collect();
        x_poly_strict_valid(&xr)
    })
}

fn float_from_core(r: &mut Rng, ty: Ty, core: Core, st: &mut Stats) -> Case {
    let base: Vec<(f64, f64)> = core.pts.iter().map(|p| (p.0 as f64, p.1 as f64)).collect();
    let mut case = Case { ty, shape: core.shape, stratum: core.stratum, f: base.clone(), i: vec![], rings: core.rings.clone() };
    let nq = case.f.len() - 1;
    let mut vertex_moved = false;
    if !core.pert.is_empty() {
        for _ in 0..core.npert {
            let idx = *r.pick(&core.pert);
            let axis = r.below(2) as usize;
            let k = match r.below(8) {
                0 => small(r, 3),
                1 => small(r, 2),
                _ => small(r, 1),
            } as i32;
            if perturb_fit(ty, &mut case.f, idx, axis, k) && case.shape == Shape::PolyPt && idx != nq {
                vertex_moved = true;
            }
        }
    }
    if vertex_moved {
        // moving a vertex by an ulp may break validity: keep it only if the polygon is still strictly valid
        if poly_strict_ok(&case) {
            st.add("path:polygon_vertex_moved_by_ulp");
        } else {
            for i in 0..nq {
                case.f[i] = base[i];
            }
            st.add("path:polygon_vertex_move_reverted");
        }
    }
    // a common power-of-two factor (exact): dyadic fractions and huge magnitudes
    let (lo, hi) = span(&case.flat()).unwrap_or((0, 0));
    if r.chance(2, 5) {
        let e = if ty == Ty::F32 { r.range(-60 - lo as i64, 60 - hi as i64) as i32 } else { r.range(-400 - lo as i64, 400 - (hi - lo) as i64 - lo as i64) as i32 };
        let e = if ty == Ty::F32 { e } else { e.clamp(-400 - lo, 460 - hi) };
        scale_pow2(&mut case.f, e);
        st.add("path:scaled_by_power_of_two");
    }
    case
}

fn int_from_core(r: &mut Rng, ty: Ty, core: Core, st: &mut Stats) -> Case {
    let mut pts = core.pts.clone();
    let nq = pts.len() - 1;
    let mut moved = false;
    if !core.pert.is_empty() {
        for _ in 0..core.npert {
            let idx = *r.pick(&core.pert);
            let k = if r.chance(1, 6) { small(r, 2) } else { small(r, 1) };
            if r.chance(1, 2) {
                pts[idx].0 += k
            } else {
                pts[idx].1 += k
            }
            if core.shape == Shape::PolyPt && idx != nq {
                moved = true;
            }
        }
    }
    let mut case = Case { ty, shape: core.shape, stratum: core.stratum, f: vec![], i: pts, rings: core.rings.clone() };
    if moved {
        if poly_strict_ok(&case) {
            st.add("path:polygon_vertex_moved_by_unit");
        } else {
            for i in 0..nq {
                case.i[i] = core.pts[i];
            }
            st.add("path:polygon_vertex_move_reverted");
        }
    }
    // translate the case anywhere in the type's range (the differences, hence the products, do not change)
    if case.shape != Shape::Dot {
        let max = ty.int_max() as i64;
        let ext = case.i.iter().map(|p| p.0.abs().max(p.1.abs())).max().unwrap_or(0) + 4;
        let room = max - ext;
        if room > 0 {
            let (ox, oy) = match r.below(10) {
                0..=3 => (0, 0),
                4..=6 => (r.range(-room, room), r.range(-room, room)),
                _ => {
                    st.add("path:int_offset_at_type_limit");
                    (if r.chance(1, 2) { room } else { -room }, if r.chance(1, 2) { room } else { -room })
                }
            };
            for p in case.i.iter_mut() {
                p.0 += ox;
                p.1 += oy;
            }
        }
    }
    case
}

fn gen_case(r: &mut Rng, st: &mut Stats) -> Case {
    let ty = match r.below(20) {
        0..=10 => Ty::F64,
        11..=13 => Ty::F32,
        14..=16 => Ty::I64,
        17..=18 => Ty::I32,
        _ => Ty::I16,
    };
    if ty.is_float() {
        if r.chance(2, 5) {
            native_case(r, ty)
        } else {
            let hb = pick_hb(r, ty);
            let core = core_any(r, hb);
            float_from_core(r, ty, core, st)
        }
    } else {
        let top = match ty {
            Ty::I16 => 6,
            Ty::I32 => 14,
            _ => 30,
        };
        let hb = if r.chance(3, 4) { top } else { r.range(5.min(top as i64), top as i64) as u32 };
        let core = core_any(r, hb);
        int_from_core(r, ty, core, st)
    }
}

// ------------------------------------------------------------------------------------------------
// entry points
// ------------------------------------------------------------------------------------------------

pub fn run(ctx: &Ctx, sh: &mut Shard) {
    let mut st = Stats::default();
    underflow_witness(sh, false);
    for k in ctx.case_indices() {
        if sh.cases >= ctx.budget {
            break;
        }
        ctx.mark_case(k);
        let mut r = Rng::derive(ctx.seed, ctx.shard, k);
        sh.cases += 1;
        let case = gen_case(&mut r, &mut st);
        st.add(&format!("stratum:{}:{}:{}", case.ty.name(), case.shape.name(), case.stratum));
        st.add(&format!("type:{}", case.ty.name()));
        let mut o = Out { sh: &mut *sh, st: &mut st, verbose: false };
        run_case(&mut o, &case);
        sh.sample(|| case.json());
    }
    st.flush(sh);
    let (nf, ne) = (sh.classes.get("naive_would_fail").cloned().unwrap_or(0), sh.classes.get("naive_evaluated").cloned().unwrap_or(0));
    sh.notes.insert("naive_failure_rate".into(), json!({"decisions": ne, "naive_f64_determinant_wrong_sign": nf, "rate": if ne > 0 { nf as f64 / ne as f64 } else { 0.0 }}));
    sh.notes.insert("oracle".into(), json!("i128 determinants on the coordinates' exact integer images (common power-of-two scaling, < 2^60)"));
}

pub fn replay(v: &Value, sh: &mut Shard) {
    if v.get("witness").is_some() {
        println!("fixed witness orient2d((0,0),(1e-200,1e-200),(1e-200,1.0000001e-200)):");
        underflow_witness(sh, true);
        return;
    }
    let case = Case::from_json(&v["case"]).expect("replay file: case");
    println!("C03 replay: {} {} {}", case.ty.name(), case.shape.name(), if case.ty.is_float() { format!("{:?}", case.f) } else { format!("{:?}", case.i) });
    if let Some(ex) = case.exact() {
        println!("  exact integer image: {:?}", ex);
    }
    let mut st = Stats::default();
    let mut o = Out { sh: &mut *sh, st: &mut st, verbose: true };
    run_case(&mut o, &case);
    st.flush(sh);
    println!("  classes: {:?}", sh.classes);
}
