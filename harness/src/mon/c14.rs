//! C14 — validation accepts exactly the well-formed geometries.
//! Oracle: the exact clause-by-clause validity predicates of ig.rs (no connectivity clause — the
//! statement does not have one), applied to rings after removing consecutive duplicates and closing
//! them (which is what geo-types / the documentation do). Inputs are valid geometries mutated into
//! each invalidity class separately.
use crate::gen::*;
use crate::ig::*;
use crate::model::Loc;
use crate::q::{seg_x, SegX};
use crate::report::*;
use crate::rng::{Fnv, Rng};
use geo::algorithm::validation::{InvalidGeometry, InvalidMultiPolygon, InvalidPolygon, RingRole};
use geo::{Geometry, Validation};
use serde_json::{json, Value};

fn norm_ring(r: &[IP]) -> Vec<IP> {
    let mut v: Vec<IP> = vec![];
    for &p in r {
        if v.last() != Some(&p) {
            v.push(p);
        }
    }
    // geo-types closes rings on construction
    if !r.is_empty() && r[0] != r[r.len() - 1] {
        v.push(r[0]);
    }
    v
}
fn norm_poly(rings: &[Vec<IP>]) -> Vec<Vec<IP>> {
    rings.iter().filter(|r| !r.is_empty()).map(|r| norm_ring(r)).collect()
}

#[derive(Debug, Clone)]
struct Facts {
    rings: Vec<Vec<IP>>,
    too_few: Vec<bool>,
    not_simple: Vec<bool>,
    /// hole i (index into rings, >= 1) has some part outside the shell or lies wholly on it; None if undecidable (a ring is not simple)
    hole_not_contained: Vec<Option<bool>>,
    /// rings i,j share a segment of positive length
    on_line: Vec<Vec<bool>>,
    /// holes i,j overlap in area; None if undecidable
    on_area: Vec<Vec<Option<bool>>>,
    valid: bool,
}
fn facts(rings_in: &[Vec<IP>]) -> Facts {
    // positions are kept (an error names a ring by its position among the rings as given); an EMPTY interior ring has
    // no coordinates and no defect: geo skips it, and so does everything below
    let rings: Vec<Vec<IP>> = rings_in.iter().map(|r| norm_ring(r)).collect();
    let n = rings.len();
    let too_few: Vec<bool> = rings.iter().map(|r| !r.is_empty() && r.len() < 4).collect();
    let not_simple: Vec<bool> = rings.iter().map(|r| r.len() >= 2 && !simple_linestring(r)).collect();
    let ok = |i: usize| !too_few[i] && !not_simple[i];
    let mut hole_not_contained = vec![None; n];
    let mut on_line = vec![vec![false; n]; n];
    let mut on_area = vec![vec![None; n]; n];
    for i in 0..n {
        for j in i + 1..n {
            if rings[i].len() < 2 || rings[j].len() < 2 {
                continue;
            }
            match ring_touch_points(&rings[i], &rings[j]) {
                Err(()) => {
                    on_line[i][j] = true;
                    on_line[j][i] = true;
                }
                Ok(cuts) => {
                    if ok(i) && ok(j) {
                        if i == 0 {
                            let l = piece_locs(&rings[j], &cuts, &rings[0]);
                            hole_not_contained[j] = Some(l.iter().any(|&x| x == Loc::E));
                        } else {
                            let l1 = piece_locs(&rings[i], &cuts, &rings[j]);
                            let l2 = piece_locs(&rings[j], &cuts, &rings[i]);
                            let ov = l1.iter().any(|&x| x == Loc::I) || l2.iter().any(|&x| x == Loc::I);
                            on_area[i][j] = Some(ov);
                            on_area[j][i] = Some(ov);
                        }
                    }
                }
            }
        }
    }
    let valid = polygon_defect(&norm_poly(rings_in), false).is_none();
    Facts { rings, too_few, not_simple, hole_not_contained, on_line, on_area, valid }
}
fn role_idx(r: &RingRole) -> usize {
    match r {
        RingRole::Exterior => 0,
        RingRole::Interior(i) => i + 1,
    }
}
/// Some(true) = the named defect is really there, Some(false) = it is not, None = not decidable here
fn error_is_real(f: &Facts, e: &InvalidPolygon) -> Option<bool> {
    let n = f.rings.len();
    match e {
        InvalidPolygon::TooFewPointsInRing(r) => f.too_few.get(role_idx(r)).cloned(),
        InvalidPolygon::SelfIntersection(r) => {
            let i = role_idx(r);
            if i >= n {
                return Some(false);
            }
            if f.too_few[i] {
                None
            } else {
                Some(f.not_simple[i])
            }
        }
        InvalidPolygon::NonFiniteCoord(..) => Some(false), // lattice inputs are finite
        InvalidPolygon::InteriorRingNotContainedInExteriorRing(r) => {
            let i = role_idx(r);
            if i == 0 || i >= n {
                return Some(false);
            }
            if f.on_line[0][i] {
                return None; // sharing an edge with the shell: containment in the DE-9IM sense depends on the rest
            }
            f.hole_not_contained[i]
        }
        InvalidPolygon::IntersectingRingsOnALine(a, b) => {
            let (i, j) = (role_idx(a), role_idx(b));
            if i >= n || j >= n {
                return Some(false);
            }
            if f.too_few[i] || f.too_few[j] || f.not_simple[i] || f.not_simple[j] {
                return None;
            }
            Some(f.on_line[i][j])
        }
        InvalidPolygon::IntersectingRingsOnAnArea(a, b) => {
            let (i, j) = (role_idx(a), role_idx(b));
            if i >= n || j >= n {
                return Some(false);
            }
            if f.on_line[i][j] {
                return None;
            }
            f.on_area[i][j]
        }
    }
}

fn detail(check: &str, a: &IG, lat: &Lat, expected: String, got: String, extra: Value) -> Value {
    json!({"property": "C14", "check": check, "a": a.json(), "lat": lat.json(), "expected": expected, "got": got, "extra": extra, "a_geo": format!("{:?}", a.to_geo(lat))})
}

/// exact validity by geo's documented rules for the non-areal types
fn expected_valid(a: &IG) -> Option<bool> {
    Some(match a {
        IG::Point(_) | IG::MultiPoint(_) | IG::Rect(..) => true,
        IG::Line(p, q) => p != q,
        IG::LineString(v) => v.is_empty() || norm_open(v).len() >= 2,
        IG::MultiLineString(ms) => ms.iter().all(|v| v.is_empty() || norm_open(v).len() >= 2),
        IG::Triangle(p, q, s) => orient_i(*p, *q, *s) != 0,
        IG::Polygon(r) => {
            if r.is_empty() || r[0].is_empty() {
                true
            } else {
                facts(r).valid
            }
        }
        IG::MultiPolygon(ms) => {
            let norm: Vec<Vec<Vec<IP>>> = ms.iter().map(|m| if m.is_empty() || m[0].is_empty() { vec![] } else { norm_poly(m) }).collect();
            multipolygon_defect(&norm, false).is_none()
        }
        IG::Collection(v) => {
            let mut all = true;
            for g in v {
                all &= expected_valid(g)?;
            }
            all
        }
    })
}
fn norm_open(v: &[IP]) -> Vec<IP> {
    let mut o: Vec<IP> = vec![];
    for &p in v {
        if o.last() != Some(&p) {
            o.push(p);
        }
    }
    o
}

/// two segments of the geometry meet in a single point interior to both
fn has_proper_crossing(a: &IG) -> bool {
    let segs = a.to_model().segs();
    for i in 0..segs.len() {
        for j in i + 1..segs.len() {
            let (s, t) = (segs[i], segs[j]);
            if let SegX::Point(p) = seg_x(s.0, s.1, t.0, t.1) {
                if p != s.0 && p != s.1 && p != t.0 && p != t.1 {
                    return true;
                }
            }
        }
    }
    false
}
fn has_rect(a: &IG) -> bool {
    match a {
        IG::Rect(..) => true,
        IG::Collection(v) => v.iter().any(has_rect),
        _ => false,
    }
}

pub fn check_one(sh: &mut Shard, a: &IG, lat: &Lat, class: &str, verbose: bool) {
    sh.cases += 1;
    // a sheared rectangle is no Rect: those stay on the plain lattice
    let plain = Lat { shear: 0, ..*lat };
    let lat = if lat.shear != 0 && has_rect(a) { &plain } else { lat };
    if lat.shear != 0 {
        sh.class("lattice:sheared");
    }
    let g = a.to_geo(lat);
    let exp = match guard(|| expected_valid(a)) {
        Ok(Some(e)) => e,
        Ok(None) => return,
        Err(Caught::Panic(s)) => panic!("oracle bug: {s}"),
        Err(e) => {
            sh.inconclusive(&format!("oracle:{e:?}"));
            return;
        }
    };
    let kind = a.kind();
    sh.eval(1);
    let got = call(|| g.is_valid());
    if verbose {
        println!("is_valid {kind}: expected {exp} got {:?}; errors: {:?}", got, call(|| g.validation_errors()));
    }
    let defect = match a {
        IG::Polygon(r) if !r.is_empty() => format!("{:?}", polygon_defect(&norm_poly(r), false)),
        _ => String::new(),
    };
    match &got {
        Ok(v) if *v == exp => {}
        Ok(v) => sh.violation(&format!("is_valid|{kind}:{}:{class}|{}", defect.split('(').next().unwrap_or(""),
            // known finding (see C01): on the sheared lattice a PROPER crossing of two nearly parallel long edges is located by
            // a computed point and the relate-based ring checks can miss it; only "invalid accepted", only with such a crossing
            if lat.shear != 0 && !exp && *v && guard(|| has_proper_crossing(a)).unwrap_or(false) { "relate_ill_conditioned_crossing" } else { "-" }), detail("is_valid", a, lat, exp.to_string(), v.to_string(), json!({"oracle_defect": defect, "mutation_class": class}))),
        Err(p) => sh.violation(&format!("is_valid.panic|{kind}|-"), detail("is_valid.panic", a, lat, exp.to_string(), p.clone(), json!({"at": last_panic_loc()}))),
    }
    // validation_errors().is_empty() == is_valid == check_validation().is_ok()
    sh.eval(2);
    let errs = call(|| g.validation_errors());
    let chk = call(|| g.check_validation().is_ok());
    if let (Ok(v), Ok(e), Ok(c)) = (&got, &errs, &chk) {
        if e.is_empty() != *v {
            sh.violation(&format!("errors_empty_iff_valid|{kind}|-"), detail("errors_empty_iff_valid", a, lat, v.to_string(), format!("{:?}", e), json!({})));
        }
        if *c != *v {
            sh.violation(&format!("check_validation_iff_valid|{kind}|-"), detail("check_validation_iff_valid", a, lat, v.to_string(), c.to_string(), json!({})));
        }
    } else if errs.is_err() || chk.is_err() {
        sh.violation(&format!("validation_errors.panic|{kind}|-"), detail("validation_errors.panic", a, lat, "no panic".into(), format!("{:?} {:?}", errs.as_ref().err(), chk.as_ref().err()), json!({})));
    }
    // the concrete type answers like the enum
    sh.eval(1);
    let conc = call(|| crate::with_geom!(&g, x => x.is_valid()));
    if let (Ok(v), Ok(c)) = (&got, &conc) {
        if v != c {
            sh.violation(&format!("enum_vs_concrete|{kind}|-"), detail("enum_vs_concrete", a, lat, v.to_string(), c.to_string(), json!({})));
        }
    }
    // every reported error names a ring / member that really has the defect
    if let Ok(errs) = &errs {
        for e in errs {
            let verdict: Option<bool> = match (e, a) {
                (InvalidGeometry::InvalidPolygon(pe), IG::Polygon(r)) => error_is_real(&facts(r), pe),
                (InvalidGeometry::InvalidMultiPolygon(me), IG::MultiPolygon(ms)) => match me {
                    // an index outside the member list, or the index of an empty member, names nothing that has a defect
                    InvalidMultiPolygon::InvalidPolygon(idx, pe) => match ms.get(idx.0) {
                        None => Some(false),
                        Some(m) if m.is_empty() || m[0].is_empty() => Some(false),
                        Some(m) => error_is_real(&facts(m), pe),
                    },
                    InvalidMultiPolygon::ElementsOverlaps(i, j) | InvalidMultiPolygon::ElementsTouchOnALine(i, j) => {
                        let (mi, mj) = (ms.get(i.0), ms.get(j.0));
                        let empty = |m: Option<&Vec<Vec<IP>>>| m.map_or(true, |m| m.is_empty() || m[0].is_empty());
                        match (mi, mj) {
                            _ if empty(mi) || empty(mj) || i.0 == j.0 => Some(false),
                            (Some(mi), Some(mj)) if facts(mi).valid && facts(mj).valid => {
                                let pair = vec![norm_poly(mi), norm_poly(mj)];
                                let d = multipolygon_defect(&pair, false);
                                let shares_edge = mi.iter().any(|ra| mj.iter().any(|rb| ring_touch_points(&norm_ring(ra), &norm_ring(rb)).is_err()));
                                match me {
                                    InvalidMultiPolygon::ElementsTouchOnALine(..) => Some(shares_edge),
                                    _ => {
                                        if shares_edge {
                                            None
                                        } else {
                                            Some(matches!(d, Some(MultiDefect::Overlap(..))))
                                        }
                                    }
                                }
                            }
                            _ => None,
                        }
                    }
                },
                _ => None,
            };
            sh.eval(1);
            match verdict {
                Some(true) => sh.class("reported_error_confirmed"),
                None => sh.class("reported_error_not_judged"),
                Some(false) => sh.violation(&format!("reported_error_is_real|{kind}|-"), detail("reported_error_is_real", a, lat, "an error naming a ring/member that has the defect".into(), format!("{:?}", e), json!({"mutation_class": class}))),
            }
        }
    }
    sh.class(&format!("class:{class}"));
    sh.class(&format!("{kind}:{}", if exp { "valid" } else { "invalid" }));
    if !defect.is_empty() {
        sh.class(&format!("oracle:{}", defect.split('(').next().unwrap_or("")));
    }
    let mut h = Fnv::new();
    a.digest(&mut h);
    if a.n_segments() >= 3 {
        sh.nontrivial(h.0);
    }
    sh.sample(|| json!({"geometry": format!("{:?}", g), "expected_valid": exp, "mutation_class": class}));
}

/// non-finite coordinates: only observable on the geo side
fn check_nonfinite(sh: &mut Shard, r: &mut Rng, a: &IG, lat: &Lat) {
    let n = a.coords().len();
    fn has_rect(a: &IG) -> bool {
        match a {
            IG::Rect(..) => true,
            IG::Collection(v) => v.iter().any(has_rect),
            _ => false,
        }
    }
    // Rect::new re-normalises (min/max) and thereby may drop the NaN we try to plant: not a usable carrier
    // (an infinite corner survives the re-normalisation, as min or as max: Rects carry +-inf only)
    if n == 0 {
        return;
    }
    let target = r.below(n as u64) as usize;
    let bad = if has_rect(a) { *r.pick(&["inf", "-inf"]) } else { *r.pick(&["nan", "inf", "-inf"]) };
    let on_x = r.chance(1, 2);
    check_nonfinite_at(sh, a, lat, target, bad, on_x, false);
}

fn check_nonfinite_at(sh: &mut Shard, a: &IG, lat: &Lat, target: usize, bad_name: &str, on_x: bool, verbose: bool) {
    use geo::MapCoordsInPlace;
    let mut g = a.to_geo(lat);
    let bad = match bad_name {
        "nan" => f64::NAN,
        "inf" => f64::INFINITY,
        _ => f64::NEG_INFINITY,
    };
    let i = std::cell::Cell::new(0usize);
    g.map_coords_in_place(|c| {
        let out = if i.get() == target {
            if on_x {
                geo::Coord { x: bad, y: c.y }
            } else {
                geo::Coord { x: c.x, y: bad }
            }
        } else {
            c
        };
        i.set(i.get() + 1);
        out
    });
    {
        use geo::CoordsIter;
        if g.coords_iter().all(|c| c.x.is_finite() && c.y.is_finite()) {
            sh.class("nonfinite:not_planted");
            return;
        }
    }
    if verbose {
        println!("with the non-finite coordinate: {:?}\nis_valid {:?} errors {:?}", g, call(|| g.is_valid()), call(|| g.validation_errors()));
    }
    sh.cases += 1;
    sh.eval(1);
    // the enum, the concrete type and the error list agree (one dispatch path must not differ from the other)
    {
        let conc = call(|| crate::with_geom!(&g, x => (x.is_valid(), x.validation_errors().is_empty(), x.check_validation().is_ok())));
        let en = call(|| (g.is_valid(), g.validation_errors().is_empty(), g.check_validation().is_ok()));
        if let (Ok(c), Ok(e)) = (&conc, &en) {
            if c != e || c.0 != c.1 || c.0 != c.2 {
                sh.violation(&format!("errors_empty_iff_valid.nonfinite|{}|-", a.kind()), json!({"property": "C14", "check": "errors_empty_iff_valid.nonfinite", "a": a.json(), "lat": lat.json(), "expected": "is_valid == validation_errors().is_empty() == check_validation().is_ok(), the same through the enum and the concrete type", "got": format!("concrete {:?}, enum {:?}", c, e), "geo": format!("{:?}", g), "nonfinite_at": target, "nonfinite": bad_name, "on_x": on_x}));
            }
        }
    }
    // a non-finite coordinate makes the geometry invalid: is_valid false, validation_errors non-empty - and no panic
    // (first observed only; judged since the panics of Polygon / MultiPolygon validation on NaN were repaired in /repo)
    let det = |exp: &str, got: String| json!({"property": "C14", "check": "is_valid.nonfinite", "a": a.json(), "lat": lat.json(), "expected": exp, "got": got, "geo": format!("{:?}", g), "nonfinite_at": target, "nonfinite": bad_name, "on_x": on_x});
    match call(|| g.is_valid()) {
        Ok(true) => sh.violation(&format!("is_valid.nonfinite|{}|-", a.kind()), det("false", "true".into())),
        Ok(false) => {}
        Err(p) => sh.violation(&format!("is_valid.nonfinite.panic|{}|-", a.kind()), det("false (no panic)", format!("panic: {p} at {}", last_panic_loc()))),
    }
    sh.eval(1);
    match call(|| g.validation_errors().is_empty()) {
        Ok(false) => {}
        Ok(true) => sh.violation(&format!("validation_errors.nonfinite|{}|-", a.kind()), det("a non-empty error list", "empty".into())),
        Err(p) => sh.violation(&format!("validation_errors.nonfinite.panic|{}|-", a.kind()), det("a non-empty error list (no panic)", format!("panic: {p} at {}", last_panic_loc()))),
    }
    sh.class("class:nonfinite_coordinate");
}

fn mutate(r: &mut Rng, g: i64) -> (IG, &'static str) {
    let base = loop {
        let k = *r.pick(&["Polygon", "PolygonHoles", "PolygonHoles", "MultiPolygon", "MultiPolygon"]);
        if let Some(x) = gen_kind(r, k, g) {
            break x;
        }
    };
    let pt = |r: &mut Rng| (r.range(0, g), r.range(0, g));
    match (r.below(16), base) {
        (0, b) => (b, "valid"),
        (1, IG::Polygon(mut rings)) => {
            // bow-tie: swap two vertices of a ring
            let k = r.below(rings.len() as u64) as usize;
            let n = rings[k].len();
            if n >= 5 {
                let i = r.range(1, n as i64 - 3) as usize;
                rings[k].swap(i, i + 1);
            }
            (IG::Polygon(rings), "bow_tie_swap")
        }
        (2, IG::Polygon(mut rings)) => {
            // spike: v, p, v
            let k = r.below(rings.len() as u64) as usize;
            let n = rings[k].len();
            let i = r.range(1, n as i64 - 1) as usize;
            let v = rings[k][i];
            let p = pt(r);
            rings[k].insert(i, p);
            rings[k].insert(i, v);
            (IG::Polygon(rings), "spike")
        }
        (3, _) => {
            // collinear zero-area ring (3 or 4 collinear points)
            let (p, d) = (pt(r), (r.range(-2, 2), r.range(-2, 2)));
            let n = r.range(3, 4);
            let mut ring: Vec<IP> = (0..n).map(|i| (p.0 + d.0 * i, p.1 + d.1 * i)).collect();
            if r.chance(1, 2) {
                r.shuffle(&mut ring);
            }
            ring.push(ring[0]);
            (IG::Polygon(vec![ring]), "collinear_ring")
        }
        (4, IG::Polygon(mut rings)) => {
            // revisit an earlier vertex
            let k = r.below(rings.len() as u64) as usize;
            let n = rings[k].len();
            let i = r.range(0, n as i64 - 2) as usize;
            let j = r.range(1, n as i64 - 1) as usize;
            let v = rings[k][i];
            rings[k].insert(j, v);
            (IG::Polygon(rings), "vertex_revisit")
        }
        (5, IG::Polygon(mut rings)) if rings.len() > 1 => {
            // move a hole: outside / crossing the shell
            let k = r.range(1, rings.len() as i64 - 1) as usize;
            let (dx, dy) = if r.chance(1, 2) { (r.range(-2, 2), r.range(-2, 2)) } else { (2 * g, 0) };
            for p in rings[k].iter_mut() {
                *p = (p.0 + dx, p.1 + dy);
            }
            (IG::Polygon(rings), "hole_moved")
        }
        (6, IG::Polygon(mut rings)) => {
            // hole sharing an edge with the shell (or with another ring)
            let k = r.below(rings.len() as u64) as usize;
            let n = rings[k].len();
            let i = r.range(0, n as i64 - 2) as usize;
            let (a, b) = (rings[k][i], rings[k][i + 1]);
            let c = pt(r);
            rings.push(vec![a, b, c, a]);
            (IG::Polygon(rings), "hole_shares_edge")
        }
        (7, IG::Polygon(mut rings)) if rings.len() > 1 => {
            // nested / overlapping / identical holes
            let k = r.range(1, rings.len() as i64 - 1) as usize;
            let mut h = rings[k].clone();
            match r.below(3) {
                0 => {}
                1 => {
                    for p in h.iter_mut() {
                        *p = (p.0 + r.range(-1, 1), p.1 + r.range(-1, 1));
                    }
                }
                _ => {
                    // shrink towards the first vertex by doubling everything else is not possible on the lattice: translate by one
                    for p in h.iter_mut() {
                        *p = (p.0 + 1, p.1);
                    }
                }
            }
            rings.push(h);
            (IG::Polygon(rings), "holes_overlap")
        }
        (8, IG::MultiPolygon(mut ms)) if !ms.is_empty() && r.chance(1, 3) => {
            // a member that lies wholly INSIDE another one (shells do not meet): a rectangle around everything, listed
            // last or first
            let cs: Vec<IP> = ms.iter().flatten().flatten().cloned().collect();
            let (x0, x1) = (cs.iter().map(|p| p.0).min().unwrap() - 1, cs.iter().map(|p| p.0).max().unwrap() + 1);
            let (y0, y1) = (cs.iter().map(|p| p.1).min().unwrap() - 1, cs.iter().map(|p| p.1).max().unwrap() + 1);
            let outer = vec![vec![(x0, y0), (x1, y0), (x1, y1), (x0, y1), (x0, y0)]];
            if r.chance(1, 2) {
                ms.push(outer);
            } else {
                ms.insert(0, outer);
            }
            (IG::MultiPolygon(ms), "member_inside_member")
        }
        (8, IG::MultiPolygon(mut ms)) if !ms.is_empty() => {
            // overlapping / edge-sharing / identical members
            let k = r.below(ms.len() as u64) as usize;
            let mut m = ms[k].clone();
            let (dx, dy) = match r.below(3) {
                0 => (0, 0),
                1 => (r.range(-2, 2), r.range(-2, 2)),
                _ => {
                    let w = m[0].iter().map(|p| p.0).max().unwrap() - m[0].iter().map(|p| p.0).min().unwrap();
                    (w, 0)
                }
            };
            for ring in m.iter_mut() {
                for p in ring.iter_mut() {
                    *p = (p.0 + dx, p.1 + dy);
                }
            }
            ms.push(m);
            (IG::MultiPolygon(ms), "members_overlap_or_touch")
        }
        (9, _) => {
            // too few points
            let n = r.range(1, 3);
            let ring: Vec<IP> = (0..n).map(|_| pt(r)).collect();
            (IG::Polygon(vec![ring]), "too_few_points")
        }
        (10, IG::Polygon(mut rings)) => {
            // consecutive duplicates (still valid)
            let k = r.below(rings.len() as u64) as usize;
            let n = rings[k].len();
            let i = r.range(0, n as i64 - 1) as usize;
            let v = rings[k][i];
            let times = r.range(1, 2);
            for _ in 0..times {
                rings[k].insert(i, v);
            }
            (IG::Polygon(rings), "repeated_consecutive_vertex")
        }
        (11, IG::Polygon(mut rings)) => {
            // move one vertex anywhere
            let k = r.below(rings.len() as u64) as usize;
            let n = rings[k].len();
            let i = r.range(1, n as i64 - 2) as usize;
            rings[k][i] = pt(r);
            (IG::Polygon(rings), "vertex_moved")
        }
        (12, IG::Polygon(rings)) => {
            // ring given open (geo-types closes it)
            let rings: Vec<Vec<IP>> = rings.into_iter().map(|mut x| { x.pop(); x }).collect();
            (IG::Polygon(rings), "unclosed_input")
        }
        (13, IG::MultiPolygon(mut ms)) if !ms.is_empty() => {
            // one member made invalid
            let k = r.below(ms.len() as u64) as usize;
            let n = ms[k][0].len();
            if n >= 5 {
                let i = r.range(1, n as i64 - 3) as usize;
                ms[k][0].swap(i, i + 1);
            }
            (IG::MultiPolygon(ms), "member_bow_tie")
        }
        (14, _) => {
            // other types with their own rules
            let k = *r.pick(&["Line", "LineString", "MLS", "Triangle", "Rect", "Point", "MultiPoint", "GC-lines", "GC-areas"]);
            match k {
                "Line" => (IG::Line(pt(r), if r.chance(1, 3) { pt(r) } else { let p = pt(r); if r.chance(1, 2) { p } else { pt(r) } }), "line"),
                "LineString" => {
                    let n = r.range(1, 4);
                    let p = pt(r);
                    (IG::LineString((0..n).map(|_| if r.chance(1, 2) { p } else { pt(r) }).collect()), "linestring_possibly_degenerate")
                }
                "MLS" => {
                    let p = pt(r);
                    (IG::MultiLineString(vec![vec![pt(r), pt(r)], (0..r.range(1, 3)).map(|_| if r.chance(1, 2) { p } else { pt(r) }).collect()]), "mls_possibly_degenerate")
                }
                "Triangle" => {
                    let (p, d) = (pt(r), (r.range(-2, 2), r.range(-2, 2)));
                    if r.chance(1, 2) {
                        (IG::Triangle(p, (p.0 + d.0, p.1 + d.1), (p.0 + 2 * d.0, p.1 + 2 * d.1)), "triangle_collinear")
                    } else {
                        (IG::Triangle(pt(r), pt(r), pt(r)), "triangle_random")
                    }
                }
                "Rect" => (IG::Rect(pt(r), pt(r)), "rect"),
                "Point" => (IG::Point(pt(r)), "point"),
                "MultiPoint" => (IG::MultiPoint((0..r.range(0, 3)).map(|_| pt(r)).collect()), "multipoint"),
                kk => (gen_kind(r, kk, g).unwrap_or(IG::Point(pt(r))), "collection"),
            }
        }
        (_, b) => (b, "valid"),
    }
}

pub fn run(ctx: &Ctx, sh: &mut Shard) {
    for k in ctx.case_indices() {
        if sh.cases >= ctx.budget {
            break;
        }
        ctx.mark_case(k);
        let mut r = Rng::derive(ctx.seed, ctx.shard, k);
        let g = *r.pick(&[3i64, 4, 4, 5, 6, 8]);
        let (a, class) = mutate(&mut r, g);
        // one case in 60: a polygon / multipolygon of realistic size (star, hole grid, checkerboard, fan of triangles) -
        // valid by construction or not, the oracle decides - now and then with one vertex moved
        let (a, class) = if k % 60 == 9 {
            let (x, cls) = if r.chance(1, 3) {
                let n = crate::gen::long_count(&mut r);
                (IG::Polygon(vec![crate::gen::long_ring(&mut r, n)]), "large:long_ring")
            } else {
                loop {
                    let (x, cls) = gen_large(&mut r);
                    if matches!(x, IG::Polygon(_) | IG::MultiPolygon(_)) {
                        break (x, cls);
                    }
                }
            };
            // half of them as generated; the others with one defect planted in one ring (the oracle decides what it
            // amounts to): a vertex moved, a spike (out and back along one direction: vertical, horizontal or oblique), a
            // small loop that leaves a vertex and returns to it (the ring touches itself in that vertex)
            let x = if r.chance(1, 2) {
                let plant = |r: &mut Rng, ring: &mut Vec<IP>| {
                    let n = ring.len();
                    if n < 4 {
                        return;
                    }
                    let j = 1 + r.below((n - 2) as u64) as usize;
                    let v = ring[j];
                    let d = *r.pick(&[(0i64, 1i64), (0, -1), (0, 5), (0, -5), (1, 0), (-3, 0), (2, 2), (-1, 3)]);
                    match r.below(3) {
                        0 => ring[j] = (v.0 + r.range(-12, 12), v.1 + r.range(-12, 12)),
                        1 => {
                            ring.insert(j + 1, (v.0 + d.0, v.1 + d.1));
                            ring.insert(j + 2, v);
                        }
                        _ => {
                            ring.insert(j + 1, (v.0 + d.0, v.1 + d.1));
                            ring.insert(j + 2, (v.0 + d.0 - d.1, v.1 + d.1 + d.0));
                            ring.insert(j + 3, v);
                        }
                    }
                };
                match x {
                    IG::Polygon(mut rings) => {
                        let i = r.below(rings.len() as u64) as usize;
                        plant(&mut r, &mut rings[i]);
                        IG::Polygon(rings)
                    }
                    IG::MultiPolygon(mut ms) => {
                        let m = r.below(ms.len() as u64) as usize;
                        if !ms[m].is_empty() {
                            let i = r.below(ms[m].len() as u64) as usize;
                            plant(&mut r, &mut ms[m][i]);
                        }
                        IG::MultiPolygon(ms)
                    }
                    o => o,
                }
            } else {
                x
            };
            (x, cls)
        } else {
            (a, class)
        };
        if a.n_segments() > 700 {
            continue;
        }
        // an empty interior ring now and then (geo skips it; the positions of the other rings in reported errors must
        // still be those of the polygon as given, and every pair of the other rings must still be compared)
        let a = match a {
            IG::Polygon(mut rings) if rings.len() >= 2 && r.chance(1, 4) => {
                let at = if r.chance(1, 2) { 1 } else { r.range(1, rings.len() as i64) as usize };
                rings.insert(at, vec![]);
                IG::Polygon(rings)
            }
            x => x,
        };
        // an empty member (valid, touches nothing) in a MultiPolygon now and then: reported member indices must still
        // be positions in the MultiPolygon as given
        let a = match a {
            IG::MultiPolygon(mut ms) if r.chance(1, 4) => {
                let at = if r.chance(1, 2) { 0 } else { r.range(0, ms.len() as i64) as usize };
                ms.insert(at, vec![]);
                IG::MultiPolygon(ms)
            }
            x => x,
        };
        let lat = if k % 5 == 0 { Lat::random_sheared(&mut r) } else { Lat::random(&mut r) };
        check_one(sh, &a, &lat, class, false);
        if r.chance(1, 10) {
            check_nonfinite(sh, &mut r, &a, &lat);
        }
    }
}

pub fn replay(v: &Value, sh: &mut Shard) {
    let a = IG::from_json(&v["a"]).expect("a");
    let lat = Lat::from_json(&v["lat"]);
    println!("A = {:?}", a.to_geo(&lat));
    if let Some(t) = v["nonfinite_at"].as_u64() {
        check_nonfinite_at(sh, &a, &lat, t as usize, v["nonfinite"].as_str().unwrap_or("nan"), v["on_x"].as_bool().unwrap_or(true), true);
        return;
    }
    check_one(sh, &a, &lat, "replay", true);
}
